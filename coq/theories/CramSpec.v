(* C07: the document grammar of Cram files as an AST, its rendering, and the tests it denotes (specification). *)
From Coq Require Import List NArith Bool.
Import ListNotations.
From SV Require Import Template LineParser.
Local Open Scope N_scope.

(* an exit-code line carries its digits as written (leading zeros allowed) *)
Inductive bline := BExp (l : text) | BCode (ds : text).
Inductive block :=
| BTitle (l : text)
| BComment (l : text)
| BBlank
| BTest (cmd : text) (conts : list text) (body : list bline).

Definition render_bline (b : bline) : text :=
  match b with BExp l => INDENT ++ l | BCode ds => INDENT ++ [91] ++ ds ++ [93] end.
Definition render_block (b : block) : list text :=
  match b with
  | BTitle l => [l] | BComment l => [l] | BBlank => [[]]
  | BTest cmd conts body => [INDENT ++ P_DOLLAR ++ cmd] ++ map (fun c => INDENT ++ P_GT ++ c) conts ++ map render_bline body
  end.
Definition render_cram (d : list block) : list text := flat_map render_block d.

(* well-formedness: what each piece of text must not look like *)
Definition title_ok (l : text) : bool :=
  match l with [] => false | _ => negb (is_comment l) && negb (starts_with INDENT l) end.
Definition comment_ok (l : text) : bool := is_comment l.
Definition exp_ok (pe_ok : text -> bool) (l : text) : bool :=
  negb (starts_with P_DOLLAR l) && match extract_exit_code l with None => true | Some _ => false end && pe_ok l.
Definition code_ok (ds : text) : bool :=
  match ds with [] => false | _ => forallb is_digit ds && (digits_value 0 ds <=? 2147483647) end.
Fixpoint count_codes (body : list bline) : nat :=
  match body with [] => 0 | BCode _ :: r => S (count_codes r) | _ :: r => count_codes r end.
Definition body_ok (pe_ok : text -> bool) (body : list bline) : bool :=
  forallb (fun b => match b with BExp l => exp_ok pe_ok l | BCode n => code_ok n end) body
  && Nat.leb (count_codes body) 1
  && match body with BExp l :: _ => negb (starts_with P_GT l) | _ => true end.   (* else it would continue the command *)
Definition no_lf (l : text) : bool := forallb (fun c => negb (c =? 10) && negb (c =? 13)) l.
Definition block_ok (pe_ok : text -> bool) (b : block) : bool :=
  match b with
  | BTitle l => title_ok l && no_lf l
  | BComment l => comment_ok l && no_lf l
  | BBlank => true
  | BTest cmd conts body => body_ok pe_ok body && no_lf cmd && forallb no_lf conts
                            && forallb (fun b => match b with BExp l => no_lf l | _ => true end) body
  end.
Definition wf_cram (pe_ok : text -> bool) (d : list block) : bool := forallb (block_ok pe_ok) d.

(* the tests a document denotes: one per BTest, in order; title = the last title line since the previous test ended;
   line number = 1-based line of the `$` line *)
Definition exps_of (body : list bline) : list text :=
  flat_map (fun b => match b with BExp l => [l] | _ => [] end) body.
Definition code_of (body : list bline) : option N :=
  match flat_map (fun b => match b with BCode ds => [digits_value 0 ds] | _ => [] end) body with n :: _ => Some n | [] => None end.

Fixpoint tests_from (d : list block) (line : nat) (title : option text) : list ptest :=
  match d with
  | [] => []
  | BTitle l :: r => tests_from r (S line) (Some l)
  | BComment _ :: r => tests_from r (S line) title
  | BBlank :: r => tests_from r (S line) title
  | BTest cmd conts body :: r =>
    mkPT (match title with Some t => t | None => [] end) (cmd :: conts) (exps_of body) (code_of body) (S line)
    :: tests_from r (line + 1 + length conts + length body) None
  end.
Definition cram_tests_of (d : list block) : list ptest := tests_from d 0 None.
