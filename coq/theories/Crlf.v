(* C13(b): model of newline.rs::replace_crlf (one pass; drop a CR when the next byte is LF) and of
   TestCase::render_output, with the declarative statement "exactly the CRs that are followed by LF disappear". *)
From Coq Require Import List NArith Bool Lia.
Import ListNotations.
Local Open Scope N_scope.

Definition is_crlf_at (l : list N) : bool :=
  match l with x :: y :: _ => (x =? 13) && (y =? 10) | _ => false end.

(* the loop: index walks the bytes; at a CR LF it skips the CR *)
Fixpoint crlf (l : list N) : list N :=
  match l with
  | [] => []
  | x :: r => if is_crlf_at l then crlf r else x :: crlf r
  end.
Fixpoint has_crlf (l : list N) : bool :=
  match l with [] => false | _ :: r => is_crlf_at l || has_crlf r end.
Definition replace_crlf (l : list N) : list N := if has_crlf l then crlf l else l.

(* declarative: pair every byte with its successor, keep all but CRs whose successor is LF *)
Fixpoint with_next (l : list N) : list (N * option N) :=
  match l with
  | [] => []
  | x :: r => (x, match r with y :: _ => Some y | [] => None end) :: with_next r
  end.
Definition dropped (p : N * option N) : bool :=
  (fst p =? 13) && match snd p with Some y => y =? 10 | None => false end.
Definition crlf_spec (l : list N) : list N := map fst (filter (fun p => negb (dropped p)) (with_next l)).

Section Render.
Variable strip_ansi : list N -> list N.      (* strip-ansi-escapes crate: not modelled *)
Definition render_output (keep_crlf strip : option bool) (out : list N) : list N :=
  let o := match keep_crlf with Some true => out | _ => replace_crlf out end in
  match strip with Some true => strip_ansi o | _ => o end.
End Render.
