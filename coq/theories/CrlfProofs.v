From Coq Require Import List NArith Bool Lia.
Import ListNotations.
From SV Require Import Crlf.
Local Open Scope N_scope.

Lemma is_crlf_dropped : forall x r,
  is_crlf_at (x :: r) = dropped (x, match r with y :: _ => Some y | [] => None end).
Proof.
  intros x r. unfold dropped. cbn [fst snd is_crlf_at]. destruct r as [|y r']; [rewrite andb_false_r|]; reflexivity.
Qed.

Theorem crlf_is_spec : forall l, crlf l = crlf_spec l.
Proof.
  unfold crlf_spec. induction l as [|x r IH]; [reflexivity|].
  cbn [crlf with_next filter]. rewrite is_crlf_dropped.
  destruct (dropped (x, match r with y :: _ => Some y | [] => None end)); cbn [negb map fst]; rewrite IH; reflexivity.
Qed.

Lemma no_crlf_unchanged : forall l, has_crlf l = false -> crlf l = l.
Proof.
  induction l as [|x r IH]; intros H; [reflexivity|]. cbn [has_crlf] in H. apply orb_false_iff in H. destruct H as [H1 H2].
  cbn [crlf]. rewrite H1, IH by exact H2. reflexivity.
Qed.

Theorem replace_crlf_is_spec : forall l, replace_crlf l = crlf_spec l.
Proof.
  intros l. unfold replace_crlf. destruct (has_crlf l) eqn:H.
  - apply crlf_is_spec.
  - rewrite <- crlf_is_spec. symmetry. apply no_crlf_unchanged. exact H.
Qed.

Theorem render_output_spec : forall strip_ansi keep strip out,
  render_output strip_ansi keep strip out =
    let o := match keep with Some true => out | _ => crlf_spec out end in
    match strip with Some true => strip_ansi o | _ => o end.
Proof.
  intros. unfold render_output. destruct keep as [[|]|]; rewrite ?replace_crlf_is_spec; reflexivity.
Qed.

Lemma crlf_spec_length : forall l, (length (crlf_spec l) <= length l)%nat.
Proof.
  intros l. rewrite <- crlf_is_spec. induction l as [|x r IH]; cbn [crlf length]; [lia|].
  destruct (is_crlf_at (x :: r)); cbn [length]; lia.
Qed.
