From Coq Require Import List Arith Bool Lia.
Import ListNotations.
From SV Require Import Diff.

Section Det.
Variable line : Type.
Notation exp := (exp line).

(* offsets (into es) of the expectations that may legally come next when standing before es *)
Fixpoint followers (es : list exp) : list nat :=
  match es with
  | [] => []
  | e :: r => 0 :: (if opt line e then map S (followers r) else [])
  end.

Definition cands (es : list exp) (inrun : bool) : list nat :=
  match es with
  | [] => []
  | _ :: r => if inrun then 0 :: map S (followers r) else followers es
  end.

Definition matches_at (es : list exp) (l : line) (k : nat) : bool :=
  match nth_error es k with Some e => mt line e l | None => false end.

Definition step (es : list exp) (k : nat) : list exp * bool :=
  match skipn k es with
  | e :: r => if mul line e then (e :: r, true) else (r, false)
  | [] => ([], false)
  end.

Fixpoint detb (es : list exp) (inrun : bool) (ls : list line) : bool :=
  match ls with
  | [] => true
  | l :: r =>
    match filter (matches_at es l) (cands es inrun) with
    | [] => true
    | [k] => let '(es', ir') := step es k in detb es' ir' r
    | _ => false
    end
  end.
End Det.
