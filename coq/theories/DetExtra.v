(* C03 corollaries: lists without quantifiers are deterministic; an output's own lines pass. *)
From Coq Require Import List Arith Bool Lia.
Import ListNotations.
From SV Require Import Diff Det DiffProofs DetProofs.

Section P.
Variable line : Type.
Notation exp := (exp line).

Definition plain (e : exp) : Prop := opt line e = false /\ mul line e = false.

Lemma no_quantifiers_deterministic : forall (ls : list line) (es : list exp),
  Forall plain es -> detb line es false ls = true.
Proof.
  induction ls as [|l r IH]; intros es HP; [reflexivity|].
  cbn [detb]. destruct es as [|e es']; [reflexivity|].
  inversion HP as [|? ? [Ho Hm] HP']; subst.
  cbn [cands followers]. rewrite Ho. cbn [filter].
  destruct (matches_at line (e :: es') l 0); [|reflexivity].
  unfold step. cbn [skipn]. rewrite Hm. apply IH. exact HP'.
Qed.

Lemma own_lines_described : forall (es : list exp) (ls : list line),
  Forall2 (fun e l => mt line e l = true) es ls -> Described line es ls.
Proof.
  intros es ls H. exists (map (fun l => [l]) ls). split.
  - induction H as [|e l es' ls' Hm H IH]; cbn [map]; constructor; [|exact IH].
    split; [constructor; [exact Hm|constructor]|]. split; [intros _; discriminate|]. intros _. cbn. lia.
  - clear H. induction ls as [|l r IH]; cbn; [reflexivity|]. f_equal. exact IH.
Qed.

Theorem own_lines_pass : forall (es : list exp) (ls : list line),
  Forall plain es -> Forall2 (fun e l => mt line e l = true) es ls -> accepts line es ls = true.
Proof.
  intros es ls HP HM.
  apply (proj2 (C03_complete_when_deterministic line es ls (no_quantifiers_deterministic ls es HP))).
  apply own_lines_described. exact HM.
Qed.

End P.
