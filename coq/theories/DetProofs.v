From Coq Require Import List Arith Bool Lia.
Import ListNotations.
From SV Require Import Diff Det DiffProofs.

Section P.
Variable line : Type.
Notation exp := (exp line).
Notation Descr := (Described line).
Notation mtl := (mt line).
Notation optl := (opt line).
Notation mull := (mul line).

Lemma described_cases : forall (e : exp) es l ls,
  Descr (e :: es) (l :: ls) ->
  (optl e = true /\ Descr es (l :: ls)) \/
  (mtl e l = true /\ exists b rest, ls = b ++ rest /\ Forall (fun x => mtl e x = true) b
                                   /\ (mull e = false -> b = []) /\ Descr es rest).
Proof.
  intros e es l ls [bs [HF HC]].
  inversion HF as [|e' b0 es'' bs' Hb HF' E1 E2]; subst. cbn in HC.
  destruct Hb as [Hm [Ho Hl]].
  destruct b0 as [|x b0'].
  - left. split.
    + destruct (optl e); auto. exfalso. apply Ho; auto.
    + exists bs'. split; auto.
  - right. cbn in HC. inversion HC; subst. inversion Hm; subst. split; auto.
    exists b0', (concat bs'). repeat split; auto.
    + intros Hmul. specialize (Hl Hmul). cbn in Hl. destruct b0'; auto. cbn in Hl. lia.
    + exists bs'. split; auto.
Qed.

Lemma described_nil_all_opt : forall es : list exp, Descr es [] -> Forall (fun e => optl e = true) es.
Proof.
  intros es [bs [HF HC]]. revert HC. induction HF as [|e b es bs Hb HF IH]; intros HC; [constructor|].
  cbn in HC. apply app_eq_nil in HC as [-> HC]. constructor; auto.
  destruct Hb as [_ [Ho _]]. destruct (optl e); auto. exfalso; apply Ho; auto.
Qed.

Lemma described_nil_exps : forall ls, Descr [] ls -> ls = [].
Proof. intros ls [bs [HF HC]]. inversion HF; subst. reflexivity. Qed.

Lemma described_head_nomatch : forall (e : exp) es l ls,
  Descr (e :: es) (l :: ls) -> mtl e l = false -> optl e = true /\ Descr es (l :: ls).
Proof.
  intros e es l ls H Hm. destruct (described_cases _ _ _ _ H) as [[Ho Hd] | [Hm' _]]; auto. congruence.
Qed.

Lemma matches_at_S : forall (e : exp) es l k, matches_at line (e :: es) l (S k) = matches_at line es l k.
Proof. reflexivity. Qed.

Lemma described_has_follower : forall (es : list exp) l ls,
  Descr es (l :: ls) -> exists k, In k (followers line es) /\ matches_at line es l k = true.
Proof.
  induction es as [|e es IH]; intros l ls H.
  - apply described_nil_exps in H. discriminate.
  - destruct (described_cases _ _ _ _ H) as [[Ho Hd] | [Hm _]].
    + destruct (IH _ _ Hd) as [k [Hk Hmk]]. exists (S k). split; auto.
      cbn. rewrite Ho. right. apply in_map. exact Hk.
    + exists 0. split; [cbn; auto|]. exact Hm.
Qed.

Lemma described_some_match : forall (es : list exp) l ls,
  Descr es (l :: ls) -> exists e, In e es /\ mtl e l = true.
Proof.
  induction es as [|e es IH]; intros l ls H.
  - apply described_nil_exps in H. discriminate.
  - destruct (described_cases _ _ _ _ H) as [[Ho Hd] | [Hm _]].
    + destruct (IH _ _ Hd) as [e' [Hi Hm]]. exists e'. split; [right|]; auto.
    + exists e. split; [left|]; auto.
Qed.

Lemma find_idx_none : forall A (p : A -> bool) l, find_idx p l = None -> forall x, In x l -> p x = false.
Proof.
  induction l as [|a l IH]; intros H x Hx; [destruct Hx|].
  cbn in H. destruct (p a) eqn:Hp; [discriminate|].
  destruct (find_idx p l); [discriminate|]. destruct Hx as [<-|Hx]; auto.
Qed.

Lemma find_idx_some : forall A (p : A -> bool) l k, find_idx p l = Some k ->
  Forall (fun x => p x = false) (firstn k l) /\ exists x r, skipn k l = x :: r /\ p x = true.
Proof.
  induction l as [|a l IH]; intros k H; [discriminate|].
  cbn in H. destruct (p a) eqn:Hp.
  - inversion H; subst. split; [constructor|]. exists a, l. auto.
  - destruct (find_idx p l) as [k'|] eqn:Hf; [|discriminate]. inversion H; subst.
    destruct (IH _ eq_refl) as [H1 H2]. split; [constructor; auto|]. exact H2.
Qed.

(* ---- determinism: local consequences ---- *)
Lemma det_inv : forall (es : list exp) ir l r,
  detb line es ir (l :: r) = true ->
  forall k, In k (cands line es ir) -> matches_at line es l k = true ->
  (forall k', In k' (cands line es ir) -> matches_at line es l k' = true -> k' = k)
  /\ detb line (fst (step line es k)) (snd (step line es k)) r = true.
Proof.
  intros es ir l r H k Hk Hm. cbn [detb] in H.
  assert (Hin : In k (filter (matches_at line es l) (cands line es ir))) by (apply filter_In; auto).
  destruct (filter (matches_at line es l) (cands line es ir)) as [|k0 [|k1 t]] eqn:F.
  - destruct Hin.
  - destruct Hin as [<-|[]]. split.
    + intros k' Hk' Hm'. assert (In k' [k0]) by (rewrite <- F; apply filter_In; auto).
      destruct H0 as [<-|[]]; auto.
    + destruct (step line es k0); auto.
  - discriminate.
Qed.

Lemma filter_map_S : forall (p : nat -> bool) l, filter p (map S l) = map S (filter (fun k => p (S k)) l).
Proof. induction l as [|a l IH]; cbn; auto. destruct (p (S a)); cbn; congruence. Qed.

Lemma cands_false : forall es : list exp, cands line es false = followers line es.
Proof. destruct es; reflexivity. Qed.

Lemma step_S : forall (e : exp) es k, step line (e :: es) (S k) = step line es k.
Proof. reflexivity. Qed.

Lemma det_drop_head : forall (e : exp) es ir l r,
  mtl e l = false -> (ir = true \/ optl e = true) ->
  detb line (e :: es) ir (l :: r) = detb line es false (l :: r).
Proof.
  intros e es ir l r Hm Hc. cbn [detb].
  assert (E : cands line (e :: es) ir = 0 :: map S (followers line es)).
  { destruct Hc as [-> | Ho]; [reflexivity|]. destruct ir; cbn; [reflexivity|]. rewrite Ho. reflexivity. }
  rewrite E. cbn [filter]. unfold matches_at at 1. cbn [nth_error]. rewrite Hm.
  rewrite filter_map_S. rewrite cands_false.
  erewrite filter_ext; [|intros k; apply matches_at_S].
  destruct (filter (matches_at line es l) (followers line es)) as [|k0 [|k1 t]]; cbn [map]; auto.
Qed.

Lemma det_skip : forall j (es : list exp) l r,
  Forall (fun e => optl e = true /\ mtl e l = false) (firstn j es) ->
  detb line es false (l :: r) = detb line (skipn j es) false (l :: r).
Proof.
  induction j as [|j IH]; intros es l r H; [reflexivity|].
  destruct es as [|e es]; [reflexivity|]. cbn [firstn skipn] in *. inversion H as [|? ? [Ho Hm] H']; subst.
  rewrite det_drop_head; auto.
Qed.

Lemma described_skip_nomatch : forall j (es : list exp) l ls,
  Descr es (l :: ls) -> Forall (fun e => mtl e l = false) (firstn j es) ->
  Forall (fun e => optl e = true) (firstn j es) /\ Descr (skipn j es) (l :: ls).
Proof.
  induction j as [|j IH]; intros es l ls Hd Hf; [split; [constructor|exact Hd]|].
  destruct es as [|e es]; [split; [constructor|exact Hd]|]. cbn [firstn skipn] in *.
  inversion Hf; subst. destruct (described_head_nomatch _ _ _ _ Hd H1) as [Ho Hd'].
  destruct (IH _ _ _ Hd' H2) as [Ha Hb]. split; auto.
Qed.

Lemma unmatched_all_opt : forall (es : list exp) ei, Forall (fun e => optl e = true) es ->
  forallb (@is_matched line) (unmatched line ei es) = true.
Proof.
  induction es as [|e es IH]; intros ei H; [reflexivity|]. inversion H; subst. cbn. rewrite H2. cbn. auto.
Qed.

Definition DescrCont (es : list exp) (run : list (nat * line)) (ls : list line) : Prop :=
  match run with
  | [] => Descr es ls
  | _ => match es with
         | e :: es' => exists b rest, ls = b ++ rest /\ Forall (fun x => mtl e x = true) b /\ Descr es' rest
         | [] => False
         end
  end.

Lemma loop_complete : forall fuel (es : list exp) ei ls li run,
  length es + length ls < fuel ->
  (run <> [] -> exists e es', es = e :: es' /\ mull e = true) ->
  detb line es (negb (is_nil run)) ls = true ->
  DescrCont es run ls ->
  exists d, loop line fuel es ei ls li run = Some d /\ forallb (@is_matched line) d = true.
Proof.
  induction fuel as [|f IH]; intros es ei ls li run Hfuel Hrun Hdet Hdc; [lia|].
  cbn [loop].
  destruct es as [|e es'].
  { destruct run as [|p run']; [|destruct (Hrun ltac:(discriminate)) as (? & ? & ? & _); discriminate].
    cbn in Hdc. apply described_nil_exps in Hdc. subst. eexists; split; reflexivity. }
  destruct ls as [|l ls'].
  { destruct run as [|p run'].
    - cbn in Hdc. apply described_nil_all_opt in Hdc. eexists; split; [reflexivity|].
      cbn [is_nil]. rewrite app_nil_r. apply unmatched_all_opt; auto.
    - cbn in Hdc. destruct Hdc as (b & rest & Hb & _ & Hd). symmetry in Hb. apply app_eq_nil in Hb as [-> ->].
      apply described_nil_all_opt in Hd. eexists; split; [reflexivity|].
      cbn [is_nil]. rewrite app_nil_r. cbn. apply unmatched_all_opt; auto. }
  cbn [length] in Hfuel.
  (* facts about candidate 0 *)
  assert (H0c : In 0 (cands line (e :: es') (negb (is_nil run)))).
  { cbn. destruct (negb (is_nil run)); cbn; auto. }
  destruct (mtl e l) eqn:Hm.
  - (* head matches: by determinism it is the only candidate that does *)
    assert (Hm0 : matches_at line (e :: es') l 0 = true) by exact Hm.
    destruct (det_inv _ _ _ _ Hdet 0 H0c Hm0) as [Huniq Hnext].
    (* the described reading gives l to e *)
    assert (Htake : exists b rest, ls' = b ++ rest /\ Forall (fun x => mtl e x = true) b
                                   /\ (mull e = false -> b = []) /\ Descr es' rest).
    { destruct run as [|p run'].
      - cbn in Hdc. destruct (described_cases _ _ _ _ Hdc) as [[Ho Hd] | [_ Ht]]; auto.
        exfalso. destruct (described_has_follower _ _ _ Hd) as [k [Hk Hmk]].
        assert (S k = 0); [|discriminate]. apply Huniq.
        + cbn. rewrite Ho. right. apply in_map; auto.
        + rewrite matches_at_S. exact Hmk.
      - cbn in Hdc. destruct Hdc as (b & rest & Hb & Hfb & Hd).
        destruct b as [|x b'].
        + exfalso. cbn in Hb. subst rest. destruct (described_has_follower _ _ _ Hd) as [k [Hk Hmk]].
          assert (S k = 0); [|discriminate]. apply Huniq.
          * cbn. right. apply in_map; auto.
          * rewrite matches_at_S. exact Hmk.
        + cbn in Hb. inversion Hb; subst. inversion Hfb; subst.
          exists b', rest. repeat split; auto.
          intros Hmul. destruct (Hrun ltac:(discriminate)) as (e0 & es0 & He & Hmul0). inversion He; subst. congruence. }
    destruct Htake as (b & rest & Hls & Hfb & Hsingle & Hd).
    destruct (mull e) eqn:Hmul.
    + (* multiline *)
      match goal with |- context [if ?c then _ else _] => destruct c eqn:Hy end.
      * (* yield is impossible under determinism *)
        exfalso. destruct es' as [|e2 es2]; [discriminate|].
        apply andb_true_iff in Hy as [Hy1 Hy2].
        assert (1 = 0); [|discriminate]. apply Huniq; [|exact Hy2].
        destruct run as [|p run'].
        -- cbn in Hy1. rewrite orb_false_r in Hy1. cbn. rewrite Hy1. right. left. reflexivity.
        -- cbn. right. left. reflexivity.
      * (* extend the run *)
        apply IH.
        -- cbn [length]. lia.
        -- intros _. exists e, es'. auto.
        -- replace (negb (is_nil (run ++ [(li, l)]))) with true by (destruct run; reflexivity).
           unfold step in Hnext. cbn [skipn] in Hnext. rewrite Hmul in Hnext. exact Hnext.
        -- unfold DescrCont. destruct (run ++ [(li, l)]) eqn:E; [destruct run; discriminate|].
           exists b, rest. auto.
    + (* single line *)
      specialize (Hsingle eq_refl). subst b. cbn in Hls. subst rest.
      assert (run = []).
      { destruct run; auto. destruct (Hrun ltac:(discriminate)) as (e0 & es0 & He & Hmul0). inversion He; subst. congruence. }
      subst run.
      destruct (IH es' (S ei) ls' (S li) []) as (d & Hl & Hdm).
      * lia.
      * intros C; contradiction.
      * unfold step in Hnext. cbn [skipn] in Hnext. rewrite Hmul in Hnext. exact Hnext.
      * exact Hd.
      * rewrite Hl. eexists; split; [reflexivity|]. cbn. exact Hdm.
  - (* head does not match *)
    destruct run as [|p run'].
    + cbn [is_nil negb]. cbn in Hdc. cbn [negb is_nil] in Hdet.
      destruct (find_idx (fun e' => mtl e' l) es') as [k|] eqn:Hfe.
      * destruct (find_idx_some _ _ _ _ Hfe) as [Hnone (x & r & Hsk & Hx)].
        assert (Hf : Forall (fun e0 => mtl e0 l = false) (firstn (S k) (e :: es'))).
        { cbn [firstn]. constructor; auto. }
        destruct (described_skip_nomatch _ _ _ _ Hdc Hf) as [Hopt Hd'].
        assert (Hlen : length (skipn (S k) (e :: es')) <= length es').
        { cbn [skipn]. rewrite skipn_length. lia. }
        destruct (IH (skipn (S k) (e :: es')) (ei + S k) (l :: ls') li []) as (d & Hl & Hdm).
        -- cbn [length]. lia.
        -- intros C; contradiction.
        -- cbn [negb is_nil]. rewrite <- det_skip; auto.
           clear - Hopt Hf. revert Hopt Hf. generalize (firstn (S k) (e :: es')).
           induction l0; intros; constructor; inversion Hopt; inversion Hf; subst; auto.
        -- exact Hd'.
        -- rewrite Hl. eexists; split; [reflexivity|]. rewrite forallb_app. rewrite Hdm.
           rewrite unmatched_all_opt; auto.
      * exfalso. destruct (described_some_match _ _ _ Hdc) as [e' [Hi Hm']].
        destruct Hi as [<-|Hi]; [congruence|].
        pose proof (find_idx_none _ _ _ Hfe _ Hi) as Hn. cbn in Hn. congruence.
    + (* flush the open run *)
      cbn [is_nil negb]. cbn in Hdc. destruct Hdc as (b & rest & Hb & Hfb & Hd).
      destruct b as [|x b']; [|cbn in Hb; inversion Hb; subst; inversion Hfb; subst; congruence].
      cbn in Hb. subst rest.
      destruct (IH es' (S ei) (l :: ls') li []) as (d & Hl & Hdm).
      * cbn [length]. lia.
      * intros C; contradiction.
      * cbn [negb is_nil] in *. rewrite <- (det_drop_head e es' true); auto.
      * exact Hd.
      * rewrite Hl. eexists; split; [reflexivity|]. cbn. exact Hdm.
Qed.

Theorem C03_complete_when_deterministic : forall es ls,
  detb line es false ls = true -> (accepts line es ls = true <-> Descr es ls).
Proof.
  intros es ls Hdet. split; [apply C01_no_false_pass|].
  intros Hd. unfold accepts, diff.
  destruct (loop_complete (S (length es + length ls)) es 0 ls 0 []) as (d & Hl & Hm); auto.
  - intros C; contradiction.
  - rewrite Hl. exact Hm.
Qed.
End P.
Print Assumptions C03_complete_when_deterministic.
