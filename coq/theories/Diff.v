From Coq Require Import List Arith Bool Lia.
Import ListNotations.

Section Diff.
Variable line : Type.
Record exp := mkExp { opt : bool; mul : bool; mt : line -> bool }.

Inductive entry :=
| EMatched (i : nat) (b : list (nat * line))
| EUnmatched (i : nat)
| EUnexpected (b : list (nat * line)).

Definition is_nil {A} (l : list A) : bool := match l with [] => true | _ => false end.

Fixpoint find_idx {A} (p : A -> bool) (l : list A) : option nat :=
  match l with [] => None | x :: r => if p x then Some 0 else option_map S (find_idx p r) end.

Fixpoint unmatched (ei : nat) (es : list exp) : list entry :=
  match es with [] => [] | e :: r => (if opt e then [] else [EUnmatched ei]) ++ unmatched (S ei) r end.

Fixpoint number (li : nat) (ls : list line) : list (nat * line) :=
  match ls with [] => [] | l :: r => (li, l) :: number (S li) r end.

Fixpoint loop (fuel : nat) (es : list exp) (ei : nat) (ls : list line) (li : nat)
         (run : list (nat * line)) : option (list entry) :=
  match fuel with
  | 0 => None
  | S f =>
    match es, ls with
    | e :: es', l :: ls' =>
      if mt e l then
        if mul e then
          if (match es' with e2 :: _ => (opt e || negb (is_nil run)) && mt e2 l | [] => false end) then
            option_map (fun d => (if is_nil run then [] else [EMatched ei run]) ++ d)
                       (loop f es' (S ei) ls li [])
          else loop f es ei ls' (S li) (run ++ [(li, l)])
        else option_map (cons (EMatched ei [(li, l)])) (loop f es' (S ei) ls' (S li) [])
      else if negb (is_nil run) then
        option_map (cons (EMatched ei run)) (loop f es' (S ei) ls li [])
      else
        match find_idx (fun e' => mt e' l) es' with
        | Some k =>
          option_map (app (unmatched ei (firstn (S k) es)))
                     (loop f (skipn (S k) es) (ei + S k) ls li [])
        | None =>
          match find_idx (mt e) ls' with
          | Some k =>
            option_map (cons (EUnexpected (number li (firstn (S k) ls))))
                       (loop f es ei (skipn (S k) ls) (li + S k) [])
          | None =>
            option_map (app (if opt e then [] else [EUnmatched ei])) (loop f es' (S ei) ls li [])
          end
        end
    | _, _ =>
      Some ((if is_nil run then unmatched ei es
             else match es with
                  | _ :: es' => EMatched ei run :: unmatched (S ei) es'
                  | [] => []
                  end)
            ++ (if is_nil ls then [] else [EUnexpected (number li ls)]))
    end
  end.

Definition diff (es : list exp) (ls : list line) : option (list entry) :=
  loop (S (length es + length ls)) es 0 ls 0 [].

Definition is_matched (d : entry) : bool := match d with EMatched _ _ => true | _ => false end.
Definition accepts (es : list exp) (ls : list line) : bool :=
  match diff es ls with Some d => forallb is_matched d | None => false end.

(* ---------- spec ---------- *)
Definition block_ok (e : exp) (b : list line) : Prop :=
  Forall (fun l => mt e l = true) b /\ (opt e = false -> b <> []) /\ (mul e = false -> length b <= 1).
Definition Described (es : list exp) (ls : list line) : Prop :=
  exists bs, Forall2 block_ok es bs /\ concat bs = ls.

End Diff.
