(* Executable twins of the C01/C02 specifications, proved equivalent to them.
   They are what the check evaluates on the IMPLEMENTATION's result. *)
From Coq Require Import List Arith Bool Lia Sorted.
Import ListNotations.
From SV Require Import Diff DiffProofs DetProofs Cons.

Section O.
Variable line : Type.
Notation exp := (exp line).
Notation entry := (entry line).
Notation mtl := (mt line).
Notation optl := (opt line).
Notation mull := (mul line).

(* ---------- C01: membership in e1{q1} ... en{qn}, decided by a DP over suffixes ---------- *)
Fixpoint go (e : exp) (k : list line -> bool) (first : bool) (ls : list line) : bool :=
  ((negb first || optl e) && k ls) ||
  match ls with
  | [] => false
  | l :: ls' => mtl e l && (first || mull e) && go e k false ls'
  end.

Fixpoint describedb (es : list exp) : list line -> bool :=
  match es with
  | [] => fun ls => is_nil ls
  | e :: r => go e (describedb r) true
  end.

Definition blockP (e : exp) (first : bool) (b : list line) : Prop :=
  Forall (fun l => mtl e l = true) b
  /\ (first = true -> optl e = false -> b <> [])
  /\ (mull e = false -> length b <= (if first then 1 else 0)).

Lemma go_spec : forall (e : exp) (k : list line -> bool) (K : list line -> Prop),
  (forall ls, k ls = true <-> K ls) ->
  forall ls first, go e k first ls = true <-> exists b rest, ls = b ++ rest /\ blockP e first b /\ K rest.
Proof.
  intros e k K HK. induction ls as [|l ls' IH]; intros first.
  - cbn [go]. rewrite orb_false_r, andb_true_iff, orb_true_iff, negb_true_iff, HK. split.
    + intros [Hf Hk]. exists [], []. split; [reflexivity|]. split; [|exact Hk].
      split; [constructor|]. split.
      * intros F O. destruct Hf as [Hf|Hf]; congruence.
      * intros _. cbn. lia.
    + intros (b & rest & E & (Hb & Hne & Hlen) & HKr).
      symmetry in E. apply app_eq_nil in E. destruct E; subst. split; [|exact HKr].
      destruct first; [|left; reflexivity]. right. destruct (optl e); [reflexivity|].
      exfalso. apply Hne; reflexivity.
  - cbn [go]. rewrite orb_true_iff, !andb_true_iff, !orb_true_iff, negb_true_iff, HK, IH. split.
    + intros [[Hf Hk] | [[Hm Hfm] (b & rest & E & (Hb & Hne & Hlen) & HKr)]].
      * exists [], (l :: ls'). split; [reflexivity|]. split; [|exact Hk]. split; [constructor|]. split.
        -- intros F O. destruct Hf as [Hf|Hf]; congruence.
        -- intros _. cbn. lia.
      * exists (l :: b), rest. split; [cbn; f_equal; exact E|]. split; [|exact HKr].
        split; [constructor; assumption|]. split; [intros _ _; discriminate|].
        intros M. specialize (Hlen M). cbn in Hlen. destruct Hfm as [Hfm|Hfm]; [|congruence].
        subst first. cbn [length]. lia.
    + intros (b & rest & E & (Hb & Hne & Hlen) & HKr). destruct b as [|l0 b].
      * left. cbn in E. subst rest. split; [|exact HKr].
        destruct first; [|left; reflexivity]. right. destruct (optl e); [reflexivity|].
        exfalso. apply Hne; reflexivity.
      * right. cbn in E. inversion E; subst l0 ls'; clear E. inversion Hb as [|? ? Hm Hb']; subst.
        split.
        -- split; [exact Hm|]. destruct first; [left; reflexivity|]. right.
           destruct (mull e); [reflexivity|]. specialize (Hlen eq_refl). cbn in Hlen. lia.
        -- exists b, rest. split; [reflexivity|]. split; [|exact HKr]. split; [exact Hb'|]. split; [intros; discriminate|].
           intros M. specialize (Hlen M). cbn [length] in Hlen. destruct first; cbn; lia.
Qed.

Lemma blockP_block_ok : forall (e : exp) b, blockP e true b <-> block_ok line e b.
Proof.
  intros e b. unfold blockP, block_ok. split; intros (A & B & C); split; auto.
Qed.

Theorem describedb_spec : forall es ls, describedb es ls = true <-> Described line es ls.
Proof.
  induction es as [|e r IH]; intros ls.
  - cbn [describedb]. unfold Described. split.
    + intros H. destruct ls; [|discriminate]. exists []. split; [constructor|reflexivity].
    + intros (bs & F & E). inversion F; subst. reflexivity.
  - cbn [describedb]. rewrite (go_spec e (describedb r) (Described line r) IH). unfold Described. split.
    + intros (b & rest & E & HB & (bs & F & Ec)). exists (b :: bs). split.
      * constructor; [apply blockP_block_ok; exact HB|exact F].
      * cbn. rewrite Ec. symmetry; exact E.
    + intros (bs & F & E). inversion F as [|? b ? bs' HB F']; subst.
      exists b, (concat bs'). split; [reflexivity|]. split; [apply blockP_block_ok; exact HB|].
      exists bs'. split; [exact F'|reflexivity].
Qed.

(* ---------- C02: conservation, as a boolean over a candidate diff ---------- *)
Variable leqb : line -> line -> bool.
Hypothesis leqb_spec : forall a b, leqb a b = true <-> a = b.

Fixpoint ssortedb (l : list nat) : bool :=
  match l with [] => true | x :: r => forallb (fun y => x <? y) r && ssortedb r end.

Fixpoint pairs_eqb (a b : list (nat * line)) : bool :=
  match a, b with
  | [], [] => true
  | (i, x) :: a', (j, y) :: b' => (i =? j) && leqb x y && pairs_eqb a' b'
  | _, _ => false
  end.

Definition entry_okb (es : list exp) (en : entry) : bool :=
  match en with
  | EMatched _ i b =>
      negb (is_nil b) &&
      match nth_error es i with
      | Some e => forallb (fun p => mtl e (snd p)) b && (mull e || (length b =? 1))
      | None => false
      end
  | EUnmatched _ i => match nth_error es i with Some e => negb (optl e) | None => false end
  | EUnexpected _ b => negb (is_nil b)
  end.

Definition ConsProp (es : list exp) (ls : list line) (d : list entry) : Prop :=
  lines_of line d = number line 0 ls
  /\ sorted_in 0 (length es) (exps_of line d)
  /\ (forall k e, nth_error es k = Some e -> optl e = false -> In k (exps_of line d))
  /\ Forall (entry_ok line 0 es) d.

Definition conservation_b (es : list exp) (ls : list line) (d : list entry) : bool :=
  pairs_eqb (lines_of line d) (number line 0 ls)
  && ssortedb (exps_of line d)
  && forallb (fun x => x <? length es) (exps_of line d)
  && forallb (fun k => match nth_error es k with
                       | Some e => optl e || existsb (Nat.eqb k) (exps_of line d)
                       | None => true end) (seq 0 (length es))
  && forallb (entry_okb es) d.

Lemma pairs_eqb_spec : forall a b, pairs_eqb a b = true <-> a = b.
Proof.
  induction a as [|[i x] a IH]; destruct b as [|[j y] b]; cbn; try (split; congruence).
  rewrite !andb_true_iff, Nat.eqb_eq, leqb_spec, IH. split.
  - intros [[-> ->] ->]. reflexivity.
  - intros E. inversion E. auto.
Qed.

Lemma ssortedb_spec : forall l, ssortedb l = true <-> StronglySorted lt l.
Proof.
  induction l as [|x r IH]; cbn [ssortedb].
  - split; [constructor|reflexivity].
  - rewrite andb_true_iff, IH, forallb_forall. split.
    + intros [A B]. constructor; [exact B|]. apply Forall_forall. intros y Hy. apply Nat.ltb_lt. auto.
    + intros H. inversion H as [|? ? B A]; subst. split; [|exact B].
      intros y Hy. apply Nat.ltb_lt. rewrite Forall_forall in A. auto.
Qed.

Lemma entry_okb_spec : forall es en, entry_okb es en = true <-> entry_ok line 0 es en.
Proof.
  intros es [i b | i | b]; cbn [entry_okb entry_ok]; rewrite ?Nat.sub_0_r.
  - rewrite andb_true_iff, negb_true_iff. split.
    + intros [Hn H]. split; [intros ->; discriminate|].
      destruct (nth_error es i) as [e|]; [|discriminate]. exists e.
      apply andb_true_iff in H. destruct H as [Hf Hm]. split; [reflexivity|]. split; [lia|]. split.
      * apply Forall_forall. rewrite forallb_forall in Hf. exact Hf.
      * intros M. rewrite M in Hm. cbn in Hm. apply Nat.eqb_eq. exact Hm.
    + intros (Hn & e & He & _ & Hf & Hm). split; [destruct b; [congruence|reflexivity]|].
      rewrite He. apply andb_true_iff. split.
      * apply forallb_forall. rewrite Forall_forall in Hf. exact Hf.
      * destruct (mull e); [reflexivity|]. cbn. apply Nat.eqb_eq. auto.
  - split.
    + destruct (nth_error es i) as [e|]; [|discriminate]. intros H. exists e. split; [reflexivity|]. split; [lia|].
      apply negb_true_iff. exact H.
    + intros (e & He & _ & Ho). rewrite He, Ho. reflexivity.
  - rewrite negb_true_iff. destruct b; cbn; split; congruence.
Qed.

Lemma nonopt_in_spec : forall (es : list exp) (xs : list nat),
  forallb (fun k => match nth_error es k with
                    | Some e => optl e || existsb (Nat.eqb k) xs
                    | None => true end) (seq 0 (length es)) = true
  <-> (forall k e, nth_error es k = Some e -> optl e = false -> In k xs).
Proof.
  intros es xs. rewrite forallb_forall. split.
  - intros H k e He Ho. assert (Hk : k < length es) by (apply nth_error_Some; congruence).
    specialize (H k ltac:(apply in_seq; lia)). rewrite He, Ho in H. cbn in H.
    apply existsb_exists in H. destruct H as (y & Hy & E). apply Nat.eqb_eq in E. subst; exact Hy.
  - intros H k Hk. destruct (nth_error es k) as [e|] eqn:He; [|reflexivity].
    destruct (optl e) eqn:Ho; [reflexivity|]. cbn. apply existsb_exists. exists k. split; [eauto|apply Nat.eqb_refl].
Qed.

Theorem conservation_b_spec : forall es ls d, conservation_b es ls d = true <-> ConsProp es ls d.
Proof.
  intros es ls d. unfold conservation_b, ConsProp, sorted_in.
  rewrite !andb_true_iff, pairs_eqb_spec, ssortedb_spec, nonopt_in_spec.
  assert (F1 : forallb (fun x => x <? length es) (exps_of line d) = true
               <-> Forall (fun x => 0 <= x < length es) (exps_of line d)).
  { rewrite forallb_forall, Forall_forall. split; intros H x Hx; specialize (H x Hx).
    - apply Nat.ltb_lt in H. lia.
    - apply Nat.ltb_lt. lia. }
  assert (F2 : forallb (entry_okb es) d = true <-> Forall (entry_ok line 0 es) d).
  { rewrite forallb_forall, Forall_forall. split; intros H x Hx; apply entry_okb_spec; auto. }
  rewrite F1, F2. tauto.
Qed.

Theorem C02_conservation_b : forall es ls d, diff line es ls = Some d -> conservation_b es ls d = true.
Proof.
  intros es ls d Hd. apply conservation_b_spec.
  destruct (C02_conservation line es ls) as (d' & Hd' & A & B & C & D).
  rewrite Hd in Hd'. inversion Hd'; subst d'. unfold ConsProp. auto.
Qed.

End O.
