From Coq Require Import List Arith Bool Lia.
Import ListNotations.
From SV Require Import Diff.

Section P.
Variable line : Type.
Notation exp := (exp line).
Notation entry := (entry line).

Lemma forallb_unmatched_opt : forall es ei,
  forallb (@is_matched line) (unmatched line ei es) = true -> Forall (fun e => opt line e = true) es.
Proof.
  induction es as [|e es IH]; intros ei H; cbn in *; [constructor|].
  destruct (opt line e) eqn:Ho; cbn in H.
  - constructor; eauto.
  - discriminate.
Qed.

Lemma described_all_opt : forall es, Forall (fun e => opt line e = true) es -> Described line es [].
Proof.
  induction 1 as [|e es Ho _ IH].
  - exists []. split; constructor.
  - destruct IH as [bs [H1 H2]]. exists ([] :: bs). split; [|exact H2].
    constructor; [|exact H1]. repeat split; [constructor | congruence | cbn; lia].
Qed.

Lemma described_skip : forall e es ls, opt line e = true -> Described line es ls -> Described line (e :: es) ls.
Proof.
  intros e es ls Ho [bs [H1 H2]]. exists ([] :: bs). split; [|exact H2].
  constructor; [|exact H1]. repeat split; [constructor|congruence|cbn; lia].
Qed.

Lemma described_skipn : forall k es ls,
  Forall (fun e => opt line e = true) (firstn k es) -> Described line (skipn k es) ls -> Described line es ls.
Proof.
  induction k as [|k IH]; intros es ls Hf Hd; [exact Hd|].
  destruct es as [|e es]; [exact Hd|]. cbn in *. inversion Hf; subst.
  apply described_skip; auto.
Qed.

Lemma described_one : forall e es l ls, mt line e l = true -> Described line es ls -> Described line (e :: es) (l :: ls).
Proof.
  intros e es l ls Hm [bs [H1 H2]]. exists ([l] :: bs). split; [|cbn; congruence].
  constructor; [|exact H1]. repeat split; [repeat constructor; auto | discriminate | cbn; lia].
Qed.

(* a multiline head consuming a non-empty run r then the rest described *)
Lemma described_run : forall e es (r : list line) ls,
  mul line e = true -> r <> [] -> Forall (fun l => mt line e l = true) r ->
  Described line es ls -> Described line (e :: es) (r ++ ls).
Proof.
  intros e es r ls Hmul Hne Hr [bs [H1 H2]]. exists (r :: bs). split; [|cbn; congruence].
  constructor; [|exact H1]. repeat split; auto. congruence.
Qed.

Definition run_ok (es : list exp) (run : list (nat * line)) : Prop :=
  run = [] \/ exists e es', es = e :: es' /\ mul line e = true /\ Forall (fun p => mt line e (snd p) = true) run.

Lemma loop_sound : forall fuel es ei ls li run d,
  loop line fuel es ei ls li run = Some d ->
  forallb (@is_matched line) d = true ->
  run_ok es run ->
  Described line es (map snd run ++ ls).
Proof.
  induction fuel as [|f IH]; intros es ei ls li run d Hl Hd Hrun; [discriminate|].
  cbn [loop] in Hl.
  destruct es as [|e es'].
  { (* no expectations left *)
    destruct Hrun as [-> | (e & es' & He & _)]; [|discriminate].
    cbn in Hl. inversion Hl; subst; clear Hl. cbn.
    destruct ls as [|l ls']; cbn in Hd; [|discriminate].
    exists []; split; constructor. }
  destruct ls as [|l ls'].
  { (* no lines left *)
    inversion Hl; subst; clear Hl. rewrite app_nil_r.
    destruct run as [|p run'].
    - cbn in *. rewrite app_nil_r in Hd. apply described_all_opt.
      eapply forallb_unmatched_opt with (ei := ei). exact Hd.
    - destruct Hrun as [Hr | (e0 & es0 & He & Hmul & Hf)]; [discriminate|]. inversion He; subst e0 es0; clear He.
      cbn [is_nil] in Hd. rewrite app_nil_r in Hd. cbn in Hd.
      apply forallb_unmatched_opt in Hd. apply described_all_opt in Hd.
      replace (map snd (p :: run')) with (map snd (p :: run') ++ []) by apply app_nil_r.
      apply described_run; auto; [discriminate|].
      rewrite Forall_map. exact Hf. }
  destruct (mt line e l) eqn:Hm.
  - destruct (mul line e) eqn:Hmul.
    + match type of Hl with (if ?c then _ else _) = _ => destruct c eqn:Hy end.
      * (* yield *)
        destruct (loop line f es' (S ei) (l :: ls') li []) as [d'|] eqn:Hrec; [|discriminate].
        cbn in Hl. inversion Hl; subst; clear Hl.
        rewrite forallb_app in Hd. apply andb_true_iff in Hd as [Hd1 Hd2].
        specialize (IH _ _ _ _ _ _ Hrec Hd2 (or_introl eq_refl)). cbn in IH.
        destruct run as [|p run'].
        -- cbn. destruct es' as [|e2 es2]; [discriminate|].
           apply andb_true_iff in Hy as [Hy1 _]. cbn in Hy1. rewrite orb_false_r in Hy1.
           apply described_skip; auto.
        -- destruct Hrun as [Hr | (e0 & es0 & He & Hmul0 & Hf)]; [discriminate|]. inversion He; subst e0 es0; clear He.
           apply described_run; auto; [discriminate|]. rewrite Forall_map. exact Hf.
      * (* continue run *)
        specialize (IH _ _ _ _ _ _ Hl Hd).
        rewrite map_app in IH. cbn in IH. rewrite <- app_assoc in IH. cbn in IH. apply IH.
        right. exists e, es'. repeat split; auto.
        apply Forall_app. split.
        -- destruct Hrun as [-> | (e0 & es0 & He & _ & Hf)]; [constructor|]. inversion He; subst; auto.
        -- repeat constructor. exact Hm.
    + (* single-line match *)
      destruct (loop line f es' (S ei) ls' (S li) []) as [d'|] eqn:Hrec; [|discriminate].
      cbn in Hl. inversion Hl; subst; clear Hl. cbn in Hd.
      specialize (IH _ _ _ _ _ _ Hrec Hd (or_introl eq_refl)). cbn in IH.
      destruct Hrun as [-> | (e0 & es0 & He & Hmul0 & _)].
      * cbn. apply described_one; auto.
      * inversion He; subst. congruence.
  - destruct run as [|p run'].
    + cbn [is_nil negb] in Hl. cbn.
      destruct (find_idx (fun e' => mt line e' l) es') as [k|] eqn:Hfe.
      * destruct (loop line f (skipn (S k) (e :: es')) (ei + S k) (l :: ls') li []) as [d'|] eqn:Hrec; [|discriminate].
        cbn [option_map] in Hl. inversion Hl; subst; clear Hl.
        rewrite forallb_app in Hd. apply andb_true_iff in Hd as [Hd1 Hd2].
        specialize (IH _ _ _ _ _ _ Hrec Hd2 (or_introl eq_refl)). cbn [map app] in IH.
        change (forallb (@is_matched line) (unmatched line ei (firstn (S k) (e :: es'))) = true) in Hd1.
        apply forallb_unmatched_opt in Hd1.
        eapply described_skipn; eauto.
      * destruct (find_idx (mt line e) ls') as [k|] eqn:Hfl.
        -- destruct (loop line f (e :: es') ei (skipn (S k) (l :: ls')) (li + S k) []) as [d'|]; [|discriminate].
           cbn in Hl. inversion Hl; subst. cbn in Hd. discriminate.
        -- destruct (loop line f es' (S ei) (l :: ls') li []) as [d'|] eqn:Hrec; [|discriminate].
           cbn [option_map] in Hl. inversion Hl; subst; clear Hl.
           rewrite forallb_app in Hd. apply andb_true_iff in Hd as [Hd1 Hd2].
           specialize (IH _ _ _ _ _ _ Hrec Hd2 (or_introl eq_refl)). cbn [map app] in IH.
           destruct (opt line e) eqn:Ho; [|cbn in Hd1; discriminate].
           apply described_skip; auto.
    + (* flush run on non-match *)
      cbn [is_nil negb] in Hl.
      destruct (loop line f es' (S ei) (l :: ls') li []) as [d'|] eqn:Hrec; [|discriminate].
      cbn in Hl. inversion Hl; subst; clear Hl. cbn in Hd.
      specialize (IH _ _ _ _ _ _ Hrec Hd (or_introl eq_refl)). cbn [map app] in IH.
      destruct Hrun as [Hr | (e0 & es0 & He & Hmul0 & Hf)]; [discriminate|]. inversion He; subst e0 es0; clear He.
      apply described_run; auto; [discriminate|]. rewrite Forall_map. exact Hf.
Qed.

Theorem C01_no_false_pass : forall es ls, accepts line es ls = true -> Described line es ls.
Proof.
  intros es ls H. unfold accepts, diff in H.
  destruct (loop line (S (length es + length ls)) es 0 ls 0 []) as [d|] eqn:Hl; [|discriminate].
  apply (loop_sound _ _ _ _ _ _ _ Hl H). left; reflexivity.
Qed.
End P.
Print Assumptions C01_no_false_pass.
