(* C17: durations as text.  scrut writes every duration of a configuration with humantime::format_duration and reads it
   with humantime::parse_duration (humantime 2.4.0, src/duration.rs); both are transcribed here.  Definitions only.
   A Duration is (whole seconds < 2^64, nanoseconds < 10^9).  The parser is the character loop of Parser::parse with
   its three positions (before a number, inside a number, inside a unit); fractional numbers (`1.5s`, never written
   by format_duration) are outside the model and answered by DUnsupported. *)
From Coq Require Import List NArith Bool Arith.
Import ListNotations.
From SV Require Import Render ScriptExec.
Local Open Scope N_scope.

Definition U64 : N := 18446744073709551616.
Definition NANOS : N := 1000000000.
Definition Y_SECS : N := 31557600.      (* 365.25 d *)
Definition MO_SECS : N := 2630016.      (* 30.44 d *)

(* ---------- format_duration ---------- *)
Definition S_YEAR : list N := [121;101;97;114].
Definition S_MONTH : list N := [109;111;110;116;104].
Definition S_DAY : list N := [100;97;121].
Definition S_H : list N := [104].
Definition S_M : list N := [109].
Definition S_S : list N := [115].
Definition S_MS : list N := [109;115].
Definition S_US : list N := [117;115].
Definition S_NS : list N := [110;115].

(* item_plural / item: (value, name, plural form?) *)
Definition item_text (v : N) (name : list N) (plural : bool) : list N :=
  dec v ++ name ++ (if plural && (1 <? v) then [115] else []).
Fixpoint dchain (started : bool) (its : list (N * list N * bool)) : list N :=
  match its with
  | [] => []
  | (v, name, pl) :: r =>
    if 0 <? v then (if started then [32] else []) ++ item_text v name pl ++ dchain true r else dchain started r
  end.
Definition dur_items (secs nanos : N) : list (N * list N * bool) :=
  let years := secs / Y_SECS in let ydays := secs mod Y_SECS in
  let months := ydays / MO_SECS in let mdays := ydays mod MO_SECS in
  let days := mdays / 86400 in let day_secs := mdays mod 86400 in
  let hours := day_secs / 3600 in let minutes := day_secs mod 3600 / 60 in let seconds := day_secs mod 60 in
  let millis := nanos / 1000000 in let micros := nanos / 1000 mod 1000 in let nanosec := nanos mod 1000 in
  [(years, S_YEAR, true); (months, S_MONTH, true); (days, S_DAY, true); (hours, S_H, false); (minutes, S_M, false);
   (seconds, S_S, false); (millis, S_MS, false); (micros, S_US, false); (nanosec, S_NS, false)].
Definition format_duration (secs nanos : N) : list N :=
  if (secs =? 0) && (nanos =? 0) then [48; 115] else dchain false (dur_items secs nanos).

(* ---------- parse_duration ---------- *)
Inductive unit_t := UNano | UMicro | UMilli | USec | UMin | UHour | UDay | UWeek | UMonth | UYear.
Definition unit_table : list (list N * unit_t) :=
  [ ([110;97;110;111;115], UNano); ([110;115;101;99], UNano); ([110;115], UNano);
    ([117;115;101;99], UMicro); ([117;115], UMicro); ([181;115], UMicro);
    ([109;105;108;108;105;115], UMilli); ([109;115;101;99], UMilli); ([109;115], UMilli);
    ([115;101;99;111;110;100;115], USec); ([115;101;99;111;110;100], USec); ([115;101;99;115], USec); ([115;101;99], USec); ([115], USec);
    ([109;105;110;117;116;101;115], UMin); ([109;105;110;117;116;101], UMin); ([109;105;110], UMin); ([109;105;110;115], UMin); ([109], UMin);
    ([104;111;117;114;115], UHour); ([104;111;117;114], UHour); ([104;114], UHour); ([104;114;115], UHour); ([104], UHour);
    ([100;97;121;115], UDay); ([100;97;121], UDay); ([100], UDay);
    ([119;101;101;107;115], UWeek); ([119;101;101;107], UWeek); ([119;107], UWeek); ([119;107;115], UWeek); ([119], UWeek);
    ([109;111;110;116;104;115], UMonth); ([109;111;110;116;104], UMonth); ([77], UMonth);
    ([121;101;97;114;115], UYear); ([121;101;97;114], UYear); ([121;114], UYear); ([121;114;115], UYear); ([121], UYear) ].
Fixpoint lookup_unit (tbl : list (list N * unit_t)) (s : list N) : option unit_t :=
  match tbl with [] => None | (k, u) :: r => if text_eqb k s then Some u else lookup_unit r s end.
Definition unit_of (s : list N) : option unit_t := lookup_unit unit_table s.

Definition chk (x : N) : option N := if x <? U64 then Some x else None.      (* u64 checked_add / checked_mul *)
(* Duration::new(secs, nanos): carries whole seconds out of nanos; overflow of the seconds panics (None here) *)
Definition duration_new (sec nsec : N) : option (N * N) :=
  match chk (sec + nsec / NANOS) with Some s => Some (s, nsec mod NANOS) | None => None end.
Definition add_current (sec nsec : N) (out : N * N) : option (N * N) :=
  match chk (snd out + nsec) with
  | None => None
  | Some ns =>
    let carried := if NANOS <? ns then (chk (sec + ns / NANOS), ns mod NANOS) else (Some sec, ns) in
    match fst carried with
    | None => None
    | Some sec1 => match chk (fst out + sec1) with Some sec2 => duration_new sec2 (snd carried) | None => None end
    end
  end.
Definition unit_amount (u : unit_t) (n : N) : option (N * N) :=
  match u with
  | UNano => Some (0, n)
  | UMicro => option_map (fun x => (0, x)) (chk (n * 1000))
  | UMilli => option_map (fun x => (0, x)) (chk (n * 1000000))
  | USec => Some (n, 0)
  | UMin => option_map (fun x => (x, 0)) (chk (n * 60))
  | UHour => option_map (fun x => (x, 0)) (chk (n * 3600))
  | UDay => option_map (fun x => (x, 0)) (chk (n * 86400))
  | UWeek => option_map (fun x => (x, 0)) (chk (n * 604800))
  | UMonth => option_map (fun x => (x, 0)) (chk (n * MO_SECS))
  | UYear => option_map (fun x => (x, 0)) (chk (n * Y_SECS))
  end.
Definition parse_unit (n : N) (unit : list N) (out : N * N) : option (N * N) :=
  match unit_of unit with
  | None => None
  | Some u => match unit_amount u n with Some (s, ns) => add_current s ns out | None => None end
  end.

(* char::is_whitespace (White_Space) and the letters the parser takes for a unit *)
Definition is_white (c : N) : bool :=
  ((9 <=? c) && (c <=? 13)) || (c =? 32) || (c =? 133) || (c =? 160) || (c =? 5760) || ((8192 <=? c) && (c <=? 8202))
  || (c =? 8232) || (c =? 8233) || (c =? 8239) || (c =? 8287) || (c =? 12288).
Definition is_unit_letter (c : N) : bool := ((97 <=? c) && (c <=? 122)) || ((65 <=? c) && (c <=? 90)) || (c =? 181).

Inductive pstate := SFirst | SNum (n : N) | SUnit (n : N) (unit_rev : list N).
Inductive pres := DOk (secs nanos : N) | DErr | DUnsupported.
Fixpoint pgo (s : list N) (st : pstate) (out : N * N) (nothing_yet : bool) : pres :=
  match s with
  | [] =>
    match st with
    | SFirst => if nothing_yet then DErr else DOk (fst out) (snd out)             (* Error::Empty / done *)
    | SNum _ => DErr                                                              (* a number without unit *)
    | SUnit n u => match parse_unit n (rev u) out with Some o => DOk (fst o) (snd o) | None => DErr end
    end
  | c :: r =>
    match st with
    | SFirst =>
      if is_digit c then pgo r (SNum (c - 48)) out false
      else if is_white c then pgo r SFirst out nothing_yet
      else DErr                                                                   (* NumberExpected *)
    | SNum n =>
      if is_digit c then match chk (n * 10 + (c - 48)) with Some n' => pgo r (SNum n') out false | None => DErr end
      else if is_white c then pgo r (SNum n) out false
      else if is_unit_letter c then pgo r (SUnit n [c]) out false
      else if c =? 46 then DUnsupported
      else DErr                                                                   (* InvalidCharacter *)
    | SUnit n u =>
      if is_digit c then match parse_unit n (rev u) out with Some o => pgo r (SNum (c - 48)) o false | None => DErr end
      else if is_white c then match parse_unit n (rev u) out with Some o => pgo r SFirst o false | None => DErr end
      else if is_unit_letter c then pgo r (SUnit n (c :: u)) out false
      else DErr
    end
  end.
Definition parse_duration (s : list N) : pres :=
  if text_eqb s [48] then DOk 0 0 else pgo s SFirst (0, 0) true.
