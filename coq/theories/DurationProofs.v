(* C17: every duration that format_duration writes, parse_duration reads back as the same duration. *)
From Coq Require Import List NArith ZArith Lia Bool Arith ZifyBool ZifyNat ZifyN.
Import ListNotations.
From SV Require Import Render RenderProofs ScriptExec ScriptExecProofs EnvProofs Duration gen_Humantime.
Local Open Scope N_scope.
Ltac Zify.zify_post_hook ::= Z.div_mod_to_equations.

(* ---------- the parser on a number ---------- *)
Lemma valf_ge : forall ds a, a <= valf a ds.
Proof.
  induction ds as [|d ds IH]; intros a; [unfold valf; cbn [fold_left]; lia|].
  rewrite valf_cons. specialize (IH (a * 10 + (d - 48))). lia.
Qed.
Lemma chk_lt : forall x, x < U64 -> chk x = Some x.
Proof. intros x H. unfold chk. destruct (x <? U64) eqn:E; [reflexivity|lia]. Qed.

Lemma digits_go : forall ds a rest out, Forall (fun c => is_digit c = true) ds -> valf a ds < U64 ->
  pgo (ds ++ rest) (SNum a) out false = pgo rest (SNum (valf a ds)) out false.
Proof.
  induction ds as [|d ds IH]; intros a rest out D V; [reflexivity|].
  inversion D as [|x l Hd Hds]; subst. rewrite valf_cons in V |- *.
  cbn [app pgo]. rewrite Hd.
  pose proof (valf_ge ds (a * 10 + (d - 48))) as G.
  rewrite chk_lt by lia. apply IH; assumption.
Qed.

Lemma number_go : forall v rest out f, v < U64 ->
  pgo (dec v ++ rest) SFirst out f = pgo rest (SNum v) out false.
Proof.
  intros v rest out f V.
  pose proof (dec_digits v) as D. pose proof (val_dec v) as VD. pose proof (dec_nonempty v) as NE.
  destruct (dec v) as [|d ds] eqn:E; [cbn in NE; lia|].
  apply Forall_cons_iff in D. destruct D as [Hd Hds].
  cbn [app pgo]. rewrite Hd.
  rewrite valf_cons in VD. replace (0 * 10 + (d - 48)) with (d - 48) in VD by lia.
  rewrite digits_go by (try assumption; rewrite VD; exact V). rewrite VD. reflexivity.
Qed.

(* ---------- the parser on a unit name ---------- *)
Definition letter_ok (c : N) : bool := is_unit_letter c && negb (is_digit c) && negb (is_white c).
Lemma letters_go : forall name n u rest out, forallb letter_ok name = true ->
  pgo (name ++ rest) (SUnit n u) out false = pgo rest (SUnit n (rev name ++ u)) out false.
Proof.
  induction name as [|c name IH]; intros n u rest out H; [reflexivity|].
  cbn [forallb] in H. apply andb_true_iff in H. destruct H as [Hc Hr].
  unfold letter_ok in Hc. apply andb_true_iff in Hc. destruct Hc as [Hc Hw]. apply andb_true_iff in Hc. destruct Hc as [Hl Hd].
  apply negb_true_iff in Hd. apply negb_true_iff in Hw.
  cbn [app pgo]. rewrite Hd, Hw, Hl. rewrite IH by exact Hr. cbn [rev]. rewrite <- app_assoc. reflexivity.
Qed.
Lemma name_go : forall name n rest out, name <> [] -> forallb letter_ok name = true ->
  pgo (name ++ rest) (SNum n) out false = pgo rest (SUnit n (rev name)) out false.
Proof.
  intros name n rest out NE H. destruct name as [|c name]; [congruence|].
  cbn [forallb] in H. apply andb_true_iff in H. destruct H as [Hc Hr].
  unfold letter_ok in Hc. apply andb_true_iff in Hc. destruct Hc as [Hc Hw]. apply andb_true_iff in Hc. destruct Hc as [Hl Hd].
  apply negb_true_iff in Hd. apply negb_true_iff in Hw.
  cbn [app pgo]. rewrite Hd, Hw, Hl. rewrite letters_go by exact Hr. cbn [rev]. reflexivity.
Qed.

(* ---------- one item, then the dchain of items ---------- *)
Definition full_name (name : list N) (pl : bool) (v : N) : list N := name ++ (if pl && (1 <? v) then [115] else []).
Definition contrib (it : N * list N * bool) : option (N * N) :=
  let '(v, name, pl) := it in
  match unit_of (full_name name pl v) with Some u => unit_amount u v | None => None end.
Fixpoint accumulate (its : list (N * list N * bool)) (out : N * N) : option (N * N) :=
  match its with
  | [] => Some out
  | (v, name, pl) :: r =>
    if 0 <? v then
      match contrib (v, name, pl) with
      | Some (s, ns) => match add_current s ns out with Some o => accumulate r o | None => None end
      | None => None
      end
    else accumulate r out
  end.
Definition any_nz (its : list (N * list N * bool)) : bool := existsb (fun it => 0 <? fst (fst it)) its.
Definition item_ok (it : N * list N * bool) : Prop :=
  let '(v, name, pl) := it in v < U64 /\ name <> [] /\ forallb letter_ok (name ++ [115]) = true.

Lemma item_text_full : forall v name pl, item_text v name pl = dec v ++ full_name name pl v.
Proof. reflexivity. Qed.
Lemma full_name_ok : forall name pl v, name <> [] -> forallb letter_ok (name ++ [115]) = true ->
  full_name name pl v <> [] /\ forallb letter_ok (full_name name pl v) = true.
Proof.
  intros name pl v NE H. unfold full_name. rewrite forallb_app in H. apply andb_true_iff in H. destruct H as [H1 H2].
  split; [destruct name; [congruence|discriminate]|].
  rewrite forallb_app, H1. destruct (pl && (1 <? v)); [exact H2|reflexivity].
Qed.
Lemma parse_unit_contrib : forall v name pl out,
  parse_unit v (full_name name pl v) out =
  match contrib (v, name, pl) with Some (s, ns) => add_current s ns out | None => None end.
Proof.
  intros. unfold parse_unit, contrib. destruct (unit_of (full_name name pl v)) as [u|]; [|reflexivity].
  destruct (unit_amount u v) as [[s ns]|]; reflexivity.
Qed.

Lemma item_go : forall v name pl rest out f, item_ok (v, name, pl) ->
  pgo (item_text v name pl ++ rest) SFirst out f = pgo rest (SUnit v (rev (full_name name pl v))) out false.
Proof.
  intros v name pl rest out f [V [NE L]].
  destruct (full_name_ok name pl v NE L) as [FN FL].
  rewrite item_text_full, <- app_assoc, number_go by exact V. apply name_go; assumption.
Qed.

Lemma chain_true : forall its, Forall item_ok its ->
  dchain true its = match dchain false its with [] => [] | t => 32 :: t end.
Proof.
  induction its as [|[[v name] pl] r IH]; intros H; [reflexivity|].
  inversion H as [|x l Hi Hr]; subst. cbn [dchain]. destruct (0 <? v) eqn:E; [|apply IH; exact Hr].
  cbn [app]. pose proof (dec_nonempty v) as NE.
  rewrite item_text_full. destruct (dec v) as [|d ds]; [cbn in NE; lia|]. reflexivity.
Qed.
Lemma chain_nil : forall its, dchain false its = [] -> any_nz its = false /\ forall out, accumulate its out = Some out.
Proof.
  induction its as [|[[v name] pl] r IH]; intros H; [split; reflexivity|].
  cbn [dchain] in H. destruct (0 <? v) eqn:E.
  - exfalso. cbn [app] in H. rewrite item_text_full in H. pose proof (dec_nonempty v) as NE.
    destruct (dec v); [cbn in NE; lia|discriminate].
  - destruct (IH H) as [A B]. split; [unfold any_nz in *; cbn [existsb fst]; rewrite E; exact A|].
    intros out. cbn [accumulate]. rewrite E. apply B.
Qed.
Lemma chain_cons_nz : forall t its, dchain false its = t -> t <> [] -> any_nz its = true.
Proof.
  induction its as [|[[v name] pl] r IH]; intros H NE; [cbn in H; congruence|].
  unfold any_nz. cbn [existsb fst]. cbn [dchain] in H. destruct (0 <? v) eqn:E; [reflexivity|]. apply (IH H NE).
Qed.

(* what the parser makes of a dchain is exactly the accumulation of the items' amounts *)
Lemma parse_chain : forall its out f, Forall item_ok its ->
  pgo (dchain false its) SFirst out f =
  match accumulate its out with
  | None => DErr
  | Some o => if any_nz its then DOk (fst o) (snd o) else if f then DErr else DOk (fst out) (snd out)
  end.
Proof.
  induction its as [|[[v name] pl] r IH]; intros out f H; [reflexivity|].
  inversion H as [|x l Hi Hr]; subst.
  cbn [dchain accumulate]. unfold any_nz. cbn [existsb fst]. fold (any_nz r).
  destruct (0 <? v) eqn:E; [|cbn [orb]; apply IH; exact Hr].
  cbn [app orb]. rewrite chain_true by exact Hr.
  rewrite item_go by exact Hi.
  destruct (dchain false r) as [|c t] eqn:C.
  - cbn [pgo]. rewrite rev_involutive, parse_unit_contrib.
    destruct (contrib (v, name, pl)) as [[s ns]|]; [|reflexivity].
    destruct (add_current s ns out) as [o|]; [|reflexivity].
    destruct (chain_nil r C) as [_ B]. rewrite B. reflexivity.
  - assert (A: any_nz r = true) by (apply (chain_cons_nz (c :: t) r C); discriminate).
    remember (c :: t) as ct eqn:Ect.
    cbn [pgo]. change (is_digit 32) with false. change (is_white 32) with true. cbv iota.
    rewrite rev_involutive, parse_unit_contrib.
    destruct (contrib (v, name, pl)) as [[s ns]|]; [|reflexivity].
    destruct (add_current s ns out) as [o|]; [|reflexivity].
    rewrite IH by exact Hr. rewrite A. reflexivity.
Qed.

(* ---------- arithmetic: the amounts of the nine items add up to the duration ---------- *)
Lemma add_current_small : forall s ns out, fst out + s < U64 -> snd out + ns < NANOS ->
  add_current s ns out = Some (fst out + s, snd out + ns).
Proof.
  intros s ns [a b] Hs Hn. cbn [fst snd] in *. unfold add_current, duration_new. cbn [fst snd].
  assert (NANOS < U64) by (unfold NANOS, U64; lia).
  rewrite chk_lt by lia.
  destruct (NANOS <? b + ns) eqn:E; [lia|]. cbn [fst snd].
  rewrite chk_lt by lia.
  assert (D: (b + ns) / NANOS = 0) by (apply N.div_small; lia).
  assert (M: (b + ns) mod NANOS = b + ns) by (apply N.mod_small; lia).
  rewrite D, M, N.add_0_r, chk_lt by lia. reflexivity.
Qed.

Definition amount (it : N * list N * bool) : N * N := match contrib it with Some p => p | None => (0, 0) end.
Definition sum_s (its : list (N * list N * bool)) : N := fold_right (fun it a => fst (amount it) + a) 0 its.
Definition sum_n (its : list (N * list N * bool)) : N := fold_right (fun it a => snd (amount it) + a) 0 its.
Lemma amount_zero : forall name pl, amount (0, name, pl) = (0, 0).
Proof.
  intros. unfold amount, contrib. destruct (unit_of (full_name name pl 0)) as [u|]; [|reflexivity]. destruct u; reflexivity.
Qed.
Lemma accumulate_sum : forall its out, Forall (fun it => contrib it <> None) its ->
  fst out + sum_s its < U64 -> snd out + sum_n its < NANOS ->
  accumulate its out = Some (fst out + sum_s its, snd out + sum_n its).
Proof.
  induction its as [|[[v name] pl] r IH]; intros out C Hs Hn.
  - cbn. rewrite !N.add_0_r. destruct out; reflexivity.
  - apply Forall_cons_iff in C. destruct C as [Hc Hr].
    cbn [sum_s sum_n fold_right] in Hs, Hn |- *. fold (sum_s r) in *. fold (sum_n r) in *.
    cbn [accumulate]. destruct (0 <? v) eqn:E.
    + unfold amount in *. destruct (contrib (v, name, pl)) as [[s ns]|]; [|congruence]. cbn [fst snd] in *.
      rewrite add_current_small by lia. rewrite IH by (try assumption; cbn [fst snd]; lia).
      cbn [fst snd]. apply f_equal. apply f_equal2; lia.
    + assert (V0: v = 0) by lia. rewrite V0, amount_zero in *. cbn [fst snd] in *.
      rewrite IH by (try assumption; lia). apply f_equal. apply f_equal2; lia.
Qed.
Definition opt_amount (c : option (N * N)) : N * N := match c with Some p => p | None => (0, 0) end.
Lemma sum_s_map : forall its, sum_s its = fold_right (fun c a => fst (opt_amount c) + a) 0 (map contrib its).
Proof. induction its as [|it r IH]; [reflexivity|]. cbn [sum_s fold_right map]. fold (sum_s r). rewrite IH. reflexivity. Qed.
Lemma sum_n_map : forall its, sum_n its = fold_right (fun c a => snd (opt_amount c) + a) 0 (map contrib its).
Proof. induction its as [|it r IH]; [reflexivity|]. cbn [sum_n fold_right map]. fold (sum_n r). rewrite IH. reflexivity. Qed.

Lemma contrib_secs : forall v name pl u m, (forall b : bool, unit_of (name ++ (if b then [115] else [])) = Some u) ->
  (forall n, unit_amount u n = option_map (fun x => (x, 0)) (chk (n * m))) -> v * m < U64 ->
  contrib (v, name, pl) = Some (v * m, 0).
Proof.
  intros v name pl u m HU HA V. unfold contrib, full_name. rewrite HU, HA, chk_lt by exact V. reflexivity.
Qed.
Lemma contrib_nanos : forall v name pl u m, (forall b : bool, unit_of (name ++ (if b then [115] else [])) = Some u) ->
  (forall n, unit_amount u n = option_map (fun x => (0, x)) (chk (n * m))) -> v * m < U64 ->
  contrib (v, name, pl) = Some (0, v * m).
Proof.
  intros v name pl u m HU HA V. unfold contrib, full_name. rewrite HU, HA, chk_lt by exact V. reflexivity.
Qed.

Lemma name_year : forall b : bool, unit_of (S_YEAR ++ (if b then [115] else [])) = Some UYear. Proof. intros []; reflexivity. Qed.
Lemma name_month : forall b : bool, unit_of (S_MONTH ++ (if b then [115] else [])) = Some UMonth. Proof. intros []; reflexivity. Qed.
Lemma name_day : forall b : bool, unit_of (S_DAY ++ (if b then [115] else [])) = Some UDay. Proof. intros []; reflexivity. Qed.
Lemma am_year : forall n, unit_amount UYear n = option_map (fun x => (x, 0)) (chk (n * 31557600)). Proof. reflexivity. Qed.
Lemma am_month : forall n, unit_amount UMonth n = option_map (fun x => (x, 0)) (chk (n * 2630016)). Proof. reflexivity. Qed.
Lemma am_day : forall n, unit_amount UDay n = option_map (fun x => (x, 0)) (chk (n * 86400)). Proof. reflexivity. Qed.
Lemma am_hour : forall n, unit_amount UHour n = option_map (fun x => (x, 0)) (chk (n * 3600)). Proof. reflexivity. Qed.
Lemma am_min : forall n, unit_amount UMin n = option_map (fun x => (x, 0)) (chk (n * 60)). Proof. reflexivity. Qed.
Lemma am_milli : forall n, unit_amount UMilli n = option_map (fun x => (0, x)) (chk (n * 1000000)). Proof. reflexivity. Qed.
Lemma am_micro : forall n, unit_amount UMicro n = option_map (fun x => (0, x)) (chk (n * 1000)). Proof. reflexivity. Qed.

(* the plural flag is false for the short names: the name is used as it is *)
Lemma contrib_short_secs : forall v name u m, unit_of name = Some u ->
  (forall n, unit_amount u n = option_map (fun x => (x, 0)) (chk (n * m))) -> v * m < U64 ->
  contrib (v, name, false) = Some (v * m, 0).
Proof.
  intros v name u m HU HA V. unfold contrib, full_name. cbn [andb]. rewrite app_nil_r, HU, HA, chk_lt by exact V. reflexivity.
Qed.
Lemma contrib_short_nanos : forall v name u m, unit_of name = Some u ->
  (forall n, unit_amount u n = option_map (fun x => (0, x)) (chk (n * m))) -> v * m < U64 ->
  contrib (v, name, false) = Some (0, v * m).
Proof.
  intros v name u m HU HA V. unfold contrib, full_name. cbn [andb]. rewrite app_nil_r, HU, HA, chk_lt by exact V. reflexivity.
Qed.

Lemma items_contrib : forall secs nanos, secs < U64 -> nanos < NANOS ->
  let years := secs / Y_SECS in let ydays := secs mod Y_SECS in
  let months := ydays / MO_SECS in let mdays := ydays mod MO_SECS in
  let days := mdays / 86400 in let day_secs := mdays mod 86400 in
  let hours := day_secs / 3600 in let minutes := day_secs mod 3600 / 60 in let seconds := day_secs mod 60 in
  let millis := nanos / 1000000 in let micros := nanos / 1000 mod 1000 in let nanosec := nanos mod 1000 in
  map contrib (dur_items secs nanos) =
  [Some (years * Y_SECS, 0); Some (months * MO_SECS, 0); Some (days * 86400, 0); Some (hours * 3600, 0); Some (minutes * 60, 0);
   Some (seconds, 0); Some (0, millis * 1000000); Some (0, micros * 1000); Some (0, nanosec)].
Proof.
  intros secs nanos Hs Hn. cbv zeta. unfold dur_items. cbn [map].
  unfold U64, NANOS, Y_SECS, MO_SECS in Hs, Hn.
  rewrite (contrib_secs _ S_YEAR true UYear 31557600 name_year am_year) by (unfold U64, Y_SECS, MO_SECS; lia).
  rewrite (contrib_secs _ S_MONTH true UMonth 2630016 name_month am_month) by (unfold U64, Y_SECS, MO_SECS; lia).
  rewrite (contrib_secs _ S_DAY true UDay 86400 name_day am_day) by (unfold U64, Y_SECS, MO_SECS; lia).
  rewrite (contrib_short_secs _ S_H UHour 3600 eq_refl am_hour) by (unfold U64, Y_SECS, MO_SECS; lia).
  rewrite (contrib_short_secs _ S_M UMin 60 eq_refl am_min) by (unfold U64, Y_SECS, MO_SECS; lia).
  rewrite (contrib_short_nanos _ S_MS UMilli 1000000 eq_refl am_milli) by (unfold U64, Y_SECS, MO_SECS; lia).
  rewrite (contrib_short_nanos _ S_US UMicro 1000 eq_refl am_micro) by (unfold U64, Y_SECS, MO_SECS; lia).
  reflexivity.
Qed.

Lemma dur_items_ok : forall secs nanos, secs < U64 -> nanos < NANOS -> Forall item_ok (dur_items secs nanos).
Proof.
  intros secs nanos Hs Hn. unfold dur_items.
  repeat (apply Forall_cons; [unfold item_ok; split; [unfold U64, NANOS, Y_SECS, MO_SECS in *; lia|split; [discriminate|reflexivity]]|]).
  apply Forall_nil.
Qed.

Theorem duration_round_trip : forall secs nanos, secs < U64 -> nanos < NANOS ->
  parse_duration (format_duration secs nanos) = DOk secs nanos.
Proof.
  intros secs nanos Hs Hn. unfold format_duration.
  destruct ((secs =? 0) && (nanos =? 0)) eqn:Z.
  - assert (S0: secs = 0) by lia. assert (N0: nanos = 0) by lia. rewrite S0, N0. vm_compute. reflexivity.
  - unfold parse_duration.
    pose proof (items_contrib secs nanos Hs Hn) as IC. cbv zeta in IC.
    pose proof (dur_items_ok secs nanos Hs Hn) as OK.
    assert (ACC: accumulate (dur_items secs nanos) (0, 0) = Some (secs, nanos) /\ any_nz (dur_items secs nanos) = true).
    { split.
      - rewrite accumulate_sum.
        + rewrite sum_s_map, sum_n_map, IC. cbn [fold_right opt_amount fst snd].
          unfold Y_SECS, MO_SECS, U64, NANOS in *. apply f_equal. apply f_equal2; lia.
        + apply (proj1 (Forall_map contrib (fun c => c <> None) (dur_items secs nanos))). rewrite IC. repeat (apply Forall_cons; [discriminate|]). apply Forall_nil.
        + rewrite sum_s_map, IC. cbn [fold_right opt_amount fst snd]. unfold Y_SECS, MO_SECS, U64, NANOS in *. lia.
        + rewrite sum_n_map, IC. cbn [fold_right opt_amount fst snd]. unfold Y_SECS, MO_SECS, U64, NANOS in *. lia.
      - unfold any_nz, dur_items. cbn [existsb fst]. unfold Y_SECS, MO_SECS, U64, NANOS in *. lia. }
    destruct ACC as [ACC NZ].
    assert (T: text_eqb (dchain false (dur_items secs nanos)) [48] = false).
    { destruct (text_eqb (dchain false (dur_items secs nanos)) [48]) eqn:T; [|reflexivity].
      apply text_eqb_eq in T. pose proof (parse_chain (dur_items secs nanos) (0, 0) true OK) as P.
      rewrite T, ACC, NZ in P. vm_compute in P. discriminate. }
    rewrite T, parse_chain by exact OK. rewrite ACC, NZ. reflexivity.
Qed.

(* ---------- the transcription against the crate source that /repo locks (gen_Humantime.v is scraped on every run) ---------- *)
Definition unit_no (u : unit_t) : N :=
  match u with UNano => 0 | UMicro => 1 | UMilli => 2 | USec => 3 | UMin => 4 | UHour => 5 | UDay => 6 | UWeek => 7 | UMonth => 8 | UYear => 9 end.
Definition all_units : list unit_t := [UNano; UMicro; UMilli; USec; UMin; UHour; UDay; UWeek; UMonth; UYear].
Lemma unit_names_are_the_source : map (fun p => (fst p, unit_no (snd p))) unit_table = ht_unit_names.
Proof. vm_compute. reflexivity. Qed.
Lemma unit_amounts_are_the_source :
  map (fun u => match unit_amount u 1 with Some (s, ns) => (unit_no u, s + ns, 0 <? ns) | None => (unit_no u, 0, false) end) all_units
  = ht_unit_amounts.
Proof. vm_compute. reflexivity. Qed.
Lemma format_divisors_are_the_source : [Y_SECS; MO_SECS; 86400; 3600] = ht_format_divisors.
Proof. vm_compute. reflexivity. Qed.
