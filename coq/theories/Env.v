(* C18: work directories, the documented environment, clean-up.  Definitions only.
   (a) UniqueNamer::next_name (src/bin/utils/namer.rs);
   (b) the directories a run creates and removes, as a resource model of TestEnvironment::new / init_test_file /
       StatefulExecutor's state directory / Drop, following the control flow of commands/test.rs per document;
   (c) the variables every test case is given (names regenerated from build_env_vars) and SCRUT_TEST. *)
From Coq Require Import List NArith Bool Arith.
Import ListNotations.
From SV Require Import Config gen_Env Render.
Local Open Scope N_scope.

Notation text := (list N) (only parsing).

(* ---------- (a) UniqueNamer ---------- *)
Fixpoint mem (x : text) (l : list text) : bool := match l with [] => false | y :: r => text_eqb x y || mem x r end.
Definition candidate (name : text) (k : nat) : text :=
  match k with O => name | _ => name ++ [45] ++ dec (N.of_nat k) end.     (* name, name-1, name-2, ... *)
(* names: what the namer has handed out; exists_: what is on disk in its directory *)
Fixpoint search (fuel : nat) (names exists_ : list text) (name : text) (k : nat) : option text :=
  match fuel with
  | O => None
  | S f => let c := candidate name k in
           if mem c names || mem c exists_ then search f names exists_ name (S k) else Some c
  end.
Definition next_name (names exists_ : list text) (name : text) : option (text * list text) :=
  match search (S (S (length names + length exists_))) names exists_ name 0 with
  | Some c => Some (c, c :: names)
  | None => None       (* the while loop would not have ended: excluded by C18_namer_terminates *)
  end.
Fixpoint next_names (names exists_ : list text) (reqs : list text) : option (list text) :=
  match reqs with
  | [] => Some []
  | r :: rest => match next_name names exists_ r with
                 | Some (c, names') => option_map (cons c) (next_names names' exists_ rest)
                 | None => None
                 end
  end.

(* ---------- (b) directories ---------- *)
Inductive flag := FDefault | FWork | FKeep.        (* no option | --work-directory | --keep-temporary-directories *)
(* how the body of the per-document loop of `scrut test` ends *)
Inductive dclass :=
| DRun            (* execute_all returned Ok / Skipped / Timeout: success, validation failure, skip, timeout *)
| DBadInclude     (* a prepended / appended document cannot be read or parsed: `?` right after the environment was made *)
| DExecError.     (* the executor failed (unusable shell, ...): bail! *)

Inductive seg := SExec (i : nat) | STemp (i : nat) | SState (i : nat) | STmpSub | SDoc (name : text) | SFile (id : nat) | SGiven.
Definition path := list seg.
Definition seg_eqb (a b : seg) : bool :=
  match a, b with
  | SExec i, SExec j | STemp i, STemp j | SState i, SState j | SFile i, SFile j => Nat.eqb i j
  | STmpSub, STmpSub | SGiven, SGiven => true
  | SDoc x, SDoc y => text_eqb x y
  | _, _ => false
  end.
Fixpoint is_prefix (p q : path) : bool :=
  match p, q with [], _ => true | a :: p', b :: q' => seg_eqb a b && is_prefix p' q' | _ :: _, [] => false end.
Definition fs := list path.
Definition create (p : path) (s : fs) : fs := p :: s.
Definition remove_tree (p : path) (s : fs) : fs := filter (fun q => negb (is_prefix p q)) s.     (* TempDir::drop *)

Definition env_create (f : flag) (i : nat) (s : fs) : fs :=
  match f with
  | FKeep => create [STemp i] (create [SExec i] s)                    (* TempDir::into_path twice: kept *)
  | FWork => create [SGiven; STemp i] s                               (* TempDir::with_prefix_in("temp.", given) *)
  | FDefault => create [SExec i; STmpSub] (create [SExec i] s)        (* execution.X and execution.X/__tmp *)
  end.
Definition env_drop (f : flag) (i : nat) (s : fs) : fs :=
  match f with
  | FKeep => s
  | FWork => remove_tree [SGiven; STemp i] s
  | FDefault => remove_tree [SExec i] s
  end.
Definition work_dir (f : flag) (i : nat) (name : text) : path :=
  match f with FWork => [SGiven] | _ => [SExec i; SDoc name] end.
Definition tmp_dir (f : flag) (i : nat) : path :=
  match f with FKeep => [STemp i] | FWork => [SGiven; STemp i] | FDefault => [SExec i; STmpSub] end.

Record doc := mkDoc { d_name : text; d_class : dclass; d_work_files : list nat; d_tmp_files : list nat }.

(* one iteration of the loop over documents; the boolean says whether the loop goes on *)
Definition dir_run_doc (f : flag) (i : nat) (d : doc) (s : fs) : fs * bool :=
  let s1 := env_create f i s in
  match d_class d with
  | DBadInclude => (env_drop f i s1, false)
  | c =>
    let wd := work_dir f i (d_name d) in
    let s2 := match f with FWork => s1 | _ => create wd s1 end in                      (* init_test_file *)
    let s3 := create (tmp_dir f i ++ [SState i]) s2 in                                 (* the executor's .state.X *)
    let s4 := fold_right (fun id acc => create (wd ++ [SFile id]) acc) s3 (d_work_files d) in
    let s5 := fold_right (fun id acc => create (tmp_dir f i ++ [SFile id]) acc) s4 (d_tmp_files d) in
    let s6 := remove_tree (tmp_dir f i ++ [SState i]) s5 in
    (env_drop f i s6, match c with DRun => true | _ => false end)
  end.
Fixpoint dir_run_docs (f : flag) (i : nat) (ds : list doc) (s : fs) : fs :=
  match ds with
  | [] => s
  | d :: r => let (s', go) := dir_run_doc f i d s in if go then dir_run_docs f (S i) r s' else s'
  end.
(* the documents whose environment was created *)
Fixpoint dir_processed (ds : list doc) : nat :=
  match ds with [] => O | d :: r => match d_class d with DRun => S (dir_processed r) | _ => 1%nat end end.

(* nothing scrut creates exists beforehand (TempDir picks unused names) *)
Definition scrut_owned (p : path) : bool :=
  match p with SExec _ :: _ | STemp _ :: _ | SGiven :: STemp _ :: _ => true | _ => false end.
Definition pristine (s : fs) : bool := forallb (fun p => negb (scrut_owned p)) s.

(* ---------- (c) environment ---------- *)
Definition DOCUMENTED : list text :=
  [[84;69;83;84;68;73;82]; [84;69;83;84;70;73;76;69]; [84;69;83;84;83;72;69;76;76]; [84;77;80;68;73;82];   (* TESTDIR TESTFILE TESTSHELL TMPDIR *)
   [76;65;78;71]; [76;65;78;71;85;65;71;69]; [76;67;95;65;76;76]; [84;90]; [67;79;76;85;77;78;83];          (* LANG LANGUAGE LC_ALL TZ COLUMNS *)
   [67;68;80;65;84;72]; [71;82;69;80;95;79;80;84;73;79;78;83]].                                           (* CDPATH GREP_OPTIONS *)
Definition all_documented_set : bool := forallb (fun n => mem n (map fst env_always)) DOCUMENTED.
Definition SCRUT_TEST : text := [83;67;82;85;84;95;84;69;83;84].
(* StatefulExecutor: config.environment.insert("SCRUT_TEST", "<file>:<line>") on the merged configuration *)
Definition scrut_test_value (file : text) (line : N) : text := file ++ [58] ++ dec line.
