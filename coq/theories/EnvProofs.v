(* C18: proofs about the namer, the directory model and the environment. *)
From Coq Require Import List NArith ZArith Lia Bool Arith ZifyBool ZifyNat ZifyN.
Import ListNotations.
From SV Require Import Config ConfigProofs gen_Env Render RenderProofs Env.
Local Open Scope N_scope.
Ltac Zify.zify_post_hook ::= Z.div_mod_to_equations.

(* ---------- decimal printing is injective (so name-1, name-2, ... are pairwise different) ---------- *)
Definition valf (a : N) (t : list N) : N := fold_left (fun a c => a * 10 + (c - 48)) t a.

Lemma dec_aux_S : forall f n acc, dec_aux (S f) n acc =
  if n <? 10 then (48 + n mod 10) :: acc else dec_aux f (n / 10) ((48 + n mod 10) :: acc).
Proof. reflexivity. Qed.
Lemma nd_S : forall f n, nd (S f) n = if n <? 10 then 1%nat else S (nd f (n / 10)).
Proof. reflexivity. Qed.
Lemma valf_cons : forall a c t, valf a (c :: t) = valf (a * 10 + (c - 48)) t.
Proof. reflexivity. Qed.

Lemma valf_dec_aux : forall f n acc a, n < 2 ^ N.of_nat f ->
  valf a (dec_aux (S f) n acc) = valf (a * 10 ^ N.of_nat (nd (S f) n) + n) acc.
Proof.
  induction f as [|f IH]; intros n acc a Hn.
  - cbn in Hn. assert (n = 0) by lia. subst. rewrite dec_aux_S, nd_S. change (0 <? 10) with true. cbv iota.
    rewrite valf_cons. reflexivity.
  - rewrite dec_aux_S, nd_S. destruct (n <? 10) eqn:E.
    + rewrite valf_cons. f_equal. change (N.of_nat 1) with 1. rewrite N.pow_1_r.
      assert (n mod 10 = n) by (apply N.mod_small; lia). lia.
    + rewrite IH by (rewrite Nat2N.inj_succ, N.pow_succ_r' in Hn; lia).
      rewrite valf_cons. f_equal.
      rewrite Nat2N.inj_succ, N.pow_succ_r'.
      assert (H10: n = 10 * (n / 10) + n mod 10) by (apply N.div_mod; lia).
      set (q := n / 10) in *. set (r := n mod 10) in *. set (p := 10 ^ N.of_nat (nd (S f) q)). nia.
Qed.

Lemma val_dec : forall n, valf 0 (dec n) = n.
Proof.
  intros n. unfold dec. rewrite valf_dec_aux by apply size_nat_bound. unfold valf. cbn [fold_left]. lia.
Qed.
Lemma dec_injective : forall n m, dec n = dec m -> n = m.
Proof. intros n m H. rewrite <- (val_dec n), <- (val_dec m), H. reflexivity. Qed.

Lemma text_eqb_eq : forall a b, text_eqb a b = true <-> a = b.
Proof.
  induction a as [|x a IH]; destruct b as [|y b]; cbn [text_eqb]; split; intros H; try discriminate; try reflexivity.
  - apply andb_true_iff in H. destruct H as [H1 H2]. apply IH in H2. f_equal; [lia|exact H2].
  - inversion H; subst. apply andb_true_iff. split; [lia|apply IH; reflexivity].
Qed.
Lemma mem_In : forall x l, mem x l = true <-> In x l.
Proof.
  induction l as [|y r IH]; cbn [mem In]; [split; [discriminate|tauto]|].
  rewrite orb_true_iff, IH, text_eqb_eq. split; intros [H|H]; auto.
Qed.

Lemma candidate_injective : forall name j k, candidate name j = candidate name k -> j = k.
Proof.
  intros name j k H. unfold candidate in H.
  destruct j as [|j], k as [|k]; try reflexivity.
  - exfalso. apply (f_equal (@length N)) in H. rewrite !app_length in H. cbn in H. lia.
  - exfalso. apply (f_equal (@length N)) in H. rewrite !app_length in H. cbn in H. lia.
  - apply app_inv_head in H. cbn [app] in H. inversion H as [H1]. apply dec_injective in H1. lia.
Qed.

(* ---------- the namer ---------- *)
(* the search returns a candidate that is neither handed out nor on disk *)
Lemma search_sound : forall fuel names ex name k c, search fuel names ex name k = Some c ->
  ~ In c names /\ ~ In c ex /\ exists j, c = candidate name j.
Proof.
  induction fuel as [|f IH]; intros names ex name k c H; [discriminate|].
  cbn [search] in H. destruct (mem (candidate name k) names || mem (candidate name k) ex) eqn:E.
  - eapply IH; eauto.
  - inversion H; subst c. apply orb_false_iff in E. destruct E as [E1 E2].
    split; [intro X; apply mem_In in X; congruence|]. split; [intro X; apply mem_In in X; congruence|]. eauto.
Qed.

(* pigeonhole: among fuel consecutive candidates at most |names|+|ex| are taken *)
Lemma remove_one : forall (x : list N) l, In x l -> exists l', length l = S (length l') /\ forall y, In y l -> y = x \/ In y l'.
Proof.
  induction l as [|z r IH]; intros H; [destruct H|].
  destruct H as [->|H].
  - exists r. split; [reflexivity|]. intros y [->|Hy]; auto.
  - destruct (IH H) as [l' [L P]]. exists (z :: l'). split; [cbn; lia|].
    intros y [->|Hy]; [right; left; reflexivity|]. destruct (P y Hy); [left; assumption|right; right; assumption].
Qed.

Lemma search_terminates : forall fuel names ex name k (T : list (list N)),
  (forall j, (k <= j)%nat -> In (candidate name j) names \/ In (candidate name j) ex -> In (candidate name j) T) ->
  (length T < fuel)%nat -> exists c, search fuel names ex name k = Some c.
Proof.
  induction fuel as [|f IH]; intros names ex name k T Hsub Hlen; [lia|].
  cbn [search]. destruct (mem (candidate name k) names || mem (candidate name k) ex) eqn:E; [|eauto].
  assert (Hin: In (candidate name k) T).
  { apply Hsub; [lia|]. apply orb_true_iff in E. destruct E as [E|E]; apply mem_In in E; auto. }
  destruct (remove_one _ _ Hin) as [T' [L P]].
  apply (IH names ex name (S k) T'); [|lia].
  intros j Hj Ht. destruct (P _ (Hsub j ltac:(lia) Ht)) as [Heq|H']; [|exact H'].
  apply candidate_injective in Heq. lia.
Qed.

Lemma next_name_total : forall names ex name, exists c, next_name names ex name = Some (c, c :: names).
Proof.
  intros names ex name. unfold next_name.
  destruct (search_terminates (S (S (length names + length ex))) names ex name 0 (names ++ ex)) as [c ->].
  - intros j _ [H|H]; apply in_or_app; auto.
  - rewrite app_length. lia.
  - eauto.
Qed.

Lemma next_name_fresh : forall names ex name c names', next_name names ex name = Some (c, names') ->
  names' = c :: names /\ ~ In c names /\ ~ In c ex.
Proof.
  intros names ex name c names' H. unfold next_name in H.
  destruct (search _ names ex name 0) as [c0|] eqn:E; [|discriminate]. inversion H; subst.
  destruct (search_sound _ _ _ _ _ _ E) as [H1 [H2 _]]. auto.
Qed.

(* whatever is asked for -- also the same file name again and again, also names that look like earlier answers --
   the names handed out are pairwise different and none of them existed *)
Theorem namer_distinct : forall reqs names ex out, next_names names ex reqs = Some out ->
  NoDup out /\ forall c, In c out -> ~ In c names /\ ~ In c ex.
Proof.
  induction reqs as [|r rest IH]; intros names ex out H; cbn [next_names] in H.
  - inversion H. split; [constructor|intros c []].
  - destruct (next_name names ex r) as [[c names']|] eqn:E; [|discriminate].
    destruct (next_names names' ex rest) as [out'|] eqn:E2; [|discriminate]. inversion H; subst out. clear H.
    destruct (next_name_fresh _ _ _ _ _ E) as [-> [F1 F2]].
    destruct (IH _ _ _ E2) as [ND Hall]. split.
    + constructor; [|exact ND]. intro X. destruct (Hall c X) as [N1 _]. apply N1. left. reflexivity.
    + intros c' [<-|Hc]; [auto|]. destruct (Hall c' Hc) as [N1 N2]. split; [intro X; apply N1; right; exact X|exact N2].
Qed.

Theorem namer_total : forall reqs names ex, exists out, next_names names ex reqs = Some out /\ length out = length reqs.
Proof.
  induction reqs as [|r rest IH]; intros names ex; cbn [next_names]; [exists []; split; reflexivity|].
  destruct (next_name_total names ex r) as [c ->]. destruct (IH (c :: names) ex) as [out [-> L]].
  exists (c :: out). split; [reflexivity|cbn; lia].
Qed.

(* ---------- directories ---------- *)
Definition own (i : nat) (q : path) : bool := match q with SExec j :: _ => Nat.eqb j i | _ => false end.

Lemma seg_eqb_refl : forall a, seg_eqb a a = true.
Proof. destruct a; cbn; try apply Nat.eqb_refl; try reflexivity. apply text_eqb_eq. reflexivity. Qed.
Lemma is_prefix_refl_app : forall p q, is_prefix p (p ++ q) = true.
Proof. induction p as [|a p IH]; intros q; cbn; [reflexivity|]. rewrite seg_eqb_refl. apply IH. Qed.

Lemma prefix_exec_own : forall i r q, is_prefix (SExec i :: r) q = true -> own i q = true.
Proof.
  intros i r q H. destruct q as [|b q]; cbn in H; [discriminate|].
  apply andb_true_iff in H. destruct H as [H _]. destruct b; cbn in H; try discriminate. cbn. rewrite Nat.eqb_sym. exact H.
Qed.
Lemma own_prefix_exec : forall i q, own i q = true -> is_prefix [SExec i] q = true.
Proof.
  intros i q H. destruct q as [|b q]; [discriminate|]. destruct b; try discriminate. cbn in *.
  rewrite Nat.eqb_sym, H. destruct q; reflexivity.
Qed.
Lemma pristine_not_own : forall s i, pristine s = true -> forallb (fun q => negb (own i q)) s = true.
Proof.
  intros s i H. unfold pristine in H. rewrite forallb_forall in *. intros q Hq. specialize (H q Hq).
  destruct q as [|b q]; [reflexivity|]. destruct b; try reflexivity. cbn in H. discriminate.
Qed.

Lemma remove_tree_app : forall p a b, remove_tree p (a ++ b) = remove_tree p a ++ remove_tree p b.
Proof. intros. unfold remove_tree. apply filter_app. Qed.
Lemma remove_tree_keeps : forall p s, forallb (fun q => negb (is_prefix p q)) s = true -> remove_tree p s = s.
Proof.
  intros p s H. unfold remove_tree. induction s as [|q s IH]; [reflexivity|].
  cbn [forallb] in H. apply andb_true_iff in H. destruct H as [H1 H2]. cbn [filter]. rewrite H1, IH; auto.
Qed.
Lemma remove_tree_all : forall p c, forallb (is_prefix p) c = true -> remove_tree p c = [].
Proof.
  intros p c H. unfold remove_tree. induction c as [|q c IH]; [reflexivity|].
  cbn [forallb] in H. apply andb_true_iff in H. destruct H as [H1 H2]. cbn [filter]. rewrite H1. cbn. auto.
Qed.
Lemma remove_tree_own : forall i p c, forallb (own i) c = true -> forallb (own i) (remove_tree p c) = true.
Proof.
  intros i p c H. unfold remove_tree. rewrite forallb_forall in *. intros q Hq. apply filter_In in Hq. apply H, Hq.
Qed.

(* without options: everything a document creates lies under its own execution.X, and that is removed *)
Definition inv (i : nat) (s0 cur : fs) : Prop := exists c, cur = c ++ s0 /\ forallb (own i) c = true.
Lemma inv_start : forall i s0, inv i s0 s0.
Proof. intros. exists []. split; reflexivity. Qed.
Lemma inv_create : forall i s0 cur p, own i p = true -> inv i s0 cur -> inv i s0 (create p cur).
Proof. intros i s0 cur p Hp [c [-> Hc]]. exists (p :: c). split; [reflexivity|]. cbn [forallb]. rewrite Hp, Hc. reflexivity. Qed.
Lemma inv_fold : forall i s0 (g : nat -> path) l cur, (forall id, own i (g id) = true) -> inv i s0 cur ->
  inv i s0 (fold_right (fun id acc => create (g id) acc) cur l).
Proof. intros i s0 g l cur Hg H. induction l as [|id r IH]; cbn [fold_right]; [exact H|]. apply inv_create; [apply Hg|exact IH]. Qed.
Lemma inv_remove : forall i s0 r cur, pristine s0 = true -> inv i s0 cur -> inv i s0 (remove_tree (SExec i :: r) cur).
Proof.
  intros i s0 r cur Hp [c [-> Hc]]. exists (remove_tree (SExec i :: r) c). split; [|apply remove_tree_own; exact Hc].
  rewrite remove_tree_app. f_equal. apply remove_tree_keeps.
  pose proof (pristine_not_own s0 i Hp) as Hn. rewrite forallb_forall in *. intros q Hq. specialize (Hn q Hq).
  destruct (is_prefix (SExec i :: r) q) eqn:E; [|reflexivity]. apply prefix_exec_own in E. rewrite E in Hn. discriminate.
Qed.
Lemma inv_drop : forall i s0 cur, pristine s0 = true -> inv i s0 cur -> remove_tree [SExec i] cur = s0.
Proof.
  intros i s0 cur Hp [c [-> Hc]]. rewrite remove_tree_app, remove_tree_all.
  - cbn [app]. apply remove_tree_keeps.
    pose proof (pristine_not_own s0 i Hp) as Hn. rewrite forallb_forall in *. intros q Hq. specialize (Hn q Hq).
    destruct (is_prefix [SExec i] q) eqn:E; [|reflexivity]. apply prefix_exec_own in E. rewrite E in Hn. discriminate.
  - rewrite forallb_forall in *. intros q Hq. apply own_prefix_exec, Hc, Hq.
Qed.

Lemma run_doc_default : forall i d s, pristine s = true -> fst (dir_run_doc FDefault i d s) = s.
Proof.
  intros i d s Hp.
  assert (O: forall r, own i (SExec i :: r) = true) by (intros; cbn; apply Nat.eqb_refl).
  assert (I1: inv i s (env_create FDefault i s)).
  { unfold env_create. apply inv_create; [apply O|]. apply inv_create; [apply O|]. apply inv_start. }
  unfold dir_run_doc. destruct (d_class d); cbn [fst env_drop].
  - apply inv_drop; [exact Hp|]. apply (inv_remove i s [STmpSub; SState i]); [exact Hp|].
    apply (inv_fold i s (fun id => tmp_dir FDefault i ++ [SFile id])); [intros; apply O|].
    apply (inv_fold i s (fun id => work_dir FDefault i (d_name d) ++ [SFile id])); [intros; apply O|].
    apply inv_create; [apply O|]. apply inv_create; [apply O|]. exact I1.
  - apply inv_drop; [exact Hp|]. exact I1.
  - apply inv_drop; [exact Hp|]. apply (inv_remove i s [STmpSub; SState i]); [exact Hp|].
    apply (inv_fold i s (fun id => tmp_dir FDefault i ++ [SFile id])); [intros; apply O|].
    apply (inv_fold i s (fun id => work_dir FDefault i (d_name d) ++ [SFile id])); [intros; apply O|].
    apply inv_create; [apply O|]. apply inv_create; [apply O|]. exact I1.
Qed.

Theorem cleanup_default : forall ds i s, pristine s = true -> dir_run_docs FDefault i ds s = s.
Proof.
  induction ds as [|d r IH]; intros i s Hp; [reflexivity|].
  cbn [dir_run_docs]. pose proof (run_doc_default i d s Hp) as H.
  destruct (dir_run_doc FDefault i d s) as [s' go]. cbn [fst] in H. subst s'. destruct go; [apply IH; exact Hp|reflexivity].
Qed.

(* --work-directory: the given directory and everything in it stays; only temp.X inside it comes and goes *)
Lemma in_remove_tree : forall p q s, In q (remove_tree p s) <-> In q s /\ is_prefix p q = false.
Proof. intros. unfold remove_tree. rewrite filter_In. rewrite negb_true_iff. tauto. Qed.
Lemma is_prefix_app_inv : forall p r q, is_prefix (p ++ r) q = true -> is_prefix p q = true.
Proof.
  induction p as [|a p IH]; intros r q H; [reflexivity|]. destruct q as [|b q]; [discriminate|].
  cbn in *. apply andb_true_iff in H. destruct H as [H1 H2]. rewrite H1. eapply IH; eauto.
Qed.
Lemma prefix_given_temp_owned : forall i q, is_prefix [SGiven; STemp i] q = true -> scrut_owned q = true.
Proof.
  intros i q H. destruct q as [|a q]; [discriminate|]. destruct a; try discriminate.
  destruct q as [|b q]; [discriminate|]. destruct b; try discriminate. reflexivity.
Qed.

Definition invw (i : nat) (s0 cur : fs) : Prop :=
  incl s0 cur /\ forall q, In q cur -> scrut_owned q = true -> is_prefix [SGiven; STemp i] q = true.
Lemma invw_create : forall i s0 cur p, (scrut_owned p = false \/ is_prefix [SGiven; STemp i] p = true) -> invw i s0 cur -> invw i s0 (create p cur).
Proof.
  intros i s0 cur p Hp [H1 H2]. split; [intros q Hq; right; apply H1, Hq|].
  intros q [<-|Hq] Ho; [destruct Hp as [Hp|Hp]; [congruence|exact Hp]|apply H2; assumption].
Qed.
Lemma invw_fold : forall i s0 (g : nat -> path) l cur,
  (forall id, scrut_owned (g id) = false \/ is_prefix [SGiven; STemp i] (g id) = true) -> invw i s0 cur ->
  invw i s0 (fold_right (fun id acc => create (g id) acc) cur l).
Proof. intros i s0 g l cur Hg H. induction l as [|id r IH]; cbn [fold_right]; [exact H|]. apply invw_create; [apply Hg|exact IH]. Qed.
Lemma invw_remove : forall i s0 r cur, pristine s0 = true -> invw i s0 cur -> invw i s0 (remove_tree ([SGiven; STemp i] ++ r) cur).
Proof.
  intros i s0 r cur Hp [H1 H2]. split.
  - intros q Hq. apply in_remove_tree. split; [apply H1, Hq|].
    destruct (is_prefix ([SGiven; STemp i] ++ r) q) eqn:E; [|reflexivity].
    apply is_prefix_app_inv, prefix_given_temp_owned in E. unfold pristine in Hp. rewrite forallb_forall in Hp.
    specialize (Hp q Hq). rewrite E in Hp. discriminate.
  - intros q Hq Ho. apply in_remove_tree in Hq. apply H2; tauto.
Qed.

Lemma run_doc_work : forall i d s, pristine s = true ->
  pristine (fst (dir_run_doc FWork i d s)) = true /\ incl s (fst (dir_run_doc FWork i d s)).
Proof.
  intros i d s Hp.
  assert (Fin: forall cur, invw i s cur -> pristine (remove_tree [SGiven; STemp i] cur) = true /\ incl s (remove_tree [SGiven; STemp i] cur)).
  { intros cur Hc. pose proof (invw_remove i s [] cur Hp Hc) as [H1 H2]. rewrite app_nil_r in *. split; [|exact H1].
    unfold pristine. apply forallb_forall. intros q Hq. destruct (scrut_owned q) eqn:E; [|reflexivity].
    pose proof (H2 q Hq E) as P. apply in_remove_tree in Hq. destruct Hq as [_ Hq]. congruence. }
  assert (I1: invw i s (env_create FWork i s)).
  { unfold env_create. apply invw_create; [right; cbn; rewrite Nat.eqb_refl; reflexivity|].
    split; [apply incl_refl|]. intros q Hq Ho. unfold pristine in Hp. rewrite forallb_forall in Hp. specialize (Hp q Hq). rewrite Ho in Hp. discriminate. }
  assert (T: forall r, is_prefix [SGiven; STemp i] ([SGiven; STemp i] ++ r) = true) by (intros; apply is_prefix_refl_app).
  unfold dir_run_doc. destruct (d_class d); cbn [fst env_drop].
  - apply Fin. apply (invw_remove i s [SState i]); [exact Hp|].
    apply (invw_fold i s (fun id => tmp_dir FWork i ++ [SFile id])); [intros; right; apply T|].
    apply (invw_fold i s (fun id => work_dir FWork i (d_name d) ++ [SFile id])); [intros; left; reflexivity|].
    apply invw_create; [right; apply T|]. exact I1.
  - apply Fin. exact I1.
  - apply Fin. apply (invw_remove i s [SState i]); [exact Hp|].
    apply (invw_fold i s (fun id => tmp_dir FWork i ++ [SFile id])); [intros; right; apply T|].
    apply (invw_fold i s (fun id => work_dir FWork i (d_name d) ++ [SFile id])); [intros; left; reflexivity|].
    apply invw_create; [right; apply T|]. exact I1.
Qed.

Theorem cleanup_work : forall ds i s, pristine s = true ->
  pristine (dir_run_docs FWork i ds s) = true /\ incl s (dir_run_docs FWork i ds s).
Proof.
  induction ds as [|d r IH]; intros i s Hp; [split; [exact Hp|apply incl_refl]|].
  cbn [dir_run_docs]. pose proof (run_doc_work i d s Hp) as [H1 H2].
  destruct (dir_run_doc FWork i d s) as [s' go]. cbn [fst] in *. destruct go; [|split; assumption].
  destruct (IH (S i) s' H1) as [G1 G2]. split; [exact G1|]. eapply incl_tran; eauto.
Qed.

(* --keep-temporary-directories: nothing but the executor's state directory is ever removed, and each document whose
   environment was set up leaves its execution.X and temp.X behind *)
Definition is_state (q : path) : bool := existsb (fun g => match g with SState _ => true | _ => false end) q.
Lemma prefix_state : forall p q, is_prefix p q = true -> is_state p = true -> is_state q = true.
Proof.
  induction p as [|a p IH]; intros q H Hs; [discriminate|]. destruct q as [|b q]; [discriminate|].
  cbn in H. apply andb_true_iff in H. destruct H as [H1 H2]. cbn [is_state existsb] in *.
  apply orb_true_iff in Hs. destruct Hs as [Hs|Hs].
  - destruct a; try discriminate. destruct b; try discriminate. reflexivity.
  - apply orb_true_iff. right. apply (IH q H2 Hs).
Qed.

Lemma run_doc_keep : forall i d s,
  (forall q, In q s -> is_state q = false -> In q (fst (dir_run_doc FKeep i d s)))
  /\ In [SExec i] (fst (dir_run_doc FKeep i d s)) /\ In [STemp i] (fst (dir_run_doc FKeep i d s)).
Proof.
  intros i d s.
  assert (F: forall (g : nat -> path) l cur q, In q cur -> In q (fold_right (fun id acc => create (g id) acc) cur l)).
  { intros g l cur q H. induction l; cbn [fold_right]; [exact H|right; assumption]. }
  assert (R: forall cur q, In q cur -> is_state q = false -> In q (remove_tree (tmp_dir FKeep i ++ [SState i]) cur)).
  { intros cur q H Hs. apply in_remove_tree. split; [exact H|].
    destruct (is_prefix (tmp_dir FKeep i ++ [SState i]) q) eqn:E; [|reflexivity].
    apply prefix_state in E; [congruence|reflexivity]. }
  unfold dir_run_doc. destruct (d_class d); cbn [fst env_drop env_create create].
  - split; [|split].
    + intros q Hq Hs. apply R; [|exact Hs]. apply F, F. right. right. right. right. exact Hq.
    + apply R; [|reflexivity]. apply F, F. right. right. right. left. reflexivity.
    + apply R; [|reflexivity]. apply F, F. right. right. left. reflexivity.
  - split; [|split]; [intros q Hq _; right; right; exact Hq|right; left; reflexivity|left; reflexivity].
  - split; [|split].
    + intros q Hq Hs. apply R; [|exact Hs]. apply F, F. right. right. right. right. exact Hq.
    + apply R; [|reflexivity]. apply F, F. right. right. right. left. reflexivity.
    + apply R; [|reflexivity]. apply F, F. right. right. left. reflexivity.
Qed.

Theorem keep_keeps : forall ds i s,
  (forall q, In q s -> is_state q = false -> In q (dir_run_docs FKeep i ds s))
  /\ forall j, (j < dir_processed ds)%nat -> In [SExec (i + j)] (dir_run_docs FKeep i ds s) /\ In [STemp (i + j)] (dir_run_docs FKeep i ds s).
Proof.
  induction ds as [|d r IH]; intros i s; [split; [intros; assumption|intros j Hj; cbn in Hj; lia]|].
  cbn [dir_run_docs]. pose proof (run_doc_keep i d s) as [K1 [K2 K3]].
  assert (Go: snd (dir_run_doc FKeep i d s) = match d_class d with DRun => true | _ => false end).
  { unfold dir_run_doc. destruct (d_class d); reflexivity. }
  destruct (dir_run_doc FKeep i d s) as [s' go]. cbn [fst snd] in *. subst go.
  cbn [dir_processed]. destruct (d_class d).
  - destruct (IH (S i) s') as [G1 G2]. split.
    + intros q Hq Hs. apply G1; [apply K1; assumption|exact Hs].
    + intros j Hj. destruct j as [|j].
      * rewrite Nat.add_0_r. split; apply G1; auto.
      * replace (i + S j)%nat with (S i + j)%nat by lia. apply G2. lia.
  - split; [exact K1|]. intros j Hj. assert (j = 0)%nat by lia. subst. rewrite Nat.add_0_r. auto.
  - split; [exact K1|]. intros j Hj. assert (j = 0)%nat by lia. subst. rewrite Nat.add_0_r. auto.
Qed.

(* two documents of one run never share a work directory (unless one is given), whatever their file names *)
Theorem work_dirs_distinct : forall f i j n m, f <> FWork -> i <> j -> work_dir f i n <> work_dir f j m.
Proof. intros f i j n m Hf Hij H. destruct f; [|congruence|]; inversion H; congruence. Qed.

(* ---------- environment ---------- *)
(* the variables scrut sets for a document reach every test case whatever the configuration layers say (C16), and
   SCRUT_TEST, inserted by the executor into the merged configuration, wins over everything *)
Theorem forced_env_reaches_test : forall cli tc doc fmt forced k v,
  lookup k forced = Some v -> lookup k (environment (effective cli tc doc fmt forced)) = Some v.
Proof. intros. rewrite precedence_env. cbn [first_some]. rewrite H. reflexivity. Qed.

Theorem scrut_test_set_afresh : forall c k v, lookup k (environment (with_environment c [(k, v)])) = Some v.
Proof.
  intros c k v. cbn [with_environment environment]. rewrite lookup_app. cbn [lookup]. rewrite N.eqb_refl. reflexivity.
Qed.
