(* Model of src/escaping.rs (both modes) and of the reader of `(escaped)` expectations
   (src/rules/escaped_filter.rs, src/rules/escaped.rs).  Bytes and code points are N. Definitions only. *)
From Coq Require Import List NArith Bool.
Import ListNotations.
From SV Require Import Utf8 gen_Unicode Lines.
Local Open Scope N_scope.

(* ---------- writer, ASCII mode ---------- *)
Definition hexd (d : N) : N := if d <? 10 then 48 + d else 87 + d.
Definition printable (b : N) : bool := (32 <=? b) && (b <=? 126).

Definition byte_to_ascii (b : N) : list N :=
  if b =? 10 then [92; 110]
  else if b =? 13 then [92; 114]
  else if b =? 9 then [92; 116]
  else if b =? 7 then [92; 97]
  else if b =? 8 then [92; 98]
  else if b =? 12 then [92; 102]
  else if b =? 11 then [92; 118]
  else if b =? 92 then [92; 92]
  else if printable b then [b]
  else [92; 120; hexd (b / 16); hexd (b mod 16)].

Definition has_unprintable_ascii (bs : list N) : bool := existsb (fun b => negb (printable b)) bs.
(* the result is text: a list of code points (all ASCII when anything was escaped); the not-escaped branch is
   String::from_utf8_lossy of printable ASCII bytes, i.e. the bytes themselves *)
Definition escaped_printable_ascii (bs : list N) : list N :=
  if has_unprintable_ascii bs then flat_map byte_to_ascii bs else bs.

(* ---------- writer, Unicode mode ---------- *)
Definition in_ranges (rs : list (N * N)) (c : N) : bool := existsb (fun r => (fst r <=? c) && (c <=? snd r)) rs.
Definition is_other (c : N) : bool := in_ranges other_ranges c.   (* table regenerated from the linked crate *)

Definition esc_char (esc : bool) (c : N) : list N :=
  if is_other c then escaped_printable_ascii (enc c)
  else if (c =? 92) && esc then [92; 92] else [c].
Definition escaped_printable_unicode (bs : list N) : list N :=
  match utf8_decode bs with
  | Some cs => flat_map (esc_char (existsb is_other cs)) cs
  | None => escaped_printable_ascii bs
  end.
Definition has_unprintable_unicode (bs : list N) : bool :=
  match utf8_decode bs with Some cs => existsb is_other cs | None => true end.

(* ---------- what scrut writes for a line of output (Escaper::escaped_expectation) ---------- *)
Inductive mode := Ascii | Unicode.
Inductive written := Plain (text : list N) | Escaped (text : list N).   (* Escaped t is written as `t (escaped)` *)

Fixpoint trim_newlines_rev (r : list N) : list N :=
  match r with 10 :: t => trim_newlines_rev t | _ => r end.
Definition trim_newlines (l : list N) : list N := rev (trim_newlines_rev (rev l)).

Definition has_unprintable (m : mode) (bs : list N) : bool :=
  match m with Ascii => has_unprintable_ascii bs | Unicode => has_unprintable_unicode bs end.
Definition escaped_printable (m : mode) (bs : list N) : list N :=
  match m with Ascii => escaped_printable_ascii bs | Unicode => escaped_printable_unicode bs end.
(* text of a valid UTF-8 byte string; only used where the string is known to be valid *)
Definition text_of (bs : list N) : list N := match utf8_decode bs with Some cs => cs | None => bs end.
Definition escaped_expectation (m : mode) (line : list N) : written :=
  let t := trim_newlines line in
  if has_unprintable m t then Escaped (escaped_printable m t) else Plain (text_of t).

(* ---------- reader: unescape_tabs, resolve_escape_sequences_to_bytes, EscapedRule ---------- *)
Definition sel (c2 : N) : list N :=
  if c2 =? 97 then [7] else if c2 =? 98 then [8] else if c2 =? 101 then [27]
  else if c2 =? 102 then [12] else if c2 =? 114 then [13] else if c2 =? 116 then [9]
  else if c2 =? 118 then [11] else [92; c2].

Fixpoint unescape_tabs (cs : list N) : list N :=
  match cs with
  | [] => []
  | c :: r =>
    if c =? 92 then
      match r with
      | c2 :: r' => sel c2 ++ unescape_tabs r'
      | [] => [92]
      end
    else c :: unescape_tabs r
  end.

(* value of a digit character in the given radix (u8::from_str_radix on one char) *)
Definition digit (radix c : N) : option N :=
  let v := if (48 <=? c) && (c <=? 57) then Some (c - 48)
           else if (97 <=? c) && (c <=? 122) then Some (c - 87)
           else if (65 <=? c) && (c <=? 90) then Some (c - 55) else None in
  match v with Some d => if d <? radix then Some d else None | None => None end.
(* two characters; from_str_radix accepts a leading '+' *)
Definition two (radix a b : N) : option N :=
  if a =? 43 then digit radix b
  else match digit radix a, digit radix b with
       | Some x, Some y => Some (x * radix + y)
       | _, _ => None
       end.

Fixpoint resolve (cs : list N) : option (list N) :=
  match cs with
  | [] => Some []
  | c :: r =>
    if c =? 92 then
      match r with
      | [] => None                                   (* "unused tailing escape" *)
      | c2 :: r' =>
        if c2 =? 48 then
          match r' with
          | a :: b :: r'' => match two 8 a b with Some v => option_map (cons v) (resolve r'') | None => None end
          | _ => None
          end
        else if c2 =? 120 then
          match r' with
          | a :: b :: r'' => match two 16 a b with Some v => option_map (cons v) (resolve r'') | None => None end
          | _ => None
          end
        else if c2 =? 92 then option_map (cons 92) (resolve r')
        else option_map (fun t => 92 :: (c2 mod 256) :: t) (resolve r')     (* `ch2 as u8` truncates *)
      end
    else option_map (app (enc c)) (resolve r)
  end.

Definition decode (cs : list N) : option (list N) := resolve (unescape_tabs cs).

Fixpoint list_eqb (a b : list N) : bool :=
  match a, b with
  | [], [] => true
  | x :: a', y :: b' => (x =? y) && list_eqb a' b'
  | _, _ => false
  end.
(* EscapedRule::make + matches: the text parses to bytes; a line matches iff its content equals them *)
Definition escaped_matches (text : list N) (line : list N) : option bool :=
  match decode text with Some bs => Some (list_eqb bs (trim_newlines line)) | None => None end.
