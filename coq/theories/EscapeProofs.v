From Coq Require Import List NArith ZArith Lia Bool ZifyBool ZifyNat ZifyN.
Import ListNotations.
From SV Require Import Utf8 gen_Unicode Escape.
Local Open Scope N_scope.
Ltac Zify.zify_post_hook ::= Z.div_mod_to_equations.

(* what unescape_tabs turns byte_to_ascii b into *)
Definition mid (b : N) : list N :=
  if b =? 92 then [92; 92]
  else if printable b then [b]
  else if (b =? 13) || (b =? 9) || (b =? 7) || (b =? 8) || (b =? 12) || (b =? 11) then [b]
  else [92; 120; hexd (b / 16); hexd (b mod 16)].

Lemma hexd_range : forall d, d < 16 -> (48 <= hexd d <= 57 /\ d < 10) \/ (97 <= hexd d <= 102 /\ 10 <= d).
Proof. intros d H. unfold hexd. destruct (d <? 10) eqn:E; lia. Qed.

Lemma unescape_enc : forall b rest, b < 256 -> b <> 10 ->
  unescape_tabs (byte_to_ascii b ++ rest) = mid b ++ unescape_tabs rest.
Proof.
  intros b rest Hb Hn. unfold byte_to_ascii, mid.
  destruct (b =? 10) eqn:E10; [lia|].
  destruct (b =? 13) eqn:E13; [assert (b = 13) by lia; subst; reflexivity|].
  destruct (b =? 9) eqn:E9; [assert (b = 9) by lia; subst; reflexivity|].
  destruct (b =? 7) eqn:E7; [assert (b = 7) by lia; subst; reflexivity|].
  destruct (b =? 8) eqn:E8; [assert (b = 8) by lia; subst; reflexivity|].
  destruct (b =? 12) eqn:E12; [assert (b = 12) by lia; subst; reflexivity|].
  destruct (b =? 11) eqn:E11; [assert (b = 11) by lia; subst; reflexivity|].
  destruct (b =? 92) eqn:E92; [reflexivity|].
  destruct (printable b) eqn:Ep.
  - cbn [app unescape_tabs]. rewrite E92. reflexivity.
  - cbn [orb]. cbn [app unescape_tabs]. change (92 =? 92) with true. cbv iota.
    change (sel 120) with [92; 120]. cbn [app].
    destruct (hexd_range (b / 16)) as [[H1 _]|[H1 _]]; [lia| |];
    destruct (hexd_range (b mod 16)) as [[H2 _]|[H2 _]]; try lia;
    (assert (A1 : (hexd (b / 16) =? 92) = false) by lia; rewrite A1;
     assert (A2 : (hexd (b mod 16) =? 92) = false) by lia; rewrite A2; reflexivity).
Qed.

Lemma two16_hexd : forall b, b < 256 -> two 16 (hexd (b / 16)) (hexd (b mod 16)) = Some b.
Proof.
  intros b Hb. unfold two.
  assert (D : forall d, d < 16 -> (hexd d =? 43) = false /\ digit 16 (hexd d) = Some d).
  { intros d Hd. unfold digit. destruct (hexd_range d Hd) as [[H1 H1']|[H1 H1']].
    - split; [lia|]. assert (E : ((48 <=? hexd d) && (hexd d <=? 57)) = true) by lia. rewrite E.
      unfold hexd in *. destruct (d <? 10) eqn:E2; [|lia].
      replace (48 + d - 48) with d by lia. assert (E3 : (d <? 16) = true) by lia. rewrite E3. reflexivity.
    - split; [lia|]. assert (E : ((48 <=? hexd d) && (hexd d <=? 57)) = false) by lia. rewrite E.
      assert (E' : ((97 <=? hexd d) && (hexd d <=? 122)) = true) by lia. rewrite E'.
      unfold hexd in *. destruct (d <? 10) eqn:E2; [lia|].
      replace (87 + d - 87) with d by lia. assert (E3 : (d <? 16) = true) by lia. rewrite E3. reflexivity. }
  destruct (D (b / 16)) as [A1 A2]; [lia|]. destruct (D (b mod 16)) as [_ B2]; [lia|].
  rewrite A1, A2, B2. f_equal. lia.
Qed.

Lemma printable_lt128 : forall b, printable b = true -> b < 128.
Proof. intros b H. unfold printable in H. lia. Qed.

Lemma resolve_plain : forall c rest, c <> 92 -> c < 128 -> resolve (c :: rest) = option_map (cons c) (resolve rest).
Proof.
  intros c rest H92 Hc. cbn [resolve]. assert (E : (c =? 92) = false) by lia. rewrite E.
  rewrite (enc_ascii c Hc). destruct (resolve rest); reflexivity.
Qed.

Lemma resolve_mid : forall b rest, b < 256 -> b <> 10 ->
  resolve (mid b ++ rest) = option_map (cons b) (resolve rest).
Proof.
  intros b rest Hb Hn. unfold mid.
  destruct (b =? 92) eqn:E92.
  { assert (b = 92) by lia; subst. cbn. destruct (resolve rest); reflexivity. }
  destruct (printable b) eqn:Ep.
  { cbn [app]. apply resolve_plain; [lia|apply printable_lt128; exact Ep]. }
  destruct ((b =? 13) || (b =? 9) || (b =? 7) || (b =? 8) || (b =? 12) || (b =? 11)) eqn:Ec.
  { cbn [app]. apply resolve_plain; lia. }
  cbn [app resolve]. change (92 =? 92) with true. cbv iota.
  change (120 =? 48) with false. change (120 =? 120) with true. cbv iota.
  rewrite two16_hexd by exact Hb. reflexivity.
Qed.

Definition byte_ok (b : N) : Prop := b < 256 /\ b <> 10.

Lemma unescape_flat : forall bs rest, Forall byte_ok bs ->
  unescape_tabs (flat_map byte_to_ascii bs ++ rest) = flat_map mid bs ++ unescape_tabs rest.
Proof.
  induction bs as [|b bs IH]; intros rest H; [reflexivity|].
  inversion H as [|? ? [Hb Hn] H']; subst. cbn [flat_map]. rewrite <- !app_assoc.
  rewrite unescape_enc by assumption. rewrite IH by assumption. reflexivity.
Qed.

Lemma option_map_app : forall (a b : list N) (o : option (list N)),
  option_map (app a) (option_map (app b) o) = option_map (app (a ++ b)) o.
Proof. intros a b [x|]; cbn; [rewrite app_assoc|]; reflexivity. Qed.

Lemma resolve_flat : forall bs rest, Forall byte_ok bs ->
  resolve (flat_map mid bs ++ rest) = option_map (app bs) (resolve rest).
Proof.
  induction bs as [|b bs IH]; intros rest H.
  - cbn. destruct (resolve rest); reflexivity.
  - inversion H as [|? ? [Hb Hn] H']; subst. cbn [flat_map]. rewrite <- app_assoc.
    rewrite resolve_mid by assumption. rewrite IH by assumption.
    destruct (resolve rest); reflexivity.
Qed.

Lemma decode_flat : forall bs, Forall byte_ok bs -> decode (flat_map byte_to_ascii bs) = Some bs.
Proof.
  intros bs H. unfold decode. rewrite <- (app_nil_r (flat_map byte_to_ascii bs)).
  rewrite unescape_flat by exact H. cbn [unescape_tabs]. rewrite resolve_flat by exact H.
  cbn. rewrite app_nil_r. reflexivity.
Qed.

(* ---------- ASCII mode ---------- *)
Theorem ascii_lossless : forall bs, Forall byte_ok bs ->
  has_unprintable_ascii bs = true -> decode (escaped_printable_ascii bs) = Some bs.
Proof. intros bs H E. unfold escaped_printable_ascii. rewrite E. apply decode_flat. exact H. Qed.

Lemma byte_to_ascii_printable : forall b, b < 256 -> Forall (fun c => printable c = true) (byte_to_ascii b).
Proof.
  intros b Hb. unfold byte_to_ascii.
  repeat match goal with |- context [if ?c then _ else _] => destruct c eqn:? end;
  repeat constructor; try reflexivity; try assumption.
  - destruct (hexd_range (b / 16)) as [[H _]|[H _]]; [lia| |]; unfold printable; lia.
  - destruct (hexd_range (b mod 16)) as [[H _]|[H _]]; [lia| |]; unfold printable; lia.
Qed.

Lemma flat_printable : forall bs, Forall (fun b => b < 256) bs ->
  Forall (fun c => printable c = true) (flat_map byte_to_ascii bs).
Proof.
  induction 1 as [|b bs Hb _ IH]; [constructor|]. cbn [flat_map]. apply Forall_app.
  split; auto using byte_to_ascii_printable.
Qed.

Lemma no_unprintable_all_printable : forall bs, has_unprintable_ascii bs = false -> Forall (fun c => printable c = true) bs.
Proof.
  intros bs E. unfold has_unprintable_ascii in E. rewrite Forall_forall. intros c Hc.
  destruct (printable c) eqn:P; auto. exfalso.
  assert (X : existsb (fun b => negb (printable b)) bs = true) by (apply existsb_exists; exists c; rewrite P; auto).
  rewrite X in E. discriminate.
Qed.

Theorem ascii_printable : forall bs, Forall (fun b => b < 256) bs ->
  Forall (fun c => printable c = true) (escaped_printable_ascii bs).
Proof.
  intros bs H. unfold escaped_printable_ascii. destruct (has_unprintable_ascii bs) eqn:E.
  - apply flat_printable; auto.
  - apply no_unprintable_all_printable. exact E.
Qed.

(* ---------- the regenerated table: printable ASCII is never "other" ---------- *)
Lemma other_sweep : forallb (fun n => negb (is_other (N.of_nat n))) (seq 32 95) = true.
Proof. vm_compute. reflexivity. Qed.

Lemma printable_not_other : forall c, printable c = true -> is_other c = false.
Proof.
  intros c H. unfold printable in H.
  pose proof other_sweep as S. rewrite forallb_forall in S.
  specialize (S (N.to_nat c)). rewrite N2Nat.id in S.
  apply negb_true_iff. apply S. apply in_seq. lia.
Qed.

Lemma other_has_unprintable : forall c, is_scalar c = true -> is_other c = true -> has_unprintable_ascii (enc c) = true.
Proof.
  intros c Hs Ho. destruct (N.ltb_spec c 128) as [L|L].
  - rewrite (enc_ascii c L). cbn [has_unprintable_ascii existsb]. rewrite orb_false_r.
    destruct (printable c) eqn:P; [|reflexivity]. rewrite (printable_not_other c P) in Ho. discriminate.
  - pose proof (enc_high c L) as H. pose proof (enc_nonempty c) as NE.
    destruct (enc c) as [|b t]; [contradiction|]. inversion H; subst.
    cbn [has_unprintable_ascii existsb]. assert (P : printable b = false) by (unfold printable; lia). rewrite P. reflexivity.
Qed.

Lemma enc_byte_ok : forall c, is_scalar c = true -> c <> 10 -> Forall byte_ok (enc c).
Proof.
  intros c Hs Hn. destruct (N.ltb_spec c 128) as [L|L].
  - rewrite (enc_ascii c L). constructor; [|constructor]. split; lia.
  - pose proof (enc_high c L) as H. pose proof (enc_bytes c Hs) as B.
    rewrite Forall_forall in *. intros b Hb. split; [apply B; exact Hb|]. specialize (H b Hb). lia.
Qed.

(* ---------- Unicode mode ---------- *)
Definition midu (c : N) : list N :=
  if is_other c then flat_map mid (enc c) else if c =? 92 then [92; 92] else [c].

Lemma unescape_char : forall c rest, is_scalar c = true -> c <> 10 ->
  unescape_tabs (esc_char true c ++ rest) = midu c ++ unescape_tabs rest.
Proof.
  intros c rest Hs Hn. unfold esc_char, midu. destruct (is_other c) eqn:Ho.
  - unfold escaped_printable_ascii. rewrite (other_has_unprintable c Hs Ho).
    apply unescape_flat. apply enc_byte_ok; assumption.
  - rewrite andb_true_r. destruct (c =? 92) eqn:E.
    + cbn. reflexivity.
    + cbn [app unescape_tabs]. rewrite E. reflexivity.
Qed.

Lemma resolve_char : forall c rest, is_scalar c = true -> c <> 10 ->
  resolve (midu c ++ rest) = option_map (app (enc c)) (resolve rest).
Proof.
  intros c rest Hs Hn. unfold midu. destruct (is_other c) eqn:Ho.
  - apply resolve_flat. apply enc_byte_ok; assumption.
  - destruct (c =? 92) eqn:E.
    + assert (c = 92) by lia; subst. cbn. destruct (resolve rest); reflexivity.
    + cbn [app resolve]. rewrite E. reflexivity.
Qed.

Lemma decode_chars : forall cs, Forall (fun c => is_scalar c = true /\ c <> 10) cs ->
  unescape_tabs (flat_map (esc_char true) cs) = flat_map midu cs
  /\ resolve (flat_map midu cs) = Some (utf8_encode cs).
Proof.
  induction cs as [|c cs IH]; intros H; [split; reflexivity|].
  inversion H as [|? ? [Hs Hn] H']; subst. destruct (IH H') as [U R]. cbn [flat_map utf8_encode]. split.
  - rewrite unescape_char by assumption. rewrite U. reflexivity.
  - rewrite resolve_char by assumption. rewrite R. reflexivity.
Qed.

Lemma utf8_encode_no_lf : forall cs, ~ In 10 (utf8_encode cs) -> ~ In 10 cs.
Proof.
  intros cs H Hin. apply H. unfold utf8_encode. apply in_flat_map. exists 10. split; [exact Hin|].
  rewrite (enc_ascii 10) by lia. left; reflexivity.
Qed.

Theorem unicode_lossless : forall bs cs, utf8_decode bs = Some cs -> ~ In 10 bs ->
  existsb is_other cs = true -> decode (escaped_printable_unicode bs) = Some bs.
Proof.
  intros bs cs D Hn Ho. unfold escaped_printable_unicode. rewrite D, Ho.
  destruct (utf8_decode_sound _ _ D) as [E S]. subst bs.
  assert (H : Forall (fun c => is_scalar c = true /\ c <> 10) cs).
  { rewrite Forall_forall in *. intros c Hc. split; [apply S; exact Hc|]. intros ->. exact (utf8_encode_no_lf cs Hn Hc). }
  destruct (decode_chars cs H) as [U R]. unfold decode. rewrite U. exact R.
Qed.

Lemma invalid_has_unprintable : forall bs, utf8_decode bs = None -> has_unprintable_ascii bs = true.
Proof.
  intros bs D. destruct (has_unprintable_ascii bs) eqn:E; [reflexivity|]. exfalso.
  pose proof (no_unprintable_all_printable bs E) as P.
  rewrite utf8_decode_ascii in D; [discriminate|].
  rewrite Forall_forall in *. intros b Hb. apply printable_lt128. apply P. exact Hb.
Qed.

Lemma esc_char_not_other : forall e c, is_scalar c = true -> Forall (fun x => is_other x = false) (esc_char e c).
Proof.
  intros e c Hs. unfold esc_char. destruct (is_other c) eqn:Ho.
  - pose proof (ascii_printable (enc c) (enc_bytes c Hs)) as P.
    rewrite Forall_forall in *. intros x Hx. apply printable_not_other. apply P. exact Hx.
  - destruct ((c =? 92) && e) eqn:E.
    + repeat constructor; apply printable_not_other; reflexivity.
    + constructor; [exact Ho|constructor].
Qed.

Theorem unicode_printable : forall bs, Forall (fun b => b < 256) bs ->
  Forall (fun x => is_other x = false) (escaped_printable_unicode bs).
Proof.
  intros bs H. unfold escaped_printable_unicode. destruct (utf8_decode bs) as [cs|] eqn:D.
  - destruct (utf8_decode_sound _ _ D) as [_ S]. clear D. induction cs as [|c cs IH]; [constructor|].
    inversion S; subst. cbn [flat_map].
Abort.

Lemma flat_map_forall : forall (A B : Type) (f : A -> list B) (P : B -> Prop) (Q : A -> Prop) l,
  (forall a, Q a -> Forall P (f a)) -> Forall Q l -> Forall P (flat_map f l).
Proof.
  intros A B f P Q l H F. induction F as [|a l Ha _ IH]; [constructor|]. cbn [flat_map]. apply Forall_app. split; auto.
Qed.

Theorem unicode_printable : forall bs, Forall (fun b => b < 256) bs ->
  Forall (fun x => is_other x = false) (escaped_printable_unicode bs).
Proof.
  intros bs H. unfold escaped_printable_unicode. destruct (utf8_decode bs) as [cs|] eqn:D.
  - destruct (utf8_decode_sound _ _ D) as [_ S].
    apply (flat_map_forall _ _ _ _ (fun c => is_scalar c = true) cs); [|exact S].
    intros c Hc. apply esc_char_not_other. exact Hc.
  - pose proof (ascii_printable bs H) as P. rewrite Forall_forall in *. intros x Hx. apply printable_not_other. apply P. exact Hx.
Qed.

(* ---------- trimming, equality ---------- *)
Lemma list_eqb_spec : forall a b, list_eqb a b = true <-> a = b.
Proof.
  induction a as [|x a IH]; destruct b as [|y b]; cbn [list_eqb]; try (split; congruence).
  rewrite andb_true_iff, N.eqb_eq, IH. split; [intros [-> ->]; reflexivity|intros E; inversion E; auto].
Qed.

Lemma utf8_encode_ascii : forall bs, Forall (fun b => b < 128) bs -> utf8_encode bs = bs.
Proof.
  induction 1 as [|b bs Hb _ IH]; [reflexivity|]. cbn [utf8_encode flat_map]. rewrite (enc_ascii b Hb).
  cbn [app]. f_equal. exact IH.
Qed.

(* ---------- the statement about what scrut writes for a line ---------- *)
Definition content_ok (t : list N) : Prop := Forall byte_ok t.
Definition printable_in (m : mode) (c : N) : Prop :=
  match m with Ascii => printable c = true | Unicode => is_other c = false end.
Definition text_written (w : written) : list N := match w with Plain t => t | Escaped t => t end.

Lemma content_no_lf : forall t, content_ok t -> ~ In 10 t.
Proof. intros t H Hin. unfold content_ok in H. rewrite Forall_forall in H. destruct (H _ Hin) as [_ N]. apply N. reflexivity. Qed.

Lemma content_bytes : forall t, content_ok t -> Forall (fun b => b < 256) t.
Proof. intros t H. unfold content_ok in H. rewrite Forall_forall in *. intros b Hb. apply H. exact Hb. Qed.

Theorem lossless : forall m line, content_ok (trim_newlines line) ->
  match escaped_expectation m line with
  | Escaped txt => decode txt = Some (trim_newlines line)
  | Plain txt => utf8_encode txt = trim_newlines line
  end.
Proof.
  intros m line H. unfold escaped_expectation. set (t := trim_newlines line) in *.
  destruct m; cbn [has_unprintable escaped_printable].
  - destruct (has_unprintable_ascii t) eqn:E.
    + apply ascii_lossless; assumption.
    + assert (A : Forall (fun b => b < 128) t).
      { pose proof (no_unprintable_all_printable t E) as P. rewrite Forall_forall in *. intros b Hb. apply printable_lt128. auto. }
      unfold text_of. rewrite (utf8_decode_ascii t A). apply utf8_encode_ascii. exact A.
  - unfold has_unprintable_unicode. destruct (utf8_decode t) as [cs|] eqn:D.
    + destruct (existsb is_other cs) eqn:Eo.
      * apply (unicode_lossless t cs D (content_no_lf t H) Eo).
      * unfold text_of. rewrite D. apply (utf8_decode_sound _ _ D).
    + unfold escaped_printable_unicode. rewrite D. apply ascii_lossless; [exact H|]. apply invalid_has_unprintable. exact D.
Qed.

Theorem written_printable : forall m line, content_ok (trim_newlines line) ->
  Forall (printable_in m) (text_written (escaped_expectation m line)).
Proof.
  intros m line H. unfold escaped_expectation. set (t := trim_newlines line) in *.
  pose proof (content_bytes t H) as B.
  destruct m; cbn [has_unprintable escaped_printable printable_in].
  - destruct (has_unprintable_ascii t) eqn:E; cbn [text_written].
    + apply ascii_printable. exact B.
    + assert (A : Forall (fun b => b < 128) t).
      { pose proof (no_unprintable_all_printable t E) as P. rewrite Forall_forall in *. intros b Hb. apply printable_lt128. auto. }
      unfold text_of. rewrite (utf8_decode_ascii t A). apply no_unprintable_all_printable. exact E.
  - unfold has_unprintable_unicode. destruct (utf8_decode t) as [cs|] eqn:D.
    + destruct (existsb is_other cs) eqn:Eo; cbn [text_written].
      * apply unicode_printable. exact B.
      * unfold text_of. rewrite D. rewrite Forall_forall. intros c Hc.
        destruct (is_other c) eqn:O; [|cbn; exact O]. exfalso.
        assert (X : existsb is_other cs = true) by (apply existsb_exists; exists c; auto). congruence.
    + cbn [text_written]. apply unicode_printable. exact B.
Qed.

Theorem escaped_exact : forall txt t, decode txt = Some t ->
  forall l', escaped_matches txt l' = Some true <-> trim_newlines l' = t.
Proof.
  intros txt t D l'. unfold escaped_matches. rewrite D. split.
  - intros E. inversion E as [E']. apply list_eqb_spec in E'. congruence.
  - intros <-. f_equal. apply list_eqb_spec. reflexivity.
Qed.
