From Coq Require Import List ZArith NArith Bool Arith Lia.
Import ListNotations.

(* ---------- what a runner hands back, abstracted to what the verdict depends on ---------- *)
(* RunnerErr: the runner itself failed (Err from Runner::run) -- the executor aborts with FailedExecution *)
Inductive exit := Code (c : Z) | TimedOut | ESkipped | EDetached | Unknown | RunnerErr.
Record rstep := { status : exit; out_ok : bool }.
  (* out_ok: the matcher accepts the configured stream of this output (C01–C03 give it meaning) *)
Record tcase := { expected : option Z; t_skip : Z; per_timeout : option N; empty_ok : bool }.
  (* empty_ok: the matcher accepts the empty output (what padded/detached outputs contain) *)

Inductive exec_result :=
| ExOk (outs : list rstep)
| ExSkipped (i : nat)
| ExTimeout (global : bool) (outs : list rstep)
| ExFailed (i : nat).

Definition cons_res (r : rstep) (e : exec_result) : exec_result :=
  match e with
  | ExOk outs => ExOk (r :: outs)
  | ExSkipped i => ExSkipped i
  | ExTimeout g outs => ExTimeout g (r :: outs)
  | ExFailed i => ExFailed i
  end.

(* StatefulExecutor::execute_all (src/executors/stateful_executor.rs:87-202); [rs] is what the
   runner returns for each test case if it is reached, [gs] whether the effective_limit limit of
   that test case was the document limit *)
Fixpoint exec (tcs : list tcase) (rs : list rstep) (gs : list bool) (i : nat) : exec_result :=
  match tcs, rs, gs with
  | tc :: tcs', r :: rs', g :: gs' =>
    match status r with
    | Code c => if Z.eqb c (t_skip tc) then ExSkipped i else cons_res r (exec tcs' rs' gs' (S i))
    | TimedOut => ExTimeout g [r]
    | ESkipped => ExSkipped i
    | EDetached => cons_res {| status := EDetached; out_ok := empty_ok tc |} (exec tcs' rs' gs' (S i))
    | Unknown => ExOk (r :: map (fun tc' => {| status := Unknown; out_ok := empty_ok tc' |}) tcs')
    | RunnerErr => ExFailed i
    end
  | _, _, _ => ExOk []
  end.

(* ---------- the test command (src/bin/commands/test.rs:262-411) ---------- *)
Inductive res := Success | Failed | FailedTimeout | RSkipped.

(* TestCase::validate (src/testcase.rs): the exit-code gate comes first and fails for every status that is not
   the expected numeric code; only then the configured stream is matched *)
Definition verdict (tc : tcase) (r : rstep) : res :=
  match status r with
  | Code c => if Z.eqb c (match expected tc with Some e => e | None => 0%Z end)
              then (if out_ok r then Success else Failed) else Failed
  | _ => Failed
  end.

Fixpoint zip_with {A B C} (f : A -> B -> C) (a : list A) (b : list B) : list C :=
  match a, b with x :: a', y :: b' => f x y :: zip_with f a' b' | _, _ => [] end.

(* one slot per test case; None = no result reported *)
Definition doc_results (validate : tcase -> rstep -> res) (tcs : list tcase) (e : exec_result) : list (option res) :=
  match e with
  | ExSkipped _ => map (fun _ => Some RSkipped) tcs
  | ExTimeout _ outs =>
      zip_with (fun tc r => Some (match status r with TimedOut => FailedTimeout | _ => validate tc r end)) tcs outs
      ++ map (fun _ => Some RSkipped) (skipn (length outs) tcs)
  | ExOk outs =>
      zip_with (fun tc r => match status r with EDetached => None | _ => Some (validate tc r) end) tcs outs
  | ExFailed _ => []      (* the command bails out: no results, exit status 1 *)
  end.

Definition is_failure (o : option res) : bool :=
  match o with Some Failed | Some FailedTimeout => true | _ => false end.
Definition exit_status (docs : list (list (option res))) : Z :=
  if existsb (existsb is_failure) docs then 50%Z else 0%Z.


(* ---------- effective_limit timeout (stateful_executor.rs: min over the derived order on (timeout, is_global)) ---------- *)
Local Open Scope N_scope.
Definition effective_limit (per left : option N) : option (N * bool) :=
  match per, left with
  | None, None => None
  | Some p, None => Some (p, false)
  | None, Some l => Some (l, true)
  | Some p, Some l => if l <? p then Some (l, true) else Some (p, false)
  end.
(* time left of the document limit when a test case starts; [total = None] is "unlimited" (total_timeout 0) *)
Definition time_left (total : option N) (elapsed : N) : option N := option_map (fun t => t - elapsed) total.
Definition omin (a b : option N) : option N :=
  match a, b with Some x, Some y => Some (N.min x y) | Some x, None => Some x | None, y => y end.
Definition gs_of (tcs : list tcase) (total : option N) (elapsed : list N) : list bool :=
  map (fun p => match effective_limit (per_timeout (fst p)) (time_left total (snd p)) with Some (_, g) => g | None => false end)
      (combine tcs elapsed).
Definition limits_of (tcs : list tcase) (total : option N) (elapsed : list N) : list (option N) :=
  map (fun p => option_map fst (effective_limit (per_timeout (fst p)) (time_left total (snd p)))) (combine tcs elapsed).
Definition exec_timed (tcs : list tcase) (rs : list rstep) (total : option N) (elapsed : list N) : exec_result :=
  exec tcs rs (gs_of tcs total elapsed) 0.

(* counters and exit status of `scrut test` (bin/commands/test.rs) *)
Definition count (p : option res -> bool) (docs : list (list (option res))) : nat :=
  length (filter p (concat docs)).
Definition is_success (o : option res) : bool := match o with Some Success => true | _ => false end.
Definition is_skipped (o : option res) : bool := match o with Some RSkipped => true | _ => false end.
Definition is_reported (o : option res) : bool := match o with Some _ => true | None => false end.

(* ---------- BashScriptExecutor::execute_all (Cram): one script, outputs split at dividers ---------- *)
Fixpoint script_first_stop (rs : list rstep) : option rstep :=
  match rs with
  | [] => None
  | r :: t => match status r with Unknown | TimedOut | RunnerErr | ESkipped => Some r | _ => script_first_stop t end
  end.
Fixpoint find_skip (skip : Z) (rs : list rstep) (i : nat) : option nat :=
  match rs with
  | [] => None
  | r :: t => match status r with
              | Code c => if Z.eqb c skip then Some i else find_skip skip t (S i)
              | _ => find_skip skip t (S i)
              end
  end.
(* a test that kills the script (no exit code) aborts the document; a timeout is attributed to the whole script;
   a test that ends the script with the skip code ([ESkipped] here: plain `exit <skip code>`) skips the document at
   the script level; otherwise the first divider that carries the skip code skips the document *)
Definition exec_script (skip : Z) (rs : list rstep) : exec_result :=
  match script_first_stop rs with
  | Some r => match status r with TimedOut => ExTimeout true [r] | ESkipped => ExSkipped 0 | _ => ExFailed 0 end
  | None => match find_skip skip rs 0 with Some i => ExSkipped i | None => ExOk rs end
  end.

(* a test case may end the script early with a plain `exit <code>` that is not the skip code ([early = Some k]: test k
   does): the tests before it have printed their dividers, it and the later ones have not.  The dividers that exist --
   those of the test cases before the one that timed out, killed the shell or left the script -- are scanned for the skip
   code FIRST: a test case that ended in the skip code skips the document whatever became of the script afterwards. *)
Fixpoint before_stop (rs : list rstep) : list rstep :=
  match rs with
  | [] => []
  | r :: t => match status r with Unknown | TimedOut | RunnerErr | ESkipped => [] | _ => r :: before_stop t end
  end.
Definition produced (rs : list rstep) (early : option nat) : list rstep :=
  match early with Some k => firstn k rs | None => rs end.
Definition exec_script2 (skip : Z) (rs : list rstep) (early : option nat) : exec_result :=
  let p := produced rs early in
  match find_skip skip (before_stop p) 0 with
  | Some i => ExSkipped i
  | None =>
    match script_first_stop p with
    | Some r => match status r with TimedOut => ExTimeout true [r] | ESkipped => ExSkipped 0 | _ => ExFailed 0 end
    | None => match early with Some _ => ExFailed 0 | None => ExOk rs end
    end
  end.

(* ---------- the run: documents in order; an execution error ends the run with status 1 ---------- *)
Fixpoint run_docs (docs : list (list tcase * exec_result)) : list (list (option res)) * bool :=
  match docs with
  | [] => ([], false)
  | (tcs, e) :: r =>
    match e with
    | ExFailed _ => ([], true)
    | _ => let '(l, b) := run_docs r in (doc_results verdict tcs e :: l, b)
    end
  end.
Definition run_exit (docs : list (list tcase * exec_result)) : Z :=
  let '(l, err) := run_docs docs in if err then 1%Z else exit_status l.
(* outcomes are only rendered when no document errored *)
Definition run_outcomes (docs : list (list tcase * exec_result)) : list (list (option res)) :=
  let '(l, err) := run_docs docs in if err then [] else l.

(* which captured stream TestCase::validate matches: stderr only when output_stream = stderr (1); for `combined` the
   runner has already merged stderr into stdout *)
Definition stream_ok (os : option N) (stdout_ok stderr_ok : bool) : bool :=
  match os with Some 1%N => stderr_ok | _ => stdout_ok end.
