From Coq Require Import List ZArith NArith Bool Arith Lia.
Import ListNotations.
From SV Require Import Exec.

(* ---------- facts about exec ---------- *)
Definition outs_of (e : exec_result) : list rstep :=
  match e with ExOk o => o | ExTimeout _ o => o | ExSkipped _ => [] | ExFailed _ => [] end.

Lemma exec_len : forall tcs rs gs i, length rs = length tcs -> length gs = length tcs ->
  match exec tcs rs gs i with
  | ExOk outs => length outs = length tcs
  | ExTimeout _ outs => length outs <= length tcs /\ outs <> []
  | ExSkipped _ => True
  | ExFailed _ => True
  end.
Proof.
  induction tcs as [|tc tcs IH]; intros rs gs i Hr Hg; [reflexivity|].
  destruct rs as [|r rs]; [discriminate|]. destruct gs as [|g gs]; [discriminate|].
  cbn in Hr, Hg. cbn [exec]. specialize (IH rs gs (S i) ltac:(lia) ltac:(lia)).
  destruct (status r).
  - destruct (Z.eqb c (t_skip tc)); [exact I|].
    destruct (exec tcs rs gs (S i)); cbn in *; [lia| exact I| destruct IH; split; [lia|discriminate] | exact I].
  - split; [cbn; lia|discriminate].
  - exact I.
  - destruct (exec tcs rs gs (S i)); cbn in *; [lia| exact I| destruct IH; split; [lia|discriminate] | exact I].
  - cbn. rewrite map_length. reflexivity.
  - exact I.
Qed.

Lemma doc_results_len : forall v tcs rs gs, length rs = length tcs -> length gs = length tcs ->
  (forall i, exec tcs rs gs 0 <> ExFailed i) ->
  length (doc_results v tcs (exec tcs rs gs 0)) = length tcs.
Proof.
  intros v tcs rs gs Hr Hg NF. pose proof (exec_len tcs rs gs 0 Hr Hg) as H.
  assert (Z : forall A B C (f : A -> B -> C) a b, length (zip_with f a b) = Nat.min (length a) (length b)).
  { induction a; destruct b; cbn; auto. }
  destruct (exec tcs rs gs 0); cbn.
  - rewrite Z. lia.
  - apply map_length.
  - destruct H as [H _]. rewrite app_length, Z, map_length, skipn_length. lia.
  - exfalso. eapply NF; reflexivity.
Qed.

(* C15: a skip makes every result of the document Skipped, and no failure *)
Theorem C15_skip_all : forall v tcs i,
  Forall (fun o => o = Some RSkipped) (doc_results v tcs (ExSkipped i))
  /\ existsb is_failure (doc_results v tcs (ExSkipped i)) = false.
Proof.
  intros v tcs i. cbn. split.
  - rewrite Forall_map. apply Forall_forall. auto.
  - induction tcs; cbn; auto.
Qed.

(* a skip result is produced exactly when the first reached test case with a numeric status
   equal to its skip code (or a runner-reported skip) comes before any timeout/unknown *)
Lemma exec_skipped_inv : forall tcs rs gs i k, exec tcs rs gs i = ExSkipped k ->
  exists j tc r, k = i + j /\ nth_error tcs j = Some tc /\ nth_error rs j = Some r
                 /\ (status r = Code (t_skip tc) \/ status r = ESkipped).
Proof.
  induction tcs as [|tc tcs IH]; intros rs gs i k H; [discriminate|].
  destruct rs as [|r rs]; [discriminate|]. destruct gs as [|g gs]; [discriminate|]. cbn [exec] in H.
  destruct (status r) eqn:Hs.
  - destruct (Z.eqb c (t_skip tc)) eqn:E.
    + inversion H; subst. exists 0, tc, r. repeat split; auto. left. apply Z.eqb_eq in E. congruence.
    + destruct (exec tcs rs gs (S i)) eqn:Hrec; cbn in H; try discriminate. inversion H; subst.
      destruct (IH _ _ _ _ Hrec) as (j & tc' & r' & Hk & A & B & C).
      exists (S j), tc', r'. repeat split; auto. lia.
  - discriminate.
  - inversion H; subst. exists 0, tc, r. repeat split; auto.
  - destruct (exec tcs rs gs (S i)) eqn:Hrec; cbn in H; try discriminate. inversion H; subst.
    destruct (IH _ _ _ _ Hrec) as (j & tc' & r' & Hk & A & B & C).
    exists (S j), tc', r'. repeat split; auto. lia.
  - discriminate.
  - discriminate.
Qed.

Lemma verdict_not_skipped : forall tc r, verdict tc r <> RSkipped.
Proof.
  intros tc r. unfold verdict. destruct (status r);
  repeat match goal with |- context [if ?c then _ else _] => destruct c end; discriminate.
Qed.

Theorem C15_only_then : forall tcs rs gs,
  In (Some RSkipped) (doc_results verdict tcs (exec tcs rs gs 0)) ->
  (exists k, exec tcs rs gs 0 = ExSkipped k) \/ (exists g outs, exec tcs rs gs 0 = ExTimeout g outs).
Proof.
  intros tcs rs gs H. destruct (exec tcs rs gs 0) as [outs|k|g outs|k] eqn:E; eauto; [|destruct H].
  exfalso. cbn in H. clear E. revert outs H. induction tcs as [|tc tcs IH]; intros outs H; [destruct H|].
  destruct outs as [|r outs]; [destruct H|]. cbn in H. destruct H as [H|H]; [|eauto].
  destruct (status r) eqn:Hs; try discriminate; inversion H as [H1]; eapply verdict_not_skipped; eauto.
Qed.

(* C14: shape of the results of a timed-out document *)
Lemma exec_timeout_shape : forall tcs rs gs i g outs, exec tcs rs gs i = ExTimeout g outs ->
  exists pre last, outs = pre ++ [last] /\ status last = TimedOut
                   /\ Forall (fun r => status r <> TimedOut) pre.
Proof.
  induction tcs as [|tc tcs IH]; intros rs gs i g outs H; [discriminate|].
  destruct rs as [|r rs]; [discriminate|]. destruct gs as [|g0 gs]; [discriminate|]. cbn [exec] in H.
  destruct (status r) eqn:Hs.
  - destruct (Z.eqb c (t_skip tc)); [discriminate|].
    destruct (exec tcs rs gs (S i)) eqn:Hrec; cbn in H; try discriminate. inversion H; subst.
    destruct (IH _ _ _ _ _ Hrec) as (pre & last & A & B & C). exists (r :: pre), last. subst. repeat split; auto.
    constructor; auto. congruence.
  - inversion H; subst. exists [], r. repeat split; auto.
  - discriminate.
  - destruct (exec tcs rs gs (S i)) eqn:Hrec; cbn in H; try discriminate. inversion H; subst.
    destruct (IH _ _ _ _ _ Hrec) as (pre & last & A & B & C).
    exists ({| status := EDetached; out_ok := empty_ok tc |} :: pre), last. subst. repeat split; auto.
    constructor; auto. cbn. discriminate.
  - discriminate.
  - discriminate.
Qed.

Theorem C14_timeout_surfaces : forall v tcs rs gs g outs,
  length rs = length tcs -> length gs = length tcs ->
  exec tcs rs gs 0 = ExTimeout g outs ->
  exists n, n < length tcs /\ length outs = S n
    /\ nth_error (doc_results v tcs (ExTimeout g outs)) n = Some (Some FailedTimeout)
    /\ (forall j, n < j -> j < length tcs -> nth_error (doc_results v tcs (ExTimeout g outs)) j = Some (Some RSkipped))
    /\ exit_status [doc_results v tcs (ExTimeout g outs)] = 50%Z.
Proof.
  intros v tcs rs gs g outs Hr Hg H.
  pose proof (exec_len tcs rs gs 0 Hr Hg) as L. rewrite H in L. destruct L as [L _].
  destruct (exec_timeout_shape _ _ _ _ _ _ H) as (pre & last & -> & Hlast & Hpre).
  rewrite app_length in *. cbn [length] in *. exists (length pre).
  assert (Hn : length pre < length tcs) by lia. repeat split; try lia.
  - (* slot n is the timeout *)
    cbn [doc_results]. clear H Hpre Hr Hg L. revert pre Hn. induction tcs as [|tc tcs IH]; intros pre Hn; [cbn in Hn; lia|].
    destruct pre as [|p pre]; cbn.
    + rewrite Hlast. reflexivity.
    + cbn in Hn. apply IH. lia.
  - intros j Hj Hj2. cbn [doc_results]. clear H Hpre Hr Hg.
    revert pre j Hj Hj2 L Hn. induction tcs as [|tc tcs IH]; intros pre j Hj Hj2 L Hn; [cbn in Hj2; lia|].
    destruct pre as [|p pre].
    + cbn in *. destruct j; [lia|]. cbn. 
      replace (zip_with _ tcs []) with (@nil (option res)) by (destruct tcs; reflexivity). cbn.
      rewrite nth_error_map. destruct (nth_error tcs j) eqn:E; [reflexivity|].
      apply nth_error_None in E. lia.
    + cbn in *. destruct j; [lia|]. cbn. apply IH; lia.
  - unfold exit_status. cbn [existsb doc_results]. rewrite orb_false_r. rewrite existsb_app.
    match goal with |- (if ?a || ?b then _ else _) = _ => assert (X : a = true) end.
    { clear H Hpre Hr Hg L.
      revert pre Hn. induction tcs as [|tc tcs IH]; intros pre Hn; [cbn in Hn; lia|].
      destruct pre as [|p pre]; cbn.
      - rewrite Hlast. reflexivity.
      - cbn in Hn. rewrite IH by lia. apply orb_true_r. }
    rewrite X. reflexivity.
Qed.

(* C05 at run level, for the repaired verdict: no exit code, no success — nor for anything after *)
Lemma exec_ok_unknown_tail : forall tcs rs gs i outs, exec tcs rs gs i = ExOk outs ->
  forall n r, nth_error outs n = Some r -> status r = Unknown ->
  forall m r', n <= m -> nth_error outs m = Some r' -> status r' = Unknown.
Proof.
  induction tcs as [|tc tcs IH]; intros rs gs i outs H n r Hn Hu m r' Hm Hm'.
  { cbn in H. inversion H; subst. destruct n; discriminate. }
  destruct rs as [|r0 rs]; [cbn in H; inversion H; subst; destruct n; discriminate|].
  destruct gs as [|g gs]; [cbn in H; inversion H; subst; destruct n; discriminate|].
  cbn [exec] in H. destruct (status r0) eqn:Hs.
  - destruct (Z.eqb c (t_skip tc)); [discriminate|].
    destruct (exec tcs rs gs (S i)) eqn:Hrec; cbn in H; try discriminate. inversion H; subst.
    destruct n; cbn in Hn; [inversion Hn; subst; congruence|].
    destruct m; [lia|]. cbn in Hm'. eapply (IH _ _ _ _ Hrec n r Hn Hu m r'); auto. lia.
  - discriminate.
  - discriminate.
  - destruct (exec tcs rs gs (S i)) eqn:Hrec; cbn in H; try discriminate. inversion H; subst.
    destruct n; cbn in Hn; [inversion Hn; subst; discriminate|].
    destruct m; [lia|]. cbn in Hm'. eapply (IH _ _ _ _ Hrec n r Hn Hu m r'); auto. lia.
  - inversion H; subst. destruct m; cbn in Hm'; [inversion Hm'; subst; auto|].
    rewrite nth_error_map in Hm'. destruct (nth_error tcs m); [|discriminate]. inversion Hm'; subst. reflexivity.
  - discriminate.
Qed.

Theorem C05_no_exit_code_never_succeeds : forall tcs rs gs outs n r,
  exec tcs rs gs 0 = ExOk outs -> nth_error outs n = Some r -> status r = Unknown ->
  forall m, n <= m -> nth_error (doc_results verdict tcs (ExOk outs)) m <> Some (Some Success).
Proof.
  intros tcs rs gs outs n r H Hn Hu m Hm Hres. cbn [doc_results] in Hres.
  assert (G : forall tcs0 outs0 m0 x, nth_error (zip_with (fun tc r => match status r with EDetached => None | _ => Some (verdict tc r) end) tcs0 outs0) m0 = Some x ->
              exists tc r0, nth_error outs0 m0 = Some r0 /\ x = match status r0 with EDetached => None | _ => Some (verdict tc r0) end).
  { induction tcs0 as [|t tcs0 IHt]; intros outs0 m0 x Hx; [destruct m0; discriminate|].
    destruct outs0 as [|o outs0]; [destruct m0; discriminate|]. destruct m0; cbn in Hx.
    - inversion Hx; subst. exists t, o. auto.
    - apply IHt in Hx. exact Hx. }
  destruct (G _ _ _ _ Hres) as (tc & r0 & Hr0 & Hx).
  pose proof (exec_ok_unknown_tail _ _ _ _ _ H n r Hn Hu m r0 Hm Hr0) as Hu0.
  rewrite Hu0 in Hx. unfold verdict, verdict in Hx. rewrite Hu0 in Hx. discriminate.
Qed.

(* C20: exit status of a run whose documents all executed *)
Theorem C20_exit_status : forall docs,
  exit_status docs = (if existsb (existsb is_failure) docs then 50 else 0)%Z.
Proof. reflexivity. Qed.


(* ---------- C05: the verdict ---------- *)
Definition expected_code (tc : tcase) : Z := match expected tc with Some e => e | None => 0%Z end.

Theorem verdict_pass_iff : forall tc r,
  verdict tc r = Success <-> exists c, status r = Code c /\ c = expected_code tc /\ out_ok r = true.
Proof.
  intros tc r. unfold verdict, expected_code. split.
  - destruct (status r) as [c| | | | |] eqn:Hs; try discriminate.
    destruct (Z.eqb_spec c (match expected tc with Some e => e | None => 0%Z end)) as [E|E]; [|discriminate].
    destruct (out_ok r) eqn:Ho; [|discriminate]. intros _. exists c. auto.
  - intros (c & Hs & Hc & Ho). rewrite Hs, Ho. subst c. rewrite Z.eqb_refl. reflexivity.
Qed.

Theorem wrong_code_wins : forall tc r c, status r = Code c -> c <> expected_code tc -> verdict tc r = Failed.
Proof.
  intros tc r c Hs Hc. unfold verdict, expected_code in *. rewrite Hs.
  destruct (Z.eqb_spec c (match expected tc with Some e => e | None => 0%Z end)); [contradiction|reflexivity].
Qed.

Theorem no_code_never_passes : forall tc r, (forall c, status r <> Code c) -> verdict tc r = Failed.
Proof. intros tc r H. unfold verdict. destruct (status r); try reflexivity. exfalso. eapply H; reflexivity. Qed.

(* ---------- C14: the effective limit ---------- *)
Local Open Scope N_scope.
Theorem effective_is_min : forall per left, option_map fst (effective_limit per left) = omin per left.
Proof.
  intros [p|] [l|]; cbn; try reflexivity.
  destruct (N.ltb_spec l p); cbn; f_equal; lia.
Qed.

Theorem effective_kind : forall per left d g, effective_limit per left = Some (d, g) ->
  if g then left = Some d /\ (forall p, per = Some p -> d < p)
  else per = Some d /\ (forall l, left = Some l -> d <= l).
Proof.
  intros [p|] [l|] d g H; cbn in H; try discriminate.
  - destruct (N.ltb_spec l p); inversion H; subst; split; auto; intros x Hx; inversion Hx; subst; lia.
  - inversion H; subst. split; auto. intros l Hl; discriminate.
  - inversion H; subst. split; auto. intros p Hp; discriminate.
Qed.

Lemma no_spurious_timeout : forall tcs rs gs i g outs, exec tcs rs gs i = ExTimeout g outs ->
  exists j r, nth_error rs j = Some r /\ status r = TimedOut.
Proof.
  induction tcs as [|tc tcs IH]; intros rs gs i g outs H; [discriminate|].
  destruct rs as [|r rs]; [discriminate|]. destruct gs as [|g0 gs]; [discriminate|]. cbn [exec] in H.
  destruct (status r) eqn:Hs.
  - destruct (Z.eqb c (t_skip tc)); [discriminate|].
    destruct (exec tcs rs gs (S i)) eqn:Hrec; cbn in H; try discriminate.
    destruct (IH _ _ _ _ _ Hrec) as (j & r' & A & B). exists (S j), r'. auto.
  - exists 0%nat, r. auto.
  - discriminate.
  - destruct (exec tcs rs gs (S i)) eqn:Hrec; cbn in H; try discriminate.
    destruct (IH _ _ _ _ _ Hrec) as (j & r' & A & B). exists (S j), r'. auto.
  - discriminate.
  - discriminate.
Qed.

(* ---------- C15: a reached test case that ends in its skip code skips the document ---------- *)
Definition passes_on (tc : tcase) (r : rstep) : Prop :=
  (exists c, status r = Code c /\ c <> t_skip tc) \/ status r = EDetached.

Lemma exec_skips : forall tcs rs gs i j tc r,
  length gs = length tcs ->
  (forall m tcm rm, (m < j)%nat -> nth_error tcs m = Some tcm -> nth_error rs m = Some rm -> passes_on tcm rm) ->
  nth_error tcs j = Some tc -> nth_error rs j = Some r -> status r = Code (t_skip tc) ->
  exec tcs rs gs i = ExSkipped (i + j).
Proof.
  induction tcs as [|tc0 tcs IH]; intros rs gs i j tc r Hg Hpre Htc Hr Hs; [destruct j; discriminate|].
  destruct rs as [|r0 rs]; [destruct j; discriminate|]. destruct gs as [|g0 gs]; [discriminate|].
  cbn [exec]. destruct j as [|j].
  - cbn in Htc, Hr. inversion Htc; inversion Hr; subst. rewrite Hs, Z.eqb_refl. f_equal. lia.
  - cbn in Htc, Hr. assert (P0 : passes_on tc0 r0) by (apply (Hpre 0%nat); [lia|reflexivity|reflexivity]).
    assert (Hrec : exec tcs rs gs (S i) = ExSkipped (S i + j)).
    { eapply IH; eauto. intros m tcm rm Hm A B. apply (Hpre (S m)); [lia|exact A|exact B]. }
    destruct P0 as [(c & Hc & Hne)|Hd].
    + rewrite Hc. destruct (Z.eqb_spec c (t_skip tc0)); [contradiction|]. rewrite Hrec. cbn. f_equal. lia.
    + rewrite Hd, Hrec. cbn. f_equal. lia.
Qed.

(* ---------- C20: counters ---------- *)
Lemma counts_add_up : forall docs,
  (count is_success docs + count is_failure docs + count is_skipped docs = count is_reported docs)%nat.
Proof.
  intros docs. unfold count. induction (concat docs) as [|o l IH]; [reflexivity|].
  destruct o as [[| | |]|]; cbn; lia.
Qed.

(* ---------- C20: one result per test case, none only for detached ones; exit status ---------- *)
Lemma nth_error_zip_with : forall A B C (f : A -> B -> C) a b m x,
  nth_error (zip_with f a b) m = Some x -> exists u v, nth_error a m = Some u /\ nth_error b m = Some v /\ x = f u v.
Proof.
  induction a as [|u a IH]; intros b m x H; [destruct m; discriminate|].
  destruct b as [|v b]; [destruct m; discriminate|]. destruct m; cbn in H.
  - inversion H; subst. exists u, v. auto.
  - apply IH in H. exact H.
Qed.

Lemma results_none_only_detached : forall v tcs e m,
  nth_error (doc_results v tcs e) m = Some None ->
  exists outs r, e = ExOk outs /\ nth_error outs m = Some r /\ status r = EDetached.
Proof.
  intros v tcs e m H. destruct e as [outs|k|g outs|k]; cbn [doc_results] in H.
  - apply nth_error_zip_with in H. destruct H as (tc & r & _ & Hr & E). exists outs, r. split; [reflexivity|]. split; [exact Hr|].
    destruct (status r); try discriminate. reflexivity.
  - rewrite nth_error_map in H. destruct (nth_error tcs m); discriminate.
  - exfalso. destruct (Nat.lt_ge_cases m (length (zip_with (fun tc r => Some match status r with TimedOut => FailedTimeout | _ => v tc r end) tcs outs))) as [L|L].
    + rewrite nth_error_app1 in H by exact L. apply nth_error_zip_with in H. destruct H as (tc & r & _ & _ & E). discriminate.
    + rewrite nth_error_app2 in H by exact L. rewrite nth_error_map in H.
      destruct (nth_error (skipn (length outs) tcs) _); discriminate.
  - destruct m; discriminate.
Qed.

Definition is_exfailed (e : exec_result) : bool := match e with ExFailed _ => true | _ => false end.

Lemma run_docs_error : forall docs, snd (run_docs docs) = existsb is_exfailed (map snd docs).
Proof.
  induction docs as [|[tcs e] r IH]; [reflexivity|]. cbn [run_docs map existsb snd].
  destruct e; cbn [is_exfailed orb]; try (destruct (run_docs r) as [l b]; cbn in *; exact IH). reflexivity.
Qed.

Lemma run_exit_spec : forall docs,
  run_exit docs = if existsb is_exfailed (map snd docs) then 1%Z
                  else if existsb (existsb is_failure) (fst (run_docs docs)) then 50%Z else 0%Z.
Proof.
  intros docs. rewrite <- run_docs_error. unfold run_exit. destruct (run_docs docs) as [l b]. cbn [fst snd].
  destruct b; reflexivity.
Qed.

Lemma run_outcomes_all : forall docs, existsb is_exfailed (map snd docs) = false ->
  run_outcomes docs = map (fun d => doc_results verdict (fst d) (snd d)) docs.
Proof.
  intros docs H. unfold run_outcomes.
  assert (G : run_docs docs = (map (fun d => doc_results verdict (fst d) (snd d)) docs, false)).
  { induction docs as [|[tcs e] r IH]; [reflexivity|]. cbn [map existsb snd] in H. apply orb_false_iff in H. destruct H as [H1 H2].
    cbn [run_docs map fst snd]. destruct e; try discriminate; rewrite (IH H2); reflexivity. }
  rewrite G. reflexivity.
Qed.

(* ---------- Cram: the single script ---------- *)
Lemma find_skip_some : forall skip rs i k, find_skip skip rs i = Some k ->
  exists j r, k = (i + j)%nat /\ nth_error rs j = Some r /\ status r = Code skip
              /\ forall m rm, (m < j)%nat -> nth_error rs m = Some rm -> status rm <> Code skip.
Proof.
  intros skip rs. induction rs as [|r t IH]; intros i k H; [discriminate|].
  cbn [find_skip] in H.
  destruct (status r) as [c| | | | |] eqn:E.
  - destruct (Z.eqb c skip) eqn:Ec.
    + injection H as <-. exists 0%nat, r. split; [lia|split; [reflexivity|split; [apply Z.eqb_eq in Ec; subst; exact E|intros m rm Hm; lia]]].
    + destruct (IH _ _ H) as (j & r0 & -> & Hn & Hs & Hb). exists (S j), r0. split; [lia|split; [exact Hn|split; [exact Hs|]]].
      intros m rm Hm Hnm. destruct m as [|m']; [cbn in Hnm; injection Hnm as <-; rewrite E; intros Q; injection Q as ->; rewrite Z.eqb_refl in Ec; discriminate|].
      apply (Hb m' rm); [lia|exact Hnm].
  - destruct (IH _ _ H) as (j & r0 & -> & Hn & Hs & Hb). exists (S j), r0. split; [lia|split; [exact Hn|split; [exact Hs|]]].
    intros m rm Hm Hnm. destruct m as [|m']; [cbn in Hnm; injection Hnm as <-; rewrite E; discriminate|apply (Hb m' rm); [lia|exact Hnm]].
  - destruct (IH _ _ H) as (j & r0 & -> & Hn & Hs & Hb). exists (S j), r0. split; [lia|split; [exact Hn|split; [exact Hs|]]].
    intros m rm Hm Hnm. destruct m as [|m']; [cbn in Hnm; injection Hnm as <-; rewrite E; discriminate|apply (Hb m' rm); [lia|exact Hnm]].
  - destruct (IH _ _ H) as (j & r0 & -> & Hn & Hs & Hb). exists (S j), r0. split; [lia|split; [exact Hn|split; [exact Hs|]]].
    intros m rm Hm Hnm. destruct m as [|m']; [cbn in Hnm; injection Hnm as <-; rewrite E; discriminate|apply (Hb m' rm); [lia|exact Hnm]].
  - destruct (IH _ _ H) as (j & r0 & -> & Hn & Hs & Hb). exists (S j), r0. split; [lia|split; [exact Hn|split; [exact Hs|]]].
    intros m rm Hm Hnm. destruct m as [|m']; [cbn in Hnm; injection Hnm as <-; rewrite E; discriminate|apply (Hb m' rm); [lia|exact Hnm]].
  - destruct (IH _ _ H) as (j & r0 & -> & Hn & Hs & Hb). exists (S j), r0. split; [lia|split; [exact Hn|split; [exact Hs|]]].
    intros m rm Hm Hnm. destruct m as [|m']; [cbn in Hnm; injection Hnm as <-; rewrite E; discriminate|apply (Hb m' rm); [lia|exact Hnm]].
Qed.
Lemma find_skip_none : forall skip rs i, find_skip skip rs i = None -> forall j r, nth_error rs j = Some r -> status r <> Code skip.
Proof.
  intros skip rs. induction rs as [|r t IH]; intros i H j r0 Hn; [destruct j; discriminate|].
  cbn [find_skip] in H. destruct j as [|j'].
  - cbn in Hn. injection Hn as <-. destruct (status r) as [c| | | | |]; try discriminate.
    destruct (Z.eqb c skip) eqn:Ec; [discriminate|]. intros Q. injection Q as ->. rewrite Z.eqb_refl in Ec. discriminate.
  - cbn in Hn. destruct (status r) as [c| | | | |]; try (eapply IH; eassumption).
    destruct (Z.eqb c skip); [discriminate|eapply IH; eassumption].
Qed.

(* the script is reported skipped exactly when a divider that was printed -- by a test case before the one that timed out,
   killed the shell or left the script, if any did -- carries the skip code (the first such test case is named), or the script
   itself was left with the skip code *)
Theorem script_skip_has_cause : forall skip rs early k, exec_script2 skip rs early = ExSkipped k ->
  (exists r, nth_error (before_stop (produced rs early)) k = Some r /\ status r = Code skip)
  \/ (k = 0%nat /\ exists r, script_first_stop (produced rs early) = Some r /\ status r = ESkipped).
Proof.
  intros skip rs early k H. unfold exec_script2 in H.
  destruct (find_skip skip (before_stop (produced rs early)) 0) as [i|] eqn:F.
  - left. injection H as <-. destruct (find_skip_some _ _ _ _ F) as (j & r & -> & Hn & Hs & _). exists r. split; [exact Hn|exact Hs].
  - right. destruct (script_first_stop (produced rs early)) as [r|] eqn:S.
    + destruct (status r) eqn:E; try discriminate. injection H as <-. split; [reflexivity|]. exists r. split; [reflexivity|exact E].
    + destruct early; discriminate.
Qed.
Theorem script_skip_detected : forall skip rs early j r,
  nth_error (before_stop (produced rs early)) j = Some r -> status r = Code skip ->
  exists k, (k <= j)%nat /\ exec_script2 skip rs early = ExSkipped k.
Proof.
  intros skip rs early j r Hn Hs. unfold exec_script2.
  destruct (find_skip skip (before_stop (produced rs early)) 0) as [i|] eqn:F.
  - exists i. split; [|reflexivity]. destruct (find_skip_some _ _ _ _ F) as (j' & r' & -> & Hn' & Hs' & Hb).
    destruct (Nat.le_gt_cases j' j) as [L|G]; [lia|]. exfalso. apply (Hb j r G Hn). exact Hs.
  - exfalso. exact (find_skip_none _ _ _ F j r Hn Hs).
Qed.
