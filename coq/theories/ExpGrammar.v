(* C08: model of the expectation grammar (src/expectation.rs: to_expectation_regex + extract + parse) and of the
   canonical rendering (src/rules/rule.rs, escaped.rs).  Text is a list of code points.  Definitions only. *)
From Coq Require Import List NArith Bool.
Import ListNotations.
From SV Require Import Utf8 gen_Unicode gen_Kinds Escape.
Local Open Scope N_scope.

Definition is_ws (c : N) : bool := in_ranges whitespace_ranges c.       (* regex \s = White_Space *)
Definition is_quant (c : N) : bool := (c =? 42) || (c =? 43) || (c =? 63).   (* * + ? *)

Fixpoint lookup_kind (k : list N) (tbl : list (list N * nat)) : option nat :=
  match tbl with
  | [] => None
  | (n, id) :: r => if list_eqb n k then Some id else lookup_kind k r
  end.
Definition kind_ok (k : list N) : bool :=
  match k with [] => true | _ => match lookup_kind k kind_names with Some _ => true | None => false end end.

(* take the longest prefix without parentheses *)
Fixpoint span_noparen (l : list N) : list N * list N :=
  match l with
  | [] => ([], [])
  | c :: r => if (c =? 40) || (c =? 41) then ([], l) else let '(a, b) := span_noparen r in (c :: a, b)
  end.

(* The effect of ^(.*?)(?:\s\((K|)?([*+?])?\))?$ : only a final group ` (<kind><quantifier>)` counts; it is found from
   the end of the line: `)`, then the text back to the last `(` (no parenthesis inside), then one whitespace. *)
Definition split_mod (line : list N) : option (list N * list N * list N) :=
  match rev line with
  | 41 :: r1 =>
    let '(inner_rev, rest) := span_noparen r1 in
    match rest with
    | 40 :: ws :: expr_rev =>
      if is_ws ws then
        let inner := rev inner_rev in
        let cand :=
          match inner_rev with
          | q :: k_rev => if is_quant q then Some (rev k_rev, [q]) else Some (inner, [])
          | [] => Some ([], [])
          end in
        match cand with
        | Some (k, q) => if kind_ok k then Some (rev expr_rev, k, q) else None
        | None => None
        end
      else None
    | _ => None
    end
  | _ => None
  end.

Definition EQUAL : list N := [101; 113; 117; 97; 108].
(* ExpectationMaker::extract *)
Definition extract (line : list N) : list N * list N * list N :=
  match split_mod line with
  | None => (line, EQUAL, [])
  | Some (e, k, q) =>
    match k, q with
    | [], [] => (line, EQUAL, [])
    | [], _ => (e, EQUAL, q)
    | _, _ => (e, k, q)
    end
  end.

(* ---------- rules ---------- *)
Inductive rule :=
| REqual (t : list N)
| RNoEol (t : list N)
| REscaped (orig : list N) (bytes : list N)
| RGlob (pat : list N)
| RRegex (prepared : list N).
Record expectation := mkE { e_rule : rule; e_opt : bool; e_mul : bool }.

Fixpoint ends_with_rev (suf_rev l_rev : list N) : bool :=
  match suf_rev, l_rev with
  | [], _ => true
  | s :: sr, x :: lr => (s =? x) && ends_with_rev sr lr
  | _ :: _, [] => false
  end.
Definition ends_with (suf l : list N) : bool := ends_with_rev (rev suf) (rev l).
Definition strip_suffix (suf l : list N) : option (list N) :=
  if ends_with suf l then Some (firstn (length l - length suf) l) else None.

Definition S_NOEOL : list N := [32; 40; 110; 111; 45; 101; 111; 108; 41].                 (* " (no-eol)" *)
Definition S_ESCAPED : list N := [32; 40; 101; 115; 99; 97; 112; 101; 100; 41].            (* " (escaped)" *)
Definition S_ESCAPED_Q : list N := [32; 92; 40; 101; 115; 99; 97; 112; 101; 100; 92; 41].  (* " \(escaped\)" *)
Definition S_ESC : list N := [32; 40; 101; 115; 99; 41].
Definition S_ESC_Q : list N := [32; 92; 40; 101; 115; 99; 92; 41].
Definition expression_as_escaped (e : list N) : option (list N) :=
  match strip_suffix S_ESCAPED e with Some x => Some x | None =>
  match strip_suffix S_ESCAPED_Q e with Some x => Some x | None =>
  match strip_suffix S_ESC e with Some x => Some x | None => strip_suffix S_ESC_Q e end end end.

Section Parse.
(* the regex crate and scrut's textual preparation of regex expressions are parameters *)
Variable regex_prep : list N -> list N.
Variable regex_compiles : list N -> bool.
(* wildmatch::WildMatch::new normalises a pattern (e.g. runs of `*`); its Display is what unmake returns *)
Variable glob_norm : list N -> list N.

Definition make (kind : nat) (e : list N) : option rule :=
  match kind with
  | 0%nat => Some (REqual e)
  | 1%nat => Some (RNoEol e)
  | 2%nat => let e' := match strip_suffix S_NOEOL e with Some x => x | None => e end in
             match decode e' with Some b => Some (REscaped e' b) | None => None end
  | 3%nat => match expression_as_escaped e with
             | Some x => match decode x with
                         | Some b => match utf8_decode b with Some t => Some (RGlob (glob_norm t)) | None => None end
                         | None => None end
             | None => Some (RGlob (glob_norm e))
             end
  | _ => let p := regex_prep e in if regex_compiles p then Some (RRegex p) else None
  end.

Inductive parsed := POk (e : expectation) | PErr.
Definition parse (line : list N) : parsed :=
  let '(e, k, q) := extract line in
  let mul := match q with [c] => (c =? 42) || (c =? 43) | _ => false end in
  let opt := match q with [c] => (c =? 42) || (c =? 63) | _ => false end in
  match lookup_kind k kind_names with
  | Some id => match make id e with Some r => POk (mkE r opt mul) | None => PErr end
  | None => PErr
  end.
End Parse.

(* ---------- canonical rendering: Rule::to_expression_string ---------- *)
Definition quant_text (opt mul : bool) : list N :=
  if opt then (if mul then [42] else [63]) else (if mul then [43] else []).
Definition paren (kind q : list N) : list N := [32; 40] ++ kind ++ q ++ [41].
Definition K_ESCAPED : list N := [101; 115; 99; 97; 112; 101; 100].
Definition K_NOEOL : list N := [110; 111; 45; 101; 111; 108].
Definition K_GLOB : list N := [103; 108; 111; 98].
Definition K_REGEX : list N := [114; 101; 103; 101; 120].

Definition last_is_rparen (t : list N) : bool := match rev t with 41 :: _ => true | _ => false end.

Definition render_exp (m : mode) (x : expectation) : list N :=
  let q := quant_text (e_opt x) (e_mul x) in
  match e_rule x with
  | REqual t =>
    let b := utf8_encode t in
    let rendered := escaped_printable m b in
    if has_unprintable m b then rendered ++ paren K_ESCAPED q
    else if last_is_rparen rendered then rendered ++ paren EQUAL q
    else match q with [] => rendered | _ => rendered ++ paren [] q end
  | RNoEol t => escaped_printable m (utf8_encode t) ++ paren K_NOEOL q
  | REscaped orig _ => orig ++ paren K_ESCAPED q
  | RGlob p => escaped_printable m (utf8_encode p) ++ paren K_GLOB q
  | RRegex p => escaped_printable m (utf8_encode p) ++ paren K_REGEX q
  end.

(* which line contents (the line without its final newline, as bytes) an expectation matches, for the three kinds
   scrut implements itself; glob and regex go through external crates (C04) *)
Definition matches_content (x : rule) (content : list N) : option bool :=
  match x with
  | REqual t | RNoEol t => Some (list_eqb (utf8_encode t) content)
  | REscaped _ b => Some (list_eqb b content)
  | _ => None
  end.
