From Coq Require Import List NArith Bool Lia.
Import ListNotations.
From SV Require Import Utf8 gen_Unicode gen_Kinds Escape EscapeProofs ExpGrammar.
Local Open Scope N_scope.

Definition noparen (l : list N) : Prop := Forall (fun c => c <> 40 /\ c <> 41) l.

Lemma span_noparen_app : forall a rest, noparen a ->
  (match rest with [] => True | c :: _ => c = 40 \/ c = 41 end) ->
  span_noparen (a ++ rest) = (a, rest).
Proof.
  induction a as [|x a IH]; intros rest Ha Hr.
  - cbn [app]. destruct rest as [|c r]; [reflexivity|]. cbn [span_noparen].
    destruct Hr as [->| ->]; reflexivity.
  - inversion Ha as [|? ? [H40 H41] Ha']; subst. cbn [app span_noparen].
    assert (E : ((x =? 40) || (x =? 41)) = false) by (apply orb_false_iff; split; apply N.eqb_neq; assumption).
    rewrite E, (IH rest Ha' Hr). reflexivity.
Qed.

Lemma span_noparen_spec : forall l a rest, span_noparen l = (a, rest) ->
  l = a ++ rest /\ noparen a /\ (match rest with [] => True | c :: _ => c = 40 \/ c = 41 end).
Proof.
  induction l as [|x l IH]; intros a rest H.
  - inversion H; subst. repeat split; constructor.
  - cbn [span_noparen] in H. destruct ((x =? 40) || (x =? 41)) eqn:E.
    + inversion H; subst. split; [reflexivity|]. split; [constructor|].
      apply orb_true_iff in E. destruct E as [E|E]; apply N.eqb_eq in E; auto.
    + destruct (span_noparen l) as [a' b'] eqn:S. inversion H; subst.
      destruct (IH a' rest eq_refl) as (E1 & E2 & E3). subst l. split; [reflexivity|]. split; [|exact E3].
      apply orb_false_iff in E. destruct E as [A B]. constructor; [|exact E2]. split; apply N.eqb_neq; assumption.
Qed.

Lemma noparen_rev : forall l, noparen l -> noparen (rev l).
Proof. intros l H. unfold noparen in *. rewrite Forall_forall in *. intros c Hc. apply H. apply in_rev. exact Hc. Qed.

Lemma noparen_app : forall a b, noparen a -> noparen b -> noparen (a ++ b).
Proof. intros. apply Forall_app. split; assumption. Qed.

(* the shape of a modifier: K is a registered name or empty, Q is empty or one quantifier character *)
Definition quant_ok (q : list N) : Prop := q = [] \/ exists c, q = [c] /\ is_quant c = true.
(* no registered name contains a parenthesis or ends in a quantifier character: checked on the regenerated table *)
Definition name_clean (k : list N) : bool :=
  forallb (fun c => negb ((c =? 40) || (c =? 41))) k && match rev k with c :: _ => negb (is_quant c) | [] => true end.
Lemma names_clean : forallb (fun p => name_clean (fst p)) kind_names = true.
Proof. vm_compute. reflexivity. Qed.

Lemma kind_ok_clean : forall k, kind_ok k = true -> name_clean k = true.
Proof.
  intros k H. destruct k as [|c k']; [reflexivity|]. unfold kind_ok in H.
  destruct (lookup_kind (c :: k') kind_names) as [id|] eqn:L; [|discriminate]. clear H.
  pose proof names_clean as NC. rewrite forallb_forall in NC.
  revert L. generalize (c :: k'). intros k L.
  assert (G : forall tbl, (forall p, In p tbl -> name_clean (fst p) = true) -> lookup_kind k tbl = Some id -> name_clean k = true).
  { induction tbl as [|[n i] r IH]; intros Hc Hl; [discriminate|]. cbn [lookup_kind] in Hl.
    destruct (list_eqb n k) eqn:E.
    - apply list_eqb_spec in E. subst n. apply (Hc (k, i)). left; reflexivity.
    - apply IH; [intros p Hp; apply Hc; right; exact Hp|exact Hl]. }
  apply (G kind_names); [exact NC|exact L].
Qed.

Lemma name_clean_noparen : forall k, name_clean k = true -> noparen k.
Proof.
  intros k H. unfold name_clean in H. apply andb_true_iff in H. destruct H as [H _].
  rewrite forallb_forall in H. unfold noparen. rewrite Forall_forall. intros c Hc. specialize (H c Hc).
  apply negb_true_iff, orb_false_iff in H. destruct H as [A B]. split; apply N.eqb_neq; assumption.
Qed.

Lemma quant_noparen : forall c, is_quant c = true -> c <> 40 /\ c <> 41.
Proof. intros c H. unfold is_quant in H. split; intros ->; discriminate. Qed.

(* ---------- C08_grammar, direction 1: a line of the documented shape splits as documented ---------- *)
Theorem split_mod_complete : forall e ws k q,
  is_ws ws = true -> kind_ok k = true -> quant_ok q ->
  split_mod (e ++ [ws] ++ [40] ++ k ++ q ++ [41]) = Some (e, k, q).
Proof.
  intros e ws k q Hws Hk Hq. unfold split_mod.
  replace (rev (e ++ [ws] ++ [40] ++ k ++ q ++ [41])) with (41 :: (rev q ++ rev k) ++ 40 :: ws :: rev e).
  2:{ rewrite !rev_app_distr. cbn [rev app]. rewrite <- !app_assoc. cbn [app]. reflexivity. }
  pose proof (kind_ok_clean k Hk) as KC. pose proof (name_clean_noparen k KC) as KN.
  assert (QN : noparen q).
  { destruct Hq as [->|(c & -> & Hc)]; [constructor|]. constructor; [apply quant_noparen; exact Hc|constructor]. }
  rewrite (span_noparen_app (rev q ++ rev k) (40 :: ws :: rev e)).
  2:{ apply noparen_app; apply noparen_rev; assumption. }
  2:{ left; reflexivity. }
  rewrite Hws. rewrite rev_app_distr, !rev_involutive.
  destruct Hq as [->|(c & -> & Hc)].
  - (* no quantifier: K = inner *)
    cbn [rev app]. rewrite app_nil_r.
    destruct (rev k) as [|x kr] eqn:Ek.
    + assert (k = []) by (apply (f_equal (@rev N)) in Ek; rewrite rev_involutive in Ek; exact Ek). subst k.
      cbn. reflexivity.
    + unfold name_clean in KC. apply andb_true_iff in KC. destruct KC as [_ KC]. rewrite Ek in KC.
      apply negb_true_iff in KC. rewrite KC. rewrite Hk. reflexivity.
  - cbn [rev app]. rewrite Hc. rewrite rev_involutive, Hk. reflexivity.
Qed.

(* direction 2: whatever split_mod returns has that shape (and nothing else is a modifier) *)
Theorem split_mod_sound : forall line e k q, split_mod line = Some (e, k, q) ->
  exists ws, line = e ++ [ws] ++ [40] ++ k ++ q ++ [41] /\ is_ws ws = true /\ kind_ok k = true /\ quant_ok q.
Proof.
  intros line e k q H. unfold split_mod in H.
  destruct (rev line) as [|c0 r1] eqn:El; [discriminate|].
  destruct (N.eqb_spec c0 41) as [->|N41].
  2:{ destruct c0 as [|p]; [discriminate|]. do 6 (destruct p as [p|p|]; try discriminate). exfalso; apply N41; reflexivity. }
  destruct (span_noparen r1) as [inner_rev rest] eqn:S.
  destruct (span_noparen_spec _ _ _ S) as (E1 & NP & _). subst r1.
  destruct rest as [|c1 rest]; [discriminate|].
  destruct (N.eqb_spec c1 40) as [->|N40].
  2:{ destruct c1 as [|p]; [discriminate|]. do 6 (destruct p as [p|p|]; try discriminate). exfalso; apply N40; reflexivity. }
  destruct rest as [|ws expr_rev]; [discriminate|].
  destruct (is_ws ws) eqn:Hws; [|discriminate].
  assert (L : line = rev expr_rev ++ [ws] ++ [40] ++ rev inner_rev ++ [41]).
  { apply (f_equal (@rev N)) in El. rewrite rev_involutive in El. rewrite El. cbn [rev]. rewrite rev_app_distr. cbn [rev app].
    rewrite <- !app_assoc. cbn [app]. reflexivity. }
  destruct inner_rev as [|x k_rev].
  - cbn in H. inversion H; subst e k q. exists ws. cbn [rev app] in L. split; [exact L|]. repeat split; auto. left; reflexivity.
  - destruct (is_quant x) eqn:Q.
    + destruct (kind_ok (rev k_rev)) eqn:K; [|discriminate]. inversion H; subst e k q. exists ws.
      split; [rewrite L; cbn [rev]; rewrite <- !app_assoc; reflexivity|]. repeat split; auto. right. exists x. auto.
    + destruct (kind_ok (rev (x :: k_rev))) eqn:K; [|discriminate]. inversion H; subst e k q. exists ws.
      split; [rewrite L; rewrite app_nil_l; reflexivity|]. repeat split; auto. left; reflexivity.
Qed.

(* ---------- extract: what the expression, kind and quantifier of a line are ---------- *)
Theorem extract_modifier : forall e ws k q,
  is_ws ws = true -> kind_ok k = true -> quant_ok q -> (k <> [] \/ q <> []) ->
  extract (e ++ [ws] ++ [40] ++ k ++ q ++ [41]) = (e, match k with [] => EQUAL | _ => k end, q).
Proof.
  intros e ws k q Hws Hk Hq Hne. unfold extract. rewrite (split_mod_complete e ws k q Hws Hk Hq).
  destruct k as [|c k']; destruct q as [|d q']; try reflexivity. destruct Hne; contradiction.
Qed.

Theorem extract_plain : forall line, split_mod line = None -> extract line = (line, EQUAL, []).
Proof. intros line H. unfold extract. rewrite H. reflexivity. Qed.

Theorem extract_empty_parens : forall e ws, is_ws ws = true ->
  extract (e ++ [ws] ++ [40] ++ [] ++ [] ++ [41]) = (e ++ [ws] ++ [40] ++ [] ++ [] ++ [41], EQUAL, []).
Proof.
  intros e ws Hws. unfold extract. rewrite (split_mod_complete e ws [] [] Hws eq_refl (or_introl eq_refl)). reflexivity.
Qed.

(* a line whose last character is not `)` never has a modifier *)
Lemma split_mod_no_rparen : forall line, last_is_rparen line = false -> split_mod line = None.
Proof.
  intros line H. unfold split_mod, last_is_rparen in *. destruct (rev line) as [|c r]; [reflexivity|].
  destruct c as [|p]; [reflexivity|]. do 6 (destruct p as [p|p|]; try reflexivity). discriminate.
Qed.

(* ====================== round trip: render, then parse ====================== *)
Lemma ws_space : is_ws 32 = true. Proof. vm_compute. reflexivity. Qed.
Lemma kinds_present :
  lookup_kind EQUAL kind_names = Some 0%nat /\ lookup_kind K_NOEOL kind_names = Some 1%nat
  /\ lookup_kind K_ESCAPED kind_names = Some 2%nat /\ lookup_kind K_GLOB kind_names = Some 3%nat
  /\ lookup_kind K_REGEX kind_names = Some 4%nat.
Proof. repeat split; vm_compute; reflexivity. Qed.

Lemma quant_text_ok : forall o mu, quant_ok (quant_text o mu).
Proof. intros [|] [|]; cbn; [right; exists 42|right; exists 63|right; exists 43|left]; auto. Qed.

Definition flags_of (q : list N) : bool * bool :=
  (match q with [c] => (c =? 42) || (c =? 63) | _ => false end, match q with [c] => (c =? 42) || (c =? 43) | _ => false end).
Lemma flags_round_trip : forall o mu, flags_of (quant_text o mu) = (o, mu).
Proof. intros [|] [|]; reflexivity. Qed.

Section RT.
Variable regex_prep : list N -> list N.
Variable regex_compiles : list N -> bool.
Variable glob_norm : list N -> list N.
Notation parse := (parse regex_prep regex_compiles glob_norm).
Notation make := (make regex_prep regex_compiles glob_norm).

(* parsing a line of the shape  expression ++ " (" ++ kind ++ quantifier ++ ")"  *)
Lemma parse_with_modifier : forall e k id o mu,
  kind_ok k = true -> (k <> [] \/ quant_text o mu <> []) ->
  lookup_kind (match k with [] => EQUAL | _ => k end) kind_names = Some id ->
  parse (e ++ paren k (quant_text o mu)) =
    match make id e with Some r => POk (mkE r o mu) | None => PErr end.
Proof.
  intros e k id o mu Hk Hne Hl. unfold parse, paren.
  change (e ++ [32; 40] ++ k ++ quant_text o mu ++ [41]) with (e ++ [32] ++ [40] ++ k ++ quant_text o mu ++ [41]).
  rewrite (extract_modifier e 32 k (quant_text o mu) ws_space Hk (quant_text_ok o mu) Hne).
  rewrite Hl. destruct o, mu; reflexivity.
Qed.

(* text whose UTF-8 encoding has nothing unprintable is rendered as itself *)
Lemma printable_bytes_ascii : forall t, has_unprintable_ascii (utf8_encode t) = false -> utf8_encode t = t.
Proof.
  induction t as [|c t IH]; intros H; [reflexivity|]. cbn [utf8_encode flat_map] in *.
  unfold has_unprintable_ascii in H. rewrite existsb_app in H. apply orb_false_iff in H. destruct H as [H1 H2].
  assert (L : c < 128).
  { destruct (N.ltb_spec c 128) as [L|L]; [exact L|]. exfalso. pose proof (enc_high c L) as Hh. pose proof (enc_nonempty c) as NE.
    destruct (enc c) as [|b r]; [contradiction|]. inversion Hh; subst. cbn in H1. apply orb_false_iff in H1. destruct H1 as [H1 _].
    apply negb_false_iff in H1. unfold printable in H1. lia. }
  rewrite (enc_ascii c L). cbn [app]. f_equal. apply IH. exact H2.
Qed.

Lemma flat_map_id : forall (cs : list N), Forall (fun c => is_other c = false) cs -> flat_map (esc_char false) cs = cs.
Proof.
  induction 1 as [|c cs Hc _ IH]; [reflexivity|]. cbn [flat_map]. unfold esc_char at 1. rewrite Hc, andb_false_r. cbn [app]. f_equal. exact IH.
Qed.

Lemma rendered_plain : forall m t, Forall (fun c => is_scalar c = true) t ->
  has_unprintable m (utf8_encode t) = false -> escaped_printable m (utf8_encode t) = t.
Proof.
  intros m t Hs H. destruct m; cbn [has_unprintable escaped_printable] in *.
  - unfold escaped_printable_ascii. rewrite H. apply printable_bytes_ascii. exact H.
  - unfold has_unprintable_unicode, escaped_printable_unicode in *. rewrite (utf8_decode_encode t Hs) in *. rewrite H.
    apply flat_map_id. rewrite Forall_forall. intros c Hc. destruct (is_other c) eqn:O; [|reflexivity].
    assert (X : existsb is_other t = true) by (apply existsb_exists; exists c; auto). congruence.
Qed.

Theorem round_trip_equal_plain : forall m t o mu, Forall (fun c => is_scalar c = true) t ->
  has_unprintable m (utf8_encode t) = false ->
  parse (render_exp m (mkE (REqual t) o mu)) = POk (mkE (REqual t) o mu).
Proof.
  intros m t o mu Hs H. unfold render_exp. cbn [e_rule e_opt e_mul]. rewrite H, (rendered_plain m t Hs H).
  destruct kinds_present as (KE & _).
  destruct (last_is_rparen t) eqn:R.
  - rewrite (parse_with_modifier t EQUAL 0%nat o mu); [reflexivity|vm_compute; reflexivity|left; discriminate|exact KE].
  - destruct (quant_text o mu) as [|c q'] eqn:Q.
    + (* no modifier at all *)
      assert (o = false /\ mu = false) as [-> ->] by (destruct o, mu; cbn in Q; try discriminate; auto).
      unfold parse. rewrite (extract_plain t (split_mod_no_rparen t R)). rewrite KE. reflexivity.
    + rewrite <- Q. rewrite (parse_with_modifier t [] 0%nat o mu); [reflexivity|reflexivity|right; rewrite Q; discriminate|exact KE].
Qed.

Lemma escaped_printable_decodes : forall m b, content_ok b -> has_unprintable m b = true -> decode (escaped_printable m b) = Some b.
Proof.
  intros m b H U. destruct m; cbn [has_unprintable escaped_printable] in *.
  - apply ascii_lossless; assumption.
  - unfold has_unprintable_unicode in U. destruct (utf8_decode b) as [cs|] eqn:D.
    + apply (unicode_lossless b cs D (content_no_lf b H) U).
    + unfold escaped_printable_unicode. rewrite D. apply ascii_lossless; [exact H|]. apply invalid_has_unprintable. exact D.
Qed.

(* an equal expectation with unprintable content comes back as an escaped one with the same content *)
Theorem round_trip_equal_unprintable : forall m t o mu,
  content_ok (utf8_encode t) -> has_unprintable m (utf8_encode t) = true ->
  strip_suffix S_NOEOL (escaped_printable m (utf8_encode t)) = None ->
  parse (render_exp m (mkE (REqual t) o mu))
    = POk (mkE (REscaped (escaped_printable m (utf8_encode t)) (utf8_encode t)) o mu)
  /\ forall c, matches_content (REscaped (escaped_printable m (utf8_encode t)) (utf8_encode t)) c = matches_content (REqual t) c.
Proof.
  intros m t o mu Hc U NS. split; [|reflexivity]. unfold render_exp. cbn [e_rule e_opt e_mul]. rewrite U.
  destruct kinds_present as (_ & _ & KS & _).
  rewrite (parse_with_modifier _ K_ESCAPED 2%nat o mu); [|vm_compute; reflexivity|left; discriminate|exact KS].
  cbn [ExpGrammar.make]. rewrite NS. rewrite (escaped_printable_decodes m _ Hc U). reflexivity.
Qed.

Theorem round_trip_escaped : forall m orig b o mu,
  decode orig = Some b -> strip_suffix S_NOEOL orig = None ->
  parse (render_exp m (mkE (REscaped orig b) o mu)) = POk (mkE (REscaped orig b) o mu).
Proof.
  intros m orig b o mu D NS. unfold render_exp. cbn [e_rule e_opt e_mul].
  destruct kinds_present as (_ & _ & KS & _).
  rewrite (parse_with_modifier orig K_ESCAPED 2%nat o mu); [|vm_compute; reflexivity|left; discriminate|exact KS].
  cbn [ExpGrammar.make]. rewrite NS, D. reflexivity.
Qed.

Theorem round_trip_noeol : forall m t o mu, Forall (fun c => is_scalar c = true) t ->
  has_unprintable m (utf8_encode t) = false ->
  parse (render_exp m (mkE (RNoEol t) o mu)) = POk (mkE (RNoEol t) o mu).
Proof.
  intros m t o mu Hs H. unfold render_exp. cbn [e_rule e_opt e_mul]. rewrite (rendered_plain m t Hs H).
  destruct kinds_present as (_ & KN & _).
  rewrite (parse_with_modifier t K_NOEOL 1%nat o mu); [reflexivity|vm_compute; reflexivity|left; discriminate|exact KN].
Qed.

Theorem round_trip_glob : forall m p o mu, Forall (fun c => is_scalar c = true) p ->
  has_unprintable m (utf8_encode p) = false -> expression_as_escaped p = None -> glob_norm p = p ->
  parse (render_exp m (mkE (RGlob p) o mu)) = POk (mkE (RGlob p) o mu).
Proof.
  intros m p o mu Hs H NE GN. unfold render_exp. cbn [e_rule e_opt e_mul]. rewrite (rendered_plain m p Hs H).
  destruct kinds_present as (_ & _ & _ & KG & _).
  rewrite (parse_with_modifier p K_GLOB 3%nat o mu); [|vm_compute; reflexivity|left; discriminate|exact KG].
  cbn [ExpGrammar.make]. rewrite NE, GN. reflexivity.
Qed.

Theorem round_trip_regex : forall m p o mu, Forall (fun c => is_scalar c = true) p ->
  has_unprintable m (utf8_encode p) = false -> regex_prep p = p -> regex_compiles p = true ->
  parse (render_exp m (mkE (RRegex p) o mu)) = POk (mkE (RRegex p) o mu).
Proof.
  intros m p o mu Hs H RP RC. unfold render_exp. cbn [e_rule e_opt e_mul]. rewrite (rendered_plain m p Hs H).
  destruct kinds_present as (_ & _ & _ & _ & KR).
  rewrite (parse_with_modifier p K_REGEX 4%nat o mu); [|vm_compute; reflexivity|left; discriminate|exact KR].
  cbn [ExpGrammar.make]. rewrite RP, RC. reflexivity.
Qed.
End RT.
