(* Extraction of the executable models and oracles.  ExtrOcamlBasic only:
   bool/option/unit/list/prod/sumbool/sumor map to OCaml's; nat, positive, N, Z stay Coq datatypes. *)
From Coq Require Import Extraction ExtrOcamlBasic.
From SV Require Import Diff Det DiffOracle.
Extraction Language OCaml.
Extraction "svmodel.ml" diff accepts describedb conservation_b detb.
