(* Extraction of the executable models and oracles.  ExtrOcamlBasic only:
   bool/option/unit/list/prod/sumbool/sumor map to OCaml's; nat, positive, N, Z stay Coq datatypes. *)
From Coq Require Import Extraction ExtrOcamlBasic.
From SV Require Import Diff Det DiffOracle Lines Config gen_Consts Exec Utf8 gen_Unicode Escape Template gen_Template TemplateModel Crlf Capture gen_Kinds ExpGrammar Rules LineParser CramSpec Markdown MdSpec Generate Update Yaml YamlFlow Render gen_Env Env StateCarry ScriptExec Duration OneLiner GenBlock GenDocs RegexPrep ScriptCompile Ansi.
Extraction Language OCaml.
(* stable names for the driver (record field names may be renamed by the extraction when they clash) *)
Definition make_exp (o m : bool) (f : nat -> bool) : exp nat := mkExp nat o m f.
Definition exp_opt (e : exp nat) : bool := opt nat e.
Definition exp_mul (e : exp nat) : bool := mul nat e.
Extraction "svmodel.ml"
  make_exp exp_opt exp_mul
  diff accepts describedb conservation_b detb split_lines
  with_defaults with_overrides with_environment effective dwith_defaults dwith_overrides lookup precedence_b tempty dempty
  tc_default_markdown tc_default_cram default_skip_document_code default_document_timeout_ms
  exec exec_timed limits_of gs_of doc_results verdict exit_status effective_limit count is_success is_failure is_skipped is_reported
  exec_script exec_script2 run_docs run_exit run_outcomes stream_ok
  utf8_decode utf8_encode is_other has_unprintable escaped_printable escaped_expectation decode escaped_matches trim_newlines printable
  split_mod extract parse render_exp matches_content lookup_kind kind_names expression_as_escaped
  m_equal m_noeol m_escaped escaped_body glob_match full print_top print_user cram_glob_re
  parse_cram str_lines render_cram wf_cram cram_tests_of
  parse_md md_tokens render_md render_elem wf_md md_tests_of extract_title extract_code_block_start
  yaml_quoted yaml_scalar yaml_unquote read_scalar
  expectation_line rule_matches update_md outside has_command tok_raw trim_start
  format_duration parse_duration one_liner read_one_liner gen_cram_doc gen_md_doc gen_cram_docs gen_md_docs gen_cram_docs_g gen_md_docs_g gen_cram_doc_g gen_md_doc_g guarded_line guarded_lines written_line strip_sgr sgr_text ydiff ywith_defaults gen_config_suffix regex_prepare regex_effective cleanup compile_script
  persisted_names excluded split_outputs finished script_verdict first_code ideal parse_divider parse_salted read_env env_text
  dir_run_docs dir_processed next_names scrut_test_value env_always env_cram_compat
  render_pretty render_diff structured result_ok utf8_lossy highlight dec
  replace_crlf crlf_spec render_output recorded render around single_at expr_placeholder replace_all.
