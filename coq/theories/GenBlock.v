(* C09: the whole test that `scrut create` writes in Cram format for a command, the lines of its output and its exit code
   (Outcome::generate_testcase + cram_indented), as an element of the Cram document grammar.  Definitions only. *)
From Coq Require Import List NArith Bool.
Import ListNotations.
From SV Require Import Escape LineParser CramSpec Generate Render Markdown MdSpec Update.
Local Open Scope N_scope.

(* `$ first line`, `> further lines`, one expectation line per line of output, `[code]` unless the code is 0 *)
Definition gen_cram_block (m : mode) (cmd : text) (conts : list text) (lines : list (list N)) (code : N) : block :=
  BTest cmd conts (map (fun l => BExp (expectation_line m l)) lines ++ (if code =? 0 then [] else [BCode (dec code)])).
(* the document: an optional title line, then the block *)
Definition gen_cram_doc (m : mode) (title : option text) (cmd : text) (conts : list text) (lines : list (list N)) (code : N) : list block :=
  (match title with Some t => [BTitle t] | None => [] end) ++ [gen_cram_block m cmd conts lines code].

(* .. with the guards of the generator (what the implementation writes; equal to the above whenever no guard applies,
   GenBlockProofs.gen_cram_doc_g_same) *)
Definition gen_cram_doc_g (m : mode) (title : option text) (cmd : text) (conts : list text) (lines : list (list N)) (code : N) : list block :=
  (match title with Some t => [BTitle t] | None => [] end)
  ++ [BTest cmd conts (map BExp (guarded_lines true m lines) ++ (if code =? 0 then [] else [BCode (dec code)]))].

(* the same test in Markdown format (MarkdownTestCaseGenerator): `# title` and a blank line when there is a title, then a scrut
   block whose fence is one backtick longer than the longest run of backticks that starts a line of the body (at least three) *)
Definition gen_body (m : mode) (lines : list (list N)) (code : N) : list bline :=
  map (fun l => BExp (expectation_line m l)) lines ++ (if code =? 0 then [] else [BCode (dec code)]).
Definition md_block_text (cmd : text) (conts : list text) (body : list bline) : list text :=
  [P_DOLLAR ++ cmd] ++ map (fun x => P_GT ++ x) conts ++ map render_body body.
Definition gen_md_doc (m : mode) (title : option text) (cmd : text) (conts : list text) (lines : list (list N)) (code : N) : list elem :=
  (match title with Some t => [EHeading 1 t; EBlank] | None => [] end)
  ++ [EScrut (S (max_bt 2 (md_block_text cmd conts (gen_body m lines code)))) None [] [] (Some (cmd, conts, gen_body m lines code)) []].
Definition gen_body_g (m : mode) (lines : list (list N)) (code : N) : list bline :=
  map BExp (guarded_lines true m lines) ++ (if code =? 0 then [] else [BCode (dec code)]).
Definition gen_md_doc_g (m : mode) (cfg : option text) (title : option text) (cmd : text) (conts : list text) (lines : list (list N)) (code : N) : list elem :=
  (match title with Some t => [EHeading 1 t; EBlank] | None => [] end)
  ++ [EScrut (S (max_bt 2 (md_block_text cmd conts (gen_body_g m lines code)))) cfg [] [] (Some (cmd, conts, gen_body_g m lines code)) []].
