(* C09 at the level of the whole generated test, Cram format: the block that `scrut create` writes for a command, the lines
   of its output and its exit code (Outcome::generate_testcase, cram_indented) is an element of the Cram document grammar,
   so the Cram parser reads it back (C07) as a test with the same command lines, the written expectation lines and the
   exit code. *)
From Coq Require Import List NArith Bool Lia Arith ZifyBool ZifyNat ZifyN.
Import ListNotations.
From SV Require Import Utf8 gen_Unicode Escape EscapeProofs ExpGrammar Rules Template LineParser CramSpec CramProofs Generate GenerateProofs.
From SV Require Import Render RenderProofs ScriptExecProofs EnvProofs GenBlock Markdown MdSpec MarkdownProofs MdParseProofs Update UpdateProofs GuardProofs.
Local Open Scope N_scope.

Lemma digits_value_valf : forall ds a, digits_value a ds = valf a ds.
Proof. induction ds as [|d ds IH]; intros a; [reflexivity|]. cbn [digits_value]. rewrite valf_cons. apply IH. Qed.

Lemma code_ok_dec : forall code, code <= 2147483647 -> CramSpec.code_ok (dec code) = true.
Proof.
  intros code H. unfold CramSpec.code_ok. pose proof (dec_nonempty code) as NE. destruct (dec code) as [|d ds] eqn:E; [cbn in NE; lia|].
  rewrite <- E. rewrite digits_value_valf, val_dec.
  assert (F: forallb LineParser.is_digit (dec code) = true).
  { apply forallb_forall. intros c Hc. pose proof (dec_digits code) as D. rewrite Forall_forall in D. exact (D c Hc). }
  rewrite F. cbn [andb]. lia.
Qed.

(* the written text of an expectation holds no line break *)
Lemma printable_in_no_break : forall m c, printable_in m c -> (negb (c =? 10) && negb (c =? 13)) = true.
Proof.
  intros m c H. destruct (c =? 10) eqn:E10.
  - exfalso. assert (c = 10) by lia. subst. destruct m; cbn in H; [discriminate|]. vm_compute in H. discriminate.
  - destruct (c =? 13) eqn:E13; [|reflexivity].
    exfalso. assert (c = 13) by lia. subst. destruct m; cbn in H; [discriminate|]. vm_compute in H. discriminate.
Qed.
Lemma no_lf_app : forall a b, no_lf a = true -> no_lf b = true -> no_lf (a ++ b) = true.
Proof. intros a b Ha Hb. unfold no_lf in *. rewrite forallb_app, Ha, Hb. reflexivity. Qed.
Lemma expectation_line_no_lf : forall m line, content_ok (trim_newlines line) -> no_lf (expectation_line m line) = true.
Proof.
  intros m line H. pose proof (written_printable m line H) as P. unfold escaped_expectation in P.
  unfold expectation_line. cbv zeta.
  assert (W: forall t, Forall (printable_in m) t -> no_lf t = true).
  { intros t F. unfold no_lf. apply forallb_forall. intros c Hc. rewrite Forall_forall in F. exact (printable_in_no_break m c (F c Hc)). }
  destruct (has_unprintable m (trim_newlines line)); cbn [text_written] in P.
  - apply no_lf_app; [exact (W _ P)|reflexivity].
  - destruct (negb (ends_with_lf line)); [apply no_lf_app; [exact (W _ P)|reflexivity]|].
    destruct (needs_kind (trim_newlines line)); [apply no_lf_app; [exact (W _ P)|reflexivity]|exact (W _ P)].
Qed.

Lemma exps_of_gen : forall (f : list N -> text) lines tail, (forall b, In b tail -> match b with BExp _ => False | _ => True end) ->
  exps_of (map (fun l => BExp (f l)) lines ++ tail) = map f lines.
Proof.
  intros f lines tail Ht. unfold exps_of. rewrite flat_map_app.
  assert (A: flat_map (fun b => match b with BExp l => [l] | _ => [] end) tail = []).
  { induction tail as [|b t IH]; [reflexivity|]. cbn [flat_map]. pose proof (Ht b (or_introl eq_refl)) as Hb.
    destruct b; [contradiction|]. cbn [app]. apply IH. intros b' Hb'. apply Ht. right. exact Hb'. }
  rewrite A, app_nil_r. induction lines as [|l r IH]; [reflexivity|]. cbn [map flat_map app]. rewrite IH. reflexivity.
Qed.
Lemma codes_of_exps : forall (f : list N -> text) lines,
  flat_map (fun b => match b with BCode ds => [digits_value 0 ds] | _ => [] end) (map (fun l => BExp (f l)) lines) = [].
Proof. intros f lines. induction lines as [|l r IH]; [reflexivity|]. cbn [map flat_map app]. exact IH. Qed.
Lemma count_codes_exps : forall (f : list N -> text) lines tail,
  count_codes (map (fun l => BExp (f l)) lines ++ tail) = count_codes tail.
Proof. intros f lines tail. induction lines as [|l r IH]; [reflexivity|]. cbn [map app count_codes]. exact IH. Qed.

Section B.
Variable pe : text -> bool.

Lemma gen_block_ok : forall m cmd conts lines code,
  no_lf cmd = true -> forallb no_lf conts = true ->
  Forall (fun l => content_ok (trim_newlines l)) lines -> code <= 2147483647 ->
  Forall (fun l => starts_with P_DOLLAR (expectation_line m l) = false) lines ->
  (match lines with l :: _ => starts_with P_GT (expectation_line m l) = false | [] => True end) ->
  Forall (fun l => pe (expectation_line m l) = true) lines ->
  block_ok pe (gen_cram_block m cmd conts lines code) = true.
Proof.
  intros m cmd conts lines code Hcmd Hconts Hc Hcode Hd Hg Hpe.
  unfold gen_cram_block. cbn [block_ok]. rewrite Hcmd, Hconts. rewrite !andb_true_r.
  apply andb_true_iff. split.
  - unfold body_ok. rewrite count_codes_exps.
    apply andb_true_iff. split; [apply andb_true_iff; split|].
    + rewrite forallb_app. apply andb_true_iff. split.
      * apply forallb_forall. intros b Hb. apply in_map_iff in Hb. destruct Hb as [l [<- Hl]].
        unfold exp_ok. rewrite Forall_forall in Hd, Hpe. rewrite (Hd l Hl), (Hpe l Hl).
        rewrite (line_not_exit_code (fun x => x) (fun _ => true) (fun x => x)). reflexivity.
      * destruct (code =? 0) eqn:E; [reflexivity|]. cbn [forallb]. rewrite code_ok_dec by exact Hcode. reflexivity.
    + destruct (code =? 0); reflexivity.
    + destruct lines as [|l r]; [destruct (code =? 0); reflexivity|]. cbn [map app]. rewrite Hg. reflexivity.
  - rewrite forallb_app. apply andb_true_iff. split.
    + apply forallb_forall. intros b Hb. apply in_map_iff in Hb. destruct Hb as [l [<- Hl]].
      rewrite Forall_forall in Hc. apply expectation_line_no_lf. exact (Hc l Hl).
    + destruct (code =? 0); reflexivity.
Qed.
Lemma gen_block_exps : forall m lines code,
  exps_of (map (fun l => BExp (expectation_line m l)) lines ++ (if code =? 0 then [] else [BCode (dec code)])) = map (expectation_line m) lines.
Proof.
  intros. apply exps_of_gen. intros b Hb. destruct (code =? 0); [destruct Hb|]. destruct Hb as [<-|[]]. exact I.
Qed.
Lemma gen_block_code : forall m lines code,
  code_of (map (fun l => BExp (expectation_line m l)) lines ++ (if code =? 0 then [] else [BCode (dec code)])) = (if code =? 0 then None else Some code).
Proof.
  intros. unfold code_of. rewrite flat_map_app, codes_of_exps. cbn [app].
  destruct (code =? 0); [reflexivity|]. cbn [flat_map app]. rewrite digits_value_valf, val_dec. reflexivity.
Qed.

(* the generated document -- optional title line, then the block -- reads back as ONE test: that title, the command lines,
   the written expectation lines, the exit code (absent when 0), at the line of its `$` *)
Theorem cram_doc_reads_back : forall m title cmd conts lines code,
  (match title with Some t => title_ok t = true /\ no_lf t = true | None => True end) ->
  no_lf cmd = true -> forallb no_lf conts = true ->
  Forall (fun l => content_ok (trim_newlines l)) lines -> code <= 2147483647 ->
  Forall (fun l => starts_with P_DOLLAR (expectation_line m l) = false) lines ->
  (match lines with l :: _ => starts_with P_GT (expectation_line m l) = false | [] => True end) ->
  Forall (fun l => pe (expectation_line m l) = true) lines ->
  parse_cram pe (render_cram (gen_cram_doc m title cmd conts lines code))
  = LOk [mkPT (match title with Some t => t | None => [] end) (cmd :: conts) (map (expectation_line m) lines)
              (if code =? 0 then None else Some code) (match title with Some _ => 2 | None => 1 end)].
Proof.
  intros m title cmd conts lines code Ht Hcmd Hconts Hc Hcode Hd Hg Hpe.
  pose proof (gen_block_ok m cmd conts lines code Hcmd Hconts Hc Hcode Hd Hg Hpe) as OK.
  rewrite parse_render.
  - unfold cram_tests_of, gen_cram_doc. destruct title as [t|]; cbn [app tests_from]; unfold gen_cram_block; cbn [tests_from];
      rewrite gen_block_exps, gen_block_code; reflexivity.
  - unfold wf_cram, gen_cram_doc. destruct title as [t|]; cbn [app forallb]; rewrite OK; [|reflexivity].
    destruct Ht as [T1 T2]. cbn [block_ok]. rewrite T1, T2. reflexivity.
Qed.
End B.

(* ---------- Markdown ---------- *)
Section M.
Variable pe : text -> bool.
Variable front_ok : list text -> bool.
Variable cfg_ok : text -> bool.

Lemma gen_md_wf : forall m title cmd conts lines code,
  (match title with Some t => no_nl t = true /\ t <> [] | None => True end) ->
  no_nl cmd = true -> forallb no_nl conts = true ->
  Forall (fun l => content_ok (trim_newlines l)) lines -> code <= 2147483647 ->
  (match lines with l :: _ => starts_with P_GT (expectation_line m l) = false | [] => True end) ->
  Forall (fun l => pe (expectation_line m l) = true) lines ->
  wf_md pe front_ok cfg_ok (gen_md_doc m title cmd conts lines code) = true.
Proof.
  intros m title cmd conts lines code Ht Hcmd Hconts Hc Hcode Hg Hpe.
  assert (HS: forall first, elem_ok pe front_ok cfg_ok first
            (EScrut (S (max_bt 2 (md_block_text cmd conts (gen_body m lines code)))) None [] [] (Some (cmd, conts, gen_body m lines code)) []) = true).
  { intros first. cbn [elem_ok forallb]. rewrite Hcmd, Hconts.
    assert (L3: Nat.leb 3 (S (max_bt 2 (md_block_text cmd conts (gen_body m lines code)))) = true)
      by (apply Nat.leb_le; apply fence_at_least_three).
    rewrite L3. cbn [no_nl forallb andb]. rewrite andb_true_r.
    assert (Open: forall l, In l lines -> closes (S (max_bt 2 (md_block_text cmd conts (gen_body m lines code)))) (expectation_line m l) = false).
    { intros l Hl. apply fence_not_closed_by_body. unfold md_block_text, gen_body. apply in_or_app. right. apply in_or_app. right.
      apply in_map_iff. exists (BExp (expectation_line m l)). split; [reflexivity|].
      apply in_or_app. left. apply in_map_iff. exists l. split; [reflexivity|exact Hl]. }
    remember (S (max_bt 2 (md_block_text cmd conts (gen_body m lines code)))) as n eqn:En. clear En L3.
    unfold md_body_ok, gen_body. rewrite count_codes_exps.
    apply andb_true_iff. split; [apply andb_true_iff; split|].
    - rewrite forallb_app. apply andb_true_iff. split.
      + apply forallb_forall. intros b Hb. apply in_map_iff in Hb. destruct Hb as [l [<- Hl]].
        unfold md_exp_ok. rewrite Forall_forall in Hpe, Hc. rewrite (Hpe l Hl).
        rewrite (line_not_exit_code (fun x => x) (fun _ => true) (fun x => x)).
        rewrite (Open l Hl). cbn [andb negb]. exact (expectation_line_no_lf m l (Hc l Hl)).
      + destruct (code =? 0) eqn:E; [reflexivity|]. cbn [forallb]. rewrite code_ok_dec by exact Hcode. reflexivity.
    - destruct (code =? 0); reflexivity.
    - destruct lines as [|l r]; [destruct (code =? 0); reflexivity|]. cbn [map app]. rewrite Hg. reflexivity. }
  unfold wf_md, gen_md_doc. destruct title as [t|]; cbn [app wf_md_from].
  - destruct Ht as [T1 T2]. rewrite HS. cbn [elem_ok]. rewrite T1. destruct t; [congruence|]. reflexivity.
  - rewrite HS. reflexivity.
Qed.

(* the generated Markdown document reads back (C06) as ONE test with the same command lines, the written expectation lines,
   the exit code (absent when 0) and no inline configuration *)
Theorem md_doc_reads_back : forall m title cmd conts lines code,
  (match title with Some t => no_nl t = true /\ t <> [] | None => True end) ->
  no_nl cmd = true -> forallb no_nl conts = true ->
  Forall (fun l => content_ok (trim_newlines l)) lines -> code <= 2147483647 ->
  (match lines with l :: _ => starts_with P_GT (expectation_line m l) = false | [] => True end) ->
  Forall (fun l => pe (expectation_line m l) = true) lines ->
  exists ttl ln,
    parse_md pe front_ok cfg_ok (render_md (gen_md_doc m title cmd conts lines code))
    = LOk [mkMT (mkPT ttl (cmd :: conts) (map (expectation_line m) lines) (if code =? 0 then None else Some code) ln) None].
Proof.
  intros m title cmd conts lines code Ht Hcmd Hconts Hc Hcode Hg Hpe.
  rewrite parse_render_md by (apply gen_md_wf; assumption).
  unfold md_tests_of, gen_md_doc, gen_body. destruct title as [t|]; cbn [app md_tests_from];
    rewrite gen_block_exps, gen_block_code; eexists; eexists; reflexivity.
Qed.
End M.

(* ---------- the guards of the generator change nothing where no guard applies ---------- *)
Lemma guard_noeol_id : forall t, strip_suffix S_NOEOL t = None -> guard_noeol t = t.
Proof. intros t H. unfold guard_noeol. rewrite H. reflexivity. Qed.
(* the premise of C09_line_round_trip: an escaped rendering does not itself end in ` (no-eol)` *)
Definition no_suffix_collision (m : mode) (line : list N) : Prop :=
  has_unprintable m (trim_newlines line) = true -> strip_suffix S_NOEOL (escaped_printable m (trim_newlines line)) = None.
Lemma written_same : forall m line, no_suffix_collision m line -> written_line m line = expectation_line m line.
Proof.
  intros m line H. unfold written_line, expectation_line, no_suffix_collision in *. cbv zeta.
  destruct (has_unprintable m (trim_newlines line)) eqn:E; [|reflexivity]. rewrite (guard_noeol_id _ (H eq_refl)). reflexivity.
Qed.
Lemma guarded_same : forall first cram m line, no_suffix_collision m line ->
  (first = true -> starts_with P_GT (expectation_line m line) = false) ->
  (cram = true -> starts_with P_DOLLAR (expectation_line m line) = false) ->
  guarded_line first cram m line = expectation_line m line.
Proof.
  intros first cram m line Hn Hg Hd. unfold guarded_line. cbv zeta. rewrite (written_same m line Hn).
  destruct first, cram; cbn [andb orb]; rewrite ?(Hg eq_refl), ?(Hd eq_refl); reflexivity.
Qed.
Lemma guarded_lines_same : forall cram m lines, Forall (no_suffix_collision m) lines ->
  (match lines with l :: _ => starts_with P_GT (expectation_line m l) = false | [] => True end) ->
  (cram = true -> Forall (fun l => starts_with P_DOLLAR (expectation_line m l) = false) lines) ->
  guarded_lines cram m lines = map (expectation_line m) lines.
Proof.
  intros cram m lines Hn Hg Hd. destruct lines as [|l r]; [reflexivity|]. cbn [guarded_lines map].
  apply Forall_cons_iff in Hn. destruct Hn as [Hl Hr].
  assert (Dl: cram = true -> starts_with P_DOLLAR (expectation_line m l) = false).
  { intros C. specialize (Hd C). apply Forall_cons_iff in Hd. tauto. }
  rewrite (guarded_same true cram m l Hl (fun _ => Hg) Dl). apply f_equal.
  apply map_ext_in. intros x Hx. apply guarded_same.
  - rewrite Forall_forall in Hr. exact (Hr x Hx).
  - discriminate.
  - intros C. specialize (Hd C). apply Forall_cons_iff in Hd. destruct Hd as [_ Hd]. rewrite Forall_forall in Hd. exact (Hd x Hx).
Qed.
(* so the documents with guards are the documents of the read-back theorems wherever their premises hold *)
Lemma gen_cram_doc_g_same : forall m title cmd conts lines code, Forall (no_suffix_collision m) lines ->
  (match lines with l :: _ => starts_with P_GT (expectation_line m l) = false | [] => True end) ->
  Forall (fun l => starts_with P_DOLLAR (expectation_line m l) = false) lines ->
  gen_cram_doc_g m title cmd conts lines code = gen_cram_doc m title cmd conts lines code.
Proof.
  intros m title cmd conts lines code Hn Hg Hd. unfold gen_cram_doc_g, gen_cram_doc, gen_cram_block.
  rewrite (guarded_lines_same true m lines Hn Hg (fun _ => Hd)). rewrite map_map. reflexivity.
Qed.
(* (a line that starts with `$ ` is guarded in Markdown documents too: the lines may end up in a Cram document through a conversion) *)
Lemma gen_md_doc_g_same : forall m title cmd conts lines code, Forall (no_suffix_collision m) lines ->
  (match lines with l :: _ => starts_with P_GT (expectation_line m l) = false | [] => True end) ->
  Forall (fun l => starts_with P_DOLLAR (expectation_line m l) = false) lines ->
  gen_md_doc_g m None title cmd conts lines code = gen_md_doc m title cmd conts lines code.
Proof.
  intros m title cmd conts lines code Hn Hg Hd. unfold gen_md_doc_g, gen_md_doc, gen_body_g, gen_body.
  rewrite (guarded_lines_same true m lines Hn Hg (fun _ => Hd)). rewrite map_map. reflexivity.
Qed.

(* where the first guard applies, the line that is written reads back as an escaped expectation for that very line *)
Theorem guarded_line_reads_back : forall rp rc gn first cram m c rest line, out_line (c :: rest) line ->
  (first && starts_with P_GT (written_line m line)) || (cram && starts_with P_DOLLAR (written_line m line)) = true ->
  strip_suffix S_NOEOL ([92; 120; hexd (c / 16); hexd (c mod 16)] ++ skipn 4 (escaped_printable m (1 :: rest))) = None ->
  exists r, ExpGrammar.parse rp rc gn (guarded_line first cram m line) = POk (mkE r false false) /\ rule_matches r line = true.
Proof.
  intros rp rc gn first cram m c rest line HL G HS. unfold guarded_line. cbv zeta. rewrite G.
  rewrite (trim_out_line (c :: rest) line HL). rewrite (guard_noeol_id _ HS).
  exact (guarded_round_trip rp rc gn m c rest line HL HS).
Qed.
