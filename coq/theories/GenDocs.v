(* C09: a document of SEVERAL generated tests -- what CramTestCaseGenerator / MarkdownTestCaseGenerator::generate_testcases write
   for a list of outcomes (`scrut update --convert`): the tests one after the other, separated by two blank lines; a Markdown
   header may carry an inline configuration (what differs from the format defaults).  Definitions only. *)
From Coq Require Import List NArith Bool.
Import ListNotations.
From SV Require Import Escape LineParser CramSpec Generate Render Markdown MdSpec Update GenBlock.
Local Open Scope N_scope.

Record gtest := mkG { g_title : option text; g_cmd : text; g_conts : list text; g_lines : list (list N); g_code : N }.

Definition gen_cram_one (m : mode) (t : gtest) : list block := gen_cram_doc m (g_title t) (g_cmd t) (g_conts t) (g_lines t) (g_code t).
Fixpoint gen_cram_docs (m : mode) (ts : list gtest) : list block :=
  match ts with
  | [] => []
  | t :: r => match r with [] => gen_cram_one m t | _ :: _ => gen_cram_one m t ++ [BBlank; BBlank] ++ gen_cram_docs m r end
  end.

(* .. as the implementation writes them: with the guards of the generator (GenBlock.gen_cram_doc_g / gen_md_doc_g) *)
Definition gen_cram_one_g (m : mode) (t : gtest) : list block := gen_cram_doc_g m (g_title t) (g_cmd t) (g_conts t) (g_lines t) (g_code t).
Fixpoint gen_cram_docs_g (m : mode) (ts : list gtest) : list block :=
  match ts with
  | [] => []
  | t :: r => match r with [] => gen_cram_one_g m t | _ :: _ => gen_cram_one_g m t ++ [BBlank; BBlank] ++ gen_cram_docs_g m r end
  end.
Definition gen_md_one_g (m : mode) (cfg : option text) (t : gtest) : list elem := gen_md_doc_g m cfg (g_title t) (g_cmd t) (g_conts t) (g_lines t) (g_code t).
Fixpoint gen_md_docs_g (m : mode) (cfg : option text) (ts : list gtest) : list elem :=
  match ts with
  | [] => []
  | t :: r => match r with [] => gen_md_one_g m cfg t | _ :: _ => gen_md_one_g m cfg t ++ [EBlank; EBlank] ++ gen_md_docs_g m cfg r end
  end.

(* what the document denotes: one test per element, at the line its `$` stands on *)
Definition g_title_lines (t : gtest) : nat := match g_title t with Some _ => 1 | None => 0 end.
Definition g_body_lines (t : gtest) : nat := length (g_lines t) + (if g_code t =? 0 then 0 else 1).
Definition g_test (m : mode) (t : gtest) (line : nat) : ptest :=
  mkPT (match g_title t with Some x => x | None => [] end) (g_cmd t :: g_conts t) (map (expectation_line m) (g_lines t))
       (if g_code t =? 0 then None else Some (g_code t)) (S (line + g_title_lines t)).
Definition g_len (t : gtest) : nat := g_title_lines t + 1 + length (g_conts t) + g_body_lines t.
Fixpoint g_tests (m : mode) (ts : list gtest) (line : nat) : list ptest :=
  match ts with [] => [] | t :: r => g_test m t line :: g_tests m r (line + g_len t + 2) end.

(* Markdown: the same with an optional inline configuration in the header of every block *)
Definition gen_md_one (m : mode) (cfg : option text) (t : gtest) : list elem :=
  (match g_title t with Some x => [EHeading 1 x; EBlank] | None => [] end)
  ++ [EScrut (S (max_bt 2 (md_block_text (g_cmd t) (g_conts t) (gen_body m (g_lines t) (g_code t))))) cfg [] []
             (Some (g_cmd t, g_conts t, gen_body m (g_lines t) (g_code t))) []].
Fixpoint gen_md_docs (m : mode) (cfg : option text) (ts : list gtest) : list elem :=
  match ts with
  | [] => []
  | t :: r => match r with [] => gen_md_one m cfg t | _ :: _ => gen_md_one m cfg t ++ [EBlank; EBlank] ++ gen_md_docs m cfg r end
  end.
