(* C09 for documents of several generated tests (`scrut update --convert`, generate_testcases over a list of outcomes): the
   document is an element of the grammar, so the parser model reads it back (C07 / C06) as exactly those tests, in order, each
   with its title, command lines, the written expectation lines and exit code, at the line its `$` stands on. *)
From Coq Require Import List NArith Bool Lia Arith ZifyBool ZifyNat ZifyN.
Import ListNotations.
From SV Require Import Utf8 gen_Unicode Escape EscapeProofs ExpGrammar Rules Template LineParser CramSpec CramProofs Generate GenerateProofs.
From SV Require Import Render RenderProofs GenBlock GenBlockProofs GenDocs Markdown MdSpec MarkdownProofs MdParseProofs Update UpdateProofs.
Local Open Scope N_scope.

Section D.
Variable pe : text -> bool.

Definition g_ok (m : mode) (t : gtest) : Prop :=
  (match g_title t with Some x => title_ok x = true /\ no_lf x = true | None => True end) /\
  no_lf (g_cmd t) = true /\ forallb no_lf (g_conts t) = true /\
  Forall (fun l => content_ok (trim_newlines l)) (g_lines t) /\ g_code t <= 2147483647 /\
  Forall (fun l => starts_with P_DOLLAR (expectation_line m l) = false) (g_lines t) /\
  (match g_lines t with l :: _ => starts_with P_GT (expectation_line m l) = false | [] => True end) /\
  Forall (fun l => pe (expectation_line m l) = true) (g_lines t).

Lemma one_wf : forall m t, g_ok m t -> wf_cram pe (gen_cram_one m t) = true.
Proof.
  intros m t (Ht & Hcmd & Hconts & Hc & Hcode & Hd & Hg & Hpe).
  pose proof (gen_block_ok pe m (g_cmd t) (g_conts t) (g_lines t) (g_code t) Hcmd Hconts Hc Hcode Hd Hg Hpe) as OK.
  unfold wf_cram, gen_cram_one, gen_cram_doc. destruct (g_title t) as [x|]; cbn [app forallb]; rewrite OK; [|reflexivity].
  destruct Ht as [T1 T2]. cbn [block_ok]. rewrite T1, T2. reflexivity.
Qed.
Lemma docs_wf : forall m ts, Forall (g_ok m) ts -> wf_cram pe (gen_cram_docs m ts) = true.
Proof.
  intros m ts H. induction H as [|t r Ht Hr IH]; [reflexivity|].
  cbn [gen_cram_docs]. destruct r as [|t2 r']; [exact (one_wf m t Ht)|].
  pose proof (one_wf m t Ht) as W. unfold wf_cram in *. rewrite !forallb_app, W. cbn [forallb block_ok andb]. exact IH.
Qed.

Lemma body_length : forall m t,
  length (map (fun l => BExp (expectation_line m l)) (g_lines t) ++ (if g_code t =? 0 then [] else [BCode (dec (g_code t))])) = g_body_lines t.
Proof. intros m t. unfold g_body_lines. rewrite app_length, map_length. destruct (g_code t =? 0); reflexivity. Qed.

Lemma tests_from_one : forall m t rest line,
  tests_from (gen_cram_one m t ++ rest) line None = g_test m t line :: tests_from rest (line + g_len t) None.
Proof.
  intros m t rest line. unfold gen_cram_one, gen_cram_doc, g_test, g_len, g_title_lines.
  destruct (g_title t) as [x|]; cbn [app tests_from]; unfold gen_cram_block; cbn [tests_from];
    rewrite gen_block_exps, gen_block_code, body_length.
  - cbv iota. apply f_equal2; [apply f_equal; lia|apply f_equal2; [|reflexivity]].
    unfold LineParser.text. lia.
  - cbv iota. apply f_equal2; [apply f_equal; lia|apply f_equal2; [|reflexivity]].
    unfold LineParser.text. lia.
Qed.
Lemma tests_from_docs : forall m ts line, tests_from (gen_cram_docs m ts) line None = g_tests m ts line.
Proof.
  intros m ts. induction ts as [|t r IH]; intros line; [reflexivity|].
  cbn [gen_cram_docs g_tests]. destruct r as [|t2 r'].
  - rewrite <- (app_nil_r (gen_cram_one m t)). rewrite tests_from_one. reflexivity.
  - rewrite tests_from_one. apply f_equal. cbn [app tests_from].
    replace (S (S (line + g_len t))) with (line + g_len t + 2)%nat by lia. apply IH.
Qed.

Theorem cram_docs_read_back : forall m ts, Forall (g_ok m) ts ->
  parse_cram pe (render_cram (gen_cram_docs m ts)) = LOk (g_tests m ts 0).
Proof.
  intros m ts H. rewrite parse_render by (apply docs_wf; exact H).
  unfold cram_tests_of. apply f_equal. apply tests_from_docs.
Qed.
End D.

(* ---------- Markdown ---------- *)
Section M.
Variable pe : text -> bool.
Variable front_ok : list text -> bool.
Variable cfg_ok : text -> bool.

Definition g_ok_md (m : mode) (t : gtest) : Prop :=
  (match g_title t with Some x => no_nl x = true /\ x <> [] | None => True end) /\
  no_nl (g_cmd t) = true /\ forallb no_nl (g_conts t) = true /\
  Forall (fun l => content_ok (trim_newlines l)) (g_lines t) /\ g_code t <= 2147483647 /\
  (match g_lines t with l :: _ => starts_with P_GT (expectation_line m l) = false | [] => True end) /\
  Forall (fun l => pe (expectation_line m l) = true) (g_lines t).
Definition cfg_fine (cfg : option text) : Prop := match cfg with Some c => cfg_text_ok cfg_ok c = true | None => True end.

(* the block itself is well-formed wherever it stands, with or without an inline configuration *)
Lemma gen_body_ok : forall m t n, g_ok_md m t ->
  (forall l, In l (g_lines t) -> closes n (expectation_line m l) = false) ->
  md_body_ok pe n (gen_body m (g_lines t) (g_code t)) = true.
Proof.
  intros m t n (Ht & Hcmd & Hconts & Hc & Hcode & Hg & Hpe) Open.
  unfold md_body_ok, gen_body. rewrite count_codes_exps.
  apply andb_true_iff. split; [apply andb_true_iff; split|].
  - rewrite forallb_app. apply andb_true_iff. split.
    + apply forallb_forall. intros b Hb. apply in_map_iff in Hb. destruct Hb as [l [<- Hl]].
      unfold md_exp_ok. rewrite Forall_forall in Hpe, Hc. rewrite (Hpe l Hl).
      rewrite (line_not_exit_code (fun x => x) (fun _ => true) (fun x => x)).
      rewrite (Open l Hl). cbn [andb negb]. exact (expectation_line_no_lf m l (Hc l Hl)).
    + destruct (g_code t =? 0) eqn:E; [reflexivity|]. cbn [forallb]. rewrite code_ok_dec by exact Hcode. reflexivity.
  - destruct (g_code t =? 0); reflexivity.
  - destruct (g_lines t) as [|l r]; [destruct (g_code t =? 0); reflexivity|]. cbn [map app]. rewrite Hg. reflexivity.
Qed.
Lemma scrut_elem_ok : forall m cfg t first, g_ok_md m t -> cfg_fine cfg ->
  elem_ok pe front_ok cfg_ok first
    (EScrut (S (max_bt 2 (md_block_text (g_cmd t) (g_conts t) (gen_body m (g_lines t) (g_code t))))) cfg [] []
            (Some (g_cmd t, g_conts t, gen_body m (g_lines t) (g_code t))) []) = true.
Proof.
  intros m cfg t first Hok Hcfg. pose proof Hok as (Ht & Hcmd & Hconts & Hc & Hcode & Hg & Hpe).
  assert (L3: Nat.leb 3 (S (max_bt 2 (md_block_text (g_cmd t) (g_conts t) (gen_body m (g_lines t) (g_code t))))) = true)
    by (apply Nat.leb_le; apply fence_at_least_three).
  assert (Open: forall l, In l (g_lines t) ->
            closes (S (max_bt 2 (md_block_text (g_cmd t) (g_conts t) (gen_body m (g_lines t) (g_code t))))) (expectation_line m l) = false).
  { intros l Hl. apply fence_not_closed_by_body. unfold md_block_text, gen_body. apply in_or_app. right. apply in_or_app. right.
    apply in_map_iff. exists (BExp (expectation_line m l)). split; [reflexivity|].
    apply in_or_app. left. apply in_map_iff. exists l. split; [reflexivity|exact Hl]. }
  pose proof (gen_body_ok m t _ Hok Open) as B.
  destruct cfg as [c|]; cbn [elem_ok forallb]; rewrite Hcmd, Hconts, L3, B; [unfold cfg_fine in Hcfg; rewrite Hcfg|]; reflexivity.
Qed.

Lemma one_wf_md : forall m cfg t rest first, g_ok_md m t -> cfg_fine cfg ->
  (forall f, wf_md_from pe front_ok cfg_ok f rest = true) ->
  wf_md_from pe front_ok cfg_ok first (gen_md_one m cfg t ++ rest) = true.
Proof.
  intros m cfg t rest first Hok Hcfg Hrest. pose proof Hok as (Ht & _).
  unfold gen_md_one. destruct (g_title t) as [x|]; cbn [app wf_md_from].
  - destruct Ht as [T1 T2]. rewrite (scrut_elem_ok m cfg t _ Hok Hcfg), Hrest. cbn [elem_ok]. rewrite T1.
    destruct x; [congruence|]. reflexivity.
  - rewrite (scrut_elem_ok m cfg t _ Hok Hcfg), Hrest. reflexivity.
Qed.
Lemma docs_wf_md : forall m cfg ts, Forall (g_ok_md m) ts -> cfg_fine cfg ->
  forall first, wf_md_from pe front_ok cfg_ok first (gen_md_docs m cfg ts) = true.
Proof.
  intros m cfg ts H Hcfg. induction H as [|t r Ht Hr IH]; intros first; [reflexivity|].
  cbn [gen_md_docs]. destruct r as [|t2 r'].
  - rewrite <- (app_nil_r (gen_md_one m cfg t)). apply one_wf_md; [exact Ht|exact Hcfg|reflexivity].
  - apply one_wf_md; [exact Ht|exact Hcfg|]. intros f. cbn [app wf_md_from elem_ok andb]. apply IH.
Qed.

(* the tests the document denotes: per element the same command lines, written expectation lines, exit code and the
   configuration of the header; title and line number are those of the place where the block stands *)
Definition same_test (m : mode) (cfg : option text) (t : gtest) (r : mtest) : Prop :=
  pt_cmd (mt_test r) = g_cmd t :: g_conts t /\ pt_exps (mt_test r) = map (expectation_line m) (g_lines t)
  /\ pt_code (mt_test r) = (if g_code t =? 0 then None else Some (g_code t)) /\ mt_cfg r = cfg.

Lemma tests_from_one_md : forall m cfg t rest line st, exists r,
  md_tests_from (gen_md_one m cfg t ++ rest) line st = r :: md_tests_from rest (line + length (render_md (gen_md_one m cfg t))) (mkTS [] None)
  /\ same_test m cfg t r.
Proof.
  intros m cfg t rest line st. unfold gen_md_one, gen_body.
  destruct (g_title t) as [x|]; cbn [app md_tests_from]; rewrite gen_block_exps, gen_block_code; eexists; split.
  - apply f_equal2; [reflexivity|]. apply f_equal2; [|reflexivity]. unfold render_md. cbn [flat_map]. rewrite !app_length. cbn [render_elem length app]. lia.
  - unfold same_test. cbn [mt_test pt_cmd pt_exps pt_code mt_cfg]. repeat split.
  - apply f_equal2; [reflexivity|]. apply f_equal2; [|reflexivity]. unfold render_md. cbn [flat_map]. rewrite !app_length. cbn [render_elem length app]. lia.
  - unfold same_test. cbn [mt_test pt_cmd pt_exps pt_code mt_cfg]. repeat split.
Qed.

Lemma tests_from_docs_md : forall m cfg ts line st, exists rs,
  md_tests_from (gen_md_docs m cfg ts) line st = rs /\ Forall2 (same_test m cfg) ts rs.
Proof.
  intros m cfg ts. induction ts as [|t r IH]; intros line st; [exists []; split; [reflexivity|constructor]|].
  cbn [gen_md_docs]. destruct r as [|t2 r'].
  - rewrite <- (app_nil_r (gen_md_one m cfg t)). destruct (tests_from_one_md m cfg t [] line st) as (x & E & Sx).
    rewrite E. cbn [md_tests_from]. exists [x]. split; [reflexivity|]. constructor; [exact Sx|constructor].
  - destruct (tests_from_one_md m cfg t ([EBlank; EBlank] ++ gen_md_docs m cfg (t2 :: r')) line st) as (x & E & Sx).
    rewrite E. cbn [app md_tests_from].
    match goal with |- context [md_tests_from (gen_md_docs m cfg (t2 :: r')) ?l ?s] => destruct (IH l s) as (rs & E2 & F) end.
    rewrite E2. exists (x :: rs). split; [reflexivity|]. constructor; [exact Sx|exact F].
Qed.

(* the document of several generated tests reads back (C06) as exactly as many tests, in order, each with the command lines,
   written expectation lines and exit code of its element and the inline configuration of the header *)
Theorem md_docs_read_back : forall m cfg ts, Forall (g_ok_md m) ts -> cfg_fine cfg ->
  exists rs, parse_md pe front_ok cfg_ok (render_md (gen_md_docs m cfg ts)) = LOk rs /\ Forall2 (same_test m cfg) ts rs.
Proof.
  intros m cfg ts H Hcfg. rewrite parse_render_md by (unfold wf_md; apply docs_wf_md; assumption).
  unfold md_tests_of. destruct (tests_from_docs_md m cfg ts 0%nat (mkTS [] None)) as (rs & E & F).
  exists rs. split; [rewrite E; reflexivity|exact F].
Qed.
End M.
