(* C09: what `scrut create` / `update` write for a line of output (Escaper::escaped_expectation +
   Escaper::expectation_suffix) and for a whole test (Outcome::generate_testcase, create flavour).  Definitions only. *)
From Coq Require Import List NArith Bool.
Import ListNotations.
From SV Require Import Utf8 gen_Unicode Escape ExpGrammar Rules LineParser.
Local Open Scope N_scope.

Definition ends_with_lf (line : list N) : bool := match rev line with 10 :: _ => true | _ => false end.
Definition S_EQUAL : list N := [32; 40; 101; 113; 117; 97; 108; 41].        (* " (equal)" *)
Definition needs_kind (content : list N) : bool := match rev content with 41 :: _ => true | 93 :: _ => true | _ => false end.

(* the expectation line written for one line of output (bytes, with or without its final LF) *)
Definition expectation_line (m : mode) (line : list N) : text :=
  let content := trim_newlines line in
  if has_unprintable m content then escaped_printable m content ++ S_ESCAPED
  else let t := text_of content in
       if negb (ends_with_lf line) then t ++ S_NOEOL
       else if needs_kind content then t ++ S_EQUAL else t.

(* does a parsed rule match a line of output (bytes) -- the three kinds the generator produces *)
Definition rule_matches (r : rule) (line : list N) : bool :=
  match r with
  | REqual t => m_equal (utf8_encode t) line
  | RNoEol t => m_noeol (utf8_encode t) line
  | REscaped _ b => m_escaped b line
  | _ => false
  end.

