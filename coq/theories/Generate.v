(* C09: what `scrut create` / `update` write for a line of output (Escaper::escaped_expectation +
   Escaper::expectation_suffix) and for a whole test (Outcome::generate_testcase, create flavour).  Definitions only. *)
From Coq Require Import List NArith Bool.
Import ListNotations.
From SV Require Import Utf8 gen_Unicode Escape ExpGrammar Rules Template LineParser.
Local Open Scope N_scope.

Definition ends_with_lf (line : list N) : bool := match rev line with 10 :: _ => true | _ => false end.
Definition S_EQUAL : list N := [32; 40; 101; 113; 117; 97; 108; 41].        (* " (equal)" *)
Definition needs_kind (content : list N) : bool := match rev content with 41 :: _ => true | 93 :: _ => true | _ => false end.

(* the expectation line written for one line of output (bytes, with or without its final LF) *)
Definition expectation_line (m : mode) (line : list N) : text :=
  let content := trim_newlines line in
  if has_unprintable m content then escaped_printable m content ++ S_ESCAPED
  else let t := text_of content in
       if negb (ends_with_lf line) then t ++ S_NOEOL
       else if needs_kind content then t ++ S_EQUAL else t.

(* ---------- the guards of the generator (Outcome::generate_expectation_line, guard_no_eol_suffix) ----------
   [expectation_line] is the plain writer.  Three shapes of its result would be read back as something else; the generator
   writes them with one character as an escape sequence:
   - an escaped rendering that ends in ` (no-eol)` (the escaped rule drops that ending): the final `)` becomes `\x29`;
   - a first line after the shell expression that starts with `> `, and -- Cram -- any line that starts with `$ `: the whole
     content in escaped notation, the first character as `\xHH` (rendered by giving the writer an unprintable first byte). *)
Definition X29 : list N := [92; 120; 50; 57].
Definition guard_noeol (t : text) : text :=
  match strip_suffix S_NOEOL t with Some h => h ++ [32; 40; 110; 111; 45; 101; 111; 108] ++ X29 | None => t end.
Definition written_line (m : mode) (line : list N) : text :=
  let content := trim_newlines line in
  if has_unprintable m content then guard_noeol (escaped_printable m content) ++ S_ESCAPED else expectation_line m line.
Definition guarded_line (first cram : bool) (m : mode) (line : list N) : text :=
  let w := written_line m line in
  if (first && starts_with P_GT w) || (cram && starts_with P_DOLLAR w) then
    match trim_newlines line with
    | c :: rest => guard_noeol ([92; 120; hexd (c / 16); hexd (c mod 16)] ++ skipn 4 (escaped_printable m (1 :: rest))) ++ S_ESCAPED
    | [] => w
    end
  else w.
(* the expectation lines of a generated test: the first one directly follows the shell expression *)
Definition guarded_lines (cram : bool) (m : mode) (lines : list (list N)) : list text :=
  match lines with [] => [] | l :: r => guarded_line true cram m l :: map (guarded_line false cram m) r end.

(* does a parsed rule match a line of output (bytes) -- the three kinds the generator produces *)
Definition rule_matches (r : rule) (line : list N) : bool :=
  match r with
  | REqual t => m_equal (utf8_encode t) line
  | RNoEol t => m_noeol (utf8_encode t) line
  | REscaped _ b => m_escaped b line
  | _ => false
  end.

