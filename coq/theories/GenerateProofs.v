From Coq Require Import List NArith Bool Lia.
Import ListNotations.
From SV Require Import Utf8 gen_Unicode gen_Kinds Escape EscapeProofs ExpGrammar ExpGrammarProofs Rules RulesProofs LineParser Generate.
Local Open Scope N_scope.

Section G.
Variable regex_prep : list N -> list N.
Variable regex_compiles : list N -> bool.
Variable glob_norm : list N -> list N.
Notation parse := (ExpGrammar.parse regex_prep regex_compiles glob_norm).

(* a line of output as the matcher sees it: content without LF, then nothing or exactly one LF *)
Definition out_line (content line : list N) : Prop :=
  content_ok content /\ (line = content \/ line = content ++ [10]).

Lemma trim_rev_nolf : forall r, (match r with 10 :: _ => False | _ => True end) -> trim_newlines_rev r = r.
Proof. intros [|c r] H; [reflexivity|]. cbn [trim_newlines_rev]. destruct c as [|p]; [reflexivity|].
  do 4 (destruct p as [p|p|]; try reflexivity). contradiction. Qed.

Lemma content_last_not_lf : forall content, content_ok content -> match rev content with 10 :: _ => False | _ => True end.
Proof.
  intros content H. destruct (rev content) as [|c r] eqn:E; [exact I|].
  assert (In c content) by (apply in_rev; rewrite E; left; reflexivity).
  unfold content_ok in H. rewrite Forall_forall in H. destruct (H c H0) as [_ N].
  destruct c as [|p]; [exact I|]. do 4 (destruct p as [p|p|]; try exact I). apply N. reflexivity.
Qed.

Lemma trim_out_line : forall content line, out_line content line -> trim_newlines line = content.
Proof.
  intros content line [Hc [->| ->]]; unfold trim_newlines.
  - rewrite (trim_rev_nolf _ (content_last_not_lf content Hc)). apply rev_involutive.
  - rewrite rev_app_distr. cbn [rev app trim_newlines_rev]. rewrite (trim_rev_nolf _ (content_last_not_lf content Hc)). apply rev_involutive.
Qed.

Lemma ends_with_lf_cases : forall content, content_ok content ->
  ends_with_lf content = false /\ ends_with_lf (content ++ [10]) = true.
Proof.
  intros content H. unfold ends_with_lf. split.
  - pose proof (content_last_not_lf content H) as L. destruct (rev content) as [|c r]; [reflexivity|].
    destruct c as [|p]; [reflexivity|]. do 4 (destruct p as [p|p|]; try reflexivity). contradiction.
  - rewrite rev_app_distr. reflexivity.
Qed.

(* printable content: its text is valid, scalar, and re-encodes to the content *)
Lemma printable_text : forall m content, content_ok content -> has_unprintable m content = false ->
  utf8_encode (text_of content) = content /\ Forall (fun c => is_scalar c = true) (text_of content)
  /\ has_unprintable m (utf8_encode (text_of content)) = false.
Proof.
  intros m content Hc H. pose proof (lossless m content) as L.
  assert (D : exists cs, utf8_decode content = Some cs).
  { destruct m; cbn [has_unprintable] in H.
    - exists content. apply utf8_decode_ascii. pose proof (no_unprintable_all_printable content H) as P.
      rewrite Forall_forall in *. intros b Hb. apply printable_lt128. apply P. exact Hb.
    - unfold has_unprintable_unicode in H. destruct (utf8_decode content) as [cs|]; [exists cs; reflexivity|discriminate]. }
  destruct D as [cs D]. unfold text_of. rewrite D. destruct (utf8_decode_sound _ _ D) as [E S].
  split; [exact E|]. split; [exact S|]. rewrite E. exact H.
Qed.

Lemma last_not_rparen : forall t, needs_kind t = false -> last_is_rparen t = false.
Proof.
  intros t H. unfold needs_kind, last_is_rparen in *. destruct (rev t) as [|c r]; [reflexivity|].
  destruct c as [|p]; [reflexivity|]. do 6 (destruct p as [p|p|]; try reflexivity); discriminate.
Qed.

(* text and bytes end in the same ASCII character *)
Lemma rev_utf8_last : forall t c r, Forall (fun c => is_scalar c = true) t -> rev t = c :: r -> c < 128 ->
  exists r', rev (utf8_encode t) = c :: r'.
Proof.
  intros t c r S E L. assert (T : t = rev r ++ [c]).
  { apply (f_equal (@rev N)) in E. rewrite rev_involutive in E. exact E. }
  subst t. unfold utf8_encode. rewrite flat_map_app. cbn [flat_map]. rewrite (enc_ascii c L), app_nil_r.
  rewrite rev_app_distr. cbn [rev app]. eexists. reflexivity.
Qed.

Lemma needs_kind_text : forall m content, content_ok content -> has_unprintable m content = false ->
  needs_kind content = false -> last_is_rparen (text_of content) = false.
Proof.
  intros m content Hc Hp Hn. destruct (printable_text m content Hc Hp) as (E & S & _).
  unfold last_is_rparen. destruct (rev (text_of content)) as [|c r] eqn:R; [reflexivity|].
  destruct (N.eqb_spec c 41) as [->|N41].
  - destruct (rev_utf8_last _ 41 r S R ltac:(lia)) as [r' R']. rewrite E in R'. unfold needs_kind in Hn. rewrite R' in Hn. discriminate.
  - destruct c as [|p]; [reflexivity|]. do 6 (destruct p as [p|p|]; try reflexivity). exfalso. apply N41. reflexivity.
Qed.

(* ---------- the line round trip ---------- *)
Theorem line_round_trip : forall m content line,
  out_line content line ->
  (has_unprintable m content = true -> strip_suffix S_NOEOL (escaped_printable m content) = None) ->
  exists r, parse (expectation_line m line) = POk (mkE r false false) /\ rule_matches r line = true.
Proof.
  intros m content line HL HS. pose proof (trim_out_line content line HL) as T.
  destruct HL as [Hc Hline]. unfold expectation_line. rewrite T.
  destruct kinds_present as (KE & KN & KS & _).
  destruct (has_unprintable m content) eqn:U.
  - (* escaped *)
    exists (REscaped (escaped_printable m content) content). split.
    + change S_ESCAPED with (paren K_ESCAPED (quant_text false false)).
      rewrite (parse_with_modifier regex_prep regex_compiles glob_norm _ K_ESCAPED 2%nat false false); [|vm_compute; reflexivity|left; discriminate|exact KS].
      cbn [ExpGrammar.make]. rewrite (HS eq_refl). rewrite (escaped_printable_decodes m content Hc U). reflexivity.
    + cbn [rule_matches]. apply escaped_iff. exact T.
  - destruct (printable_text m content Hc U) as (E & S & U').
    destruct (ends_with_lf_cases content Hc) as [L0 L1].
    destruct Hline as [->| ->].
    + (* no final newline: (no-eol) *)
      rewrite L0. cbn [negb]. exists (RNoEol (text_of content)). split.
      * change S_NOEOL with (paren K_NOEOL (quant_text false false)).
        rewrite (parse_with_modifier regex_prep regex_compiles glob_norm _ K_NOEOL 1%nat false false); [reflexivity|vm_compute; reflexivity|left; discriminate|exact KN].
      * cbn [rule_matches]. apply noeol_iff. symmetry. exact E.
    + rewrite L1. cbn [negb]. exists (REqual (text_of content)).
      assert (M : rule_matches (REqual (text_of content)) (content ++ [10]) = true).
      { cbn [rule_matches]. rewrite E. apply equal_iff; [|reflexivity].
        pose proof (content_last_not_lf content Hc) as NL. unfold ends_in_newline.
        destruct (rev content) as [|c r]; [reflexivity|]. destruct c as [|p]; [reflexivity|].
        do 4 (destruct p as [p|p|]; try reflexivity). contradiction. }
      split; [|exact M].
      destruct (needs_kind content) eqn:NK.
      * change S_EQUAL with (paren EQUAL (quant_text false false)).
        rewrite (parse_with_modifier regex_prep regex_compiles glob_norm _ EQUAL 0%nat false false); [reflexivity|vm_compute; reflexivity|left; discriminate|exact KE].
      * unfold ExpGrammar.parse. rewrite (extract_plain _ (split_mod_no_rparen _ (needs_kind_text m content Hc U NK))). rewrite KE. reflexivity.
Qed.

(* and the written line is never taken for an exit code by the line parser *)
Theorem line_not_exit_code : forall m line, extract_exit_code (expectation_line m line) = None.
Proof.
  intros m line. unfold expectation_line.
  assert (G : forall t suf, extract_exit_code (t ++ suf ++ [41]) = None).
  { intros t suf. unfold extract_exit_code. destruct (t ++ suf ++ [41]) as [|c r] eqn:E; [reflexivity|].
    destruct (N.eqb_spec c 91) as [->|N]; [|destruct c as [|p]; [reflexivity|]; do 7 (destruct p as [p|p|]; try reflexivity); exfalso; apply N; reflexivity].
    assert (R : exists r0, rev r = 41 :: r0).
    { assert (L : rev (91 :: r) = 41 :: rev (t ++ suf)) by (rewrite <- E, !app_assoc, rev_app_distr; reflexivity).
      cbn [rev] in L. destruct (rev r) as [|x r0] eqn:Er; [cbn in L; inversion L|]. cbn [app] in L. inversion L. eexists; reflexivity. }
    destruct R as [r0 R]. rewrite R. reflexivity. }
  destruct (has_unprintable m (trim_newlines line)).
  - change S_ESCAPED with ([32; 40; 101; 115; 99; 97; 112; 101; 100] ++ [41]). apply G.
  - destruct (negb (ends_with_lf line)).
    + change S_NOEOL with ([32; 40; 110; 111; 45; 101; 111; 108] ++ [41]). apply G.
    + destruct (needs_kind (trim_newlines line)) eqn:NK.
      * change S_EQUAL with ([32; 40; 101; 113; 117; 97; 108] ++ [41]). apply G.
      * (* plain text not ending in ] : the bytes do not, hence the text does not *)
        unfold extract_exit_code. destruct (text_of (trim_newlines line)) as [|c r] eqn:Et; [reflexivity|].
        destruct (N.eqb_spec c 91) as [->|N]; [|destruct c as [|p]; [reflexivity|]; do 7 (destruct p as [p|p|]; try reflexivity); exfalso; apply N; reflexivity].
        destruct (rev r) as [|x r0] eqn:Er; [reflexivity|].
        destruct (N.eqb_spec x 93) as [->|N93]; [|destruct x as [|p]; [reflexivity|]; do 7 (destruct p as [p|p|]; try reflexivity); exfalso; apply N93; reflexivity].
        (* the text ends in ] -- impossible when the content does not; but text_of of undecodable bytes is the bytes *)
        exfalso. unfold text_of in Et. destruct (utf8_decode (trim_newlines line)) as [cs|] eqn:D.
        -- destruct (utf8_decode_sound _ _ D) as [E S]. subst cs.
           assert (R : rev (91 :: r) = 93 :: (r0 ++ [91])) by (cbn [rev]; rewrite Er; reflexivity).
           destruct (rev_utf8_last _ 93 _ S R ltac:(lia)) as [r' R']. rewrite E in R'. unfold needs_kind in NK. rewrite R' in NK. discriminate.
        -- unfold needs_kind in NK. rewrite Et in NK. cbn [rev] in NK. rewrite Er in NK. cbn in NK. discriminate.
Qed.
End G.
