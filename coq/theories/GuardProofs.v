(* C09: the guarded form of a generated expectation line -- the first character as an escape sequence, the rest in escaped
   notation (Generate.guarded_line) -- reads back as an escaped expectation for exactly the line it was written for. *)
From Coq Require Import List NArith Bool Lia.
Import ListNotations.
From SV Require Import Utf8 gen_Unicode gen_Kinds Escape EscapeProofs ExpGrammar ExpGrammarProofs Rules RulesProofs LineParser Generate GenerateProofs.
Local Open Scope N_scope.

(* a byte string that starts with the byte 1 is not printable in either mode, and its rendering starts with \x01 *)
Lemma decode_starts_with_one : forall rest cs, utf8_decode (1 :: rest) = Some cs -> exists cs', cs = 1 :: cs'.
Proof.
  intros rest cs D. destruct (utf8_decode_sound _ _ D) as [E _]. destruct cs as [|c0 cs']; [discriminate|].
  exists cs'. f_equal. cbn [utf8_encode flat_map] in E.
  destruct (N.ltb_spec c0 128) as [L|G].
  - rewrite (enc_ascii c0 L) in E. cbn [app] in E. injection E as E1 _. exact E1.
  - exfalso. pose proof (enc_high c0 G) as H. pose proof (enc_nonempty c0) as NE.
    destruct (enc c0) as [|b bs]; [congruence|]. cbn [app] in E. injection E as E1 _. subst b.
    apply Forall_cons_iff in H. destruct H as [H _]. lia.
Qed.
Lemma marked_unprintable : forall m rest, has_unprintable m (1 :: rest) = true.
Proof.
  intros m rest. destruct m; cbn [has_unprintable].
  - unfold has_unprintable_ascii. cbn [existsb]. change (negb (printable 1)) with true. reflexivity.
  - unfold has_unprintable_unicode. destruct (utf8_decode (1 :: rest)) as [cs|] eqn:D; [|reflexivity].
    destruct (decode_starts_with_one rest cs D) as [cs' ->]. cbn [existsb]. change (is_other 1) with true. reflexivity.
Qed.
Lemma marked_head : forall m rest, exists T, escaped_printable m (1 :: rest) = [92; 120; 48; 49] ++ T.
Proof.
  intros m rest.
  assert (A: exists T, escaped_printable_ascii (1 :: rest) = [92; 120; 48; 49] ++ T).
  { unfold escaped_printable_ascii. assert (U: has_unprintable_ascii (1 :: rest) = true) by (unfold has_unprintable_ascii; cbn [existsb]; reflexivity).
    rewrite U. cbn [flat_map]. change (byte_to_ascii 1) with [92; 120; 48; 49]. eexists. reflexivity. }
  destruct m; cbn [escaped_printable]; [exact A|].
  unfold escaped_printable_unicode. destruct (utf8_decode (1 :: rest)) as [cs|] eqn:D; [|exact A].
  destruct (decode_starts_with_one rest cs D) as [cs' ->]. cbn [flat_map].
  assert (E: forall b, esc_char b 1 = [92; 120; 48; 49]) by (intros b; vm_compute; reflexivity).
  rewrite E. eexists. reflexivity.
Qed.

(* \xHH in front of a text decodes to the byte HH in front of what the text decodes to *)
Lemma decode_hex_head : forall c T, c < 256 ->
  decode ([92; 120; hexd (c / 16); hexd (c mod 16)] ++ T) = option_map (cons c) (decode T).
Proof.
  intros c T Hc. unfold decode. cbn [app unescape_tabs]. change (92 =? 92) with true. cbv iota. change (sel 120) with [92; 120]. cbn [app].
  assert (H1: (hexd (c / 16) =? 92) = false).
  { destruct (hexd_range (c / 16)) as [[H _]|[H _]]; lia. }
  assert (H2: (hexd (c mod 16) =? 92) = false).
  { destruct (hexd_range (c mod 16)) as [[H _]|[H _]]; lia. }
  cbn [unescape_tabs]. rewrite H1. cbn [unescape_tabs]. rewrite H2.
  cbn [resolve]. change (92 =? 92) with true. cbv iota. change (120 =? 48) with false. change (120 =? 120) with true. cbv iota.
  rewrite two16_hexd by exact Hc. reflexivity.
Qed.

Theorem guarded_decodes : forall m c rest, content_ok (c :: rest) ->
  decode ([92; 120; hexd (c / 16); hexd (c mod 16)] ++ skipn 4 (escaped_printable m (1 :: rest))) = Some (c :: rest).
Proof.
  intros m c rest H. apply Forall_cons_iff in H. destruct H as [[Hc _] Hr].
  destruct (marked_head m rest) as [T E]. rewrite E. change (skipn 4 ([92; 120; 48; 49] ++ T)) with T.
  rewrite (decode_hex_head c T Hc).
  assert (H1: content_ok (1 :: rest)) by (constructor; [split; lia|exact Hr]).
  pose proof (escaped_printable_decodes m (1 :: rest) H1 (marked_unprintable m rest)) as D. rewrite E in D.
  change [92; 120; 48; 49] with [92; 120; hexd (1 / 16); hexd (1 mod 16)] in D. rewrite (decode_hex_head 1 T ltac:(lia)) in D.
  destruct (decode T) as [t|]; [|discriminate]. cbn [option_map] in *. injection D as ->. reflexivity.
Qed.

Section P.
Variable regex_prep : list N -> list N.
Variable regex_compiles : list N -> bool.
Variable glob_norm : list N -> list N.
Notation parse := (ExpGrammar.parse regex_prep regex_compiles glob_norm).

(* the guarded line reads back (expectation grammar) as an escaped expectation without quantifier that matches the very line
   it was written for -- whatever the line starts with; the premise is the one collision the second guard takes care of *)
Theorem guarded_round_trip : forall m c rest line, out_line (c :: rest) line ->
  let t := [92; 120; hexd (c / 16); hexd (c mod 16)] ++ skipn 4 (escaped_printable m (1 :: rest)) in
  strip_suffix S_NOEOL t = None ->
  exists r, parse (t ++ S_ESCAPED) = POk (mkE r false false) /\ rule_matches r line = true.
Proof.
  intros m c rest line HL t HS. pose proof (trim_out_line (c :: rest) line HL) as T. destruct HL as [Hc _].
  destruct kinds_present as (_ & _ & KS & _).
  exists (REscaped t (c :: rest)). split.
  - change S_ESCAPED with (paren K_ESCAPED (quant_text false false)).
    rewrite (parse_with_modifier regex_prep regex_compiles glob_norm _ K_ESCAPED 2%nat false false); [|vm_compute; reflexivity|left; discriminate|exact KS].
    cbn [ExpGrammar.make]. rewrite HS. unfold t. rewrite (guarded_decodes m c rest Hc). reflexivity.
  - cbn [rule_matches]. apply escaped_iff. exact T.
Qed.
End P.

(* the second guard: what [guard_noeol] returns never ends in ` (no-eol)`, so the escaped rule (which drops such an ending) reads
   the whole of it *)
Lemma ends_with_last : forall suf l x y, x <> y -> ends_with (suf ++ [x]) (l ++ [y]) = false.
Proof.
  intros suf l x y H. unfold ends_with. rewrite !rev_app_distr. cbn [rev app ends_with_rev].
  assert (E: (x =? y) = false) by lia. rewrite E. reflexivity.
Qed.
Theorem guard_noeol_keeps_ending : forall t, strip_suffix S_NOEOL (guard_noeol t) = None.
Proof.
  intros t. unfold guard_noeol. destruct (strip_suffix S_NOEOL t) as [h|] eqn:E; [|exact E].
  unfold strip_suffix.
  replace (h ++ [32; 40; 110; 111; 45; 101; 111; 108] ++ X29) with ((h ++ [32; 40; 110; 111; 45; 101; 111; 108; 92; 120; 50]) ++ [57])
    by (unfold X29; rewrite <- !app_assoc; reflexivity).
  change S_NOEOL with ([32; 40; 110; 111; 45; 101; 111; 108] ++ [41]).
  rewrite ends_with_last by discriminate. reflexivity.
Qed.
