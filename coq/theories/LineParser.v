(* Model of src/parsers/line_parser.rs (LineParser) and src/parsers/cram.rs (CramParser::parse) over lines of text
   (code points).  Definitions only. *)
From Coq Require Import List NArith Bool.
Import ListNotations.
From SV Require Import Template.
Local Open Scope N_scope.

Definition text := list N.
Record ptest := mkPT { pt_title : text; pt_cmd : list text; pt_exps : list text; pt_code : option N; pt_line : nat }.

Record lp := mkLP {
  lp_title : option text; lp_cmd : list text; lp_exps : list text; lp_code : option N;
  lp_in_command : bool; lp_start : option nat; lp_cases : list ptest (* newest first *) }.
Definition lp_init : lp := mkLP None [] [] None false None [].

Inductive lres (A : Type) := LOk (a : A) | LErr.
Arguments LOk {A}. Arguments LErr {A}.

Definition strip_prefix (p l : text) : option text := if starts_with p l then Some (skipn (length p) l) else None.
Definition P_DOLLAR : text := [36; 32].    (* "$ " *)
Definition P_GT : text := [62; 32].        (* "> " *)

(* ^\[([0-9]+)\]$ and i32::parse *)
Definition is_digit (c : N) : bool := (48 <=? c) && (c <=? 57).
Fixpoint digits_value (acc : N) (ds : list N) : N :=
  match ds with [] => acc | d :: r => digits_value (acc * 10 + (d - 48)) r end.
Definition extract_exit_code (l : text) : option N :=
  match l with
  | 91 :: r =>
    match rev r with
    | 93 :: ds_rev =>
      let ds := rev ds_rev in
      match ds with
      | [] => None
      | _ => if forallb is_digit ds
             then (let v := digits_value 0 ds in
                   (* i32::from_str fails above 2147483647; more than 10 significant digits certainly do *)
                   if v <=? 2147483647 then Some v else None)
             else None
      end
    | _ => None
    end
  | _ => None
  end.

Section LP.
Variable pe_ok : text -> bool.            (* does ExpectationMaker::parse accept the line (C08) *)

Definition flush (s : lp) (cases : list ptest) : lp :=
  mkLP None [] [] None (lp_in_command s) None cases.

Definition end_testcase (s : lp) (index : nat) : lres lp :=
  match lp_cmd s with
  | [] => match lp_exps s, lp_code s with [], None => LOk s | _, _ => LErr end     (* expectations or an exit code without a command *)
  | _ =>
    let tc := mkPT (match lp_title s with Some t => t | None => [] end) (lp_cmd s) (lp_exps s) (lp_code s)
                   (S (match lp_start s with Some i => i | None => index end)) in
    LOk (flush s (tc :: lp_cases s))
  end.

Definition add_body (multi : bool) (s : lp) (line : text) (index : nat) : lres lp :=
  let try_start :=
    if multi || match lp_cmd s with [] => true | _ => false end then strip_prefix P_DOLLAR line else None in
  match try_start with
  | Some rest =>
    let s1 := mkLP (lp_title s) (lp_cmd s) (lp_exps s) (lp_code s) true (lp_start s) (lp_cases s) in
    match (match lp_cmd s1 with [] => LOk s1 | _ => end_testcase s1 index end) with
    | LErr => LErr
    | LOk s2 =>
      LOk (mkLP (lp_title s2) (lp_cmd s2 ++ [rest]) (lp_exps s2) (lp_code s2) (lp_in_command s2)
               (match lp_start s2 with None => Some index | x => x end) (lp_cases s2))
    end
  | None =>
    match (if lp_in_command s then strip_prefix P_GT line else None) with
    | Some rest =>
      match lp_cmd s with
      | [] => LErr
      | _ => LOk (mkLP (lp_title s) (lp_cmd s ++ [rest]) (lp_exps s) (lp_code s) (lp_in_command s) (lp_start s) (lp_cases s))
      end
    | None =>
      match extract_exit_code line with
      | Some c =>
        match lp_code s with
        | Some _ => LErr
        | None => LOk (mkLP (lp_title s) (lp_cmd s) (lp_exps s) (Some c) false (lp_start s) (lp_cases s))
        end
      | None =>
        if pe_ok line
        then LOk (mkLP (lp_title s) (lp_cmd s) (lp_exps s ++ [line]) (lp_code s) false (lp_start s) (lp_cases s))
        else LErr
      end
    end
  end.

Definition set_title (s : lp) (t : text) : lp :=
  mkLP (Some t) (lp_cmd s) (lp_exps s) (lp_code s) (lp_in_command s) (lp_start s) (lp_cases s).
Definition has_body (s : lp) : bool := match lp_cmd s, lp_exps s, lp_code s with [], [], None => false | _, _, _ => true end.

(* ---------- CramParser::parse ---------- *)
Definition INDENT : text := [32; 32].
Definition is_comment (l : text) : bool := match l with 35 :: _ => true | _ => false end.

Definition cram_step (s : lp) (line : text) (index : nat) : lres lp :=
  if is_comment line then LOk s
  else match line with
       | [] => if has_body s then end_testcase s index else LOk s
       | _ =>
         match strip_prefix INDENT line with
         | Some rest => add_body true s rest index
         | None => match end_testcase s index with LOk s' => LOk (set_title s' line) | LErr => LErr end
         end
       end.

Fixpoint cram_loop (s : lp) (lines : list text) (index : nat) : lres lp :=
  match lines with
  | [] => if has_body s then end_testcase s index else LOk s
  | l :: r => match cram_step s l index with LOk s' => cram_loop s' r (S index) | LErr => LErr end
  end.
Definition parse_cram (lines : list text) : lres (list ptest) :=
  match cram_loop lp_init lines 0 with LOk s => LOk (rev (lp_cases s)) | LErr => LErr end.
End LP.
