(* Model of newline.rs::split_at_newline over bytes (N), with the facts C01/C02 need at byte level. *)
From Coq Require Import List NArith Bool Lia.
Import ListNotations.
Local Open Scope N_scope.

Definition byte := N.
Definition NL : byte := 10.

(* cur = bytes of the current line, reversed *)
Fixpoint split_aux (cur : list byte) (bs : list byte) : list (list byte) :=
  match bs with
  | [] => match cur with [] => [] | _ => [rev cur] end
  | b :: r => if b =? NL then rev (b :: cur) :: split_aux [] r else split_aux (b :: cur) r
  end.
Definition split_lines (bs : list byte) : list (list byte) := split_aux [] bs.

Lemma split_aux_concat : forall bs cur, concat (split_aux cur bs) = rev cur ++ bs.
Proof.
  induction bs as [|b r IH]; intros cur; cbn [split_aux].
  - destruct cur; cbn [concat]; rewrite ?app_nil_r; reflexivity.
  - destruct (b =? NL).
    + cbn [concat]. rewrite IH. cbn [rev app]. rewrite <- app_assoc. reflexivity.
    + rewrite IH. cbn [rev]. rewrite <- app_assoc. reflexivity.
Qed.

Theorem split_lines_concat : forall bs, concat (split_lines bs) = bs.
Proof. intros bs. unfold split_lines. rewrite split_aux_concat. reflexivity. Qed.

(* a line is non-empty, contains NL at most as its last byte *)
Definition line_ok (l : list byte) : Prop :=
  l <> [] /\ forall pre x post, l = pre ++ x :: post -> x = NL -> post = [].

Lemma rev_cons_nonnil : forall (A : Type) (x : A) l, rev (x :: l) <> [].
Proof. intros A x l H. apply (f_equal (@length A)) in H. rewrite rev_length in H. cbn in H. lia. Qed.

Lemma split_aux_lines_ok : forall bs cur,
  Forall (fun x => x <> NL) cur -> Forall line_ok (split_aux cur bs).
Proof.
  induction bs as [|b r IH]; intros cur Hc; cbn [split_aux].
  - destruct cur as [|c cur']; [constructor|]. constructor; [|constructor]. split; [apply rev_cons_nonnil|].
    intros pre x post E Hx. exfalso. rewrite Forall_forall in Hc. apply (Hc x); [|exact Hx].
    apply in_rev. rewrite E. apply in_or_app. right. left. reflexivity.
  - destruct (N.eqb_spec b NL) as [Hb|Hb].
    + constructor; [|apply IH; constructor]. split; [apply rev_cons_nonnil|].
      intros pre x post E Hx. cbn [rev] in E.
      destruct post as [|p post'] using rev_ind; [reflexivity|]. exfalso.
      rewrite app_comm_cons, app_assoc in E. apply app_inj_tail in E. destruct E as [E _].
      rewrite Forall_forall in Hc. apply (Hc x); [|exact Hx]. apply in_rev. rewrite E. apply in_or_app. right. left. reflexivity.
    + apply IH. constructor; assumption.
Qed.

Theorem split_lines_ok : forall bs, Forall line_ok (split_lines bs).
Proof. intros bs. apply split_aux_lines_ok. constructor. Qed.

(* ---------- str::lines(): split at LF, drop one trailing CR of each line, no final empty line ---------- *)
Fixpoint lines_aux (cur : list N) (cs : list N) : list (list N) :=
  match cs with
  | [] => match cur with [] => [] | _ => [rev cur] end
  | c :: r => if (c =? 10)%N then rev (match cur with 13%N :: cur' => cur' | _ => cur end) :: lines_aux [] r
              else lines_aux (c :: cur) r
  end.
Definition str_lines (t : list N) : list (list N) := lines_aux [] t.
