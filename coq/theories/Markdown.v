(* Model of src/parsers/markdown.rs: extract_code_block_start, MarkdownIterator (token automaton with the
   end-of-document flush), extract_title and MarkdownParser::parse.  Definitions only. *)
From Coq Require Import List NArith Bool.
Import ListNotations.
From SV Require Import Template gen_Unicode Escape LineParser.
Local Open Scope N_scope.

Definition is_white (c : N) : bool := in_ranges whitespace_ranges c.
Definition is_letter (c : N) : bool := in_ranges letter_ranges c.
Definition BT : N := 96.

Fixpoint drop_while (p : N -> bool) (l : text) : text :=
  match l with c :: r => if p c then drop_while p r else l | [] => [] end.
Definition trim_start (l : text) : text := drop_while is_white l.
Definition trim_end (l : text) : text := rev (drop_while is_white (rev l)).
Definition trim (l : text) : text := trim_end (trim_start l).

Fixpoint count_bt (l : text) : nat := match l with c :: r => if c =? BT then S (count_bt r) else O | [] => O end.
Fixpoint split_at_brace (l : text) : text * option text :=
  match l with
  | [] => ([], None)
  | c :: r => if c =? 123 then ([], Some l) else let '(a, b) := split_at_brace r in (c :: a, b)
  end.

(* (number of backticks, language, config text) *)
Definition extract_code_block_start (line : text) : option (nat * text * text) :=
  let n := count_bt line in
  let rest := skipn n line in
  match rest with
  | [] => if Nat.eqb n 3 then Some (3%nat, [], []) else None        (* only exactly ``` *)
  | _ => if Nat.ltb n 3 then None
         else match split_at_brace rest with
              | (lang, Some cfg) => Some (n, trim_end lang, trim_end cfg)
              | (lang, None) => Some (n, trim_end lang, [])
              end
  end.
Definition closes (n : nat) (line : text) : bool := Nat.leb n (count_bt line).

Definition SCRUT : text := [115; 99; 114; 117; 116].
Definition DASHES : text := [45; 45; 45].
Definition inner_config (cfg : text) : option text :=
  match cfg with
  | 123 :: r => match rev r with 125 :: m => match rev m with [] => None | x => Some x end | _ => None end
  | _ => None
  end.

(* [raw] is a ghost field: every line the token was read from, fence lines included (the Rust tokens keep them only for
   verbatim blocks); it is what the accounting theorems are about and is never compared with the implementation *)
Inductive token :=
| TLine (idx : nat) (l : text)
| TFront (lines : list text) (raw : list text)
| TVerb (start : nat) (lang : text) (raw : list text)
| TTest (config : option text) (comments : list text) (code : list (nat * text)) (raw : list text).
Definition tok_raw (t : token) : list text :=
  match t with TLine _ l => [l] | TFront _ r => r | TVerb _ _ r => r | TTest _ _ _ r => r end.

Inductive mstate :=
| Top (content_start : bool)
| InFront (acc : list text) (raw : list text)
| InVerb (n : nat) (start : nat) (lang : text) (raw : list text)
| InTest (n : nat) (cfg : option text) (comments : list text) (code : list (nat * text)) (raw : list text).

Definition mstep (s : mstate) (idx : nat) (l : text) : mstate * list token :=
  match s with
  | Top cs =>
    if negb cs && list_eqb l DASHES then (InFront [] [l], [])
    else match extract_code_block_start l with
         | Some (n, lang, cfg) =>
           if list_eqb lang SCRUT then (InTest n (inner_config cfg) [] [] [l], []) else (InVerb n idx lang [l], [])
         | None => (Top (cs || negb (match trim l with [] => true | _ => false end)), [TLine idx l])
         end
  | InFront acc raw => if list_eqb l DASHES then (Top false, [TFront acc (raw ++ [l])]) else (InFront (acc ++ [l]) (raw ++ [l]), [])
  | InVerb n start lang raw => if closes n l then (Top true, [TVerb start lang (raw ++ [l])]) else (InVerb n start lang (raw ++ [l]), [])
  | InTest n cfg cm code raw =>
    match code with
    | [] => if is_comment l then (InTest n cfg (cm ++ [l]) [] (raw ++ [l]), [])
            else if closes n l then (Top true, [TTest cfg cm [] (raw ++ [l])]) else (InTest n cfg cm [(idx, l)] (raw ++ [l]), [])
    | _ => if closes n l then (Top true, [TTest cfg cm code (raw ++ [l])]) else (InTest n cfg cm (code ++ [(idx, l)]) (raw ++ [l]), [])
    end
  end.
(* the end of the document ends whatever construct is open *)
Definition mflush (s : mstate) : list token :=
  match s with
  | Top _ => []
  | InFront acc raw => [TFront acc raw]
  | InVerb n start lang raw => [TVerb start lang raw]
  | InTest n cfg cm code raw => [TTest cfg cm code raw]
  end.
Fixpoint mrun (s : mstate) (idx : nat) (ls : list text) : list token :=
  match ls with
  | [] => mflush s
  | l :: r => let '(s', out) := mstep s idx l in out ++ mrun s' (S idx) r
  end.
Definition md_tokens (ls : list text) : list token := mrun (Top false) 0 ls.

(* extract_title: a paragraph line (first character a letter) or the text of a heading *)
Fixpoint drop_hashes (l : text) : text := match l with 35 :: r => drop_hashes r | _ => l end.
Definition extract_title (line : text) : option text :=
  let t := trim line in
  match t with
  | [] => None
  | c :: _ =>
    if is_letter c then Some t
    else if c =? 35 then
      let r := drop_hashes t in
      match r with
      | w :: _ => if is_white w then (match trim_start r with [] => None | x => Some x end) else None
      | [] => None
      end
    else None
  end.

Fixpoint join_nl (ls : list text) : text :=
  match ls with [] => [] | [x] => x | x :: r => x ++ [10] ++ join_nl r end.

Section Parse.
Variable pe_ok : text -> bool.
Variable front_ok : list text -> bool.     (* serde_yaml accepts the front-matter *)
Variable cfg_ok : text -> bool.            (* serde_yaml accepts `{inner}` as a test-case configuration *)

(* a parsed test keeps its raw inline configuration text *)
Record mtest := mkMT { mt_test : ptest; mt_cfg : option text }.

Fixpoint feed_code (s : lp) (code : list (nat * text)) : lres lp :=
  match code with
  | [] => LOk s
  | (idx, l) :: r => match add_body pe_ok false s l idx with LOk s' => feed_code s' r | LErr => LErr end
  end.
Fixpoint last_idx (code : list (nat * text)) : nat :=
  match code with [] => 0%nat | [(i, _)] => i | _ :: r => last_idx r end.

(* state: line parser, current title paragraph, config of each finished test (newest first) *)
Fixpoint parse_tokens (ts : list token) (s : lp) (para : list text) (cfgs : list (option text)) : lres (lp * list (option text)) :=
  match ts with
  | [] => LOk (s, cfgs)
  | TFront lines _ :: r => if front_ok lines then parse_tokens r s para cfgs else LErr
  | TLine _ l :: r =>
    match extract_title l with
    | Some t => let para' := para ++ [t] in parse_tokens r (set_title s (join_nl para')) para' cfgs
    | None => parse_tokens r s [] cfgs
    end
  | TVerb _ lang _ :: r => match lang with [] => LErr | _ => parse_tokens r s [] cfgs end      (* a code block ends the paragraph before it *)
  | TTest cfg cm code _ :: r =>
    if match cfg with Some c => cfg_ok c | None => true end then
      match feed_code s code with
      | LErr => LErr
      | LOk s1 =>
        match end_testcase s1 (last_idx code) with
        | LErr => LErr
        | LOk s2 =>
          let pushed := Nat.ltb (length (lp_cases s1)) (length (lp_cases s2)) in
          parse_tokens r s2 [] (if pushed then cfg :: cfgs else cfgs)
        end
      end
    else LErr
  end.

Definition parse_md (ls : list text) : lres (list mtest) :=
  match parse_tokens (md_tokens ls) lp_init [] [] with
  | LErr => LErr
  | LOk (s, cfgs) => LOk (map (fun p => mkMT (fst p) (snd p)) (combine (rev (lp_cases s)) (rev cfgs)))
  end.
End Parse.
