From Coq Require Import List NArith Bool Lia Arith.
Import ListNotations.
From SV Require Import Template gen_Unicode Escape LineParser Markdown.
Local Open Scope N_scope.

(* lines held by an open construct *)
Definition st_raw (s : mstate) : list text :=
  match s with Top _ => [] | InFront _ r => r | InVerb _ _ _ r => r | InTest _ _ _ _ r => r end.

Lemma mstep_raw : forall s idx l s' out, mstep s idx l = (s', out) ->
  concat (map tok_raw out) ++ st_raw s' = st_raw s ++ [l].
Proof.
  intros s idx l s' out H. destruct s as [cs|acc raw|n start lang raw|n cfg cm code raw]; cbn [mstep] in H.
  - destruct (negb cs && list_eqb l DASHES); [inversion H; subst; reflexivity|].
    destruct (extract_code_block_start l) as [[[n lang] cfg]|].
    + destruct (list_eqb lang SCRUT); inversion H; subst; reflexivity.
    + inversion H; subst. reflexivity.
  - destruct (list_eqb l DASHES); inversion H; subst; cbn; rewrite ?app_nil_r; reflexivity.
  - destruct (closes n l); inversion H; subst; cbn; rewrite ?app_nil_r; reflexivity.
  - destruct code as [|c code'].
    + destruct (is_comment l); [inversion H; subst; reflexivity|].
      destruct (closes n l); inversion H; subst; cbn; rewrite ?app_nil_r; reflexivity.
    + destruct (closes n l); inversion H; subst; cbn; rewrite ?app_nil_r; reflexivity.
Qed.

Lemma mflush_raw : forall s, concat (map tok_raw (mflush s)) = st_raw s.
Proof. intros [cs|acc raw|n start lang raw|n cfg cm code raw]; cbn; rewrite ?app_nil_r; reflexivity. Qed.

Lemma mrun_raw : forall ls s idx, concat (map tok_raw (mrun s idx ls)) = st_raw s ++ ls.
Proof.
  induction ls as [|l r IH]; intros s idx; cbn [mrun].
  - rewrite app_nil_r. apply mflush_raw.
  - destruct (mstep s idx l) as [s' out] eqn:E. rewrite map_app, concat_app, IH.
    rewrite app_assoc. rewrite (mstep_raw _ _ _ _ _ E). rewrite <- app_assoc. reflexivity.
Qed.

(* every line of every document -- well-formed or truncated -- ends up in exactly one token, in order *)
Theorem tokens_lossless : forall ls, concat (map tok_raw (md_tokens ls)) = ls.
Proof. intros ls. unfold md_tokens. rewrite mrun_raw. reflexivity. Qed.

(* a fence needs at least three backticks: prose that merely starts with one or two never opens a block *)
Theorem fence_needs_three : forall l n lang cfg, extract_code_block_start l = Some (n, lang, cfg) -> (3 <= n)%nat.
Proof.
  intros l n lang cfg H. unfold extract_code_block_start in H.
  destruct (skipn (count_bt l) l) as [|c r].
  - destruct (Nat.eqb (count_bt l) 3) eqn:E; [|discriminate]. inversion H; subst. lia.
  - destruct (Nat.ltb (count_bt l) 3) eqn:E; [discriminate|]. apply Nat.ltb_ge in E.
    destruct (split_at_brace (c :: r)) as [a [b|]]; inversion H; subst; exact E.
Qed.

Lemma count_bt_not_bt : forall c r, c <> BT -> count_bt (c :: r) = 0%nat.
Proof. intros c r H. cbn [count_bt]. destruct (N.eqb_spec c BT); [contradiction|reflexivity]. Qed.

(* a line whose first character is not a backtick is never a fence, whatever else it contains *)
Theorem backticks_inside_are_inert : forall c r, c <> BT -> extract_code_block_start (c :: r) = None.
Proof.
  intros c r H. unfold extract_code_block_start. rewrite (count_bt_not_bt c r H). cbn [skipn]. reflexivity.
Qed.
