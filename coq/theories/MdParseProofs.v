(* C06: the general round trip  parse_md (render_md d) = LOk (md_tests_of d)  for every well-formed document AST.
   Part A: the tokens of a rendered document; part B: the line parser over those tokens. *)
From Coq Require Import List NArith Bool Lia Arith.
Import ListNotations.
From SV Require Import Template TemplateProofs gen_Unicode Escape EscapeProofs LineParser CramSpec CramProofs Markdown MdSpec MarkdownProofs.
Local Open Scope N_scope.

(* ---------- backticks, fences, headers ---------- *)
Lemma count_bt_fence : forall n r, match r with c :: _ => c <> BT | [] => True end -> count_bt (fence n ++ r) = n.
Proof.
  induction n as [|n IH]; intros r H; cbn [fence repeat app].
  - destruct r as [|c r]; [reflexivity|]. apply count_bt_not_bt. exact H.
  - cbn [count_bt]. rewrite N.eqb_refl. f_equal. apply IH. exact H.
Qed.
Lemma count_bt_fence_ge : forall n r, (n <= count_bt (fence n ++ r))%nat.
Proof.
  induction n as [|n IH]; intros r; cbn [fence repeat app]; [lia|].
  cbn [count_bt]. rewrite N.eqb_refl. specialize (IH r). unfold fence in IH. lia.
Qed.
Lemma skipn_fence : forall n r, skipn n (fence n ++ r) = r.
Proof. induction n as [|n IH]; intros r; cbn [fence repeat app skipn]; [reflexivity|]. apply IH. Qed.
Lemma closes_fence : forall n tail, closes n (fence n ++ tail) = true.
Proof. intros. unfold closes. apply Nat.leb_le. apply count_bt_fence_ge. Qed.

Lemma head_not_bt : forall (lang : text), (match lang with [] => false | c :: _ => negb (c =? BT) end) = true ->
  lang <> [] /\ match lang with c :: _ => c <> BT | [] => True end.
Proof.
  intros [|c r] H; [discriminate|]. split; [discriminate|]. apply negb_true_iff in H. apply N.eqb_neq. exact H.
Qed.

(* the header of a block that is not a scrut block *)
Lemma header_foreign : forall n lang, (3 <= n)%nat -> (match lang with [] => false | c :: _ => negb (c =? BT) end) = true ->
  extract_code_block_start (fence n ++ lang) =
  Some (n, lang_of lang, match split_at_brace lang with (_, Some c) => trim_end c | (_, None) => [] end).
Proof.
  intros n lang Hn Hl. destruct (head_not_bt lang Hl) as [Hne Hh].
  unfold extract_code_block_start. rewrite (count_bt_fence n lang Hh), skipn_fence.
  destruct lang as [|c r]; [congruence|].
  assert (E: Nat.ltb n 3 = false) by (apply Nat.ltb_ge; lia). rewrite E.
  unfold lang_of. destruct (split_at_brace (c :: r)) as [a [b|]]; reflexivity.
Qed.

Lemma split_at_brace_app : forall a r, forallb (fun c => negb (c =? 123)) a = true ->
  split_at_brace (a ++ 123 :: r) = (a, Some (123 :: r)).
Proof.
  induction a as [|c a IH]; intros r H; cbn [app split_at_brace].
  - reflexivity.
  - cbn [forallb] in H. apply andb_true_iff in H. destruct H as [H1 H2]. apply negb_true_iff in H1. rewrite H1.
    rewrite (IH r H2). reflexivity.
Qed.
Lemma split_at_brace_none : forall a, forallb (fun c => negb (c =? 123)) a = true -> split_at_brace a = (a, None).
Proof.
  induction a as [|c a IH]; intros H; cbn [split_at_brace]; [reflexivity|].
  cbn [forallb] in H. apply andb_true_iff in H. destruct H as [H1 H2]. apply negb_true_iff in H1. rewrite H1, (IH H2). reflexivity.
Qed.

Lemma inner_config_braces : forall c, c <> [] -> inner_config ([123] ++ c ++ [125]) = Some c.
Proof.
  intros c H. unfold inner_config. cbn [app]. rewrite rev_app_distr. cbn [rev app]. rewrite rev_involutive.
  destruct c; [congruence|reflexivity].
Qed.

Lemma trim_end_scrut_space : trim_end (SCRUT ++ [32]) = SCRUT.
Proof. vm_compute. reflexivity. Qed.
Lemma trim_end_scrut : trim_end SCRUT = SCRUT.
Proof. vm_compute. reflexivity. Qed.
Lemma trim_end_last : forall l x, is_white x = false -> trim_end (l ++ [x]) = l ++ [x].
Proof.
  intros l x H. unfold trim_end. rewrite rev_app_distr. cbn [rev app drop_while]. rewrite H.
  change (x :: rev l) with ([x] ++ rev l). rewrite rev_app_distr, rev_involutive. reflexivity.
Qed.

(* blanks at the end of a line do not count *)
Lemma drop_while_all : forall (p : N -> bool) a b, forallb p a = true -> drop_while p (a ++ b) = drop_while p b.
Proof.
  induction a as [|c a IH]; intros b H; [reflexivity|]. cbn [forallb] in H. apply andb_true_iff in H. destruct H as [H1 H2].
  cbn [app drop_while]. rewrite H1. apply IH. exact H2.
Qed.
Lemma trim_end_white_suffix : forall l hs, forallb is_white hs = true -> trim_end (l ++ hs) = trim_end l.
Proof.
  intros l hs H. unfold trim_end. rewrite rev_app_distr. rewrite drop_while_all; [reflexivity|].
  apply forallb_forall. intros x Hx. apply in_rev in Hx. rewrite forallb_forall in H. exact (H x Hx).
Qed.
Lemma white_no_brace : forall hs, forallb is_white hs = true -> forallb (fun c => negb (c =? 123)) hs = true.
Proof.
  intros hs H. apply forallb_forall. intros x Hx. rewrite forallb_forall in H. specialize (H x Hx).
  destruct (x =? 123) eqn:E; [|reflexivity]. assert (x = 123) by lia. subst x. vm_compute in H. discriminate.
Qed.

Definition scrut_header (n : nat) (cfg : option text) (hs : text) : text :=
  fence n ++ SCRUT ++ match cfg with Some c => [32; 123] ++ c ++ [125] | None => [] end ++ hs.
Lemma header_scrut : forall n cfg hs, (3 <= n)%nat -> (match cfg with Some c => c <> [] | None => True end) ->
  forallb is_white hs = true ->
  exists cfgtext, extract_code_block_start (scrut_header n cfg hs) = Some (n, SCRUT, cfgtext) /\ inner_config cfgtext = cfg.
Proof.
  intros n cfg hs Hn Hc Hw. unfold scrut_header.
  assert (Hh: match SCRUT ++ match cfg with Some c => [32; 123] ++ c ++ [125] | None => [] end ++ hs with c :: _ => c <> BT | [] => True end)
    by (cbn; discriminate).
  unfold extract_code_block_start. rewrite count_bt_fence by exact Hh. rewrite skipn_fence.
  assert (E: Nat.ltb n 3 = false) by (apply Nat.ltb_ge; lia).
  destruct cfg as [c|].
  - replace (SCRUT ++ ([32; 123] ++ c ++ [125]) ++ hs) with ((SCRUT ++ [32]) ++ 123 :: ((c ++ [125]) ++ hs))
      by (rewrite <- !app_assoc; reflexivity).
    destruct ((SCRUT ++ [32]) ++ 123 :: (c ++ [125]) ++ hs) as [|x r] eqn:Ex; [discriminate|]. rewrite <- Ex. rewrite E.
    rewrite split_at_brace_app by (vm_compute; reflexivity). rewrite trim_end_scrut_space.
    exists (123 :: c ++ [125]). split.
    + change (123 :: (c ++ [125]) ++ hs) with ((123 :: c ++ [125]) ++ hs). rewrite trim_end_white_suffix by exact Hw.
      change (123 :: c ++ [125]) with ((123 :: c) ++ [125]). rewrite trim_end_last by (vm_compute; reflexivity). reflexivity.
    + apply (inner_config_braces c Hc).
  - cbn [app]. change SCRUT with [115; 99; 114; 117; 116] at 1. cbn [app]. rewrite E.
    change (115 :: 99 :: 114 :: 117 :: 116 :: hs) with (SCRUT ++ hs).
    rewrite split_at_brace_none by (rewrite forallb_app, (white_no_brace hs Hw); vm_compute; reflexivity).
    rewrite trim_end_white_suffix by exact Hw. rewrite trim_end_scrut. exists []. split; reflexivity.
Qed.

(* ---------- runs of the token automaton ---------- *)
Fixpoint numbered (idx : nat) (ls : list text) : list (nat * text) :=
  match ls with [] => [] | l :: r => (idx, l) :: numbered (S idx) r end.
Lemma numbered_app : forall a b idx, numbered idx (a ++ b) = numbered idx a ++ numbered (idx + length a) b.
Proof.
  induction a as [|x a IH]; intros b idx; cbn [app numbered length]; [rewrite Nat.add_0_r; reflexivity|].
  rewrite IH. f_equal. f_equal. f_equal. lia.
Qed.

Lemma run_verb : forall body n start lang raw idx closing rest,
  forallb (fun l => negb (closes n l)) body = true -> closes n closing = true ->
  mrun (InVerb n start lang raw) idx (body ++ closing :: rest)
  = TVerb start lang (raw ++ body ++ [closing]) :: mrun (Top true) (idx + length body + 1) rest.
Proof.
  induction body as [|l body IH]; intros n start lang raw idx closing rest Hb Hc; cbn [app mrun mstep].
  - rewrite Hc. cbn [app length]. replace (idx + 0 + 1)%nat with (S idx) by lia. reflexivity.
  - cbn [forallb] in Hb. apply andb_true_iff in Hb. destruct Hb as [H1 H2]. apply negb_true_iff in H1. rewrite H1. cbn [app].
    rewrite IH by assumption. cbn [length]. rewrite <- !app_assoc. cbn [app].
    replace (S idx + length body + 1)%nat with (idx + S (length body) + 1)%nat by lia. reflexivity.
Qed.

Lemma run_front : forall lines acc raw idx rest,
  forallb (fun l => negb (list_eqb l DASHES)) lines = true ->
  mrun (InFront acc raw) idx (lines ++ DASHES :: rest)
  = TFront (acc ++ lines) (raw ++ lines ++ [DASHES]) :: mrun (Top false) (idx + length lines + 1) rest.
Proof.
  induction lines as [|l lines IH]; intros acc raw idx rest H; cbn [app mrun mstep].
  - change (list_eqb DASHES DASHES) with true. cbv iota. cbn [app length]. rewrite app_nil_r.
    replace (idx + 0 + 1)%nat with (S idx) by lia. reflexivity.
  - cbn [forallb] in H. apply andb_true_iff in H. destruct H as [H1 H2]. apply negb_true_iff in H1. rewrite H1. cbn [app].
    rewrite IH by exact H2. cbn [length]. rewrite <- !app_assoc. cbn [app].
    replace (S idx + length lines + 1)%nat with (idx + S (length lines) + 1)%nat by lia. reflexivity.
Qed.

Lemma run_comments : forall comments n cfg cm raw idx rest,
  forallb is_comment comments = true ->
  mrun (InTest n cfg cm [] raw) idx (comments ++ rest)
  = mrun (InTest n cfg (cm ++ comments) [] (raw ++ comments)) (idx + length comments) rest.
Proof.
  induction comments as [|l comments IH]; intros n cfg cm raw idx rest H; cbn [app length].
  - rewrite !app_nil_r, Nat.add_0_r. reflexivity.
  - cbn [forallb] in H. apply andb_true_iff in H. destruct H as [H1 H2]. cbn [mrun mstep]. rewrite H1. cbn [app].
    rewrite IH by exact H2. rewrite <- !app_assoc. cbn [app].
    replace (S idx + length comments)%nat with (idx + S (length comments))%nat by lia. reflexivity.
Qed.

Lemma run_code : forall ls n cfg cm code raw idx rest, code <> [] ->
  forallb (fun l => negb (closes n l)) ls = true ->
  mrun (InTest n cfg cm code raw) idx (ls ++ rest)
  = mrun (InTest n cfg cm (code ++ numbered idx ls) (raw ++ ls)) (idx + length ls) rest.
Proof.
  induction ls as [|l ls IH]; intros n cfg cm code raw idx rest Hc H; cbn [app length numbered].
  - rewrite !app_nil_r, Nat.add_0_r. reflexivity.
  - cbn [forallb] in H. apply andb_true_iff in H. destruct H as [H1 H2]. apply negb_true_iff in H1.
    cbn [mrun mstep]. destruct code as [|c0 code']; [congruence|]. rewrite H1. cbn [app].
    rewrite IH; [|destruct code'; discriminate|exact H2].
    replace (S idx + length ls)%nat with (idx + S (length ls))%nat by lia.
    assert (E1: (c0 :: code' ++ [(idx, l)]) ++ numbered (S idx) ls = c0 :: code' ++ (idx, l) :: numbered (S idx) ls)
      by (cbn [app]; rewrite <- app_assoc; reflexivity).
    assert (E2: (raw ++ [l]) ++ ls = raw ++ l :: ls) by (rewrite <- app_assoc; reflexivity).
    rewrite E1, E2. reflexivity.
Qed.

(* ---------- the tokens of one element ---------- *)
Definition code_lines (idx : nat) (cmd : option (text * list text * list bline)) : list (nat * text) :=
  match cmd with
  | None => []
  | Some (c, conts, body) => numbered idx ([P_DOLLAR ++ c] ++ map (fun x => P_GT ++ x) conts ++ map render_body body)
  end.
Definition elem_tokens (idx : nat) (e : elem) : list token :=
  match e with
  | EFront lines => [TFront lines (render_elem e)]
  | EProse l => [TLine idx l]
  | EHeading k t => [TLine idx (hashes k ++ [32] ++ t)]
  | EBlank => [TLine idx []]
  | EForeign n lang body tail => [TVerb idx (lang_of lang) (render_elem e)]
  | EScrut n cfg hs comments cmd tail => [TTest cfg comments (code_lines (idx + 1 + length comments) cmd) (render_elem e)]
  end.
Definition next_first (first : bool) (e : elem) : bool :=
  first && match e with EFront _ | EBlank => true | EProse l => match trim l with [] => true | _ => false end | _ => false end.

Lemma list_eqb_head : forall a r b s, a <> b -> list_eqb (a :: r) (b :: s) = false.
Proof. intros a r b s H. cbn [list_eqb]. destruct (N.eqb_spec a b); [contradiction|reflexivity]. Qed.
Lemma not_dashes : forall c r, c <> 45 -> list_eqb (c :: r) DASHES = false.
Proof. intros c r H. unfold DASHES. apply list_eqb_head. exact H. Qed.
Lemma fence_head : forall n r, (3 <= n)%nat -> exists t, fence n ++ r = BT :: t.
Proof. intros n r H. destruct n as [|n]; [lia|]. cbn [fence repeat app]. eauto. Qed.

Lemma drop_while_snoc_stop : forall p a (x : N), p x = false -> drop_while p (a ++ [x]) <> [].
Proof.
  intros p a x H. induction a as [|c a IH]; cbn [app drop_while]; [rewrite H; discriminate|].
  destruct (p c); [exact IH|discriminate].
Qed.
Lemma trim_hash_nonempty : forall r, trim (35 :: r) <> [].
Proof.
  intros r. unfold trim, trim_start. cbn [drop_while]. change (is_white 35) with false. cbv iota.
  unfold trim_end. cbn [rev]. intro H. apply (f_equal (@rev N)) in H. rewrite rev_involutive in H. cbn [rev] in H.
  apply (drop_while_snoc_stop is_white (rev r) 35); [reflexivity|exact H].
Qed.
Lemma hashes_head : forall k r, (0 < k)%nat -> exists t, hashes k ++ r = 35 :: t.
Proof. intros k r H. destruct k as [|k]; [lia|]. cbn [hashes repeat app]. eauto. Qed.

Section Tokens.
Variable pe_ok : text -> bool.
Variable front_ok : list text -> bool.
Variable cfg_ok : text -> bool.

Lemma closes_other_head : forall n c r, (3 <= n)%nat -> c <> BT -> closes n (c :: r) = false.
Proof. intros n c r Hn Hc. unfold closes. rewrite (count_bt_not_bt c r Hc). apply Nat.leb_gt. lia. Qed.

Lemma body_lines_open : forall n conts body, (3 <= n)%nat -> md_body_ok pe_ok n body = true ->
  forallb (fun l => negb (closes n l)) (map (fun x => P_GT ++ x) conts ++ map render_body body) = true.
Proof.
  intros n conts body Hn Hb. rewrite forallb_app. apply andb_true_iff. split.
  - apply forallb_forall. intros l Hl. apply in_map_iff in Hl. destruct Hl as [x [<- _]].
    change (P_GT ++ x) with (62 :: 32 :: x). rewrite closes_other_head by (try exact Hn; discriminate). reflexivity.
  - unfold md_body_ok in Hb. apply andb_true_iff in Hb. destruct Hb as [Hb _]. apply andb_true_iff in Hb. destruct Hb as [Hb _].
    apply forallb_forall. intros l Hl. apply in_map_iff in Hl. destruct Hl as [b [<- Hin]].
    rewrite forallb_forall in Hb. specialize (Hb b Hin). destruct b as [e|ds]; cbn [render_body].
    + unfold md_exp_ok in Hb. apply andb_true_iff in Hb. destruct Hb as [Hb _]. apply andb_true_iff in Hb. destruct Hb as [_ Hc]. exact Hc.
    + change ([91] ++ ds ++ [93]) with (91 :: (ds ++ [93])). rewrite closes_other_head by (try exact Hn; discriminate). reflexivity.
Qed.

Lemma elem_run : forall e first idx rest, elem_ok pe_ok front_ok cfg_ok first e = true ->
  mrun (Top (negb first)) idx (render_elem e ++ rest)
  = elem_tokens idx e ++ mrun (Top (negb (next_first first e))) (idx + length (render_elem e)) rest.
Proof.
  intros e first idx rest H. destruct e as [lines|l|k t| |n lang body tail|n cfg hs comments cmd tail]; cbn [elem_ok] in H.
  - (* front-matter *)
    apply andb_true_iff in H. destruct H as [H Hl]. apply andb_true_iff in H. destruct H as [Hf _]. subst first.
    assert (Hl': forallb (fun l => negb (list_eqb l DASHES)) lines = true).
    { apply forallb_forall. intros x Hx. rewrite forallb_forall in Hl. specialize (Hl x Hx). apply andb_true_iff in Hl. tauto. }
    cbn [render_elem elem_tokens next_first andb negb app]. cbn [mrun mstep negb andb]. change (list_eqb DASHES DASHES) with true. cbv iota.
    cbn [app]. rewrite <- app_assoc. cbn [app]. rewrite run_front by exact Hl'. cbn [app length]. rewrite app_length. cbn [length].
    f_equal. f_equal. unfold text. lia.
  - (* prose *)
    apply andb_true_iff in H. destruct H as [H Hd]. apply andb_true_iff in H. destruct H as [Hnf _].
    unfold not_fence_start in Hnf. cbn [render_elem elem_tokens app length]. cbn [mrun mstep].
    assert (E1: (negb (negb first) && list_eqb l DASHES) = false).
    { destruct first; [|reflexivity]. cbn [negb andb] in *. apply negb_true_iff in Hd. exact Hd. }
    rewrite E1. destruct (extract_code_block_start l) as [[[a b] c]|]; [discriminate|]. cbn [app].
    replace (idx + 1)%nat with (S idx) by lia. f_equal. f_equal. f_equal.
    unfold next_first. destruct first; destruct (trim l); reflexivity.
  - (* heading *)
    apply andb_true_iff in H. destruct H as [H Ht]. apply andb_true_iff in H. destruct H as [Hk _]. apply Nat.ltb_lt in Hk.
    cbn [render_elem elem_tokens app length]. destruct (hashes_head k (32 :: t) Hk) as [r Er]. rewrite Er. cbn [mrun mstep].
    assert (E1: (negb (negb first) && list_eqb (35 :: r) DASHES) = false).
    { rewrite not_dashes by discriminate. apply andb_false_r. }
    rewrite E1. rewrite (backticks_inside_are_inert 35 r ltac:(discriminate)). cbn [app].
    replace (idx + 1)%nat with (S idx) by lia. f_equal. f_equal. f_equal.
    pose proof (trim_hash_nonempty r) as Hn. destruct (trim (35 :: r)); [congruence|]. unfold next_first. rewrite andb_false_r, orb_true_r. reflexivity.
  - (* blank *)
    cbn [render_elem elem_tokens app length]. cbn [mrun mstep]. rewrite andb_false_r. cbn [app].
    replace (idx + 1)%nat with (S idx) by lia. f_equal. f_equal. f_equal. unfold next_first. rewrite andb_true_r.
    change (trim []) with (@nil N). cbn [negb]. rewrite orb_false_r. reflexivity.
  - (* another code block *)
    apply andb_true_iff in H. destruct H as [H Htail]. apply andb_true_iff in H. destruct H as [H Hbody]. apply andb_true_iff in H. destruct H as [Hn Hlang].
    apply Nat.leb_le in Hn. unfold lang_ok in Hlang.
    apply andb_true_iff in Hlang. destruct Hlang as [Hlang _]. apply andb_true_iff in Hlang. destruct Hlang as [Hlang _].
    apply andb_true_iff in Hlang. destruct Hlang as [Hhead Hns]. apply negb_true_iff in Hns.
    cbn [render_elem elem_tokens]. rewrite <- !app_assoc. cbn [app].
    assert (E1: (negb (negb first) && list_eqb (fence n ++ lang) DASHES) = false).
    { destruct (fence_head n lang Hn) as [r Er]. rewrite Er. rewrite not_dashes by discriminate. apply andb_false_r. }
    cbn [mrun mstep]. rewrite E1. rewrite (header_foreign n lang Hn Hhead). rewrite Hns. cbn [app].
    assert (Hb: forallb (fun l => negb (closes n l)) body = true).
    { apply forallb_forall. intros x Hx. rewrite forallb_forall in Hbody. specialize (Hbody x Hx). apply andb_true_iff in Hbody. tauto. }
    rewrite run_verb; [|exact Hb|apply closes_fence].
    cbn [app length]. rewrite !app_length. cbn [length]. unfold next_first. rewrite andb_false_r.
    f_equal. f_equal. unfold text. lia.
  - (* a scrut block *)
    apply andb_true_iff in H. destruct H as [H Hhs]. apply andb_true_iff in Hhs. destruct Hhs as [Hw _].
    apply andb_true_iff in H. destruct H as [H Hcmd]. apply andb_true_iff in H. destruct H as [H Hcm]. apply andb_true_iff in H. destruct H as [H Hcfg].
    apply andb_true_iff in H. destruct H as [Hn _]. apply Nat.leb_le in Hn.
    assert (Hc: match cfg with Some c => c <> [] | None => True end).
    { destruct cfg as [c|]; [|exact I]. unfold cfg_text_ok in Hcfg. destruct c; [discriminate|discriminate]. }
    destruct (header_scrut n cfg hs Hn Hc Hw) as [cfgtext [Hx Hi]].
    assert (Hcm': forallb is_comment comments = true).
    { apply forallb_forall. intros x Hxx. rewrite forallb_forall in Hcm. specialize (Hcm x Hxx). apply andb_true_iff in Hcm. tauto. }
    assert (E1: (negb (negb first) && list_eqb (scrut_header n cfg hs) DASHES) = false).
    { unfold scrut_header. destruct (fence_head n (SCRUT ++ match cfg with Some c => [32; 123] ++ c ++ [125] | None => [] end ++ hs) Hn) as [r Er].
      rewrite Er. rewrite not_dashes by discriminate. apply andb_false_r. }
    assert (Ec: is_comment (fence n ++ tail) = false).
    { destruct (fence_head n tail Hn) as [r2 Er2]. rewrite Er2. reflexivity. }
    destruct cmd as [[[c conts] body]|].
    + apply andb_true_iff in Hcmd. destruct Hcmd as [Hcmd Hbody]. apply andb_true_iff in Hcmd. destruct Hcmd as [_ Hconts].
      cbn [render_elem elem_tokens]. fold (scrut_header n cfg hs). rewrite <- ?app_assoc. cbn [app].
      cbn [mrun mstep]. rewrite E1, Hx. change (list_eqb SCRUT SCRUT) with true. cbv iota. rewrite Hi. cbn [app].
      rewrite run_comments by exact Hcm'. cbn [app].
      cbn [mrun mstep]. change (is_comment (P_DOLLAR ++ c)) with false. cbv iota.
      change (P_DOLLAR ++ c) with (36 :: 32 :: c). rewrite closes_other_head by (try exact Hn; discriminate). cbn [app].
      rewrite app_assoc.
      rewrite run_code; [|discriminate|apply body_lines_open; assumption].
      cbn [mrun mstep]. rewrite closes_fence. cbn [app].
      unfold code_lines. cbn [app numbered]. unfold next_first. rewrite andb_false_r. cbn [negb].
      f_equal.
      * f_equal; [f_equal; f_equal; lia|]. rewrite <- ?app_assoc. cbn [app]. rewrite <- ?app_assoc. reflexivity.
      * f_equal. cbn [length]. rewrite !app_length. cbn [length]. rewrite !app_length. cbn [length]. unfold text. lia.
    + cbn [render_elem elem_tokens]. fold (scrut_header n cfg hs). rewrite <- ?app_assoc. cbn [app].
      cbn [mrun mstep]. rewrite E1, Hx. change (list_eqb SCRUT SCRUT) with true. cbv iota. rewrite Hi. cbn [app].
      rewrite run_comments by exact Hcm'. cbn [app].
      cbn [mrun mstep]. rewrite Ec. rewrite closes_fence. cbn [app].
      unfold code_lines. unfold next_first. rewrite andb_false_r. cbn [negb].
      f_equal. f_equal. cbn [length]. rewrite app_length. cbn [length]. unfold text. lia.
Qed.
End Tokens.

(* ---------- the tokens of a rendered document ---------- *)
Fixpoint tokens_from (idx : nat) (d : list elem) : list token :=
  match d with [] => [] | e :: r => elem_tokens idx e ++ tokens_from (idx + length (render_elem e)) r end.

Section Doc.
Variable pe_ok : text -> bool.
Variable front_ok : list text -> bool.
Variable cfg_ok : text -> bool.

Theorem tokens_render : forall d first idx, wf_md_from pe_ok front_ok cfg_ok first d = true ->
  mrun (Top (negb first)) idx (render_md d) = tokens_from idx d.
Proof.
  induction d as [|e d IH]; intros first idx H; [reflexivity|].
  cbn [wf_md_from] in H. apply andb_true_iff in H. destruct H as [He Hd].
  cbn [render_md flat_map tokens_from]. fold (render_md d).
  rewrite (elem_run pe_ok front_ok cfg_ok e first idx (render_md d) He). f_equal.
  apply IH. exact Hd.
Qed.

(* ---------- part B: the line parser over the tokens ---------- *)
Definition cl (t : option text) (ic : bool) (cases : list ptest) : lp := mkLP t [] [] None ic None cases.

Lemma strip_dollar : forall c, strip_prefix P_DOLLAR (P_DOLLAR ++ c) = Some c.
Proof. intros. reflexivity. Qed.

Lemma add_cont_md : forall t cmds st cases c idx, cmds <> [] ->
  add_body pe_ok false (mkLP t cmds [] None true (Some st) cases) (P_GT ++ c) idx
  = LOk (mkLP t (cmds ++ [c]) [] None true (Some st) cases).
Proof.
  intros t cmds st cases c idx H. unfold add_body. cbn [orb lp_cmd]. destruct cmds as [|c0 cmds]; [congruence|].
  cbn [lp_in_command]. change (strip_prefix P_GT (P_GT ++ c)) with (Some c). reflexivity.
Qed.

Lemma feed_app : forall a b s, feed_code pe_ok s (a ++ b) =
  match feed_code pe_ok s a with LOk s' => feed_code pe_ok s' b | LErr => LErr end.
Proof.
  induction a as [|[i l] a IH]; intros b s; cbn [app feed_code]; [reflexivity|].
  destruct (add_body pe_ok false s l i); [apply IH|reflexivity].
Qed.

Lemma feed_conts_md : forall conts t cmds st cases idx, cmds <> [] ->
  feed_code pe_ok (mkLP t cmds [] None true (Some st) cases) (numbered idx (map (fun x => P_GT ++ x) conts))
  = LOk (mkLP t (cmds ++ conts) [] None true (Some st) cases).
Proof.
  induction conts as [|c conts IH]; intros t cmds st cases idx H; cbn [map numbered feed_code].
  - rewrite app_nil_r. reflexivity.
  - rewrite add_cont_md by exact H. rewrite IH by (destruct cmds; discriminate). rewrite <- app_assoc. reflexivity.
Qed.

Definition orelse_code (a b : option N) : option N := match a with Some _ => a | None => b end.

Lemma add_exp_md : forall t cmds exps code st ic cases l idx n, cmds <> [] ->
  md_exp_ok pe_ok n l = true -> (ic = true -> starts_with P_GT l = false) ->
  add_body pe_ok false (mkLP t cmds exps code ic (Some st) cases) l idx
  = LOk (mkLP t cmds (exps ++ [l]) code false (Some st) cases).
Proof.
  intros t cmds exps code st ic cases l idx n Hc H Hgt. unfold md_exp_ok in H.
  apply andb_true_iff in H. destruct H as [H _]. apply andb_true_iff in H. destruct H as [H _].
  apply andb_true_iff in H. destruct H as [He Hpe].
  unfold add_body. cbn [orb lp_cmd]. destruct cmds as [|c0 cmds]; [congruence|]. cbn [lp_in_command].
  assert (G : (if ic then strip_prefix P_GT l else None) = None).
  { destruct ic; [|reflexivity]. unfold strip_prefix. rewrite Hgt by reflexivity. reflexivity. }
  rewrite G. destruct (extract_exit_code l); [discriminate|]. rewrite Hpe. reflexivity.
Qed.

Lemma add_code_md : forall t cmds exps st ic cases ds idx, cmds <> [] -> code_ok ds = true ->
  add_body pe_ok false (mkLP t cmds exps None ic (Some st) cases) ([91] ++ ds ++ [93]) idx
  = LOk (mkLP t cmds exps (Some (digits_value 0 ds)) false (Some st) cases).
Proof.
  intros t cmds exps st ic cases ds idx Hc H. unfold add_body. cbn [orb lp_cmd]. destruct cmds as [|c0 cmds]; [congruence|].
  cbn [lp_in_command].
  assert (G : (if ic then strip_prefix P_GT ([91] ++ ds ++ [93]) else None) = None) by (destruct ic; reflexivity).
  rewrite G. rewrite (CramProofs.extract_code_digits ds H). reflexivity.
Qed.

Lemma feed_body_md : forall body n t cmds exps code st ic cases idx, cmds <> [] ->
  forallb (fun b => match b with BExp l => md_exp_ok pe_ok n l | BCode ds => code_ok ds end) body = true ->
  (count_codes body + (match code with Some _ => 1 | None => 0 end) <= 1)%nat ->
  (ic = true -> match body with BExp l :: _ => starts_with P_GT l = false | _ => True end) ->
  exists ic', feed_code pe_ok (mkLP t cmds exps code ic (Some st) cases) (numbered idx (map render_body body))
              = LOk (mkLP t cmds (exps ++ exps_of body) (orelse_code code (code_of body)) ic' (Some st) cases).
Proof.
  induction body as [|b body IH]; intros n t cmds exps code st ic cases idx Hc Hok Hn Hgt; cbn [map numbered feed_code].
  - exists ic. rewrite app_nil_r. destruct code; reflexivity.
  - cbn [forallb] in Hok. apply andb_true_iff in Hok. destruct Hok as [Hb Hok]. destruct b as [l|ds]; cbn [render_body].
    + rewrite (add_exp_md t cmds exps code st ic cases l idx n Hc Hb) by (intros E; exact (Hgt E)).
      destruct (IH n t cmds (exps ++ [l]) code st false cases (S idx) Hc Hok Hn ltac:(discriminate)) as [ic' E].
      exists ic'. rewrite E. cbn [exps_of flat_map]. rewrite <- app_assoc. cbn [app]. unfold code_of. cbn [flat_map app]. reflexivity.
    + cbn [count_codes] in Hn. destruct code as [c0|]; [cbn in Hn; lia|].
      rewrite (add_code_md t cmds exps st ic cases ds idx Hc Hb).
      destruct (IH n t cmds exps (Some (digits_value 0 ds)) st false cases (S idx) Hc Hok ltac:(cbn; lia) ltac:(discriminate)) as [ic' E].
      exists ic'. rewrite E. cbn [exps_of flat_map app]. unfold code_of. cbn [flat_map app orelse_code]. reflexivity.
Qed.

Lemma feed_block : forall n c conts body t ic cases i0, md_body_ok pe_ok n body = true ->
  exists ic', feed_code pe_ok (cl t ic cases) (code_lines i0 (Some (c, conts, body)))
              = LOk (mkLP t (c :: conts) (exps_of body) (code_of body) ic' (Some i0) cases).
Proof.
  intros n c conts body t ic cases i0 Hb. unfold code_lines, cl. cbn [app numbered feed_code].
  unfold add_body at 1. cbn [orb lp_cmd]. rewrite strip_dollar. cbn [lp_title lp_cmd lp_exps lp_code lp_in_command lp_start lp_cases app].
  rewrite numbered_app, feed_app. rewrite feed_conts_md by discriminate.
  unfold md_body_ok in Hb. apply andb_true_iff in Hb. destruct Hb as [Hb H3]. apply andb_true_iff in Hb. destruct Hb as [H1 H2].
  apply Nat.leb_le in H2.
  destruct (feed_body_md body n t ([c] ++ conts) [] None i0 true cases (S i0 + length (map (fun x => P_GT ++ x) conts)) ltac:(discriminate) H1
              ltac:(cbn; lia) ltac:(intros _; destruct body as [|[l|ds] body']; [exact I| |exact I]; apply negb_true_iff in H3; exact H3)) as [ic' E].
  exists ic'. exact E.
Qed.
End Doc.

Section Final.
Variable pe_ok : text -> bool.
Variable front_ok : list text -> bool.
Variable cfg_ok : text -> bool.
Notation parse_tokens := (Markdown.parse_tokens pe_ok front_ok cfg_ok).

Lemma set_title_cl : forall t ic cases x, set_title (cl t ic cases) x = cl (Some x) ic cases.
Proof. reflexivity. Qed.

Lemma title_token : forall idx l rest t ic cases para cfgs,
  parse_tokens (TLine idx l :: rest) (cl t ic cases) para cfgs
  = parse_tokens rest (cl (ts_title (title_line (mkTS para t) l)) ic cases) (ts_para (title_line (mkTS para t) l)) cfgs.
Proof.
  intros. cbn [Markdown.parse_tokens]. unfold title_line. cbn [ts_para ts_title].
  destruct (extract_title l) as [t0|]; cbn [ts_para ts_title]; [rewrite set_title_cl|]; reflexivity.
Qed.

Theorem parse_tokens_spec : forall d first idx t para ic acc,
  wf_md_from pe_ok front_ok cfg_ok first d = true ->
  exists t' ic',
    parse_tokens (tokens_from idx d) (cl t ic (map mt_test acc)) para (map mt_cfg acc)
    = LOk (cl t' ic' (map mt_test (rev (md_tests_from d idx (mkTS para t)) ++ acc)),
           map mt_cfg (rev (md_tests_from d idx (mkTS para t)) ++ acc)).
Proof.
  induction d as [|e d IH]; intros first idx t para ic acc H.
  - exists t, ic. reflexivity.
  - cbn [wf_md_from] in H. apply andb_true_iff in H. destruct H as [He Hd].
    cbn [tokens_from md_tests_from].
    destruct e as [lines|l|k tt| |n lang body tail|n cfg hs comments cmd tail]; cbn [elem_ok] in He; cbn [elem_tokens app].
    + (* front-matter *)
      apply andb_true_iff in He. destruct He as [He _]. apply andb_true_iff in He. destruct He as [_ Hf].
      cbn [Markdown.parse_tokens]. rewrite Hf. eapply IH. exact Hd.
    + rewrite title_token. destruct (title_line (mkTS para t) l) as [p' t'] eqn:E. cbn [ts_para ts_title]. eapply IH. exact Hd.
    + change (hashes k ++ [32] ++ tt) with (hashes k ++ 32 :: tt). rewrite title_token.
      destruct (title_line (mkTS para t) (hashes k ++ 32 :: tt)) as [p' t'] eqn:E. cbn [ts_para ts_title]. eapply IH. exact Hd.
    + rewrite title_token. destruct (title_line (mkTS para t) []) as [p' t'] eqn:E. cbn [ts_para ts_title]. eapply IH. exact Hd.
    + (* another code block *)
      apply andb_true_iff in He. destruct He as [He _]. apply andb_true_iff in He. destruct He as [He _]. apply andb_true_iff in He. destruct He as [_ Hl].
      unfold lang_ok in Hl. apply andb_true_iff in Hl. destruct Hl as [_ Hne].
      cbn [Markdown.parse_tokens]. destruct (lang_of lang) as [|x r]; [discriminate|]. eapply IH. exact Hd.
    + (* a scrut block *)
      apply andb_true_iff in He. destruct He as [He _].
      apply andb_true_iff in He. destruct He as [He Hcmd]. apply andb_true_iff in He. destruct He as [He _]. apply andb_true_iff in He. destruct He as [_ Hcfg].
      assert (Hcfg': (match cfg with Some c => cfg_ok c | None => true end) = true).
      { destruct cfg as [c|]; [|reflexivity]. unfold cfg_text_ok in Hcfg. apply andb_true_iff in Hcfg. destruct Hcfg as [Hcfg _]. apply andb_true_iff in Hcfg. tauto. }
      cbn [Markdown.parse_tokens]. rewrite Hcfg'. destruct cmd as [[[c conts] body]|].
      * apply andb_true_iff in Hcmd. destruct Hcmd as [_ Hbody].
        destruct (feed_block pe_ok front_ok cfg_ok n c conts body t ic (map mt_test acc) (idx + 1 + length comments) Hbody) as [ic1 E1].
        rewrite E1. unfold end_testcase. cbn [lp_cmd lp_title lp_exps lp_code lp_start lp_cases flush lp_in_command].
        assert (Lt: Nat.ltb (length (map mt_test acc)) (length (mkPT match t with Some t0 => t0 | None => [] end (c :: conts) (exps_of body) (code_of body) (S (idx + 1 + length comments)) :: map mt_test acc)) = true)
          by (apply Nat.ltb_lt; cbn [length]; lia).
        rewrite Lt.
        set (x := mkMT (mkPT match t with Some t0 => t0 | None => [] end (c :: conts) (exps_of body) (code_of body) (S (idx + 1 + length comments))) cfg).
        destruct (IH (first && false) (idx + length (render_elem (EScrut n cfg hs comments (Some (c, conts, body)) tail)))%nat None [] ic1 (x :: acc) Hd) as (t' & ic' & E).
        exists t', ic'.
        change (mkPT match t with Some t0 => t0 | None => [] end (c :: conts) (exps_of body) (code_of body) (S (idx + 1 + length comments)) :: map mt_test acc) with (map mt_test (x :: acc)).
        change (cfg :: map mt_cfg acc) with (map mt_cfg (x :: acc)).
        unfold flush. cbn [lp_in_command ts_title]. fold x. unfold cl in E. rewrite E. cbn [rev]. rewrite <- !app_assoc. reflexivity.
      * cbn [code_lines Markdown.feed_code]. unfold end_testcase. cbn [cl lp_cmd lp_exps lp_code]. rewrite Nat.ltb_irrefl.
        eapply IH. exact Hd.
Qed.

Lemma combine_rev_maps : forall (l : list mtest),
  map (fun p => mkMT (fst p) (snd p)) (combine (rev (map mt_test l)) (rev (map mt_cfg l))) = rev l.
Proof.
  intros l. rewrite <- !map_rev. generalize (rev l) as m. induction m as [|x m IH]; [reflexivity|].
  cbn [map combine fst snd]. rewrite IH. destruct x; reflexivity.
Qed.

Theorem parse_render_md : forall d, wf_md pe_ok front_ok cfg_ok d = true ->
  parse_md pe_ok front_ok cfg_ok (render_md d) = LOk (md_tests_of d).
Proof.
  intros d H. unfold parse_md, md_tokens, wf_md in *.
  change (Top false) with (Top (negb true)). rewrite (tokens_render pe_ok front_ok cfg_ok d true 0%nat H).
  destruct (parse_tokens_spec d true 0%nat None [] false [] H) as (t' & ic' & E).
  change lp_init with (cl None false (map mt_test [])). change (@nil (option text)) with (map mt_cfg []) at 1.
  rewrite E. cbn [cl lp_cases]. rewrite combine_rev_maps. rewrite app_nil_r, rev_involutive. reflexivity.
Qed.
End Final.
