(* C06: the general round trip  parse_md (render_md d) = LOk (md_tests_of d)  for every well-formed document AST.
   Part A: the tokens of a rendered document; part B: the line parser over those tokens. *)
From Coq Require Import List NArith Bool Lia Arith.
Import ListNotations.
From SV Require Import Template TemplateProofs gen_Unicode Escape EscapeProofs LineParser CramSpec Markdown MdSpec MarkdownProofs.
Local Open Scope N_scope.

(* ---------- backticks, fences, headers ---------- *)
Lemma count_bt_fence : forall n r, match r with c :: _ => c <> BT | [] => True end -> count_bt (fence n ++ r) = n.
Proof.
  induction n as [|n IH]; intros r H; cbn [fence repeat app].
  - destruct r as [|c r]; [reflexivity|]. apply count_bt_not_bt. exact H.
  - cbn [count_bt]. rewrite N.eqb_refl. f_equal. apply IH. exact H.
Qed.
Lemma count_bt_fence_ge : forall n r, (n <= count_bt (fence n ++ r))%nat.
Proof.
  induction n as [|n IH]; intros r; cbn [fence repeat app]; [lia|].
  cbn [count_bt]. rewrite N.eqb_refl. specialize (IH r). unfold fence in IH. lia.
Qed.
Lemma skipn_fence : forall n r, skipn n (fence n ++ r) = r.
Proof. induction n as [|n IH]; intros r; cbn [fence repeat app skipn]; [reflexivity|]. apply IH. Qed.
Lemma closes_fence : forall n tail, closes n (fence n ++ tail) = true.
Proof. intros. unfold closes. apply Nat.leb_le. apply count_bt_fence_ge. Qed.

Lemma head_not_bt : forall (lang : text), (match lang with [] => false | c :: _ => negb (c =? BT) end) = true ->
  lang <> [] /\ match lang with c :: _ => c <> BT | [] => True end.
Proof.
  intros [|c r] H; [discriminate|]. split; [discriminate|]. apply negb_true_iff in H. apply N.eqb_neq. exact H.
Qed.

(* the header of a block that is not a scrut block *)
Lemma header_foreign : forall n lang, (3 <= n)%nat -> (match lang with [] => false | c :: _ => negb (c =? BT) end) = true ->
  extract_code_block_start (fence n ++ lang) =
  Some (n, lang_of lang, match split_at_brace lang with (_, Some c) => c | (_, None) => [] end).
Proof.
  intros n lang Hn Hl. destruct (head_not_bt lang Hl) as [Hne Hh].
  unfold extract_code_block_start. rewrite (count_bt_fence n lang Hh), skipn_fence.
  destruct lang as [|c r]; [congruence|].
  assert (E: Nat.ltb n 3 = false) by (apply Nat.ltb_ge; lia). rewrite E.
  unfold lang_of. destruct (split_at_brace (c :: r)) as [a [b|]]; reflexivity.
Qed.

Lemma split_at_brace_app : forall a r, forallb (fun c => negb (c =? 123)) a = true ->
  split_at_brace (a ++ 123 :: r) = (a, Some (123 :: r)).
Proof.
  induction a as [|c a IH]; intros r H; cbn [app split_at_brace].
  - reflexivity.
  - cbn [forallb] in H. apply andb_true_iff in H. destruct H as [H1 H2]. apply negb_true_iff in H1. rewrite H1.
    rewrite (IH r H2). reflexivity.
Qed.
Lemma split_at_brace_none : forall a, forallb (fun c => negb (c =? 123)) a = true -> split_at_brace a = (a, None).
Proof.
  induction a as [|c a IH]; intros H; cbn [split_at_brace]; [reflexivity|].
  cbn [forallb] in H. apply andb_true_iff in H. destruct H as [H1 H2]. apply negb_true_iff in H1. rewrite H1, (IH H2). reflexivity.
Qed.

Lemma inner_config_braces : forall c, c <> [] -> inner_config ([123] ++ c ++ [125]) = Some c.
Proof.
  intros c H. unfold inner_config. cbn [app]. rewrite rev_app_distr. cbn [rev app]. rewrite rev_involutive.
  destruct c; [congruence|reflexivity].
Qed.

Lemma trim_end_scrut_space : trim_end (SCRUT ++ [32]) = SCRUT.
Proof. vm_compute. reflexivity. Qed.

Definition scrut_header (n : nat) (cfg : option text) : text :=
  fence n ++ SCRUT ++ match cfg with Some c => [32; 123] ++ c ++ [125] | None => [] end.
Lemma header_scrut : forall n cfg, (3 <= n)%nat -> (match cfg with Some c => c <> [] | None => True end) ->
  exists cfgtext, extract_code_block_start (scrut_header n cfg) = Some (n, SCRUT, cfgtext) /\ inner_config cfgtext = cfg.
Proof.
  intros n cfg Hn Hc. unfold scrut_header.
  assert (Hh: match SCRUT ++ match cfg with Some c => [32; 123] ++ c ++ [125] | None => [] end with c :: _ => c <> BT | [] => True end)
    by (cbn; discriminate).
  unfold extract_code_block_start. rewrite count_bt_fence by exact Hh. rewrite skipn_fence.
  assert (E: Nat.ltb n 3 = false) by (apply Nat.ltb_ge; lia).
  destruct cfg as [c|].
  - change (SCRUT ++ [32; 123] ++ c ++ [125]) with ((SCRUT ++ [32]) ++ 123 :: (c ++ [125])).
    destruct ((SCRUT ++ [32]) ++ 123 :: c ++ [125]) as [|x r] eqn:Ex; [discriminate|]. rewrite <- Ex. rewrite E.
    rewrite split_at_brace_app by (vm_compute; reflexivity). rewrite trim_end_scrut_space.
    exists (123 :: c ++ [125]). split; [reflexivity|]. apply (inner_config_braces c Hc).
  - rewrite app_nil_r. change SCRUT with [115; 99; 114; 117; 116] at 1. cbv iota. rewrite E.
    rewrite split_at_brace_none by (vm_compute; reflexivity). exists []. split; reflexivity.
Qed.

(* ---------- runs of the token automaton ---------- *)
Fixpoint numbered (idx : nat) (ls : list text) : list (nat * text) :=
  match ls with [] => [] | l :: r => (idx, l) :: numbered (S idx) r end.
Lemma numbered_app : forall a b idx, numbered idx (a ++ b) = numbered idx a ++ numbered (idx + length a) b.
Proof.
  induction a as [|x a IH]; intros b idx; cbn [app numbered length]; [rewrite Nat.add_0_r; reflexivity|].
  rewrite IH. f_equal. f_equal. f_equal. lia.
Qed.

Lemma run_verb : forall body n start lang raw idx closing rest,
  forallb (fun l => negb (closes n l)) body = true -> closes n closing = true ->
  mrun (InVerb n start lang raw) idx (body ++ closing :: rest)
  = TVerb start lang (raw ++ body ++ [closing]) :: mrun (Top true) (idx + length body + 1) rest.
Proof.
  induction body as [|l body IH]; intros n start lang raw idx closing rest Hb Hc; cbn [app mrun mstep].
  - rewrite Hc. cbn [app length]. replace (idx + 0 + 1)%nat with (S idx) by lia. reflexivity.
  - cbn [forallb] in Hb. apply andb_true_iff in Hb. destruct Hb as [H1 H2]. apply negb_true_iff in H1. rewrite H1. cbn [app].
    rewrite IH by assumption. cbn [length]. rewrite <- !app_assoc. cbn [app].
    replace (S idx + length body + 1)%nat with (idx + S (length body) + 1)%nat by lia. reflexivity.
Qed.

Lemma run_front : forall lines acc raw idx rest,
  forallb (fun l => negb (list_eqb l DASHES)) lines = true ->
  mrun (InFront acc raw) idx (lines ++ DASHES :: rest)
  = TFront (acc ++ lines) (raw ++ lines ++ [DASHES]) :: mrun (Top false) (idx + length lines + 1) rest.
Proof.
  induction lines as [|l lines IH]; intros acc raw idx rest H; cbn [app mrun mstep].
  - change (list_eqb DASHES DASHES) with true. cbv iota. cbn [app length]. rewrite app_nil_r.
    replace (idx + 0 + 1)%nat with (S idx) by lia. reflexivity.
  - cbn [forallb] in H. apply andb_true_iff in H. destruct H as [H1 H2]. apply negb_true_iff in H1. rewrite H1. cbn [app].
    rewrite IH by exact H2. cbn [length]. rewrite <- !app_assoc. cbn [app].
    replace (S idx + length lines + 1)%nat with (idx + S (length lines) + 1)%nat by lia. reflexivity.
Qed.

Lemma run_comments : forall comments n cfg cm raw idx rest,
  forallb is_comment comments = true ->
  mrun (InTest n cfg cm [] raw) idx (comments ++ rest)
  = mrun (InTest n cfg (cm ++ comments) [] (raw ++ comments)) (idx + length comments) rest.
Proof.
  induction comments as [|l comments IH]; intros n cfg cm raw idx rest H; cbn [app length].
  - rewrite !app_nil_r, Nat.add_0_r. reflexivity.
  - cbn [forallb] in H. apply andb_true_iff in H. destruct H as [H1 H2]. cbn [mrun mstep]. rewrite H1. cbn [app].
    rewrite IH by exact H2. rewrite <- !app_assoc. cbn [app].
    replace (S idx + length comments)%nat with (idx + S (length comments))%nat by lia. reflexivity.
Qed.

Lemma run_code : forall ls n cfg cm code raw idx rest, code <> [] ->
  forallb (fun l => negb (closes n l)) ls = true ->
  mrun (InTest n cfg cm code raw) idx (ls ++ rest)
  = mrun (InTest n cfg cm (code ++ numbered idx ls) (raw ++ ls)) (idx + length ls) rest.
Proof.
  induction ls as [|l ls IH]; intros n cfg cm code raw idx rest Hc H; cbn [app length numbered].
  - rewrite !app_nil_r, Nat.add_0_r. reflexivity.
  - cbn [forallb] in H. apply andb_true_iff in H. destruct H as [H1 H2]. apply negb_true_iff in H1.
    cbn [mrun mstep]. destruct code as [|c0 code']; [congruence|]. rewrite H1. cbn [app].
    rewrite IH; [|destruct code'; discriminate|exact H2].
    replace (S idx + length ls)%nat with (idx + S (length ls))%nat by lia.
    assert (E1: (c0 :: code' ++ [(idx, l)]) ++ numbered (S idx) ls = c0 :: code' ++ (idx, l) :: numbered (S idx) ls)
      by (cbn [app]; rewrite <- app_assoc; reflexivity).
    assert (E2: (raw ++ [l]) ++ ls = raw ++ l :: ls) by (rewrite <- app_assoc; reflexivity).
    rewrite E1, E2. reflexivity.
Qed.

(* ---------- the tokens of one element ---------- *)
Definition code_lines (idx : nat) (cmd : option (text * list text * list bline)) : list (nat * text) :=
  match cmd with
  | None => []
  | Some (c, conts, body) => numbered idx ([P_DOLLAR ++ c] ++ map (fun x => P_GT ++ x) conts ++ map render_body body)
  end.
Definition elem_tokens (idx : nat) (e : elem) : list token :=
  match e with
  | EFront lines => [TFront lines (render_elem e)]
  | EProse l => [TLine idx l]
  | EHeading k t => [TLine idx (hashes k ++ [32] ++ t)]
  | EBlank => [TLine idx []]
  | EForeign n lang body tail => [TVerb idx (lang_of lang) (render_elem e)]
  | EScrut n cfg comments cmd tail => [TTest cfg comments (code_lines (idx + 1 + length comments) cmd) (render_elem e)]
  end.
Definition next_first (first : bool) (e : elem) : bool :=
  first && match e with EFront _ | EBlank => true | EProse l => match trim l with [] => true | _ => false end | _ => false end.

Lemma list_eqb_head : forall a r b s, a <> b -> list_eqb (a :: r) (b :: s) = false.
Proof. intros a r b s H. cbn [list_eqb]. destruct (N.eqb_spec a b); [contradiction|reflexivity]. Qed.
Lemma not_dashes : forall c r, c <> 45 -> list_eqb (c :: r) DASHES = false.
Proof. intros c r H. unfold DASHES. apply list_eqb_head. exact H. Qed.
Lemma fence_head : forall n r, (3 <= n)%nat -> exists t, fence n ++ r = BT :: t.
Proof. intros n r H. destruct n as [|n]; [lia|]. cbn [fence repeat app]. eauto. Qed.

Lemma drop_while_snoc_stop : forall p a (x : N), p x = false -> drop_while p (a ++ [x]) <> [].
Proof.
  intros p a x H. induction a as [|c a IH]; cbn [app drop_while]; [rewrite H; discriminate|].
  destruct (p c); [exact IH|discriminate].
Qed.
Lemma trim_hash_nonempty : forall r, trim (35 :: r) <> [].
Proof.
  intros r. unfold trim, trim_start. cbn [drop_while]. change (is_white 35) with false. cbv iota.
  unfold trim_end. cbn [rev]. intro H. apply (f_equal (@rev N)) in H. rewrite rev_involutive in H. cbn [rev] in H.
  apply (drop_while_snoc_stop is_white (rev r) 35); [reflexivity|exact H].
Qed.
Lemma hashes_head : forall k r, (0 < k)%nat -> exists t, hashes k ++ r = 35 :: t.
Proof. intros k r H. destruct k as [|k]; [lia|]. cbn [hashes repeat app]. eauto. Qed.

Section Tokens.
Variable pe_ok : text -> bool.
Variable front_ok : list text -> bool.
Variable cfg_ok : text -> bool.

Lemma closes_other_head : forall n c r, (3 <= n)%nat -> c <> BT -> closes n (c :: r) = false.
Proof. intros n c r Hn Hc. unfold closes. rewrite (count_bt_not_bt c r Hc). apply Nat.leb_gt. lia. Qed.

Lemma body_lines_open : forall n conts body, (3 <= n)%nat -> md_body_ok pe_ok n body = true ->
  forallb (fun l => negb (closes n l)) (map (fun x => P_GT ++ x) conts ++ map render_body body) = true.
Proof.
  intros n conts body Hn Hb. rewrite forallb_app. apply andb_true_iff. split.
  - apply forallb_forall. intros l Hl. apply in_map_iff in Hl. destruct Hl as [x [<- _]].
    change (P_GT ++ x) with (62 :: 32 :: x). rewrite closes_other_head by (try exact Hn; discriminate). reflexivity.
  - unfold md_body_ok in Hb. apply andb_true_iff in Hb. destruct Hb as [Hb _]. apply andb_true_iff in Hb. destruct Hb as [Hb _].
    apply forallb_forall. intros l Hl. apply in_map_iff in Hl. destruct Hl as [b [<- Hin]].
    rewrite forallb_forall in Hb. specialize (Hb b Hin). destruct b as [e|ds]; cbn [render_body].
    + unfold md_exp_ok in Hb. apply andb_true_iff in Hb. destruct Hb as [Hb _]. apply andb_true_iff in Hb. destruct Hb as [_ Hc]. exact Hc.
    + change ([91] ++ ds ++ [93]) with (91 :: (ds ++ [93])). rewrite closes_other_head by (try exact Hn; discriminate). reflexivity.
Qed.

Lemma elem_run : forall e first idx rest, elem_ok pe_ok front_ok cfg_ok first e = true ->
  mrun (Top (negb first)) idx (render_elem e ++ rest)
  = elem_tokens idx e ++ mrun (Top (negb (next_first first e))) (idx + length (render_elem e)) rest.
Proof.
  intros e first idx rest H. destruct e as [lines|l|k t| |n lang body tail|n cfg comments cmd tail]; cbn [elem_ok] in H.
  - (* front-matter *)
    apply andb_true_iff in H. destruct H as [H Hl]. apply andb_true_iff in H. destruct H as [Hf _]. subst first.
    assert (Hl': forallb (fun l => negb (list_eqb l DASHES)) lines = true).
    { apply forallb_forall. intros x Hx. rewrite forallb_forall in Hl. specialize (Hl x Hx). apply andb_true_iff in Hl. tauto. }
    cbn [render_elem elem_tokens next_first andb negb app]. cbn [mrun mstep negb andb]. change (list_eqb DASHES DASHES) with true. cbv iota.
    cbn [app]. rewrite <- app_assoc. cbn [app]. rewrite run_front by exact Hl'. cbn [app length]. rewrite app_length. cbn [length].
    f_equal. f_equal. unfold text. lia.
  - (* prose *)
    apply andb_true_iff in H. destruct H as [H Hd]. apply andb_true_iff in H. destruct H as [Hnf _].
    unfold not_fence_start in Hnf. cbn [render_elem elem_tokens app length]. cbn [mrun mstep].
    assert (E1: (negb (negb first) && list_eqb l DASHES) = false).
    { destruct first; [|reflexivity]. cbn [negb andb] in *. apply negb_true_iff in Hd. exact Hd. }
    rewrite E1. destruct (extract_code_block_start l) as [[[a b] c]|]; [discriminate|]. cbn [app].
    replace (idx + 1)%nat with (S idx) by lia. f_equal. f_equal. f_equal.
    unfold next_first. destruct first; destruct (trim l); reflexivity.
  - (* heading *)
    apply andb_true_iff in H. destruct H as [H Ht]. apply andb_true_iff in H. destruct H as [Hk _]. apply Nat.ltb_lt in Hk.
    cbn [render_elem elem_tokens app length]. destruct (hashes_head k (32 :: t) Hk) as [r Er]. rewrite Er. cbn [mrun mstep].
    assert (E1: (negb (negb first) && list_eqb (35 :: r) DASHES) = false).
    { rewrite not_dashes by discriminate. apply andb_false_r. }
    rewrite E1. rewrite (backticks_inside_are_inert 35 r ltac:(discriminate)). cbn [app].
    replace (idx + 1)%nat with (S idx) by lia. f_equal. f_equal. f_equal.
    pose proof (trim_hash_nonempty r) as Hn. destruct (trim (35 :: r)); [congruence|]. unfold next_first. rewrite andb_false_r, orb_true_r. reflexivity.
  - (* blank *)
    cbn [render_elem elem_tokens app length]. cbn [mrun mstep]. rewrite andb_false_r. cbn [app].
    replace (idx + 1)%nat with (S idx) by lia. f_equal. f_equal. f_equal. unfold next_first. rewrite andb_true_r.
    change (trim []) with (@nil N). cbn [negb]. rewrite orb_false_r. reflexivity.
  - (* another code block *)
    apply andb_true_iff in H. destruct H as [H Htail]. apply andb_true_iff in H. destruct H as [H Hbody]. apply andb_true_iff in H. destruct H as [Hn Hlang].
    apply Nat.leb_le in Hn. unfold lang_ok in Hlang.
    apply andb_true_iff in Hlang. destruct Hlang as [Hlang _]. apply andb_true_iff in Hlang. destruct Hlang as [Hlang _].
    apply andb_true_iff in Hlang. destruct Hlang as [Hhead Hns]. apply negb_true_iff in Hns.
    cbn [render_elem elem_tokens]. rewrite <- !app_assoc. cbn [app].
    assert (E1: (negb (negb first) && list_eqb (fence n ++ lang) DASHES) = false).
    { destruct (fence_head n lang Hn) as [r Er]. rewrite Er. rewrite not_dashes by discriminate. apply andb_false_r. }
    cbn [mrun mstep]. rewrite E1. rewrite (header_foreign n lang Hn Hhead). rewrite Hns. cbn [app].
    assert (Hb: forallb (fun l => negb (closes n l)) body = true).
    { apply forallb_forall. intros x Hx. rewrite forallb_forall in Hbody. specialize (Hbody x Hx). apply andb_true_iff in Hbody. tauto. }
    rewrite run_verb; [|exact Hb|apply closes_fence].
    cbn [app length]. rewrite !app_length. cbn [length]. unfold next_first. rewrite andb_false_r.
    f_equal. f_equal. unfold text. lia.
  - (* a scrut block *)
    apply andb_true_iff in H. destruct H as [H Hcmd]. apply andb_true_iff in H. destruct H as [H Hcm]. apply andb_true_iff in H. destruct H as [H Hcfg].
    apply andb_true_iff in H. destruct H as [Hn _]. apply Nat.leb_le in Hn.
    assert (Hc: match cfg with Some c => c <> [] | None => True end).
    { destruct cfg as [c|]; [|exact I]. unfold cfg_text_ok in Hcfg. destruct c; [discriminate|discriminate]. }
    destruct (header_scrut n cfg Hn Hc) as [cfgtext [Hx Hi]].
    assert (Hcm': forallb is_comment comments = true).
    { apply forallb_forall. intros x Hxx. rewrite forallb_forall in Hcm. specialize (Hcm x Hxx). apply andb_true_iff in Hcm. tauto. }
    assert (E1: (negb (negb first) && list_eqb (scrut_header n cfg) DASHES) = false).
    { unfold scrut_header. destruct (fence_head n (SCRUT ++ match cfg with Some c => [32; 123] ++ c ++ [125] | None => [] end) Hn) as [r Er].
      rewrite Er. rewrite not_dashes by discriminate. apply andb_false_r. }
    assert (Ec: is_comment (fence n ++ tail) = false).
    { destruct (fence_head n tail Hn) as [r2 Er2]. rewrite Er2. reflexivity. }
    destruct cmd as [[[c conts] body]|].
    + apply andb_true_iff in Hcmd. destruct Hcmd as [Hcmd Hbody]. apply andb_true_iff in Hcmd. destruct Hcmd as [_ Hconts].
      cbn [render_elem elem_tokens]. fold (scrut_header n cfg). rewrite <- ?app_assoc. cbn [app].
      cbn [mrun mstep]. rewrite E1, Hx. change (list_eqb SCRUT SCRUT) with true. cbv iota. rewrite Hi. cbn [app].
      rewrite run_comments by exact Hcm'. cbn [app].
      cbn [mrun mstep]. change (is_comment (P_DOLLAR ++ c)) with false. cbv iota.
      change (P_DOLLAR ++ c) with (36 :: 32 :: c). rewrite closes_other_head by (try exact Hn; discriminate). cbn [app].
      rewrite app_assoc.
      rewrite run_code; [|discriminate|apply body_lines_open; assumption].
      cbn [mrun mstep]. rewrite closes_fence. cbn [app].
      unfold code_lines. cbn [app numbered]. unfold next_first. rewrite andb_false_r. cbn [negb].
      f_equal.
      * f_equal; [f_equal; f_equal; lia|]. rewrite <- ?app_assoc. cbn [app]. rewrite <- ?app_assoc. reflexivity.
      * f_equal. cbn [length]. rewrite !app_length. cbn [length]. rewrite !app_length. cbn [length]. unfold text. lia.
    + cbn [render_elem elem_tokens]. fold (scrut_header n cfg). rewrite <- ?app_assoc. cbn [app].
      cbn [mrun mstep]. rewrite E1, Hx. change (list_eqb SCRUT SCRUT) with true. cbv iota. rewrite Hi. cbn [app].
      rewrite run_comments by exact Hcm'. cbn [app].
      cbn [mrun mstep]. rewrite Ec. rewrite closes_fence. cbn [app].
      unfold code_lines. unfold next_first. rewrite andb_false_r. cbn [negb].
      f_equal. f_equal. cbn [length]. rewrite app_length. cbn [length]. unfold text. lia.
Qed.
End Tokens.
