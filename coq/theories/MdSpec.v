(* C06: the Markdown document grammar as an AST, its rendering and the tests it denotes (specification). *)
From Coq Require Import List NArith Bool.
Import ListNotations.
From SV Require Import Template gen_Unicode Escape LineParser CramSpec Markdown.
Local Open Scope N_scope.

Inductive elem :=
| EFront (lines : list text)
| EProse (l : text)
| EHeading (level : nat) (t : text)
| EBlank
| EForeign (n : nat) (lang : text) (body : list text) (tail : text)
| EScrut (n : nat) (cfg : option text) (hs : text) (comments : list text) (cmd : option (text * list text * list bline)) (tail : text).
(* [hs]: blanks after the language or the inline configuration on the opening line (ignored by the reader);
   [tail]: what follows the N backticks on the closing line -- more backticks (a longer fence), blanks, any text:
   a block ends at the first line that STARTS WITH its N backticks *)

Definition fence (n : nat) : text := repeat BT n.
Definition hashes (k : nat) : text := repeat 35 k.
Definition render_body (b : bline) : text := match b with BExp l => l | BCode ds => [91] ++ ds ++ [93] end.
Definition render_elem (e : elem) : list text :=
  match e with
  | EFront lines => [DASHES] ++ lines ++ [DASHES]
  | EProse l => [l]
  | EHeading k t => [hashes k ++ [32] ++ t]
  | EBlank => [[]]
  | EForeign n lang body tail => [fence n ++ lang] ++ body ++ [fence n ++ tail]
  | EScrut n cfg hs comments cmd tail =>
    [fence n ++ SCRUT ++ match cfg with Some c => [32; 123] ++ c ++ [125] | None => [] end ++ hs]
    ++ comments
    ++ match cmd with
       | Some (c, conts, body) => [P_DOLLAR ++ c] ++ map (fun x => P_GT ++ x) conts ++ map render_body body
       | None => []
       end
    ++ [fence n ++ tail]
  end.
Definition render_md (d : list elem) : list text := flat_map render_elem d.

(* the tests a document denotes.  The title is the most recent paragraph or heading: a paragraph is a maximal run of
   consecutive title lines (a heading line, or a line whose first non-blank character is a letter); any other prose
   line or a blank line ends the run, and so does any code block (text after it is a paragraph of its own); the front-matter is transparent; a test consumes it. *)
Record tstate := mkTS { ts_para : list text; ts_title : option text }.
Definition title_line (st : tstate) (line : text) : tstate :=
  match extract_title line with
  | Some t => let p := ts_para st ++ [t] in mkTS p (Some (join_nl p))
  | None => mkTS [] (ts_title st)
  end.
Fixpoint md_tests_from (d : list elem) (line : nat) (st : tstate) : list mtest :=
  match d with
  | [] => []
  | e :: r =>
    let next := (line + length (render_elem e))%nat in
    match e with
    | EFront _ => md_tests_from r next st
    | EForeign _ _ _ _ => md_tests_from r next (mkTS [] (ts_title st))
    | EProse l => md_tests_from r next (title_line st l)
    | EHeading k t => md_tests_from r next (title_line st (hashes k ++ [32] ++ t))
    | EBlank => md_tests_from r next (title_line st [])
    | EScrut n cfg _ comments None _ => md_tests_from r next (mkTS [] (ts_title st))
    | EScrut n cfg _ comments (Some (c, conts, body)) _ =>
      mkMT (mkPT (match ts_title st with Some t => t | None => [] end) (c :: conts) (exps_of body) (code_of body)
                 (S (line + 1 + length comments)))
           cfg
      :: md_tests_from r next (mkTS [] None)
    end
  end.
Definition md_tests_of (d : list elem) : list mtest := md_tests_from d 0 (mkTS [] None).

(* ---------- well-formedness ---------- *)
Definition not_fence_start (l : text) : bool := match extract_code_block_start l with None => true | Some _ => false end.
Definition no_nl (l : text) : bool := forallb (fun c => negb (c =? 10) && negb (c =? 13)) l.
(* an expectation line inside a block with an n-backtick fence *)
Definition md_exp_ok (pe_ok : text -> bool) (n : nat) (l : text) : bool :=
  match extract_exit_code l with None => true | Some _ => false end && pe_ok l && negb (closes n l) && no_nl l.
Definition md_body_ok (pe_ok : text -> bool) (n : nat) (body : list bline) : bool :=
  forallb (fun b => match b with BExp l => md_exp_ok pe_ok n l | BCode ds => code_ok ds end) body
  && Nat.leb (count_codes body) 1
  && match body with BExp l :: _ => negb (starts_with P_GT l) | _ => true end.
Definition lang_of (lang : text) : text := match split_at_brace lang with (a, _) => trim_end a end.
Definition lang_ok (lang : text) : bool :=
  match lang with [] => false | c :: _ => negb (c =? BT) end
  && negb (list_eqb (lang_of lang) SCRUT) && no_nl lang
  && match lang_of lang with [] => false | _ => true end.       (* ```{x} : a block without language is rejected by the parser *)
Definition cfg_text_ok (cfg_ok : text -> bool) (c : text) : bool :=
  match c with [] => false | _ => true end && cfg_ok c && no_nl c.

Definition elem_ok (pe_ok : text -> bool) (front_ok : list text -> bool) (cfg_ok : text -> bool) (first : bool) (e : elem) : bool :=
  match e with
  | EFront lines => first && front_ok lines && forallb (fun l => negb (list_eqb l DASHES) && no_nl l) lines
  | EProse l => not_fence_start l && no_nl l && negb (first && list_eqb l DASHES)
  | EHeading k t => Nat.ltb 0 k && no_nl t && match t with [] => false | _ => true end
  | EBlank => true
  | EForeign n lang body tail => Nat.leb 3 n && lang_ok lang && forallb (fun l => negb (closes n l) && no_nl l) body && no_nl tail
  | EScrut n cfg hs comments cmd tail =>
    Nat.leb 3 n && no_nl tail
    && match cfg with Some c => cfg_text_ok cfg_ok c | None => true end
    && forallb (fun l => is_comment l && no_nl l) comments
    && match cmd with
       | Some (c, conts, body) => no_nl c && forallb no_nl conts && md_body_ok pe_ok n body
       | None => true
       end
    && (forallb is_white hs && no_nl hs)
  end.
(* [first]: nothing but blank lines (and front-matter) so far, so `---` would still open a front-matter *)
Fixpoint wf_md_from (pe_ok : text -> bool) (front_ok : list text -> bool) (cfg_ok : text -> bool) (first : bool) (d : list elem) : bool :=
  match d with
  | [] => true
  | e :: r =>
    elem_ok pe_ok front_ok cfg_ok first e
    && wf_md_from pe_ok front_ok cfg_ok
         (first && match e with EFront _ | EBlank => true | EProse l => match trim l with [] => true | _ => false end | _ => false end) r
  end.
Definition wf_md pe_ok front_ok cfg_ok (d : list elem) : bool := wf_md_from pe_ok front_ok cfg_ok true d.
