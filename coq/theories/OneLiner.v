(* C17: TestCaseConfig::to_yaml_one_liner (src/config.rs) transcribed -- the `{key: value, ...}` text that `scrut create`,
   `scrut update` and the generators put after the language of a scrut block -- and a reference reader of exactly that
   notation (a flow mapping with the eight known keys).  Definitions only. *)
From Coq Require Import List NArith ZArith Bool Arith.
Import ListNotations.
From SV Require Import Yaml YamlFlow Render ScriptExec Duration.
Local Open Scope N_scope.

Record ycfg := mkY {
  y_os : option N;                              (* output_stream: 0 stdout, 1 stderr, 2 combined *)
  y_kc : option bool;                           (* keep_crlf *)
  y_to : option (N * N);                        (* timeout: seconds, nanoseconds *)
  y_de : option bool;                           (* detached *)
  y_sk : option Z;                              (* skip_document_code (i32) *)
  y_sa : option bool;                           (* strip_ansi_escaping *)
  y_wa : option (N * N * option (list N));      (* wait: duration, optional path *)
  y_env : list (list N * list N) }.             (* environment, in the order of the BTreeMap *)
Definition yempty : ycfg := mkY None None None None None None None [].

Definition K_OS : list N := [111;117;116;112;117;116;95;115;116;114;101;97;109].
Definition K_KC : list N := [107;101;101;112;95;99;114;108;102].
Definition K_TO : list N := [116;105;109;101;111;117;116].
Definition K_DE : list N := [100;101;116;97;99;104;101;100].
Definition K_SK : list N := [115;107;105;112;95;100;111;99;117;109;101;110;116;95;99;111;100;101].
Definition K_SA : list N := [115;116;114;105;112;95;97;110;115;105;95;101;115;99;97;112;105;110;103].
Definition K_WA : list N := [119;97;105;116].
Definition K_ENV : list N := [101;110;118;105;114;111;110;109;101;110;116].
Definition T_TRUE : list N := [116;114;117;101].
Definition T_FALSE : list N := [102;97;108;115;101].
Definition T_STDOUT : list N := [115;116;100;111;117;116].
Definition T_STDERR : list N := [115;116;100;101;114;114].
Definition T_COMBINED : list N := [99;111;109;98;105;110;101;100].
Definition WAIT_OPEN : list N := [123;116;105;109;101;111;117;116;58;32].      (* {timeout:  *)
Definition WAIT_PATH : list N := [44;32;112;97;116;104;58;32].                  (* , path:  *)

Inductive fval :=
| FStream (n : N) | FBool (b : bool) | FDur (s ns : N) | FInt (z : Z)
| FWait (s ns : N) (path : option (list N)) | FEnv (env : list (list N * list N)).

Definition stream_name (n : N) : list N := if n =? 0 then T_STDOUT else if n =? 1 then T_STDERR else T_COMBINED.
Definition bool_text (b : bool) : list N := if b then T_TRUE else T_FALSE.
Definition value_text (v : fval) : list N :=
  match v with
  | FStream n => stream_name n
  | FBool b => bool_text b
  | FDur s ns => format_duration s ns
  | FInt z => decz z
  | FWait s ns None => format_duration s ns
  | FWait s ns (Some p) => WAIT_OPEN ++ format_duration s ns ++ WAIT_PATH ++ yaml_scalar p ++ [125]
  | FEnv e => env_text e
  end.
Definition entry_text (kv : list N * fval) : list N := fst kv ++ COLON ++ value_text (snd kv).

Definition opt_entry {A} (k : list N) (f : A -> fval) (o : option A) : list (list N * fval) :=
  match o with Some x => [(k, f x)] | None => [] end.
Definition entries_of (c : ycfg) : list (list N * fval) :=
  opt_entry K_OS FStream (y_os c) ++ opt_entry K_KC FBool (y_kc c)
  ++ opt_entry K_TO (fun d => FDur (fst d) (snd d)) (y_to c) ++ opt_entry K_DE FBool (y_de c)
  ++ opt_entry K_SK FInt (y_sk c) ++ opt_entry K_SA FBool (y_sa c)
  ++ opt_entry K_WA (fun w => FWait (fst (fst w)) (snd (fst w)) (snd w)) (y_wa c)
  ++ (match y_env c with [] => [] | e => [(K_ENV, FEnv e)] end).
Definition one_liner (c : ycfg) : list N := [123] ++ join_sep (map entry_text (entries_of c)) ++ [125].

(* ---------- the reference reader ---------- *)
(* a plain token: everything up to the next `,` or `}` *)
Fixpoint take_plain (s : list N) : list N * list N :=
  match s with
  | [] => ([], [])
  | c :: r => if (c =? 44) || (c =? 125) then ([], s) else let (a, b) := take_plain r in (c :: a, b)
  end.
Fixpoint ystrip (p s : list N) : option (list N) :=
  match p, s with
  | [], _ => Some s
  | a :: p', b :: s' => if a =? b then ystrip p' s' else None
  | _ :: _, [] => None
  end.
Definition read_dur (s : list N) : option (N * N * list N) :=
  let (t, r) := take_plain s in match parse_duration t with DOk a b => Some (a, b, r) | _ => None end.
Definition read_bool (s : list N) : option (bool * list N) :=
  let (t, r) := take_plain s in
  if text_eqb t T_TRUE then Some (true, r) else if text_eqb t T_FALSE then Some (false, r) else None.
Definition read_stream (s : list N) : option (N * list N) :=
  let (t, r) := take_plain s in
  if text_eqb t T_STDOUT then Some (0, r) else if text_eqb t T_STDERR then Some (1, r)
  else if text_eqb t T_COMBINED then Some (2, r) else None.
(* a scalar inside a flow mapping: double-quoted, or plain up to the closing brace *)
Definition read_flow_scalar (s : list N) : option (list N * list N) :=
  if head_is 34 s then rq QN [] (tl s) else let (t, r) := take_plain s in Some (t, r).
Inductive ykind := KStream | KBool | KDur | KInt | KWait | KEnv.
Definition key_kind (k : list N) : option ykind :=
  if text_eqb k K_OS then Some KStream
  else if text_eqb k K_KC || text_eqb k K_DE || text_eqb k K_SA then Some KBool
  else if text_eqb k K_TO then Some KDur
  else if text_eqb k K_SK then Some KInt
  else if text_eqb k K_WA then Some KWait
  else if text_eqb k K_ENV then Some KEnv
  else None.
Definition read_wait (s : list N) : option (fval * list N) :=
  match ystrip WAIT_OPEN s with
  | Some s1 =>
    match read_dur s1 with
    | Some (a, b, s2) =>
      match ystrip WAIT_PATH s2 with
      | Some s3 =>
        match read_flow_scalar s3 with
        | Some (p, s4) => if head_is 125 s4 then Some (FWait a b (Some p), tl s4) else None
        | None => None
        end
      | None => None
      end
    | None => None
    end
  | None => match read_dur s with Some (a, b, r) => Some (FWait a b None, r) | None => None end
  end.
Definition read_kind (kd : ykind) (s : list N) : option (fval * list N) :=
  match kd with
  | KStream => match read_stream s with Some (n, r) => Some (FStream n, r) | None => None end
  | KBool => match read_bool s with Some (b, r) => Some (FBool b, r) | None => None end
  | KDur => match read_dur s with Some (a, b, r) => Some (FDur a b, r) | None => None end
  | KInt => let (t, r) := take_plain s in match parse_i32 t with Some z => Some (FInt z, r) | None => None end
  | KWait => read_wait s
  | KEnv => match read_env s with Some (e, r) => Some (FEnv e, r) | None => None end
  end.
Definition read_fval (k s : list N) : option (fval * list N) :=
  match key_kind k with Some kd => read_kind kd s | None => None end.
Fixpoint read_items (fuel : nat) (s : list N) : option (list (list N * fval) * list N) :=
  match fuel with
  | O => None
  | S f =>
    match split_colon s with
    | None => None
    | Some (k, r1) =>
      match read_fval k r1 with
      | None => None
      | Some (v, r2) =>
        if head_is 125 r2 then Some ([(k, v)], tl r2)
        else if starts2 44 32 r2 then
          match read_items f (skipn 2 r2) with Some (m, rest) => Some ((k, v) :: m, rest) | None => None end
        else None
      end
    end
  end.
Definition read_mapping (s : list N) : option (list (list N * fval) * list N) :=
  if head_is 123 s then
    if head_is 125 (tl s) then Some ([], tl (tl s)) else read_items (length s) (tl s)
  else None.

(* the entries become a configuration; a key that comes twice is an error *)
Definition set_field (c : ycfg) (kv : list N * fval) : option ycfg :=
  let (k, v) := kv in
  match v with
  | FStream n => if text_eqb k K_OS then match y_os c with None => Some (mkY (Some n) (y_kc c) (y_to c) (y_de c) (y_sk c) (y_sa c) (y_wa c) (y_env c)) | _ => None end else None
  | FBool b =>
    if text_eqb k K_KC then match y_kc c with None => Some (mkY (y_os c) (Some b) (y_to c) (y_de c) (y_sk c) (y_sa c) (y_wa c) (y_env c)) | _ => None end
    else if text_eqb k K_DE then match y_de c with None => Some (mkY (y_os c) (y_kc c) (y_to c) (Some b) (y_sk c) (y_sa c) (y_wa c) (y_env c)) | _ => None end
    else if text_eqb k K_SA then match y_sa c with None => Some (mkY (y_os c) (y_kc c) (y_to c) (y_de c) (y_sk c) (Some b) (y_wa c) (y_env c)) | _ => None end
    else None
  | FDur a b => if text_eqb k K_TO then match y_to c with None => Some (mkY (y_os c) (y_kc c) (Some (a, b)) (y_de c) (y_sk c) (y_sa c) (y_wa c) (y_env c)) | _ => None end else None
  | FInt z => if text_eqb k K_SK then match y_sk c with None => Some (mkY (y_os c) (y_kc c) (y_to c) (y_de c) (Some z) (y_sa c) (y_wa c) (y_env c)) | _ => None end else None
  | FWait a b p => if text_eqb k K_WA then match y_wa c with None => Some (mkY (y_os c) (y_kc c) (y_to c) (y_de c) (y_sk c) (y_sa c) (Some (a, b, p)) (y_env c)) | _ => None end else None
  | FEnv e => if text_eqb k K_ENV then match y_env c with [] => Some (mkY (y_os c) (y_kc c) (y_to c) (y_de c) (y_sk c) (y_sa c) (y_wa c) e) | _ => None end else None
  end.
Fixpoint assemble (l : list (list N * fval)) (c : ycfg) : option ycfg :=
  match l with [] => Some c | kv :: r => match set_field c kv with Some c' => assemble r c' | None => None end end.
Definition read_one_liner (s : list N) : option ycfg :=
  match read_mapping s with Some (l, []) => assemble l yempty | _ => None end.

(* ---------- what the Markdown generator writes: only what differs from the defaults of the format ---------- *)
(* TestCaseConfig::diff(self, other) and TestCaseConfig::with_defaults_from on the same record *)
Definition oeqb {A} (eqb : A -> A -> bool) (a b : option A) : bool :=
  match a, b with Some x, Some y => eqb x y | None, None => true | _, _ => false end.
Definition pair_eqb (a b : N * N) : bool := (fst a =? fst b) && (snd a =? snd b).
Definition wait_eqb (a b : N * N * option (list N)) : bool :=
  pair_eqb (fst a) (fst b) && oeqb text_eqb (snd a) (snd b).
Fixpoint env_get (k : list N) (e : list (list N * list N)) : option (list N) :=
  match e with [] => None | (k', v) :: r => if text_eqb k k' then Some v else env_get k r end.
Definition env_eqb (a b : list (list N * list N)) : bool :=
  forallb (fun kv => oeqb text_eqb (env_get (fst kv) a) (env_get (fst kv) b)) (a ++ b).
Definition keep {A} (eqb : A -> A -> bool) (a b : option A) : option A := if oeqb eqb a b then None else a.
Definition ydiff (c d : ycfg) : ycfg :=
  mkY (keep N.eqb (y_os c) (y_os d)) (keep Bool.eqb (y_kc c) (y_kc d)) (keep pair_eqb (y_to c) (y_to d))
      (keep Bool.eqb (y_de c) (y_de d)) (keep Z.eqb (y_sk c) (y_sk d)) (keep Bool.eqb (y_sa c) (y_sa d))
      (keep wait_eqb (y_wa c) (y_wa d))
      (if env_eqb (y_env c) (y_env d) then []
       else filter (fun kv => match env_get (fst kv) (y_env d) with None => true | Some v => text_eqb v (snd kv) end) (y_env c)).
Definition oor {A} (a b : option A) : option A := match a with Some _ => a | None => b end.
(* variables of the defaults that the configuration does not set come first *)
Definition ywith_defaults (s d : ycfg) : ycfg :=
  mkY (oor (y_os s) (y_os d)) (oor (y_kc s) (y_kc d)) (oor (y_to s) (y_to d)) (oor (y_de s) (y_de d))
      (oor (y_sk s) (y_sk d)) (oor (y_sa s) (y_sa d)) (oor (y_wa s) (y_wa d))
      (filter (fun kv => match env_get (fst kv) (y_env s) with None => true | Some _ => false end) (y_env d) ++ y_env s).
(* the header line of the generated block: ```scrut, then the one-liner of the difference unless that is empty *)
Definition ycfg_is_empty (c : ycfg) : bool :=
  match y_os c, y_kc c, y_to c, y_de c, y_sk c, y_sa c, y_wa c, y_env c with
  | None, None, None, None, None, None, None, [] => true | _, _, _, _, _, _, _, _ => false end.
Definition gen_config_suffix (c d : ycfg) : list N :=
  let x := ydiff c d in if ycfg_is_empty x then [] else 32 :: one_liner x.
