(* C17: the one-line configuration that to_yaml_one_liner writes is read back, by the reference reader, as the configuration
   it was written from. *)
From Coq Require Import List NArith ZArith Lia Bool Arith ZifyBool ZifyNat ZifyN.
Import ListNotations.
From SV Require Import Yaml YamlProofs YamlFlow Render RenderProofs ScriptExec ScriptExecProofs EnvProofs Duration DurationProofs OneLiner.
Local Open Scope N_scope.

(* ---------- plain tokens ---------- *)
Definition okc (c : N) : bool := negb (c =? 44) && negb (c =? 125).
Definition clean (t : list N) : Prop := Forall (fun c => okc c = true) t.
Definition stops (tail : list N) : Prop := head_is 44 tail = true \/ head_is 125 tail = true.

Lemma take_plain_app : forall t tail, clean t -> stops tail -> take_plain (t ++ tail) = (t, tail).
Proof.
  induction t as [|c t IH]; intros tail C S.
  - destruct tail as [|x r]; [destruct S as [S|S]; discriminate|].
    cbn [app take_plain]. unfold stops, head_is in S. destruct S as [S|S]; rewrite S; [reflexivity|rewrite orb_true_r; reflexivity].
  - apply Forall_cons_iff in C. destruct C as [Hc Ht]. unfold okc in Hc.
    cbn [app take_plain]. destruct ((c =? 44) || (c =? 125)) eqn:E; [lia|]. rewrite (IH tail Ht S). reflexivity.
Qed.

Lemma clean_app : forall a b, clean a -> clean b -> clean (a ++ b).
Proof. intros. apply Forall_app. split; assumption. Qed.
Lemma digit_okc : forall c, is_digit c = true -> okc c = true.
Proof. intros c H. unfold is_digit in H. unfold okc. lia. Qed.
Lemma clean_dec : forall n, clean (dec n).
Proof. intros n. eapply Forall_impl; [|apply dec_digits]. exact digit_okc. Qed.
Lemma clean_decz : forall z, clean (decz z).
Proof. intros [|p|p]; unfold decz; try apply clean_dec. constructor; [reflexivity|apply clean_dec]. Qed.

Lemma clean_chain : forall its st, Forall (fun it => clean (snd (fst it))) its -> clean (dchain st its).
Proof.
  induction its as [|[[v name] pl] r IH]; intros st H; [constructor|].
  apply Forall_cons_iff in H. destruct H as [Hn Hr]. cbn [fst snd] in Hn. cbn [dchain].
  destruct (0 <? v); [|apply IH; exact Hr].
  apply clean_app; [destruct st; repeat constructor|]. apply clean_app; [|apply IH; exact Hr].
  unfold item_text. apply clean_app; [apply clean_dec|]. apply clean_app; [exact Hn|].
  destruct (pl && (1 <? v)); repeat constructor.
Qed.
Lemma clean_format : forall s ns, clean (format_duration s ns).
Proof.
  intros s ns. unfold format_duration. destruct ((s =? 0) && (ns =? 0)); [repeat constructor|].
  apply clean_chain. unfold dur_items. repeat (apply Forall_cons; [cbn [fst snd]; repeat constructor|]). apply Forall_nil.
Qed.

(* ---------- values ---------- *)
Lemma read_dur_format : forall s ns tail, s < U64 -> ns < NANOS -> stops tail ->
  read_dur (format_duration s ns ++ tail) = Some (s, ns, tail).
Proof.
  intros s ns tail Hs Hn St. unfold read_dur. rewrite take_plain_app by (try apply clean_format; exact St).
  rewrite duration_round_trip by assumption. reflexivity.
Qed.

Lemma strip_prefix_app : forall p s, ystrip p (p ++ s) = Some s.
Proof. induction p as [|a p IH]; intros s; [reflexivity|]. cbn [app ystrip]. rewrite N.eqb_refl. apply IH. Qed.

Definition wf_value (v : fval) : Prop :=
  match v with
  | FStream n => n < 3
  | FBool _ => True
  | FDur s ns => s < U64 /\ ns < NANOS
  | FInt z => (- 2147483648 <= z < 2147483648)%Z
  | FWait s ns p => s < U64 /\ ns < NANOS /\ match p with Some t => scalar_ok t | None => True end
  | FEnv e => Forall pair_ok e
  end.
Definition kind_of (v : fval) : ykind :=
  match v with FStream _ => KStream | FBool _ => KBool | FDur _ _ => KDur | FInt _ => KInt | FWait _ _ _ => KWait | FEnv _ => KEnv end.

Lemma format_not_brace : forall s ns tail, ystrip WAIT_OPEN (format_duration s ns ++ tail) = None.
Proof.
  intros s ns tail. pose proof (clean_format s ns) as C.
  destruct (format_duration s ns) as [|c r] eqn:E.
  - (* never empty *) exfalso. unfold format_duration in E. destruct ((s =? 0) && (ns =? 0)) eqn:Z; [discriminate|].
    assert (NZ: any_nz (dur_items s ns) = true).
    { unfold any_nz, dur_items. cbn [existsb fst]. unfold Y_SECS, MO_SECS. lia. }
    destruct (chain_nil _ E) as [A _]. congruence.
  - (* the first character is a digit *)
    assert (D: is_digit c = true).
    { unfold format_duration in E. destruct ((s =? 0) && (ns =? 0)); [injection E as <- _; reflexivity|].
      clear C. revert E. generalize (dur_items s ns). intros its.
      induction its as [|[[v name] pl] its IH]; intros E; [discriminate|].
      cbn [dchain] in E. destruct (0 <? v); [|exact (IH E)].
      cbn [app] in E. unfold item_text in E. pose proof (dec_digits v) as DD. pose proof (dec_nonempty v) as NE.
      destruct (dec v) as [|d ds]; [cbn in NE; lia|]. apply Forall_cons_iff in DD. injection E as <- _. apply DD. }
    cbn [app WAIT_OPEN ystrip]. unfold is_digit in D. destruct (123 =? c) eqn:E1; [lia|reflexivity].
Qed.

Lemma rq_quoted_rest : forall t rest, scalar_ok t -> rq QN [] (tl (yaml_quoted t ++ rest)) = Some (t, rest).
Proof.
  intros t rest H. unfold yaml_quoted. cbn [app tl]. rewrite <- app_assoc. rewrite rq_flat by exact H.
  cbn [app rq]. change (34 =? 34) with true. cbv iota. rewrite app_nil_r, rev_involutive. reflexivity.
Qed.
Lemma plain_clean : forall t, forallb plain_char t = true -> clean t.
Proof.
  intros t H. apply Forall_forall. intros c Hc. rewrite forallb_forall in H. specialize (H c Hc).
  destruct (plain_char_not_special c H) as (_ & _ & N3 & N4). unfold okc. lia.
Qed.
Lemma read_flow_scalar_spec : forall t rest, scalar_ok t ->
  read_flow_scalar (yaml_scalar t ++ 125 :: rest) = Some (t, 125 :: rest).
Proof.
  intros t rest H. unfold read_flow_scalar, yaml_scalar. destruct (is_plain t) eqn:P.
  - destruct (is_plain_chars t P) as [Hc Hne].
    assert (Eh: head_is 34 (t ++ 125 :: rest) = false).
    { destruct t as [|c t']; [congruence|]. cbn [forallb] in Hc. apply andb_true_iff in Hc. destruct Hc as [Hc _].
      destruct (plain_char_not_special c Hc) as (_ & N2 & _). cbn. lia. }
    rewrite Eh. rewrite take_plain_app; [reflexivity|apply plain_clean; exact Hc|right; reflexivity].
  - assert (Eh: head_is 34 (yaml_quoted t ++ 125 :: rest) = true) by reflexivity.
    rewrite Eh. apply rq_quoted_rest. exact H.
Qed.

Lemma text_eqb_refl' : forall a, text_eqb a a = true.
Proof. induction a as [|x a IH]; [reflexivity|]. cbn [text_eqb]. rewrite N.eqb_refl, IH. reflexivity. Qed.

Lemma read_kind_value : forall v tail, wf_value v -> stops tail ->
  read_kind (kind_of v) (value_text v ++ tail) = Some (v, tail).
Proof.
  intros v tail W St. destruct v as [n|b|s ns|z|s ns p|e]; cbn [kind_of read_kind value_text wf_value] in *.
  - unfold read_stream, stream_name.
    assert (C: n = 0 \/ n = 1 \/ n = 2) by lia. destruct C as [ -> | [ -> | -> ] ]; cbn [N.eqb Pos.eqb];
      (rewrite take_plain_app by (try exact St; repeat constructor)); reflexivity.
  - unfold read_bool, bool_text. destruct b; (rewrite take_plain_app by (try exact St; repeat constructor)); reflexivity.
  - destruct W as [Hs Hn]. rewrite read_dur_format by assumption. reflexivity.
  - rewrite take_plain_app by (try exact St; apply clean_decz). rewrite parse_i32_decz by exact W. reflexivity.
  - destruct W as (Hs & Hn & Hp). unfold read_wait. destruct p as [p|].
    + rewrite <- !app_assoc. rewrite strip_prefix_app.
      rewrite read_dur_format by (try assumption; left; reflexivity).
      rewrite strip_prefix_app. cbn [app]. rewrite read_flow_scalar_spec by exact Hp. reflexivity.
    + rewrite format_not_brace. rewrite read_dur_format by assumption. reflexivity.
  - rewrite read_env_text by exact W. reflexivity.
Qed.

(* ---------- entries ---------- *)
Definition wf_entry (kv : list N * fval) : Prop :=
  forallb plain_char (fst kv) = true /\ fst kv <> [] /\ key_kind (fst kv) = Some (kind_of (snd kv)) /\ wf_value (snd kv).

Lemma entry_read : forall k v tail, wf_entry (k, v) -> stops tail ->
  split_colon (entry_text (k, v) ++ tail) = Some (k, value_text v ++ tail)
  /\ read_fval k (value_text v ++ tail) = Some (v, tail).
Proof.
  intros k v tail (Hp & Hne & Hk & Hv) St. cbn [fst snd] in *. split.
  - unfold entry_text. cbn [fst snd]. rewrite <- !app_assoc. apply split_colon_plain. exact Hp.
  - unfold read_fval. rewrite Hk. apply read_kind_value; assumption.
Qed.

Lemma read_items_spec : forall l fuel rest, l <> [] -> Forall wf_entry l -> (length l <= fuel)%nat ->
  read_items fuel (join_sep (map entry_text l) ++ 125 :: rest) = Some (l, rest).
Proof.
  induction l as [|[k v] l IH]; intros fuel rest Hne Hok Hf; [congruence|].
  apply Forall_cons_iff in Hok. destruct Hok as [Hkv Hr].
  destruct fuel as [|f]; [cbn in Hf; lia|]. cbn [read_items].
  destruct l as [|kv2 l'].
  - cbn [map join_sep].
    destruct (entry_read k v (125 :: rest) Hkv ltac:(right; reflexivity)) as [E1 E2].
    rewrite E1, E2. reflexivity.
  - change (join_sep (map entry_text ((k, v) :: kv2 :: l'))) with (entry_text (k, v) ++ SEP ++ join_sep (map entry_text (kv2 :: l'))).
    rewrite <- !app_assoc.
    destruct (entry_read k v (SEP ++ join_sep (map entry_text (kv2 :: l')) ++ 125 :: rest) Hkv ltac:(left; reflexivity)) as [E1 E2].
    rewrite E1, E2.
    cbn [app SEP head_is starts2 skipn]. change (44 =? 125) with false. change (44 =? 44) with true. change (32 =? 32) with true. cbv iota. cbn [andb].
    rewrite (IH f rest ltac:(discriminate) Hr ltac:(cbn in *; lia)). reflexivity.
Qed.

Lemma join_entries_length : forall l, Forall wf_entry l -> (length l <= length (join_sep (map entry_text l)))%nat.
Proof.
  induction l as [|kv l IH]; intros H; [cbn; lia|]. apply Forall_cons_iff in H. destruct H as [Hkv Hr].
  destruct Hkv as (_ & Hne & _). destruct kv as [k v]. cbn [fst] in Hne.
  assert (L: (1 <= length (entry_text (k, v)))%nat).
  { unfold entry_text. cbn [fst snd]. rewrite app_length. destruct k; [congruence|cbn [length]; lia]. }
  destruct l as [|kv2 l'].
  - cbn [map join_sep length]. lia.
  - change (join_sep (map entry_text ((k, v) :: kv2 :: l'))) with (entry_text (k, v) ++ SEP ++ join_sep (map entry_text (kv2 :: l'))).
    specialize (IH Hr). rewrite !app_length. cbn [SEP length] in *. lia.
Qed.

Lemma read_mapping_spec : forall l rest, Forall wf_entry l ->
  read_mapping ([123] ++ join_sep (map entry_text l) ++ [125] ++ rest) = Some (l, rest).
Proof.
  intros l rest H. unfold read_mapping. cbn [app head_is tl]. change (123 =? 123) with true. cbv iota.
  destruct l as [|[k v] l'].
  - cbn [map join_sep app head_is tl]. reflexivity.
  - assert (Eh: head_is 125 (join_sep (map entry_text ((k, v) :: l')) ++ 125 :: rest) = false).
    { pose proof H as H'. apply Forall_cons_iff in H'. destruct H' as [(Hp & Hne & _) _]. cbn [fst] in *.
      assert (T: exists t, join_sep (map entry_text ((k, v) :: l')) = k ++ t).
      { destruct l'; cbn [map join_sep]; unfold entry_text; cbn [fst snd]; rewrite <- ?app_assoc; eexists; reflexivity. }
      destruct T as [t ->]. destruct k as [|c k']; [congruence|].
      cbn [forallb] in Hp. apply andb_true_iff in Hp. destruct Hp as [Hc _].
      destruct (plain_char_not_special c Hc) as (_ & _ & N3 & _). cbn [app head_is]. apply N.eqb_neq. exact N3. }
    rewrite Eh. apply read_items_spec; [discriminate|exact H|].
    pose proof (join_entries_length _ H) as L. cbn [length] in *. rewrite !app_length. cbn [length]. lia.
Qed.

(* ---------- the configuration ---------- *)
Definition wf_cfg (c : ycfg) : Prop :=
  match y_os c with Some n => n < 3 | None => True end
  /\ match y_to c with Some (s, ns) => s < U64 /\ ns < NANOS | None => True end
  /\ match y_sk c with Some z => (- 2147483648 <= z < 2147483648)%Z | None => True end
  /\ match y_wa c with Some (s, ns, p) => s < U64 /\ ns < NANOS /\ match p with Some t => scalar_ok t | None => True end | None => True end
  /\ Forall pair_ok (y_env c).

Lemma entries_wf : forall c, wf_cfg c -> Forall wf_entry (entries_of c).
Proof.
  intros [os kc to de sk sa wa env] (H1 & H2 & H3 & H4 & H5). cbn [y_os y_kc y_to y_de y_sk y_sa y_wa y_env] in *.
  unfold entries_of. cbn [y_os y_kc y_to y_de y_sk y_sa y_wa y_env].
  repeat (apply Forall_app; split).
  - destruct os; [|constructor]. repeat constructor; try discriminate; try reflexivity. exact H1.
  - destruct kc; [|constructor]. repeat constructor; try discriminate; reflexivity.
  - destruct to as [[s ns]|]; [|constructor]. repeat constructor; try discriminate; try reflexivity; apply H2.
  - destruct de; [|constructor]. repeat constructor; try discriminate; reflexivity.
  - destruct sk; [|constructor]. constructor; [|constructor]. split; [reflexivity|split; [discriminate|split; [reflexivity|exact H3]]].
  - destruct sa; [|constructor]. repeat constructor; try discriminate; reflexivity.
  - destruct wa as [[[s ns] p]|]; [|constructor]. constructor; [|constructor].
    split; [reflexivity|split; [discriminate|split; [reflexivity|exact H4]]].
  - destruct env; [constructor|]. constructor; [|constructor].
    split; [reflexivity|split; [discriminate|split; [reflexivity|exact H5]]].
Qed.

Lemma assemble_entries : forall c, assemble (entries_of c) yempty = Some c.
Proof.
  intros [os kc to de sk sa wa env].
  destruct os, kc, to as [[? ?]|], de, sk, sa, wa as [[[? ?] [?|]]|], env; reflexivity.
Qed.

Theorem one_liner_reads_back : forall c, wf_cfg c -> read_one_liner (one_liner c) = Some c.
Proof.
  intros c W. unfold read_one_liner, one_liner.
  pose proof (read_mapping_spec (entries_of c) [] (entries_wf c W)) as R. rewrite !app_nil_r in R.
  rewrite R. apply assemble_entries.
Qed.

(* ---------- the one-liner stays on its line ---------- *)
(* nothing in it is a control character, a line break (LF, CR, NEL, LS, PS) or a byte order mark: put after the language of
   a code fence it cannot end the fence line *)
Definition inline (t : list N) : Prop := Forall (fun x => needs_u_escape x = false) t.
Lemma inline_app : forall a b, inline a -> inline b -> inline (a ++ b).
Proof. intros. apply Forall_app. split; assumption. Qed.
Lemma digit_inline : forall c, is_digit c = true -> needs_u_escape c = false.
Proof. intros c H. unfold is_digit in H. unfold needs_u_escape. lia. Qed.
Lemma inline_dec : forall n, inline (dec n).
Proof. intros n. eapply Forall_impl; [|apply dec_digits]. exact digit_inline. Qed.
Lemma inline_decz : forall z, inline (decz z).
Proof. intros [|p|p]; unfold decz; try apply inline_dec. constructor; [reflexivity|apply inline_dec]. Qed.
Lemma inline_chain : forall its st, Forall (fun it => inline (snd (fst it))) its -> inline (dchain st its).
Proof.
  induction its as [|[[v name] pl] r IH]; intros st H; [constructor|].
  apply Forall_cons_iff in H. destruct H as [Hn Hr]. cbn [fst snd] in Hn. cbn [dchain].
  destruct (0 <? v); [|apply IH; exact Hr].
  apply inline_app; [destruct st; repeat constructor|]. apply inline_app; [|apply IH; exact Hr].
  unfold item_text. apply inline_app; [apply inline_dec|]. apply inline_app; [exact Hn|].
  destruct (pl && (1 <? v)); repeat constructor.
Qed.
Lemma inline_format : forall s ns, inline (format_duration s ns).
Proof.
  intros s ns. unfold format_duration. destruct ((s =? 0) && (ns =? 0)); [repeat constructor|].
  apply inline_chain. unfold dur_items. repeat (apply Forall_cons; [cbn [fst snd]; repeat constructor|]). apply Forall_nil.
Qed.
Lemma plain_inline : forall t, forallb plain_char t = true -> inline t.
Proof.
  intros t H. apply Forall_forall. intros c Hc. rewrite forallb_forall in H. specialize (H c Hc).
  unfold plain_char, is_alpha, is_digit_c in H. unfold needs_u_escape. lia.
Qed.
Lemma inline_scalar : forall t, inline (yaml_scalar t).
Proof.
  intros t. unfold yaml_scalar. destruct (is_plain t) eqn:P; [|apply quoted_clean].
  apply plain_inline. apply (is_plain_chars t P).
Qed.
Lemma inline_join : forall l, Forall inline l -> inline (join_sep l).
Proof.
  induction l as [|x l IH]; intros H; [constructor|]. apply Forall_cons_iff in H. destruct H as [Hx Hl].
  destruct l as [|y l']; [exact Hx|].
  change (join_sep (x :: y :: l')) with (x ++ SEP ++ join_sep (y :: l')).
  apply inline_app; [exact Hx|]. apply inline_app; [repeat constructor|]. apply IH. exact Hl.
Qed.
Lemma inline_env : forall e, inline (env_text e).
Proof.
  intros e. unfold env_text. apply inline_app; [repeat constructor|]. apply inline_app; [|repeat constructor].
  apply inline_join. apply Forall_map. apply Forall_forall. intros [k v] _. unfold env_entry. cbn [fst snd].
  apply inline_app; [apply inline_scalar|]. apply inline_app; [repeat constructor|apply quoted_clean].
Qed.
Lemma inline_value : forall v, inline (value_text v).
Proof.
  intros [n|b|s ns|z|s ns [p|]|e]; cbn [value_text].
  - unfold stream_name. destruct (n =? 0); [repeat constructor|]. destruct (n =? 1); repeat constructor.
  - destruct b; repeat constructor.
  - apply inline_format.
  - apply inline_decz.
  - apply inline_app; [repeat constructor|]. apply inline_app; [apply inline_format|].
    apply inline_app; [repeat constructor|]. apply inline_app; [apply inline_scalar|repeat constructor].
  - apply inline_format.
  - apply inline_env.
Qed.
Theorem one_liner_inline : forall c, inline (one_liner c).
Proof.
  intros [os kc to de sk sa wa env]. unfold one_liner. apply inline_app; [repeat constructor|]. apply inline_app; [|repeat constructor].
  apply inline_join. apply Forall_map. unfold entries_of. cbn [y_os y_kc y_to y_de y_sk y_sa y_wa y_env].
  repeat (apply Forall_app; split);
    try (match goal with |- Forall _ (opt_entry _ _ ?o) => destruct o; [|constructor] end;
         constructor; [|constructor]; unfold entry_text; cbn [fst snd];
         apply inline_app; [repeat constructor|]; apply inline_app; [repeat constructor|apply inline_value]).
  destruct env; [constructor|]. constructor; [|constructor]. unfold entry_text. cbn [fst snd].
  apply inline_app; [repeat constructor|]. apply inline_app; [repeat constructor|apply inline_value].
Qed.

(* ---------- what is left out because it equals the format default comes back from the format default ---------- *)
Lemma keep_oor : forall (A : Type) (eqb : A -> A -> bool), (forall x y, eqb x y = true -> x = y) ->
  forall a b : option A, oor (keep eqb a b) b = oor a b.
Proof.
  intros A eqb H a b. unfold keep. destruct a as [x|], b as [y|]; cbn [oeqb]; try reflexivity.
  destruct (eqb x y) eqn:E; [|reflexivity]. rewrite (H x y E). reflexivity.
Qed.
Lemma pair_eqb_eq : forall a b, pair_eqb a b = true -> a = b.
Proof. intros [a1 a2] [b1 b2] H. unfold pair_eqb in H. cbn [fst snd] in H. f_equal; lia. Qed.
Lemma oeqb_text : forall a b : option (list N), oeqb text_eqb a b = true -> a = b.
Proof. intros [a|] [b|] H; cbn in H; try discriminate; [|reflexivity]. f_equal. apply text_eqb_eq. exact H. Qed.
Lemma wait_eqb_eq : forall a b, wait_eqb a b = true -> a = b.
Proof.
  intros [a1 a2] [b1 b2] H. unfold wait_eqb in H. cbn [fst snd] in H. apply andb_true_iff in H. destruct H as [H1 H2].
  f_equal; [apply pair_eqb_eq; exact H1|apply oeqb_text; exact H2].
Qed.
Lemma filter_all : forall (A : Type) (f : A -> bool) l, (forall x, f x = true) -> filter f l = l.
Proof. intros A f l H. induction l as [|x l IH]; [reflexivity|]. cbn [filter]. rewrite H, IH. reflexivity. Qed.

Theorem ydiff_restores : forall c d, y_env d = [] -> ywith_defaults (ydiff c d) d = ywith_defaults c d.
Proof.
  intros [os kc to de sk sa wa env] [os' kc' to' de' sk' sa' wa' env'] He. cbn [y_env] in He. subst env'.
  unfold ydiff, ywith_defaults. cbn [y_os y_kc y_to y_de y_sk y_sa y_wa y_env].
  rewrite (keep_oor N N.eqb) by (intros x y H; lia).
  rewrite !(keep_oor bool Bool.eqb) by (intros x y H; apply Bool.eqb_prop; exact H).
  rewrite (keep_oor _ pair_eqb pair_eqb_eq).
  rewrite (keep_oor Z Z.eqb) by (intros x y H; lia).
  rewrite (keep_oor _ wait_eqb wait_eqb_eq).
  cbn [filter app]. f_equal.
  destruct (env_eqb env []) eqn:E.
  - (* equal to the empty environment: it is empty *)
    destruct env as [|[k v] r]; [reflexivity|]. exfalso. unfold env_eqb in E. cbn [app forallb fst env_get] in E.
    rewrite text_eqb_refl' in E. cbn in E. discriminate.
  - apply filter_all. intros kv. reflexivity.
Qed.
