(* C09 (update of a failing test): the expectation list `update` writes is the kept (matched) expectations interleaved
   with literal expectations for the unexpected lines.  It always describes the output it was generated from. *)
From Coq Require Import List Arith Bool Lia Sorted.
Import ListNotations.
From SV Require Import Diff DiffProofs DetProofs Cons.

Section R.
Variable line : Type.
Variable leqb : line -> line -> bool.
Hypothesis leqb_spec : forall a b, leqb a b = true <-> a = b.
Notation exp := (exp line).
Notation entry := (entry line).

(* the literal expectation written for an unexpected line: matches exactly that line, no quantifier *)
Definition lit (l : line) : exp := mkExp line false false (leqb l).

Definition regen_entry (es : list exp) (en : entry) : list exp :=
  match en with
  | EMatched _ i _ => match nth_error es i with Some e => [e] | None => [] end
  | EUnmatched _ _ => []
  | EUnexpected _ b => map (fun p => lit (snd p)) b
  end.
Definition regen (es : list exp) (d : list entry) : list exp := flat_map (regen_entry es) d.

Lemma described_app : forall (es1 es2 : list exp) ls1 ls2,
  Described line es1 ls1 -> Described line es2 ls2 -> Described line (es1 ++ es2) (ls1 ++ ls2).
Proof.
  intros es1 es2 ls1 ls2 (b1 & F1 & C1) (b2 & F2 & C2). exists (b1 ++ b2). split.
  - apply Forall2_app; assumption.
  - rewrite concat_app, C1, C2. reflexivity.
Qed.

Lemma described_lits : forall (b : list (nat * line)),
  Described line (map (fun p => lit (snd p)) b) (map snd b).
Proof.
  induction b as [|[i l] b IH]; cbn [map].
  - exists []. split; [constructor|reflexivity].
  - change (snd (i, l) :: map snd b) with ([l] ++ map snd b).
    change (lit (snd (i, l)) :: map (fun p => lit (snd p)) b) with ([lit l] ++ map (fun p => lit (snd p)) b).
    apply described_app; [|exact IH]. exists [[l]]. split; [|reflexivity].
    constructor; [|constructor]. split; [constructor; [|constructor]; cbn; apply leqb_spec; reflexivity|].
    split; [intros _; discriminate|intros _; cbn; lia].
Qed.

Lemma described_entry : forall es en, entry_ok line 0 es en ->
  Described line (regen_entry es en) (map snd (e_lines line en)).
Proof.
  intros es [i b|i|b] H; cbn [regen_entry e_lines].
  - cbn [entry_ok] in H. destruct H as (Hne & e & He & _ & Hm & Hlen). rewrite Nat.sub_0_r in He. rewrite He.
    exists [map snd b]. split; [|cbn; rewrite app_nil_r; reflexivity].
    constructor; [|constructor]. split.
    + rewrite Forall_map. exact Hm.
    + split.
      * intros _ E. apply map_eq_nil in E. contradiction.
      * intros M. rewrite map_length. rewrite (Hlen M). lia.
  - exists []. split; [constructor|reflexivity].
  - apply described_lits.
Qed.

Lemma map_snd_number : forall (ls : list line) k, map snd (number line k ls) = ls.
Proof. induction ls as [|l r IH]; intros k; cbn; [reflexivity|]. f_equal. apply IH. Qed.

Theorem regen_described : forall es ls d, diff line es ls = Some d -> Described line (regen es d) ls.
Proof.
  intros es ls d Hd. destruct (C02_conservation line es ls) as (d' & Hd' & HL & _ & _ & HE).
  rewrite Hd in Hd'. inversion Hd'; subst d'. clear Hd'.
  assert (G : forall d0, Forall (entry_ok line 0 es) d0 -> Described line (regen es d0) (map snd (lines_of line d0))).
  { induction d0 as [|en d0 IH]; intros F.
    - exists []. split; [constructor|reflexivity].
    - inversion F as [|? ? F1 F2]; subst. unfold regen, lines_of. cbn [flat_map]. rewrite map_app.
      apply described_app; [apply described_entry; exact F1|apply IH; exact F2]. }
  specialize (G d HE). rewrite HL, map_snd_number in G. exact G.
Qed.
End R.
