(* C04: what RegexRule::make does to the expression before it is handed to the regex crate (src/rules/regex.rs):
   cleanup_unrecognized_escape_sequences, escape_misused_repetition_quantifier, escape_misused_character_class --
   three passes over the characters, transcribed.  Definitions only. *)
From Coq Require Import List NArith Bool.
Import ListNotations.
Local Open Scope N_scope.

Definition is_az (c : N) : bool := ((97 <=? c) && (c <=? 122)) || ((65 <=? c) && (c <=? 90)).
Definition is_09 (c : N) : bool := (48 <=? c) && (c <=? 57).
(* after a backslash these keep it: [ ] { } ( ) | ? * + - . ^ $ \ and ASCII letters *)
Definition keeps_escape (c : N) : bool :=
  existsb (N.eqb c) [91; 93; 123; 125; 40; 41; 124; 63; 42; 43; 45; 46; 94; 36; 92] || is_az c.

(* pass A: cleanup_unrecognized_escape_sequences *)
Fixpoint cleanup (s : list N) : list N :=
  match s with
  | [] => []
  | c :: r =>
    if c =? 92 then
      match r with
      | [] => [92]
      | c2 :: r2 => (if keeps_escape c2 then [92; c2] else [c2]) ++ cleanup r2
      end
    else c :: cleanup r
  end.

(* what a valid repetition quantifier looks like: `{digits}`, `{digits,digits}` or `{digits,}` (at least so many) *)
Fixpoint take_digits (s : list N) : list N * list N :=
  match s with
  | c :: r => if is_09 c then let (d, rest) := take_digits r in (c :: d, rest) else ([], s)
  | [] => ([], [])
  end.
(* s begins right after the `{`: Some (inner, rest after `}`) *)
Definition quantifier_body (s : list N) : option (list N * list N) :=
  let (d1, r1) := take_digits s in
  match d1 with
  | [] => None
  | _ =>
    match r1 with
    | 125 :: rest => Some (d1, rest)
    | 44 :: r2 =>
      let (d2, r3) := take_digits r2 in
      match r3 with
      | 125 :: rest => Some (d1 ++ [44] ++ d2, rest)
      | _ => None
      end
    | _ => None
    end
  end.
(* pass B: a backslash followed by p P x u U keeps the curly brackets that follow it directly; every `{digits}`, `{digits,digits}` or `{digits,}` (leftmost, not overlapping; also right after a backslash) stays as it is; a
   backslash protects the next character; every other curly bracket gets a backslash *)
(* escapes that take their argument in curly brackets: \p{..} \P{..} \x{..} \u{..} \U{..}; the text up to and including the
   first closing bracket belongs to the escape *)
Definition takes_braces (c : N) : bool := (c =? 112) || (c =? 80) || (c =? 120) || (c =? 117) || (c =? 85).
Fixpoint split_close (l : list N) : option (list N * list N) :=
  match l with
  | [] => None
  | c :: r => if c =? 125 then Some ([c], r)
              else match split_close r with Some (a, b) => Some (c :: a, b) | None => None end
  end.
Definition is_quantifier_start (s : list N) : bool :=
  match s with c :: r => (c =? 123) && (match quantifier_body r with Some _ => true | None => false end) | [] => false end.
Fixpoint misused_rep (fuel : nat) (s : list N) : list N :=
  match fuel with
  | O => s
  | S f =>
    match s with
    | [] => []
    | c :: r =>
      if c =? 123 then
        match quantifier_body r with
        | Some (inner, rest) => [123] ++ inner ++ [125] ++ misused_rep f rest
        | None => 92 :: 123 :: misused_rep f r
        end
      else if c =? 125 then 92 :: 125 :: misused_rep f r
      else if c =? 92 then
        match r with
        | [] => [92]
        | c2 :: r2 =>
          if is_quantifier_start r then 92 :: misused_rep f r
          else if takes_braces c2 && (match r2 with 123 :: _ => true | _ => false end) then
            match split_close r2 with
            | Some (inner, rest) => 92 :: c2 :: inner ++ misused_rep f rest
            | None => 92 :: c2 :: misused_rep f r2
            end
          else 92 :: c2 :: misused_rep f r2
        end
      else c :: misused_rep f r
    end
  end.
Definition misused_repetition (s : list N) : list N := misused_rep (S (length s)) s.

(* pass C: escape_misused_character_class.  [class_closes_later prev rest]: is there, further on, an unescaped `]` before any
   unescaped `[` (actual_closing_index(..).is_some()) *)
Fixpoint class_closes_later (prev : N) (rest : list N) : bool :=
  match rest with
  | [] => false
  | c :: r =>
    if negb (prev =? 92) then (if c =? 93 then true else if c =? 91 then false else class_closes_later c r)
    else class_closes_later c r
  end.
Fixpoint misused_class (in_cc : bool) (s : list N) : list N :=
  match s with
  | [] => []
  | c :: r =>
    if c =? 92 then c :: match r with [] => [] | c2 :: r2 => c2 :: misused_class in_cc r2 end
    else if c =? 91 then (if in_cc then [92; 91] else [91]) ++ misused_class true r
    else if c =? 93 then
      (if in_cc && negb (class_closes_later 93 r) then 93 :: misused_class false r else 92 :: 93 :: misused_class in_cc r)
    else c :: misused_class in_cc r
  end.

Definition regex_prepare (e : list N) : list N := misused_class false (misused_repetition (cleanup e)).
(* RegexRule::make: after the clean-up of unknown escapes the expression is tried as it stands; the two bracket passes are applied
   only to what the regex crate does not take ([compiles]: the verdict of the crate, an input of the model) *)
Definition regex_effective (compiles : list N -> bool) (e : list N) : list N :=
  let c := cleanup e in if compiles c then c else regex_prepare e.
