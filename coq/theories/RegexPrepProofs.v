(* C04: on an expression without backslash, curly or square bracket, the preparation of a regex is the identity:
   the regex crate is given the expression as it was written. *)
From Coq Require Import List NArith Lia Bool Arith ZifyBool ZifyNat ZifyN.
Import ListNotations.
From SV Require Import RegexPrep.
Local Open Scope N_scope.

Definition plain_char (c : N) : bool :=
  negb (c =? 92) && negb (c =? 123) && negb (c =? 125) && negb (c =? 91) && negb (c =? 93).

Lemma cleanup_plain : forall s, forallb plain_char s = true -> cleanup s = s.
Proof.
  induction s as [|c r IH]; intros H; [reflexivity|]. cbn [forallb] in H. apply andb_true_iff in H. destruct H as [Hc Hr].
  cbn [cleanup]. unfold plain_char in Hc. destruct (c =? 92) eqn:E; [lia|]. rewrite (IH Hr). reflexivity.
Qed.
Lemma rep_plain : forall f s, forallb plain_char s = true -> misused_rep f s = s.
Proof.
  induction f as [|f IH]; intros s H; [reflexivity|]. destruct s as [|c r]; [reflexivity|].
  cbn [forallb] in H. apply andb_true_iff in H. destruct H as [Hc Hr].
  cbn [misused_rep]. unfold plain_char in Hc. destruct (c =? 123) eqn:E1; [lia|]. destruct (c =? 125) eqn:E2; [lia|].
  destruct (c =? 92) eqn:E3; [lia|]. rewrite (IH r Hr). reflexivity.
Qed.
Lemma class_plain : forall s b, forallb plain_char s = true -> misused_class b s = s.
Proof.
  induction s as [|c r IH]; intros b H; [reflexivity|]. cbn [forallb] in H. apply andb_true_iff in H. destruct H as [Hc Hr].
  cbn [misused_class]. unfold plain_char in Hc. destruct (c =? 92) eqn:E; [lia|]. destruct (c =? 91) eqn:E2; [lia|].
  destruct (c =? 93) eqn:E3; [lia|]. rewrite (IH b Hr). reflexivity.
Qed.

Theorem prepare_plain : forall e, forallb plain_char e = true -> regex_prepare e = e.
Proof.
  intros e H. unfold regex_prepare, misused_repetition.
  rewrite (cleanup_plain e H), (rep_plain _ e H). apply class_plain. exact H.
Qed.

(* the three documented cases of the source comments, and a few corners *)
Example prepare_examples :
  (* hello{world} -> hello\{world\} ;  a{3,6} stays ;  a{3,6 -> a\{3,6 *)
  regex_prepare [104;123;119;125] = [104;92;123;119;92;125]
  /\ regex_prepare [97;123;51;44;54;125] = [97;123;51;44;54;125]
  /\ regex_prepare [97;123;51;44;54] = [97;92;123;51;44;54]
  (* [[]] -> [\[\]] ;  [a-z] stays ;  foo\_bar -> foo_bar ;  a trailing backslash stays *)
  /\ regex_prepare [91;91;93;93] = [91;92;91;92;93;93]
  /\ regex_prepare [91;97;45;122;93] = [91;97;45;122;93]
  /\ regex_prepare [102;92;95;98] = [102;95;98]
  /\ regex_prepare [97;92] = [97;92]
  (* a<<<<3>>>> stays (it used to come out as a{3});  \{3} stays;  \{x} -> \{x\} *)
  /\ regex_prepare [97;60;60;60;60;51;62;62;62;62] = [97;60;60;60;60;51;62;62;62;62]
  /\ regex_prepare [92;123;51;125] = [92;123;51;125]
  /\ regex_prepare [92;123;120;125] = [92;123;120;92;125].
Proof. repeat split; vm_compute; reflexivity. Qed.

(* an expression without unknown escapes that the crate takes is handed to it as written *)
Theorem effective_as_written : forall compiles e, cleanup e = e -> compiles e = true -> regex_effective compiles e = e.
Proof. intros compiles e Hc Hk. unfold regex_effective. rewrite Hc, Hk. reflexivity. Qed.
Theorem effective_plain : forall compiles e, forallb plain_char e = true -> regex_effective compiles e = e.
Proof.
  intros compiles e H. unfold regex_effective. rewrite (cleanup_plain e H). destruct (compiles e); [reflexivity|]. apply prepare_plain. exact H.
Qed.

(* ---------- what counts as a repetition quantifier: `{n}`, `{n,m}` and `{n,}` ---------- *)
Lemma take_digits_app : forall d rest, forallb is_09 d = true ->
  (match rest with c :: _ => is_09 c = false | [] => True end) -> take_digits (d ++ rest) = (d, rest).
Proof.
  induction d as [|c d IH]; intros rest Hd Hr; cbn [app take_digits].
  - destruct rest as [|c r]; [reflexivity|]. cbn [take_digits]. rewrite Hr. reflexivity.
  - cbn [forallb] in Hd. apply andb_true_iff in Hd. destruct Hd as [Hc Hd']. rewrite Hc, (IH rest Hd' Hr). reflexivity.
Qed.
Theorem quantifier_exact : forall d rest, d <> [] -> forallb is_09 d = true ->
  quantifier_body (d ++ 125 :: rest) = Some (d, rest).
Proof.
  intros d rest Hne Hd. unfold quantifier_body. rewrite take_digits_app by (exact Hd || reflexivity).
  destruct d; [congruence|reflexivity].
Qed.
(* `{n,m}` and, with no second number, `{n,}` *)
Theorem quantifier_range : forall d1 d2 rest, d1 <> [] -> forallb is_09 d1 = true -> forallb is_09 d2 = true ->
  quantifier_body (d1 ++ 44 :: d2 ++ 125 :: rest) = Some (d1 ++ [44] ++ d2, rest).
Proof.
  intros d1 d2 rest Hne H1 H2. unfold quantifier_body. rewrite take_digits_app by (exact H1 || reflexivity).
  destruct d1 as [|c d1']; [congruence|]. rewrite take_digits_app by (exact H2 || reflexivity). reflexivity.
Qed.
(* nothing else: a first number is needed *)
Theorem quantifier_needs_number : forall c rest, is_09 c = false -> quantifier_body (c :: rest) = None.
Proof. intros c rest H. unfold quantifier_body. cbn [take_digits]. rewrite H. reflexivity. Qed.

Example quantifier_examples :
  (* a{3,} stays (it used to come out as a\{3,\}) ; a{3} and a{3,5} stay ; a{,3} and a{x} are text *)
  regex_prepare [97;123;51;44;125] = [97;123;51;44;125]
  /\ regex_prepare [97;123;51;125] = [97;123;51;125]
  /\ regex_prepare [97;123;51;44;53;125] = [97;123;51;44;53;125]
  /\ regex_prepare [97;123;44;51;125] = [97;92;123;44;51;92;125]
  /\ regex_prepare [97;123;120;125] = [97;92;123;120;92;125]
  (* \p{L}+ and \x{1F600} stay (they used to come out as \p\{L\}+, which the crate rejects); \d{x} -> \d\{x\} *)
  /\ regex_prepare [92;112;123;76;125;43] = [92;112;123;76;125;43]
  /\ regex_prepare [92;120;123;49;70;54;48;48;125] = [92;120;123;49;70;54;48;48;125]
  /\ regex_prepare [92;100;123;120;125] = [92;100;92;123;120;92;125].
Proof. repeat split; vm_compute; reflexivity. Qed.
