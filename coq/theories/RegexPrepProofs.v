(* C04: on an expression without backslash, curly or square bracket, the preparation of a regex is the identity:
   the regex crate is given the expression as it was written. *)
From Coq Require Import List NArith Lia Bool Arith ZifyBool ZifyNat ZifyN.
Import ListNotations.
From SV Require Import RegexPrep.
Local Open Scope N_scope.

Definition plain_char (c : N) : bool :=
  negb (c =? 92) && negb (c =? 123) && negb (c =? 125) && negb (c =? 91) && negb (c =? 93).

Lemma cleanup_plain : forall s, forallb plain_char s = true -> cleanup s = s.
Proof.
  induction s as [|c r IH]; intros H; [reflexivity|]. cbn [forallb] in H. apply andb_true_iff in H. destruct H as [Hc Hr].
  cbn [cleanup]. unfold plain_char in Hc. destruct (c =? 92) eqn:E; [lia|]. rewrite (IH Hr). reflexivity.
Qed.
Lemma rep_plain : forall f s, forallb plain_char s = true -> misused_rep f s = s.
Proof.
  induction f as [|f IH]; intros s H; [reflexivity|]. destruct s as [|c r]; [reflexivity|].
  cbn [forallb] in H. apply andb_true_iff in H. destruct H as [Hc Hr].
  cbn [misused_rep]. unfold plain_char in Hc. destruct (c =? 123) eqn:E1; [lia|]. destruct (c =? 125) eqn:E2; [lia|].
  destruct (c =? 92) eqn:E3; [lia|]. rewrite (IH r Hr). reflexivity.
Qed.
Lemma class_plain : forall s b, forallb plain_char s = true -> misused_class b s = s.
Proof.
  induction s as [|c r IH]; intros b H; [reflexivity|]. cbn [forallb] in H. apply andb_true_iff in H. destruct H as [Hc Hr].
  cbn [misused_class]. unfold plain_char in Hc. destruct (c =? 92) eqn:E; [lia|]. destruct (c =? 91) eqn:E2; [lia|].
  destruct (c =? 93) eqn:E3; [lia|]. rewrite (IH b Hr). reflexivity.
Qed.

Theorem prepare_plain : forall e, forallb plain_char e = true -> regex_prepare e = e.
Proof.
  intros e H. unfold regex_prepare, misused_repetition.
  rewrite (cleanup_plain e H), (rep_plain _ e H). apply class_plain. exact H.
Qed.

(* the three documented cases of the source comments, and a few corners *)
Example prepare_examples :
  (* hello{world} -> hello\{world\} ;  a{3,6} stays ;  a{3,6 -> a\{3,6 *)
  regex_prepare [104;123;119;125] = [104;92;123;119;92;125]
  /\ regex_prepare [97;123;51;44;54;125] = [97;123;51;44;54;125]
  /\ regex_prepare [97;123;51;44;54] = [97;92;123;51;44;54]
  (* [[]] -> [\[\]] ;  [a-z] stays ;  foo\_bar -> foo_bar ;  a trailing backslash stays *)
  /\ regex_prepare [91;91;93;93] = [91;92;91;92;93;93]
  /\ regex_prepare [91;97;45;122;93] = [91;97;45;122;93]
  /\ regex_prepare [102;92;95;98] = [102;95;98]
  /\ regex_prepare [97;92] = [97;92]
  (* a<<<<3>>>> stays (it used to come out as a{3});  \{3} stays;  \{x} -> \{x\} *)
  /\ regex_prepare [97;60;60;60;60;51;62;62;62;62] = [97;60;60;60;60;51;62;62;62;62]
  /\ regex_prepare [92;123;51;125] = [92;123;51;125]
  /\ regex_prepare [92;123;120;125] = [92;123;120;92;125].
Proof. repeat split; vm_compute; reflexivity. Qed.
