(* C19: the four renderers (src/renderers/{pretty,diff,structured,outcome}.rs, Serialize impls), transcribed.
   Definitions only.  Texts are lists of code points; raw output is a list of bytes.  A Rust panic (usize underflow
   in the padding arithmetic, indexing lines[0] of an empty entry, slicing a str off a character boundary) is the
   explicit result RendPanic; `bail!` is RendErr.  Colours are off (the console crate emits no escape codes then). *)
From Coq Require Import List NArith ZArith Bool Arith.
Import ListNotations.
From SV Require Import Utf8 gen_Unicode Escape ExpGrammar Lines Generate.
Local Open Scope N_scope.

Notation text := (list N) (only parsing).

(* ---------- decimal printing (usize / i32 Display) ---------- *)
Fixpoint dec_aux (fuel : nat) (n : N) (acc : text) : text :=
  match fuel with
  | O => acc
  | S f => let acc' := (48 + n mod 10) :: acc in if n <? 10 then acc' else dec_aux f (n / 10) acc'
  end.
Definition dec (n : N) : text := dec_aux (S (N.size_nat n)) n [].
Definition decz (z : Z) : text := match z with Zneg p => 45 :: dec (Npos p) | _ => dec (Z.to_N z) end.

(* ---------- what a renderer is given ---------- *)
Inductive dline :=
| DMatched (idx : N) (mul : bool) (expr : text) (first : option N)   (* first = lines[0].0; None: the entry has no lines *)
| DUnmatched (idx : N) (mul : bool) (expr orig : text)                (* expr = to_expression_string, orig = original_string *)
| DUnexpected (ls : list (N * list N)).                               (* (line index, raw bytes) *)

Inductive result :=
| OSuccess
| OMalformed (count_lines : N) (d : list dline)
| OExit (actual expected : Z)
| OInternal (msg : text)
| OTimeout
| OSkipped.

Record outcome := mkOutcome {
  o_location : option text; o_title : text; o_expr : text; o_line : N; o_nexps : N; o_exit : option Z;
  o_cram : bool; o_esc : mode; o_stdout : list N; o_stderr : list N; o_res : result }.

Inductive rr := RendOk (t : text) | RendErr | RendPanic.

(* ---------- small string helpers ---------- *)
Definition str (s : list N) : text := s.
Definition LF : N := 10.
Definition SP : N := 32.
Fixpoint join (sep : text) (l : list text) : text :=
  match l with [] => [] | [x] => x | x :: r => x ++ sep ++ join sep r end.
Fixpoint split_on_lf (cur : text) (t : text) : list text :=      (* str::split('\n'): always at least one piece *)
  match t with [] => [rev cur] | c :: r => if c =? 10 then rev cur :: split_on_lf [] r else split_on_lf (c :: cur) r end.
Definition count_lf (t : text) : N := N.of_nat (length (filter (fun c => c =? 10) t)).
Definition shell_expression_lines (o : outcome) : N := count_lf (o_expr o) + 1.
Fixpoint ends_lf (t : text) : bool := match t with [] => false | [c] => c =? 10 | _ :: r => ends_lf r end.
Definition assure_nl (t : text) : text := if ends_lf t then t else t ++ [10].
Definition written_text (w : written) : text := match w with Plain t => t | Escaped t => t ++ S_ESCAPED end.

(* OutputStream::to_output_string(Some("#> "), escaper) and Output::to_error_string *)
Definition P_OUT : text := [35; 62; 32].
Definition to_output_string (m : mode) (bytes : list N) : text :=
  flat_map (fun l => P_OUT ++ expectation_line m l ++ [10]) (split_lines bytes).
Definition H_STDOUT : text := [35; 35; 32; 83; 84; 68; 79; 85; 84; 10].
Definition H_STDERR : text := [35; 35; 32; 83; 84; 68; 69; 82; 82; 10].
Definition to_error_string (o : outcome) : text :=
  H_STDOUT ++ to_output_string (o_esc o) (o_stdout o) ++ H_STDERR ++ to_output_string (o_esc o) (o_stderr o).

(* ---------- pretty: trailing-space highlighting (byte offsets into a str) ---------- *)
Fixpoint rtrim_ws (t : text) : text :=          (* str::trim_end: drop the trailing White_Space characters *)
  match t with
  | [] => []
  | c :: r => match rtrim_ws r with [] => if is_ws c then [] else [c] | r' => c :: r' end
  end.
Definition blen (t : text) : nat := length (utf8_encode t).
(* &input[0..k], &input[k..]: defined only when k is a character boundary *)
Fixpoint split_at_byte (t : text) (k : nat) : option (text * text) :=
  match k with
  | O => Some ([], t)
  | _ => match t with
         | [] => None
         | c :: r => let n := length (enc c) in
                     if (n <=? k)%nat then match split_at_byte r (k - n) with Some (a, b) => Some (c :: a, b) | None => None end
                     else None
         end
  end.
Definition vis (c : N) : N := if c =? 9 then 8614 else if c =? 32 then 9141 else 9072.   (* ↦ ⎵ ⍰ *)
Definition space_start_index (t : text) : nat := blen (rtrim_ws t).
Definition highlight (t : text) : option text :=
  let idx := space_start_index t in
  if (idx <? blen t)%nat then
    match split_at_byte t idx with Some (p, s) => Some (p ++ map vis s) | None => None end
  else Some t.

(* ---------- pretty: Decorator ---------- *)
Definition out_num (w : nat) (num : option N) : option text :=
  match num with
  | None => Some (repeat SP w)
  | Some n => let s := if n =? 0 then [] else dec n in
              let p := if n =? 0 then 43 else SP in
              if (length s <=? w)%nat then Some (repeat p (w - length s) ++ s) else None      (* usize underflow *)
  end.
Definition exp_num (w : nat) (num : option N) (mul : bool) : option text :=
  match out_num w num with Some s => Some (s ++ [if mul then 43 else SP]) | None => None end.
Definition BAR : text := [32; 32; 124; 32].
Definition row (w : nat) (ln en : option N) (mul : bool) (sym : N) (content : text) : option text :=
  match exp_num w en mul, out_num w ln with
  | Some a, Some b => Some (assure_nl (a ++ [SP] ++ b ++ BAR ++ [sym; SP] ++ content))
  | _, _ => None
  end.

Record pparams := mkPP { max_sur : nat; absolute : bool; summarize : bool }.

Definition is_err_line (d : dline) : bool := match d with DMatched _ _ _ _ => false | _ => true end.
Fixpoint find_pos {A} (p : A -> bool) (l : list A) : option nat :=
  match l with [] => None | x :: r => if p x then Some O else option_map S (find_pos p r) end.
Definition next_err (ds : list dline) (from : nat) : option nat :=
  option_map (fun v => (v + from)%nat) (find_pos is_err_line (skipn from ds)).

Definition NOEOL_B : list N := S_NOEOL.
Definition DOTS : text := [46; 46; 46; 10].

(* the rows of one unexpected-lines entry *)
Fixpoint unexpected_rows (w : nat) (m : mode) (base : N) (ls : list (N * list N)) : option text :=
  match ls with
  | [] => Some []
  | (li, bytes) :: r =>
    let line := if ends_with_lf bytes then bytes else bytes ++ NOEOL_B in
    match highlight (written_text (escaped_expectation m line)) with
    | None => None
    | Some content =>
      match row w (Some (base + li + 1)) None false 43 content, unexpected_rows w m base r with
      | Some a, Some b => Some (a ++ b)
      | _, _ => None
      end
    end
  end.

Fixpoint pretty_lines (pp : pparams) (w : nat) (m : mode) (base : N) (all : list dline)
         (di : nat) (last : option nat) (ds : list dline) : option text :=
  match ds with
  | [] => Some []
  | d :: r =>
    match d with
    | DMatched idx mul expr first =>
      let skip :=
        if (0 <? max_sur pp)%nat then
          let a := match last with Some le => (di <=? le + max_sur pp)%nat | None => false end in
          let b := match next_err all (S di) with Some ne => (ne <=? di + max_sur pp)%nat | None => false end in
          negb (a || b)
        else false in
      let first_skip :=
        if (0 <? max_sur pp)%nat then
          match last with Some le => negb (di <=? le + max_sur pp)%nat && (le + max_sur pp + 1 =? di)%nat | None => false end
        else false in
      let here :=
        if negb skip then
          match (if mul then Some (Some 0) else match first with Some f => Some (Some (base + f + 1)) | None => None end) with
          | None => None                                                     (* lines[0] of an empty vector *)
          | Some ln => row w ln (Some (base + idx + 1)) mul SP expr
          end
        else if first_skip then Some DOTS else Some [] in
      match here, pretty_lines pp w m base all (S di) last r with
      | Some a, Some b => Some (a ++ b) | _, _ => None end
    | DUnmatched idx mul expr _ =>
      match highlight expr with
      | None => None
      | Some content =>
        match row w None (Some (base + idx + 1)) mul 45 content, pretty_lines pp w m base all (S di) (Some di) r with
        | Some a, Some b => Some (a ++ b) | _, _ => None end
      end
    | DUnexpected ls =>
      match unexpected_rows w m base ls,
            pretty_lines pp w m base all (S di) (match ls with [] => last | _ => Some di end) r with
      | Some a, Some b => Some (a ++ b) | _, _ => None end
    end
  end.

Definition line_base (pp : pparams) (o : outcome) : N :=
  if absolute pp then o_line o + shell_expression_lines o - 1 else 0.
Definition width (pp : pparams) (o : outcome) (count_lines : N) : nat :=
  length (dec (line_base pp o + N.max count_lines (o_nexps o))).
Definition pretty_malformed (pp : pparams) (o : outcome) (count_lines : N) (d : list dline) : option text :=
  pretty_lines pp (width pp o count_lines) (o_esc o) (line_base pp o) d 0 None d.

(* OutcomeHeader::render_header *)
Definition SLASHES : text := [47; 47].
Definition header_to_title (first : N) (t : text) : text :=
  let fix go (i : nat) (ls : list text) : text :=
    match ls with [] => [] | l :: r => SLASHES ++ [SP; if (i =? 0)%nat then first else SP; SP] ++ l ++ [10] ++ go (S i) r end in
  go O (split_on_lf [] t).
Definition divider (c : N) : text := SLASHES ++ [SP] ++ repeat c 77 ++ [10].
Definition S_LINE : text := [76; 105; 110; 101; 32].                      (* "Line " *)
Definition render_header (o : outcome) : text :=
  let at_ := match o_location o with
             | Some l => header_to_title 64 (l ++ [58] ++ dec (o_line o))
             | None => header_to_title 64 (S_LINE ++ dec (o_line o)) end in
  let ti := match o_title o with [] => [] | t => [header_to_title 35 t] end in
  let headers := [at_] ++ ti ++ [header_to_title 36 (o_expr o)] in
  divider 61 ++ join (divider 45) headers ++ divider 61 ++ [10].

Definition T_UNEXPECTED_EXIT : text :=
  [117;110;101;120;112;101;99;116;101;100;32;101;120;105;116;32;99;111;100;101;10].     (* "unexpected exit code\n" *)
Definition T_EXPECTED : text := [32;32;101;120;112;101;99;116;101;100;58;32].           (* "  expected: " *)
Definition T_ACTUAL : text := [32;32;97;99;116;117;97;108;58;32;32;32].                 (* "  actual:   " *)
Definition T_TIMEOUT : text := [116;105;109;101;111;117;116;32;105;110;32;101;120;101;99;117;116;105;111;110;10]. (* "timeout in execution\n" *)
Definition T_ERROR : text := [101;114;114;111;114;58;32].                               (* "error: " *)

Definition pretty_error (pp : pparams) (o : outcome) : option text :=
  match o_res o with
  | OSuccess | OSkipped => Some []
  | OMalformed n d => pretty_malformed pp o n d
  | OExit a e => Some (T_UNEXPECTED_EXIT ++ T_EXPECTED ++ decz e ++ [10] ++ T_ACTUAL ++ decz a ++ [10] ++ [10] ++ to_error_string o)
  | OInternal msg => Some (T_ERROR ++ msg ++ [10])
  | OTimeout => Some (T_TIMEOUT ++ [10] ++ to_error_string o)
  end.

Definition res_failure (r : result) : bool := match r with OSuccess | OSkipped => false | _ => true end.
Definition res_skipped (r : result) : bool := match r with OSkipped => true | _ => false end.
Definition res_success (r : result) : bool := match r with OSuccess => true | _ => false end.

(* the section printed for one outcome: nothing unless it failed *)
Definition pretty_section (pp : pparams) (o : outcome) : option text :=
  if res_failure (o_res o) then
    match pretty_error pp o with Some b => Some (render_header o ++ b ++ [10; 10]) | None => None end
  else Some [].

Fixpoint pretty_sections (pp : pparams) (os : list outcome) : option text :=
  match os with
  | [] => Some []
  | o :: r => match pretty_section pp o, pretty_sections pp r with Some a, Some b => Some (a ++ b) | _, _ => None end
  end.

Fixpoint text_eqb (a b : text) : bool :=
  match a, b with [], [] => true | x :: a', y :: b' => (x =? y) && text_eqb a' b' | _, _ => false end.
Fixpoint distinct_count (seen : list text) (l : list text) : nat :=
  match l with [] => length seen
  | x :: r => if existsb (text_eqb x) seen then distinct_count seen r else distinct_count (x :: seen) r end.
Definition locations (os : list outcome) : list text :=
  flat_map (fun o => match o_location o with Some l => [l] | None => [] end) os.
Definition count_if (p : result -> bool) (os : list outcome) : N := N.of_nat (length (filter (fun o => p (o_res o)) os)).

Definition T_RESULT : text := [82;101;115;117;108;116;58;32].                                  (* "Result: " *)
Definition T_DOCS : text := [32;100;111;99;117;109;101;110;116;40;115;41;32;119;105;116;104;32]. (* " document(s) with " *)
Definition T_TESTS : text := [32;116;101;115;116;99;97;115;101;40;115;41;58;32].                (* " testcase(s): " *)
Definition T_SUCC : text := [32;115;117;99;99;101;101;100;101;100;44;32].                       (* " succeeded, " *)
Definition T_FAILED : text := [32;102;97;105;108;101;100;32;97;110;100;32].                     (* " failed and " *)
Definition T_SKIPPED : text := [32;115;107;105;112;112;101;100;10].                             (* " skipped\n" *)
Definition pretty_summary (os : list outcome) : text :=
  let ok := count_if res_success os in let er := count_if res_failure os in let sk := count_if res_skipped os in
  T_RESULT ++ dec (N.of_nat (distinct_count [] (locations os))) ++ T_DOCS ++ dec (ok + er + sk) ++ T_TESTS
  ++ dec ok ++ T_SUCC ++ dec er ++ T_FAILED ++ dec sk ++ T_SKIPPED.

Definition render_pretty (pp : pparams) (os : list outcome) : rr :=
  match pretty_sections pp os with
  | None => RendPanic
  | Some s => RendOk (s ++ if summarize pp then pretty_summary os else [])
  end.

(* ---------- diff renderer ---------- *)
Fixpoint text_ltb (a b : text) : bool :=              (* String::cmp: bytewise = code point order *)
  match a, b with
  | [], [] => false | [], _ :: _ => true | _ :: _, [] => false
  | x :: a', y :: b' => if x <? y then true else if y <? x then false else text_ltb a' b'
  end.
Definition key_leb (a b : outcome) : bool :=        (* not (b < a) under (location, line_number) *)
  match o_location a, o_location b with
  | Some la, Some lb => if text_ltb la lb then true else if text_ltb lb la then false else o_line a <=? o_line b
  | None, _ => true
  | Some _, None => false
  end.
Fixpoint insert_sorted (o : outcome) (l : list outcome) : list outcome :=
  match l with [] => [o] | x :: r => if key_leb o x then o :: l else x :: insert_sorted o r end.
Definition stable_sort (l : list outcome) : list outcome := fold_right insert_sorted [] l.   (* slice::sort_by is stable *)

Definition length_suffix (n : nat) : text := if (n =? 1)%nat then [] else 44 :: dec (N.of_nat n).
Definition T_EXITK : text := [105;110;118;97;108;105;100;32;101;120;105;116;32;99;111;100;101].        (* "invalid exit code" *)
Definition T_MALK : text := [109;97;108;102;111;114;109;101;100;32;111;117;116;112;117;116].          (* "malformed output" *)
Definition diff_header (old_start : N) (old_len : nat) (new_start : N) (new_len : nat) (kind title : text) : text :=
  [64;64;32;45] ++ dec old_start ++ length_suffix old_len ++ [32;43] ++ dec new_start ++ length_suffix new_len
  ++ [32;64;64;32] ++ kind ++ [58;32] ++ title ++ [10].
Definition join_multiline (t : text) : text := join [32;42;32] (str_lines t).
Definition line_prefix (o : outcome) : text := if o_cram o then [32;32] else [].

Record hunk := mkHunk { um_start : option N; um_lines : list text; ux_start : option N; ux_lines : list text }.
Definition hunk_empty : hunk := mkHunk None [] None [].
(* String::from_utf8_lossy: every maximal invalid subpart becomes U+FFFD (core::str::lossy::Utf8Chunks) *)
Definition in_rng (lo hi b : N) : bool := (lo <=? b) && (b <=? hi).
Definition second3 (b0 b1 : N) : bool :=
  if b0 =? 224 then in_rng 160 191 b1 else if b0 =? 237 then in_rng 128 159 b1 else in_rng 128 191 b1.
Definition second4 (b0 b1 : N) : bool :=
  if b0 =? 240 then in_rng 144 191 b1 else if b0 =? 244 then in_rng 128 143 b1 else in_rng 128 191 b1.
Definition REPL : N := 65533.
Fixpoint utf8_lossy (bs : list N) : text :=
  match bs with
  | [] => []
  | b0 :: r0 =>
    if b0 <? 128 then b0 :: utf8_lossy r0
    else if in_rng 194 223 b0 then
      match r0 with
      | b1 :: r1 => if cont b1 then ((b0 - 192) * 64 + (b1 - 128)) :: utf8_lossy r1 else REPL :: utf8_lossy r0
      | [] => [REPL]
      end
    else if in_rng 224 239 b0 then
      match r0 with
      | b1 :: r1 =>
        if second3 b0 b1 then
          match r1 with
          | b2 :: r2 => if cont b2 then ((b0 - 224) * 4096 + (b1 - 128) * 64 + (b2 - 128)) :: utf8_lossy r2 else REPL :: utf8_lossy r1
          | [] => [REPL]
          end
        else REPL :: utf8_lossy r0
      | [] => [REPL]
      end
    else if in_rng 240 244 b0 then
      match r0 with
      | b1 :: r1 =>
        if second4 b0 b1 then
          match r1 with
          | b2 :: r2 =>
            if cont b2 then
              match r2 with
              | b3 :: r3 => if cont b3 then ((b0 - 240) * 262144 + (b1 - 128) * 4096 + (b2 - 128) * 64 + (b3 - 128)) :: utf8_lossy r3
                            else REPL :: utf8_lossy r2
              | [] => [REPL]
              end
            else REPL :: utf8_lossy r1
          | [] => [REPL]
          end
        else REPL :: utf8_lossy r0
      | [] => [REPL]
      end
    else REPL :: utf8_lossy r0
  end.
Definition lossy_line (bytes : list N) : text := utf8_lossy (trim_newlines bytes).

Definition emit_hunk (o : outcome) (lnum : N) (title : text) (h : hunk) : text :=
  match um_start h, ux_start h with
  | None, None => []
  | _, _ =>
    let us := match um_start h with Some u => u | None => match ux_start h with Some x => x | None => 0 end end in
    let xs := match um_start h with Some u => match ux_start h with Some x => x | None => u end
                                  | None => match ux_start h with Some x => x | None => 0 end end in
    diff_header (us + lnum) (length (um_lines h)) (xs + lnum) (length (ux_lines h)) T_MALK title
    ++ flat_map (fun l => [45] ++ line_prefix o ++ l ++ [10]) (um_lines h)
    ++ flat_map (fun l => [43] ++ line_prefix o ++ l ++ [10]) (ux_lines h)
  end.
Definition hunk_open (h : hunk) : bool := match um_start h, ux_start h with None, None => false | _, _ => true end.

(* the hunks in the order they are written (a hunk that was never opened prints nothing) *)
Fixpoint hunks_of (ei : N) (h : hunk) (ds : list dline) : list hunk :=
  match ds with
  | [] => [h]
  | DMatched idx _ _ _ :: r => h :: hunks_of idx hunk_empty r
  | DUnmatched idx _ _ orig :: r =>
    hunks_of idx (mkHunk (match um_start h with None => Some idx | s => s end) (um_lines h ++ [orig]) (ux_start h) (ux_lines h)) r
  | DUnexpected ls :: r =>
    let h' := mkHunk (um_start h) (um_lines h) (match ux_start h with None => Some ei | s => s end)
                     (ux_lines h ++ map (fun p => lossy_line (snd p)) ls) in
    match um_start h' with
    | Some _ => h' :: hunks_of ei hunk_empty r
    | None => hunks_of ei h' r
    end
  end.
Definition unified (o : outcome) (lnum : N) (title : text) (ds : list dline) : text :=
  flat_map (emit_hunk o lnum title) (hunks_of 0 hunk_empty ds).

Definition T_INTERNAL : text := [35;32;45;45;45;45;32;73;78;84;69;82;78;65;76;32;69;82;82;79;82;32;45;45;45;45;10].
Definition T_PATH : text := [35;32;80;65;84;72;58;32;32].
Definition T_TITLE : text := [35;32;84;73;84;76;69;58;32].
Definition T_ERRORL : text := [35;32;69;82;82;79;82;58;32].

Definition diff_error (o : outcome) : text :=
  match o_res o with
  | OSuccess | OSkipped | OTimeout => []
  | OMalformed _ d => unified o (o_line o + shell_expression_lines o) (join_multiline (o_title o)) d
  | OExit actual _ =>
    let ln := o_line o + shell_expression_lines o + o_nexps o in
    diff_header ln (match o_exit o with Some _ => 1 | None => 0 end) ln 1 T_EXITK (join_multiline (o_title o))
    ++ (match o_exit o with Some c => [45] ++ line_prefix o ++ [91] ++ decz c ++ [93; 10] | None => [] end)
    ++ [43] ++ line_prefix o ++ [91] ++ decz actual ++ [93; 10]
  | OInternal msg =>
    T_INTERNAL ++ (match o_location o with Some l => T_PATH ++ l ++ [10] | None => [] end)
    ++ T_TITLE ++ join_multiline (o_title o) ++ [10]
    ++ flat_map (fun l => T_ERRORL ++ l ++ [10]) (str_lines msg) ++ T_INTERNAL
  end.

Definition opt_text_eqb (a b : option text) : bool :=
  match a, b with Some x, Some y => text_eqb x y | None, None => true | _, _ => false end.
Definition T_NEW : text := [46;110;101;119].
Fixpoint diff_body (last : option text) (os : list outcome) : text :=
  match os with
  | [] => []
  | o :: r =>
    if res_success (o_res o) then diff_body last r
    else
      let changed := negb (opt_text_eqb (o_location o) last) in
      let hdr := if changed then
                   match o_location o with
                   | Some l => (match last with Some _ => [10] | None => [] end)
                               ++ [45;45;45;32] ++ l ++ [10] ++ [43;43;43;32] ++ l ++ T_NEW ++ [10]
                   | None => [] end
                 else [] in
      let last' := if changed then match o_location o with Some l => Some l | None => last end else last in
      hdr ++ diff_error o ++ diff_body last' r
  end.

Definition render_diff (os : list outcome) : rr :=
  let n := length (locations os) in
  if (0 <? n)%nat && negb (n =? length os)%nat then RendErr
  else RendOk (diff_body None (if (0 <? n)%nat then stable_sort os else os)).

(* ---------- structured renderers (serde data model: one map per outcome) ---------- *)
Definition K_SUCCESS : text := [115;117;99;99;101;115;115].
Definition K_MALFORMED : text := [109;97;108;102;111;114;109;101;100;95;111;117;116;112;117;116].
Definition K_EXIT : text := [105;110;118;97;108;105;100;95;101;120;105;116;95;99;111;100;101].
Definition K_INTERNAL : text := [105;110;116;101;114;110;97;108;95;101;114;114;111;114].
Definition K_TIMEOUT : text := [116;105;109;101;111;117;116].
Definition K_SKIPPED : text := [115;107;105;112;112;101;100].
Definition kind_of (r : result) : text :=
  match r with OSuccess => K_SUCCESS | OMalformed _ _ => K_MALFORMED | OExit _ _ => K_EXIT | OInternal _ => K_INTERNAL
             | OTimeout => K_TIMEOUT | OSkipped => K_SKIPPED end.
Definition dkind (d : dline) : N := match d with DMatched _ _ _ _ => 0 | DUnmatched _ _ _ _ => 1 | DUnexpected _ => 2 end.
Record sentry := mkSE { se_location : option text; se_kind : text; se_diff : list N }.
Definition structured (os : list outcome) : list sentry :=
  map (fun o => mkSE (o_location o) (kind_of (o_res o)) (match o_res o with OMalformed _ d => map dkind d | _ => [] end)) os.

(* ---------- the link to the matcher (C02): what DiffTool returns is well-indexed ---------- *)
Definition dline_ok (nexps count_lines : N) (d : dline) : bool :=
  match d with
  | DMatched idx mul _ first => (idx <? nexps) && (match first with Some f => f <? count_lines | None => mul end)
  | DUnmatched idx _ _ _ => idx <? nexps
  | DUnexpected ls => forallb (fun p => fst p <? count_lines) ls
  end.
Definition result_ok (o : outcome) : bool :=
  match o_res o with OMalformed n d => forallb (dline_ok (o_nexps o) n) d | _ => true end.
