(* C19: proofs about the renderer models. *)
From Coq Require Import List NArith ZArith Lia Bool Arith ZifyBool ZifyNat ZifyN.
Import ListNotations.
From SV Require Import Utf8 gen_Unicode Escape ExpGrammar Lines Generate Render.
Local Open Scope N_scope.
Ltac Zify.zify_post_hook ::= Z.div_mod_to_equations.

(* ---------- decimal width is monotone: the padding arithmetic of Decorator cannot underflow ---------- *)
(* number of digits, with explicit fuel *)
Fixpoint nd (fuel : nat) (n : N) : nat :=
  match fuel with O => O | S f => if n <? 10 then 1%nat else S (nd f (n / 10)) end.

Lemma dec_aux_length : forall fuel n acc, length (dec_aux fuel n acc) = (nd fuel n + length acc)%nat.
Proof.
  induction fuel as [|f IH]; intros n acc; cbn [dec_aux nd]; [reflexivity|].
  destruct (n <? 10); cbn [length]; [lia|]. rewrite IH. cbn [length]. lia.
Qed.

(* enough fuel: n < 2^fuel *)
Lemma nd_fuel_irrelevant : forall f1 f2 n, n < 2 ^ N.of_nat f1 -> n < 2 ^ N.of_nat f2 -> nd (S f1) n = nd (S f2) n.
Proof.
  induction f1 as [|f1 IH]; intros f2 n H1 H2.
  - cbn in H1. assert (n = 0) by lia. subst. destruct f2; reflexivity.
  - destruct f2 as [|f2].
    + cbn in H2. assert (n = 0) by lia. subst. reflexivity.
    + cbn [nd]. destruct (n <? 10) eqn:E; [reflexivity|]. f_equal.
      change (nd (S f1) (n / 10) = nd (S f2) (n / 10)). apply IH.
      * rewrite Nat2N.inj_succ, N.pow_succ_r' in H1. lia.
      * rewrite Nat2N.inj_succ, N.pow_succ_r' in H2. lia.
Qed.

Lemma nd_mono : forall f n m, n <= m -> m < 2 ^ N.of_nat f -> (nd (S f) n <= nd (S f) m)%nat.
Proof.
  induction f as [|f IH]; intros n m Hle Hm.
  - cbn in Hm. assert (m = 0) by lia. assert (n = 0) by lia. subst. lia.
  - cbn [nd]. destruct (n <? 10) eqn:En; destruct (m <? 10) eqn:Em; try lia.
    change (S (nd (S f) (n / 10)) <= S (nd (S f) (m / 10)))%nat.
    apply le_n_S. apply IH.
    + apply N.div_le_mono; lia.
    + rewrite Nat2N.inj_succ, N.pow_succ_r' in Hm. lia.
Qed.

Lemma size_nat_bound : forall n, n < 2 ^ N.of_nat (N.size_nat n).
Proof.
  intros n. destruct n as [|p]; [cbn; lia|].
  cbn [N.size_nat]. induction p as [p IH|p IH|]; cbn [Pos.size_nat].
  - rewrite Nat2N.inj_succ, N.pow_succ_r'. lia.
  - rewrite Nat2N.inj_succ, N.pow_succ_r'. lia.
  - cbn. lia.
Qed.

Lemma dec_length : forall n, length (dec n) = nd (S (N.size_nat n)) n.
Proof. intros. unfold dec. rewrite dec_aux_length. cbn [length]. lia. Qed.

Lemma size_nat_mono : forall n m, n <= m -> (N.size_nat n <= N.size_nat m)%nat.
Proof.
  intros n m H. destruct (le_lt_dec (N.size_nat n) (N.size_nat m)) as [L|L]; [exact L|exfalso].
  (* m < 2^size m <= 2^(size n - 1) <= n *)
  pose proof (size_nat_bound m) as Bm.
  assert (2 ^ N.of_nat (N.size_nat m) <= n).
  { destruct n as [|p]; [cbn in L; lia|].
    assert (Hp: forall q, 2 ^ N.of_nat (Pos.size_nat q) <= 2 * Npos q).
    { induction q as [q IH|q IH|]; cbn [Pos.size_nat]; [rewrite Nat2N.inj_succ, N.pow_succ_r'; lia|rewrite Nat2N.inj_succ, N.pow_succ_r'; lia|cbn; lia]. }
    cbn [N.size_nat] in L.
    assert (N.of_nat (N.size_nat m) + 1 <= N.of_nat (Pos.size_nat p)) by lia.
    assert (2 ^ (N.of_nat (N.size_nat m) + 1) <= 2 ^ N.of_nat (Pos.size_nat p)) by (apply N.pow_le_mono_r; lia).
    rewrite N.pow_add_r in H1. specialize (Hp p). lia. }
  lia.
Qed.

Lemma dec_length_mono : forall n m, n <= m -> (length (dec n) <= length (dec m))%nat.
Proof.
  intros n m H. rewrite !dec_length.
  rewrite (nd_fuel_irrelevant (N.size_nat n) (N.size_nat m) n).
  - apply nd_mono; [exact H|apply size_nat_bound].
  - apply size_nat_bound.
  - pose proof (size_nat_bound m). lia.
Qed.

Lemma dec_nonempty : forall n, (1 <= length (dec n))%nat.
Proof. intros. rewrite dec_length. cbn [nd]. destruct (n <? 10); lia. Qed.

(* ---------- Decorator ---------- *)
Lemma out_num_some : forall w num, (match num with Some n => n = 0 \/ (length (dec n) <= w)%nat | None => True end) ->
  exists s, out_num w num = Some s.
Proof.
  intros w [n|] H; cbn [out_num]; [|eauto].
  destruct (n =? 0) eqn:E.
  - cbn [length]. destruct (0 <=? w)%nat eqn:E2; [eauto|lia].
  - destruct H as [H|H]; [lia|]. destruct (length (dec n) <=? w)%nat eqn:E2; [eauto|lia].
Qed.

Lemma row_some : forall w ln en mul sym content,
  (match ln with Some n => n = 0 \/ (length (dec n) <= w)%nat | None => True end) ->
  (match en with Some n => n = 0 \/ (length (dec n) <= w)%nat | None => True end) ->
  exists t, row w ln en mul sym content = Some t.
Proof.
  intros w ln en mul sym content H1 H2. unfold row, exp_num.
  destruct (out_num_some w en H2) as [a ->]. destruct (out_num_some w ln H1) as [b ->]. eauto.
Qed.

(* ---------- trailing-space highlighting never slices off a character boundary ---------- *)
Lemma split_at_byte_app : forall a b, split_at_byte (a ++ b) (blen a) = Some (a, b).
Proof.
  induction a as [|c a IH]; intros b.
  - cbn. destruct b; reflexivity.
  - unfold blen, utf8_encode in *. cbn [flat_map app]. rewrite app_length.
    pose proof (enc_length c) as Hc.
    cbn [split_at_byte].
    destruct (length (enc c) + length (flat_map enc a))%nat eqn:E; [lia|]. rewrite <- E.
    replace (length (enc c) <=? length (enc c) + length (flat_map enc a))%nat with true by lia.
    replace (length (enc c) + length (flat_map enc a) - length (enc c))%nat with (length (flat_map enc a)) by lia.
    rewrite IH. reflexivity.
Qed.

Lemma rtrim_ws_prefix : forall t, exists s, t = rtrim_ws t ++ s.
Proof.
  induction t as [|c r [s IH]].
  - exists []. reflexivity.
  - cbn [rtrim_ws]. destruct (rtrim_ws r) as [|x r'] eqn:E.
    + destruct (is_ws c).
      * exists (c :: r). reflexivity.
      * exists r. reflexivity.
    + exists s. cbn [app]. f_equal. exact IH.
Qed.

Lemma highlight_total : forall t, exists c, highlight t = Some c.
Proof.
  intros t. unfold highlight, space_start_index.
  destruct (blen (rtrim_ws t) <? blen t)%nat; [|eauto].
  destruct (rtrim_ws_prefix t) as [s Hs]. pose proof (split_at_byte_app (rtrim_ws t) s) as E. rewrite <- Hs in E. rewrite E. eauto.
Qed.

(* what is highlighted is the line itself up to its trailing whitespace, which is made visible *)
Lemma highlight_shape : forall t c, highlight t = Some c ->
  exists s, t = rtrim_ws t ++ s /\ (c = t \/ c = rtrim_ws t ++ map vis s).
Proof.
  intros t c H. unfold highlight, space_start_index in H.
  destruct (rtrim_ws_prefix t) as [s Hs]. exists s. split; [exact Hs|].
  destruct (blen (rtrim_ws t) <? blen t)%nat.
  - pose proof (split_at_byte_app (rtrim_ws t) s) as E. rewrite <- Hs in E. rewrite E in H. inversion H. right. reflexivity.
  - inversion H. left. reflexivity.
Qed.

(* ---------- pretty: totality over well-indexed diffs ---------- *)
Section Pretty.
Variable pp : pparams.
Variable w : nat.
Variable m : mode.
Variable base : N.
Variables nexps count : N.
Hypothesis Hw : (length (dec (base + N.max count nexps)) <= w)%nat.

Lemma fits : forall k, k <= base + N.max count nexps -> (length (dec k) <= w)%nat.
Proof. intros k H. pose proof (dec_length_mono k _ H). lia. Qed.

Lemma unexpected_rows_some : forall ls, forallb (fun p => fst p <? count) ls = true ->
  exists t, unexpected_rows w m base ls = Some t.
Proof.
  induction ls as [|[li bytes] r IH]; intros H; cbn [unexpected_rows]; [eauto|].
  cbn [forallb fst] in H. apply andb_true_iff in H. destruct H as [H1 H2].
  destruct (highlight_total (written_text (escaped_expectation m (if ends_with_lf bytes then bytes else bytes ++ NOEOL_B)))) as [c ->].
  destruct (row_some w (Some (base + li + 1)) None false 43 c) as [a ->]; [right; apply fits; lia|exact I|].
  destruct (IH H2) as [b ->]. eauto.
Qed.

Lemma pretty_lines_some : forall all ds di last, forallb (dline_ok nexps count) ds = true ->
  exists t, pretty_lines pp w m base all di last ds = Some t.
Proof.
  intros all ds. induction ds as [|d r IH]; intros di last H; cbn [pretty_lines]; [eauto|].
  cbn [forallb] in H. apply andb_true_iff in H. destruct H as [Hd Hr].
  destruct d as [idx mul expr first|idx mul expr orig|ls]; cbn [dline_ok] in Hd.
  - apply andb_true_iff in Hd. destruct Hd as [Hi Hf].
    destruct (IH (S di) last Hr) as [b ->].
    match goal with |- context [if negb ?s then _ else _] => destruct s end; cbn [negb].
    + match goal with |- context [if ?s then Some DOTS else _] => destruct s end; eauto.
    + destruct mul.
      * destruct (row_some w (Some 0) (Some (base + idx + 1)) true SP expr) as [a ->]; [left; reflexivity|right; apply fits; lia|]. eauto.
      * destruct first as [f|]; [|discriminate].
        destruct (row_some w (Some (base + f + 1)) (Some (base + idx + 1)) false SP expr) as [a ->];
          [right; apply fits; lia|right; apply fits; lia|]. eauto.
  - destruct (highlight_total expr) as [c ->].
    destruct (row_some w None (Some (base + idx + 1)) mul 45 c) as [a ->]; [exact I|right; apply fits; lia|].
    destruct (IH (S di) (Some di) Hr) as [b ->]. eauto.
  - destruct (unexpected_rows_some ls Hd) as [a ->].
    destruct (IH (S di) (match ls with [] => last | _ => Some di end) Hr) as [b ->]. eauto.
Qed.
End Pretty.

Lemma pretty_malformed_total : forall pp o n d, forallb (dline_ok (o_nexps o) n) d = true ->
  exists t, pretty_malformed pp o n d = Some t.
Proof.
  intros pp o n d H. unfold pretty_malformed.
  apply (pretty_lines_some pp _ (o_esc o) (line_base pp o) (o_nexps o) n); [|exact H].
  unfold width. lia.
Qed.

Lemma pretty_section_total : forall pp o, result_ok o = true -> exists t, pretty_section pp o = Some t.
Proof.
  intros pp o H. unfold pretty_section. destruct (res_failure (o_res o)); [|eauto].
  unfold pretty_error. unfold result_ok in H.
  destruct (o_res o) as [|n d|a e|msg| |]; eauto.
  destruct (pretty_malformed_total pp o n d H) as [t ->]. eauto.
Qed.

Lemma render_pretty_total : forall pp os, forallb result_ok os = true -> exists t, render_pretty pp os = RendOk t.
Proof.
  intros pp os H. unfold render_pretty.
  assert (exists s, pretty_sections pp os = Some s) as [s ->]; [|eauto].
  induction os as [|o r IH]; cbn [pretty_sections]; [eauto|].
  cbn [forallb] in H. apply andb_true_iff in H. destruct H as [H1 H2].
  destruct (pretty_section_total pp o H1) as [a ->]. destruct (IH H2) as [b ->]. eauto.
Qed.

(* the diff renderer cannot crash, and refuses only a mix of outcomes with and without location *)
Lemma render_diff_total : forall os, render_diff os <> RendPanic.
Proof. intros os. unfold render_diff. destruct (_ && _); discriminate. Qed.
Lemma render_diff_err_iff : forall os,
  render_diff os = RendErr <-> (0 < length (locations os) /\ length (locations os) <> length os)%nat.
Proof.
  intros os. unfold render_diff.
  destruct (0 <? length (locations os))%nat eqn:E1; destruct (length (locations os) =? length os)%nat eqn:E2; cbn [andb negb];
    split; intros H; try discriminate; try lia; try reflexivity.
Qed.

(* ---------- everything that differs is shown ---------- *)
Definition infix (a t : text) : Prop := exists pre post, t = pre ++ a ++ post.
Lemma infix_app_l : forall a t u, infix a t -> infix a (t ++ u).
Proof. intros a t u [p [q ->]]. exists p, (q ++ u). rewrite !app_assoc. reflexivity. Qed.
Lemma infix_app_r : forall a t u, infix a t -> infix a (u ++ t).
Proof. intros a t u [p [q ->]]. exists (u ++ p), q. rewrite !app_assoc. reflexivity. Qed.
Lemma infix_refl : forall a, infix a a.
Proof. intros a. exists [], []. rewrite app_nil_r. reflexivity. Qed.

Section Shown.
Variable pp : pparams.
Variable w : nat.
Variable m : mode.
Variable base : N.

Lemma unexpected_rows_show : forall ls t li bytes, unexpected_rows w m base ls = Some t -> In (li, bytes) ls ->
  exists c rw, highlight (written_text (escaped_expectation m (if ends_with_lf bytes then bytes else bytes ++ NOEOL_B))) = Some c
            /\ row w (Some (base + li + 1)) None false 43 c = Some rw /\ infix rw t.
Proof.
  induction ls as [|[li' b'] r IH]; intros t li bytes H Hin; [destruct Hin|].
  cbn [unexpected_rows] in H.
  destruct (highlight _) as [c|] eqn:Eh; [|discriminate].
  destruct (row w _ None false 43 c) as [a|] eqn:Er; [|discriminate].
  destruct (unexpected_rows w m base r) as [b|] eqn:Eu; [|discriminate].
  inversion H; subst t. destruct Hin as [Heq|Hin].
  - inversion Heq; subst. exists c, a. split; [exact Eh|]. split; [exact Er|]. apply infix_app_l, infix_refl.
  - destruct (IH b li bytes eq_refl Hin) as [c' [rw [H1 [H2 H3]]]]. exists c', rw. split; [exact H1|]. split; [exact H2|].
    apply infix_app_r. exact H3.
Qed.

(* every unmatched expectation has its row: its number, the sign -, its text with the trailing blanks made visible *)
Lemma pretty_lines_show_unmatched : forall all ds di last t idx mul expr orig,
  pretty_lines pp w m base all di last ds = Some t -> In (DUnmatched idx mul expr orig) ds ->
  exists c rw, highlight expr = Some c /\ row w None (Some (base + idx + 1)) mul 45 c = Some rw /\ infix rw t.
Proof.
  intros all ds. induction ds as [|d r IH]; intros di last t idx mul expr orig H Hin; [destruct Hin|].
  cbn [pretty_lines] in H. destruct Hin as [Heq|Hin].
  - subst d. destruct (highlight expr) as [c|] eqn:Eh; [|discriminate].
    destruct (row w None _ mul 45 c) as [a|] eqn:Er; [|discriminate].
    destruct (pretty_lines pp w m base all (S di) (Some di) r) as [b|]; [|discriminate].
    inversion H; subst t. exists c, a. split; [reflexivity|]. split; [exact Er|]. apply infix_app_l, infix_refl.
  - destruct d as [i2 m2 e2 f2|i2 m2 e2 o2|ls].
    + match type of H with match ?x with _ => _ end = _ => destruct x as [a|]; [|discriminate] end.
      destruct (pretty_lines pp w m base all (S di) last r) as [b|] eqn:Eb; [|discriminate].
      inversion H; subst t. destruct (IH _ _ _ _ _ _ _ Eb Hin) as [c [rw [H1 [H2 H3]]]]. exists c, rw. split; [exact H1|]. split; [exact H2|].
      apply infix_app_r. exact H3.
    + destruct (highlight e2) as [c2|]; [|discriminate].
      destruct (row w None _ m2 45 c2) as [a|]; [|discriminate].
      destruct (pretty_lines pp w m base all (S di) (Some di) r) as [b|] eqn:Eb; [|discriminate].
      inversion H; subst t. destruct (IH _ _ _ _ _ _ _ Eb Hin) as [c [rw [H1 [H2 H3]]]]. exists c, rw. split; [exact H1|]. split; [exact H2|].
      apply infix_app_r. exact H3.
    + destruct (unexpected_rows w m base ls) as [a|]; [|discriminate].
      destruct (pretty_lines pp w m base all (S di) _ r) as [b|] eqn:Eb; [|discriminate].
      inversion H; subst t. destruct (IH _ _ _ _ _ _ _ Eb Hin) as [c [rw [H1 [H2 H3]]]]. exists c, rw. split; [exact H1|]. split; [exact H2|].
      apply infix_app_r. exact H3.
Qed.

Lemma pretty_lines_show_unexpected : forall all ds di last t ls li bytes,
  pretty_lines pp w m base all di last ds = Some t -> In (DUnexpected ls) ds -> In (li, bytes) ls ->
  exists c rw, highlight (written_text (escaped_expectation m (if ends_with_lf bytes then bytes else bytes ++ NOEOL_B))) = Some c
            /\ row w (Some (base + li + 1)) None false 43 c = Some rw /\ infix rw t.
Proof.
  intros all ds. induction ds as [|d r IH]; intros di last t ls li bytes H Hin Hl; [destruct Hin|].
  cbn [pretty_lines] in H. destruct Hin as [Heq|Hin].
  - subst d. destruct (unexpected_rows w m base ls) as [a|] eqn:Ea; [|discriminate].
    destruct (pretty_lines pp w m base all (S di) _ r) as [b|]; [|discriminate].
    inversion H; subst t. destruct (unexpected_rows_show ls a li bytes Ea Hl) as [c [rw [H1 [H2 H3]]]].
    exists c, rw. split; [exact H1|]. split; [exact H2|]. apply infix_app_l. exact H3.
  - destruct d as [i2 m2 e2 f2|i2 m2 e2 o2|ls2].
    + match type of H with match ?x with _ => _ end = _ => destruct x as [a|]; [|discriminate] end.
      destruct (pretty_lines pp w m base all (S di) last r) as [b|] eqn:Eb; [|discriminate].
      inversion H; subst t. destruct (IH _ _ _ _ _ _ Eb Hin Hl) as [c [rw [H1 [H2 H3]]]]. exists c, rw. split; [exact H1|]. split; [exact H2|].
      apply infix_app_r. exact H3.
    + destruct (highlight e2) as [c2|]; [|discriminate].
      destruct (row w None _ m2 45 c2) as [a|]; [|discriminate].
      destruct (pretty_lines pp w m base all (S di) (Some di) r) as [b|] eqn:Eb; [|discriminate].
      inversion H; subst t. destruct (IH _ _ _ _ _ _ Eb Hin Hl) as [c [rw [H1 [H2 H3]]]]. exists c, rw. split; [exact H1|]. split; [exact H2|].
      apply infix_app_r. exact H3.
    + destruct (unexpected_rows w m base ls2) as [a|]; [|discriminate].
      destruct (pretty_lines pp w m base all (S di) _ r) as [b|] eqn:Eb; [|discriminate].
      inversion H; subst t. destruct (IH _ _ _ _ _ _ Eb Hin Hl) as [c [rw [H1 [H2 H3]]]]. exists c, rw. split; [exact H1|]. split; [exact H2|].
      apply infix_app_r. exact H3.
Qed.
End Shown.

(* a section of a failed outcome is part of the whole pretty rendering *)
Lemma pretty_sections_in : forall pp os s o sec, pretty_sections pp os = Some s -> In o os -> pretty_section pp o = Some sec -> infix sec s.
Proof.
  induction os as [|x r IH]; intros s o sec H Hin Hs; [destruct Hin|].
  cbn [pretty_sections] in H. destruct (pretty_section pp x) as [a|] eqn:Ea; [|discriminate].
  destruct (pretty_sections pp r) as [b|] eqn:Eb; [|discriminate]. inversion H; subst s.
  destruct Hin as [->|Hin].
  - rewrite Hs in Ea. inversion Ea; subst. apply infix_app_l, infix_refl.
  - apply infix_app_r. eapply IH; eauto.
Qed.

Lemma infix_trans : forall a b c, infix a b -> infix b c -> infix a c.
Proof. intros a b c [p [q ->]] [p' [q' ->]]. exists (p' ++ p), (q ++ q'). rewrite !app_assoc. reflexivity. Qed.

(* ---------- diff renderer: the hunks hold every unmatched expectation and every unexpected line, in order ---------- *)
Definition all_unmatched (ds : list dline) : list text :=
  flat_map (fun d => match d with DUnmatched _ _ _ orig => [orig] | _ => [] end) ds.
Definition all_unexpected (ds : list dline) : list text :=
  flat_map (fun d => match d with DUnexpected ls => map (fun p => lossy_line (snd p)) ls | _ => [] end) ds.

Lemma all_unmatched_cons : forall d r,
  all_unmatched (d :: r) = (match d with DUnmatched _ _ _ orig => [orig] | _ => [] end) ++ all_unmatched r.
Proof. reflexivity. Qed.
Lemma all_unexpected_cons : forall d r,
  all_unexpected (d :: r) = (match d with DUnexpected ls => map (fun p => lossy_line (snd p)) ls | _ => [] end) ++ all_unexpected r.
Proof. reflexivity. Qed.

Lemma hunks_conserve : forall ds ei h,
  flat_map um_lines (hunks_of ei h ds) = um_lines h ++ all_unmatched ds
  /\ flat_map ux_lines (hunks_of ei h ds) = ux_lines h ++ all_unexpected ds.
Proof.
  induction ds as [|d r IH]; intros ei h.
  - cbn. rewrite !app_nil_r. split; reflexivity.
  - rewrite all_unmatched_cons, all_unexpected_cons.
    destruct d as [idx mul e f|idx mul e orig|ls]; cbn [hunks_of].
    + cbn [flat_map]. destruct (IH idx hunk_empty) as [H1 H2]. rewrite H1, H2. cbn [hunk_empty um_lines ux_lines app]. split; reflexivity.
    + destruct (IH idx (mkHunk (match um_start h with None => Some idx | s => s end) (um_lines h ++ [orig]) (ux_start h) (ux_lines h))) as [H1 H2].
      rewrite H1, H2. cbn [um_lines ux_lines app]. rewrite <- app_assoc. split; reflexivity.
    + cbn [um_start]. destruct (um_start h) eqn:Eu.
      * cbn [flat_map um_lines ux_lines]. destruct (IH ei hunk_empty) as [H1 H2]. rewrite H1, H2.
        cbn [hunk_empty um_lines ux_lines app]. rewrite <- app_assoc. split; reflexivity.
      * destruct (IH ei (mkHunk None (um_lines h) (match ux_start h with None => Some ei | s => s end)
                                (ux_lines h ++ map (fun p => lossy_line (snd p)) ls))) as [H1 H2].
        rewrite H1, H2. cbn [um_lines ux_lines app]. rewrite <- app_assoc. split; reflexivity.
Qed.

(* a hunk with lines has been opened, so it is printed *)
Definition hunk_wf (h : hunk) : Prop := (um_lines h <> [] -> um_start h <> None) /\ (ux_lines h <> [] -> ux_start h <> None).
Lemma hunks_wf : forall ds ei h, hunk_wf h -> Forall hunk_wf (hunks_of ei h ds).
Proof.
  assert (E: hunk_wf hunk_empty) by (split; cbn; congruence).
  induction ds as [|d r IH]; intros ei h Hh; [cbn [hunks_of]; constructor; [exact Hh|constructor]|].
  destruct d as [idx mul e f|idx mul e orig|ls]; cbn [hunks_of].
  - constructor; [exact Hh|]. apply IH. exact E.
  - apply IH. destruct Hh as [H1 H2]. split; cbn; [destruct (um_start h); congruence|exact H2].
  - cbn [um_start]. destruct Hh as [H1 H2].
    assert (W: hunk_wf (mkHunk (um_start h) (um_lines h) (match ux_start h with None => Some ei | s => s end)
                               (ux_lines h ++ map (fun p => lossy_line (snd p)) ls))).
    { split; cbn; [exact H1|destruct (ux_start h); congruence]. }
    destruct (um_start h) eqn:Eu.
    + constructor; [exact W|]. apply IH. exact E.
    + apply IH. exact W.
Qed.

Lemma in_flat_map_infix : forall {A} (f : A -> text) l ls, In l ls -> infix (f l) (flat_map f ls).
Proof.
  intros A f l. induction ls as [|x r IH]; intros H; [destruct H|]. cbn [flat_map]. destruct H as [->|H].
  - apply infix_app_l, infix_refl.
  - apply infix_app_r, IH, H.
Qed.

Lemma emit_hunk_shows : forall o lnum title h, hunk_wf h ->
  (forall l, In l (um_lines h) -> infix ([45] ++ line_prefix o ++ l ++ [10]) (emit_hunk o lnum title h))
  /\ (forall l, In l (ux_lines h) -> infix ([43] ++ line_prefix o ++ l ++ [10]) (emit_hunk o lnum title h)).
Proof.
  intros o lnum title h [W1 W2].
  assert (Open: forall l, In l (um_lines h) \/ In l (ux_lines h) -> um_start h <> None \/ ux_start h <> None).
  { intros l [H|H]; [left; apply W1|right; apply W2]; intro E; rewrite E in H; destruct H. }
  split; intros l Hl.
  - unfold emit_hunk. destruct (Open l (or_introl Hl)) as [N|N];
      destruct (um_start h), (ux_start h); try congruence;
      apply infix_app_r, infix_app_l; apply (in_flat_map_infix (fun l => [45] ++ line_prefix o ++ l ++ [10])); exact Hl.
  - unfold emit_hunk. destruct (Open l (or_intror Hl)) as [N|N];
      destruct (um_start h), (ux_start h); try congruence;
      apply infix_app_r, infix_app_r; apply (in_flat_map_infix (fun l => [43] ++ line_prefix o ++ l ++ [10])); exact Hl.
Qed.

Lemma in_flat_map_hunk : forall (g : hunk -> list text) l hs, In l (flat_map g hs) -> exists h, In h hs /\ In l (g h).
Proof. intros g l hs H. apply in_flat_map in H. exact H. Qed.

Lemma unified_shows : forall o lnum title ds,
  (forall l, In l (all_unmatched ds) -> infix ([45] ++ line_prefix o ++ l ++ [10]) (unified o lnum title ds))
  /\ (forall l, In l (all_unexpected ds) -> infix ([43] ++ line_prefix o ++ l ++ [10]) (unified o lnum title ds)).
Proof.
  intros o lnum title ds.
  destruct (hunks_conserve ds 0 hunk_empty) as [C1 C2]. cbn [hunk_empty um_lines ux_lines app] in C1, C2.
  assert (W: Forall hunk_wf (hunks_of 0 hunk_empty ds)) by (apply hunks_wf; split; cbn; congruence).
  rewrite Forall_forall in W.
  split; intros l Hl.
  - rewrite <- C1 in Hl. apply in_flat_map_hunk in Hl. destruct Hl as [h [Hh Hin]].
    eapply infix_trans; [apply (emit_hunk_shows o lnum title h (W h Hh)); exact Hin|].
    unfold unified. apply (in_flat_map_infix (emit_hunk o lnum title)). exact Hh.
  - rewrite <- C2 in Hl. apply in_flat_map_hunk in Hl. destruct Hl as [h [Hh Hin]].
    eapply infix_trans; [apply (emit_hunk_shows o lnum title h (W h Hh)); exact Hin|].
    unfold unified. apply (in_flat_map_infix (emit_hunk o lnum title)). exact Hh.
Qed.

(* ---------- nothing is printed for a test that passed ---------- *)
Lemma pretty_no_section_for_pass : forall pp o, o_res o = OSuccess -> pretty_section pp o = Some [].
Proof. intros pp o H. unfold pretty_section. rewrite H. reflexivity. Qed.

Lemma pretty_sections_only_failures : forall pp os,
  pretty_sections pp os = pretty_sections pp (filter (fun o => res_failure (o_res o)) os).
Proof.
  induction os as [|o r IH]; [reflexivity|]. cbn [pretty_sections filter].
  destruct (res_failure (o_res o)) eqn:E.
  - cbn [pretty_sections]. rewrite IH. reflexivity.
  - unfold pretty_section at 1. rewrite E. rewrite IH. destruct (pretty_sections pp (filter _ r)); reflexivity.
Qed.

Lemma diff_body_skips_passed : forall os last,
  diff_body last os = diff_body last (filter (fun o => negb (res_success (o_res o))) os).
Proof.
  induction os as [|o r IH]; intros last; [reflexivity|]. cbn [diff_body filter].
  destruct (res_success (o_res o)) eqn:E; cbn [negb].
  - apply IH.
  - cbn [diff_body]. rewrite E. rewrite IH. reflexivity.
Qed.

Lemma all_passed_nothing : forall pp os, Forall (fun o => o_res o = OSuccess) os ->
  pretty_sections pp os = Some [] /\ forall last, diff_body last os = [].
Proof.
  intros pp os H. induction H as [|o r Ho Hr [IH1 IH2]]; [split; reflexivity|]. split.
  - cbn [pretty_sections]. rewrite (pretty_no_section_for_pass pp o Ho), IH1. reflexivity.
  - intros last. cbn [diff_body]. rewrite Ho. cbn [res_success]. apply IH2.
Qed.

(* ---------- structured renderers: one entry per outcome, in order, with its kind ---------- *)
Lemma structured_entries : forall os,
  length (structured os) = length os
  /\ map se_kind (structured os) = map (fun o => kind_of (o_res o)) os
  /\ map se_location (structured os) = map o_location os.
Proof. intros os. unfold structured. rewrite map_length, !map_map. repeat split; reflexivity. Qed.

Lemma kind_of_injective_on_classes : forall r1 r2, kind_of r1 = kind_of r2 ->
  match r1, r2 with
  | OSuccess, OSuccess | OMalformed _ _, OMalformed _ _ | OExit _ _, OExit _ _ | OInternal _, OInternal _
  | OTimeout, OTimeout | OSkipped, OSkipped => True
  | _, _ => False end.
Proof. intros r1 r2 H. destruct r1, r2; try exact I; vm_compute in H; discriminate. Qed.

(* ---------- the link to the matcher: every diff DiffTool can return is well indexed (C02) ---------- *)
From SV Require Import Diff Cons.
Section FromMatcher.
Variable info : nat -> (list N * list N).          (* expression text and original text of expectation i *)
Definition mul_of (es : list (exp (list N))) (i : nat) : bool :=
  match nth_error es i with Some e => mul (list N) e | None => false end.
Definition to_dline (es : list (exp (list N))) (en : entry (list N)) : dline :=
  match en with
  | EMatched _ i b => DMatched (N.of_nat i) (mul_of es i) (fst (info i)) (match b with p :: _ => Some (N.of_nat (fst p)) | [] => None end)
  | EUnmatched _ i => DUnmatched (N.of_nat i) (mul_of es i) (fst (info i)) (snd (info i))
  | EUnexpected _ b => DUnexpected (map (fun p => (N.of_nat (fst p), snd p)) b)
  end.

Lemma in_number : forall (ls : list (list N)) k j l, In (j, l) (number (list N) k ls) -> (k <= j < k + length ls)%nat.
Proof.
  induction ls as [|x r IH]; intros k j l H; [destruct H|].
  cbn [number] in H. destruct H as [H|H].
  - inversion H; subst. cbn [length]. lia.
  - apply IH in H. cbn [length]. lia.
Qed.

Theorem matcher_diffs_well_indexed : forall es ls d, diff (list N) es ls = Some d ->
  forallb (dline_ok (N.of_nat (length es)) (N.of_nat (length ls))) (map (to_dline es) d) = true.
Proof.
  intros es ls d Hd.
  destruct (C02_conservation (list N) es ls) as [d' [Hd' [Hl [[_ Hs] [_ Hok]]]]].
  rewrite Hd in Hd'. inversion Hd'; subst d'. clear Hd'.
  assert (Lines: forall en, In en d -> forall p, In p (e_lines (list N) en) -> (fst p < length ls)%nat).
  { intros en Hen p Hp. assert (In p (lines_of (list N) d)) by (unfold lines_of; apply in_flat_map; eauto).
    rewrite Hl in H. destruct p as [j l]. apply in_number in H. cbn [fst]. lia. }
  assert (Exps: forall en, In en d -> forall i, In i (e_exps (list N) en) -> (i < length es)%nat).
  { intros en Hen i Hi. assert (In i (exps_of (list N) d)) by (unfold exps_of; apply in_flat_map; eauto).
    rewrite Forall_forall in Hs. apply Hs in H. lia. }
  rewrite Forall_forall in Hok.
  apply forallb_forall. intros x Hx. apply in_map_iff in Hx. destruct Hx as [en [<- Hen]].
  specialize (Lines en Hen). specialize (Exps en Hen). specialize (Hok en Hen).
  destruct en as [i b|i|b]; cbn [to_dline dline_ok e_lines e_exps] in *.
  - apply andb_true_iff. split; [specialize (Exps i (or_introl eq_refl)); lia|].
    destruct b as [|p b']; [destruct Hok as [Hne _]; congruence|].
    specialize (Lines p (or_introl eq_refl)). lia.
  - specialize (Exps i (or_introl eq_refl)). lia.
  - apply forallb_forall. intros q Hq. apply in_map_iff in Hq. destruct Hq as [p [<- Hp]]. cbn [fst].
    specialize (Lines p Hp). lia.
Qed.
End FromMatcher.

(* ---------- composition: from one diff line to the whole rendering ---------- *)
Lemma render_pretty_section_infix : forall pp os t o sec,
  render_pretty pp os = RendOk t -> In o os -> pretty_section pp o = Some sec -> infix sec t.
Proof.
  intros pp os t o sec H Hin Hs. unfold render_pretty in H.
  destruct (pretty_sections pp os) as [s|] eqn:E; [|discriminate]. inversion H; subst t.
  apply infix_app_l. eapply pretty_sections_in; eauto.
Qed.

Lemma pretty_section_malformed : forall pp o n d sec, o_res o = OMalformed n d -> pretty_section pp o = Some sec ->
  exists body, pretty_malformed pp o n d = Some body /\ infix body sec.
Proof.
  intros pp o n d sec Hr H. unfold pretty_section, pretty_error in H. rewrite Hr in H. cbn [res_failure] in H.
  destruct (pretty_malformed pp o n d) as [b|]; [|discriminate]. injection H as E. subst sec.
  exists b. split; [reflexivity|]. exists (render_header o), [10; 10]. reflexivity.
Qed.

Lemma render_pretty_section_exists : forall pp os t o, render_pretty pp os = RendOk t -> In o os -> exists sec, pretty_section pp o = Some sec.
Proof.
  intros pp os t o H Hin. unfold render_pretty in H. destruct (pretty_sections pp os) as [s|] eqn:E; [|discriminate]. clear H.
  revert s E. induction os as [|x r IH]; intros s E; [destruct Hin|]. cbn [pretty_sections] in E.
  destruct (pretty_section pp x) as [a|] eqn:Ea; [|discriminate]. destruct (pretty_sections pp r) as [b|] eqn:Eb; [|discriminate].
  destruct Hin as [->|Hin]; [eauto|]. eapply IH; eauto.
Qed.

Theorem pretty_shows_unmatched : forall pp os t o n d idx mul expr orig,
  render_pretty pp os = RendOk t -> In o os -> o_res o = OMalformed n d -> In (DUnmatched idx mul expr orig) d ->
  exists c rw, highlight expr = Some c
            /\ row (width pp o n) None (Some (line_base pp o + idx + 1)) mul 45 c = Some rw /\ infix rw t.
Proof.
  intros pp os t o n d idx mul expr orig H Hin Hr Hd.
  destruct (render_pretty_section_exists pp os t o H Hin) as [sec Hs].
  destruct (pretty_section_malformed pp o n d sec Hr Hs) as [body [Hb Hi]].
  unfold pretty_malformed in Hb.
  destruct (pretty_lines_show_unmatched pp _ _ _ d d 0%nat None body idx mul expr orig Hb Hd) as [c [rw [H1 [H2 H3]]]].
  exists c, rw. split; [exact H1|]. split; [exact H2|].
  eapply infix_trans; [exact H3|]. eapply infix_trans; [exact Hi|]. eapply render_pretty_section_infix; eauto.
Qed.

Theorem pretty_shows_unexpected : forall pp os t o n d ls li bytes,
  render_pretty pp os = RendOk t -> In o os -> o_res o = OMalformed n d -> In (DUnexpected ls) d -> In (li, bytes) ls ->
  exists c rw, highlight (written_text (escaped_expectation (o_esc o) (if ends_with_lf bytes then bytes else bytes ++ NOEOL_B))) = Some c
            /\ row (width pp o n) (Some (line_base pp o + li + 1)) None false 43 c = Some rw /\ infix rw t.
Proof.
  intros pp os t o n d ls li bytes H Hin Hr Hd Hl.
  destruct (render_pretty_section_exists pp os t o H Hin) as [sec Hs].
  destruct (pretty_section_malformed pp o n d sec Hr Hs) as [body [Hb Hi]].
  unfold pretty_malformed in Hb.
  destruct (pretty_lines_show_unexpected pp _ _ _ d d 0%nat None body ls li bytes Hb Hd Hl) as [c [rw [H1 [H2 H3]]]].
  exists c, rw. split; [exact H1|]. split; [exact H2|].
  eapply infix_trans; [exact H3|]. eapply infix_trans; [exact Hi|]. eapply render_pretty_section_infix; eauto.
Qed.

(* diff renderer *)
Lemma in_insert_sorted : forall o x l, In x (insert_sorted o l) <-> x = o \/ In x l.
Proof.
  induction l as [|y r IH]; cbn [insert_sorted].
  - cbn. intuition.
  - destruct (key_leb o y); cbn [In]; [intuition|]. rewrite IH. intuition.
Qed.
Lemma in_stable_sort : forall x l, In x (stable_sort l) <-> In x l.
Proof.
  induction l as [|y r IH]; [reflexivity|]. unfold stable_sort in *. cbn [fold_right]. rewrite in_insert_sorted, IH. cbn. intuition.
Qed.

Lemma diff_body_in : forall os last o, In o os -> res_success (o_res o) = false -> infix (diff_error o) (diff_body last os).
Proof.
  induction os as [|x r IH]; intros last o Hin Hf; [destruct Hin|]. cbn [diff_body].
  destruct Hin as [->|Hin].
  - rewrite Hf. apply infix_app_r, infix_app_l, infix_refl.
  - destruct (res_success (o_res x)); [apply IH; assumption|]. apply infix_app_r, infix_app_r, IH; assumption.
Qed.

Theorem diff_shows_everything : forall os t o n d,
  render_diff os = RendOk t -> In o os -> o_res o = OMalformed n d ->
  (forall l, In l (all_unmatched d) -> infix ([45] ++ line_prefix o ++ l ++ [10]) t)
  /\ (forall l, In l (all_unexpected d) -> infix ([43] ++ line_prefix o ++ l ++ [10]) t).
Proof.
  intros os t o n d H Hin Hr. unfold render_diff in H. destruct (_ && _); [discriminate|]. inversion H; subst t. clear H.
  assert (Hin': In o (if (0 <? length (locations os))%nat then stable_sort os else os)).
  { destruct (0 <? length (locations os))%nat; [apply in_stable_sort|]; exact Hin. }
  assert (Hf: res_success (o_res o) = false) by (rewrite Hr; reflexivity).
  pose proof (diff_body_in _ None o Hin' Hf) as Hb.
  unfold diff_error in Hb. rewrite Hr in Hb.
  destruct (unified_shows o (o_line o + shell_expression_lines o) (join_multiline (o_title o)) d) as [U1 U2].
  split; intros l Hl; (eapply infix_trans; [|exact Hb]); [apply U1|apply U2]; exact Hl.
Qed.
