(* C04: models of the five expectation kinds (src/rules/*.rs).  Lines and expressions are byte lists for equal /
   no-eol / escaped, code-point lists for glob and regex.  Definitions only. *)
From Coq Require Import List NArith Bool.
Import ListNotations.
From SV Require Import Escape.
Local Open Scope N_scope.

Definition ends_in_newline (b : list N) : bool := match rev b with 10 :: _ => true | _ => false end.
Definition assure_newline (b : list N) : list N := if ends_in_newline b then b else b ++ [10].

Definition m_equal (expr line : list N) : bool := list_eqb (assure_newline expr) line.
Definition m_noeol (expr line : list N) : bool := list_eqb expr line.
Definition m_escaped (bytes line : list N) : bool := list_eqb bytes (trim_newlines line).
(* EscapedRule::make, Cram compatibility: a trailing ` (no-eol)` of the expression is not part of it (the comparison
   ignores the final newline anyway); what remains is what the escape sequences are resolved in *)
Definition NOEOL_SUFFIX : list N := [32; 40; 110; 111; 45; 101; 111; 108; 41].
Definition escaped_body (e : list N) : list N :=
  if Nat.leb 9 (length e) && list_eqb (skipn (length e - 9) e) NOEOL_SUFFIX then firstn (length e - 9) e else e.

(* ---------- glob: `?` exactly one character, `*` any run (wildmatch) ---------- *)
Definition STAR : N := 42.
Definition QM : N := 63.
Fixpoint glob_match (p : list N) : list N -> bool :=
  match p with
  | [] => fun s => match s with [] => true | _ => false end
  | c :: p' =>
    if c =? STAR then
      (fix star (s : list N) : bool := glob_match p' s || match s with [] => false | _ :: s' => star s' end)
    else if c =? QM then fun s => match s with [] => false | _ :: s' => glob_match p' s' end
    else fun s => match s with [] => false | x :: s' => (c =? x) && glob_match p' s' end
  end.

Inductive GMatch : list N -> list N -> Prop :=
| GM_nil : GMatch [] []
| GM_star : forall p run s, GMatch p s -> GMatch (STAR :: p) (run ++ s)
| GM_qm : forall p x s, GMatch p s -> GMatch (QM :: p) (x :: s)
| GM_chr : forall c p s, c <> STAR -> c <> QM -> GMatch p s -> GMatch (c :: p) (c :: s).

(* ---------- regular expressions ---------- *)
Inductive re :=
| Emp                      (* matches nothing *)
| Eps
| Chr (c : N)
| Any                      (* `.` : any character but LF *)
| Cls (neg : bool) (cs : list N)
| Seq (a b : re)
| Alt (a b : re)
| Star (a : re).
Definition Plus (a : re) : re := Seq a (Star a).
Definition Opt (a : re) : re := Alt a Eps.

Definition cls_has (neg : bool) (cs : list N) (c : N) : bool := xorb neg (existsb (N.eqb c) cs).

Inductive Lang : re -> list N -> Prop :=
| L_eps : Lang Eps []
| L_chr : forall c, Lang (Chr c) [c]
| L_any : forall c, c <> 10 -> Lang Any [c]
| L_cls : forall neg cs c, cls_has neg cs c = true -> Lang (Cls neg cs) [c]
| L_seq : forall a b s1 s2, Lang a s1 -> Lang b s2 -> Lang (Seq a b) (s1 ++ s2)
| L_altl : forall a b s, Lang a s -> Lang (Alt a b) s
| L_altr : forall a b s, Lang b s -> Lang (Alt a b) s
| L_star0 : forall a, Lang (Star a) []
| L_star1 : forall a s1 s2, Lang a s1 -> Lang (Star a) s2 -> Lang (Star a) (s1 ++ s2).

Fixpoint nullable (r : re) : bool :=
  match r with
  | Emp => false | Eps => true | Chr _ => false | Any => false | Cls _ _ => false
  | Seq a b => nullable a && nullable b
  | Alt a b => nullable a || nullable b
  | Star _ => true
  end.
Fixpoint deriv (c : N) (r : re) : re :=
  match r with
  | Emp => Emp | Eps => Emp
  | Chr d => if c =? d then Eps else Emp
  | Any => if c =? 10 then Emp else Eps
  | Cls neg cs => if cls_has neg cs c then Eps else Emp
  | Seq a b => if nullable a then Alt (Seq (deriv c a) b) (deriv c b) else Seq (deriv c a) b
  | Alt a b => Alt (deriv c a) (deriv c b)
  | Star a => Seq (deriv c a) (Star a)
  end.
(* whole-string match *)
Fixpoint full (r : re) (s : list N) : bool :=
  match s with [] => nullable r | c :: s' => full (deriv c r) s' end.

(* Cram-style glob (src/rules/glob_cram.rs::glob_to_regex_string): `*` -> `.*`, `?` -> `.`, `\*` `\?` `\\` literal *)
Fixpoint cram_glob_re_aux (fuel : nat) (p : list N) : re :=
  match fuel with O => Eps | S f =>
  match p with
  | [] => Eps
  | 92 :: c :: r => if (c =? 42) || (c =? 63) || (c =? 92) then Seq (Chr c) (cram_glob_re_aux f r)
                    else Seq (Chr 92) (cram_glob_re_aux f (c :: r))
  | c :: r => if c =? 42 then Seq (Star Any) (cram_glob_re_aux f r)
              else if c =? 63 then Seq Any (cram_glob_re_aux f r)
              else Seq (Chr c) (cram_glob_re_aux f r)
  end end.
Definition cram_glob_re (p : list N) : re := cram_glob_re_aux (S (length p)) p.

(* printer used to hand a regex to the implementation: every literal is escaped when it is a metacharacter *)
Definition is_meta (c : N) : bool :=
  existsb (N.eqb c) [92; 46; 43; 42; 63; 40; 41; 124; 91; 93; 123; 125; 94; 36; 35; 38; 45; 126].
Definition lit (c : N) : list N := if is_meta c then [92; c] else [c].
Fixpoint print (r : re) : list N :=
  match r with
  | Emp => [91; 94; 0; 45; 1114111; 93]        (* [^\x00-\u{10FFFF}] -- not generated *)
  | Eps => [40; 63; 58; 41]                     (* (?:) *)
  | Chr c => lit c
  | Any => [46]
  | Cls neg cs => [91] ++ (if neg then [94] else []) ++ flat_map lit cs ++ [93]
  | Seq a b => print a ++ print b
  | Alt a b => [40; 63; 58] ++ print a ++ [124] ++ print b ++ [41]
  | Star a => [40; 63; 58] ++ print a ++ [41; 42]
  end.

(* the same expressions as a user may write them: a closing square bracket outside a class stands for itself, and inside a
   class only backslash, the square brackets, a leading caret and the hyphen need a backslash *)
Definition lit_user (c : N) : list N := if (c =? 93) then [c] else lit c.
Definition lit_in_class (c : N) : list N := if existsb (N.eqb c) [92; 91; 93; 94; 45] then [92; c] else [c].
Fixpoint print_user (r : re) : list N :=
  match r with
  | Chr c => lit_user c
  | Cls neg cs => [91] ++ (if neg then [94] else []) ++ flat_map lit_in_class cs ++ [93]
  | Seq a b => print_user a ++ print_user b
  | Alt a b => [40; 63; 58] ++ print_user a ++ [124] ++ print_user b ++ [41]
  | Star a => [40; 63; 58] ++ print_user a ++ [41; 42]
  | _ => print r
  end.

(* top level as a user would write it: an alternation without the surrounding group *)
Definition print_top (r : re) : list N :=
  match r with Alt a b => print a ++ [124] ++ print b | _ => print r end.
