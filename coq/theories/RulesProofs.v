From Coq Require Import List NArith Bool Lia.
Import ListNotations.
From SV Require Import Escape EscapeProofs Rules.
Local Open Scope N_scope.

(* ---------- equal / no-eol / escaped ---------- *)
Lemma ends_in_newline_app : forall x, ends_in_newline (x ++ [10]) = true.
Proof. intros x. unfold ends_in_newline. rewrite rev_app_distr. reflexivity. Qed.

Theorem equal_iff : forall x l, ends_in_newline x = false -> (m_equal x l = true <-> l = x ++ [10]).
Proof.
  intros x l H. unfold m_equal, assure_newline. rewrite H, list_eqb_spec. split; congruence.
Qed.
Theorem equal_iff_nl : forall x l, ends_in_newline x = true -> (m_equal x l = true <-> l = x).
Proof. intros x l H. unfold m_equal, assure_newline. rewrite H, list_eqb_spec. split; congruence. Qed.
Theorem noeol_iff : forall x l, m_noeol x l = true <-> l = x.
Proof. intros x l. unfold m_noeol. rewrite list_eqb_spec. split; congruence. Qed.
Theorem escaped_iff : forall b l, m_escaped b l = true <-> trim_newlines l = b.
Proof. intros b l. unfold m_escaped. rewrite list_eqb_spec. split; congruence. Qed.

(* ---------- glob ---------- *)
Lemma glob_star_unfold : forall p s,
  glob_match (STAR :: p) s = glob_match p s || match s with [] => false | _ :: s' => glob_match (STAR :: p) s' end.
Proof. intros p s. destruct s; reflexivity. Qed.

Lemma glob_match_sound : forall p s, glob_match p s = true -> GMatch p s.
Proof.
  induction p as [|c p IH]; intros s H.
  - destruct s; [constructor|discriminate].
  - destruct (N.eqb_spec c STAR) as [->|NS].
    + induction s as [|x s IHs].
      * rewrite glob_star_unfold, orb_false_r in H. apply (GM_star p [] []). apply IH. exact H.
      * rewrite glob_star_unfold in H. apply orb_true_iff in H. destruct H as [H|H].
        -- apply (GM_star p [] (x :: s)). apply IH. exact H.
        -- specialize (IHs H). inversion IHs as [|p0 run s0 G| |? ? ? N1 N2 G]; subst; [|exfalso; apply N1; reflexivity].
           apply (GM_star p (x :: run) s0). exact G.
    + destruct (N.eqb_spec c QM) as [->|NQ].
      * cbn [glob_match] in H. change (QM =? STAR) with false in H. change (QM =? QM) with true in H. cbv iota in H.
        destruct s as [|x s]; [discriminate|]. constructor. apply IH. exact H.
      * cbn [glob_match] in H. assert (E1 : (c =? STAR) = false) by (apply N.eqb_neq; exact NS).
        assert (E2 : (c =? QM) = false) by (apply N.eqb_neq; exact NQ). rewrite E1, E2 in H.
        destruct s as [|x s]; [discriminate|]. apply andb_true_iff in H. destruct H as [Hc H]. apply N.eqb_eq in Hc. subst x.
        constructor; auto.
Qed.

Lemma glob_star_skip : forall p run s, glob_match p s = true -> glob_match (STAR :: p) (run ++ s) = true.
Proof.
  intros p run s H. induction run as [|x run IH]; cbn [app].
  - rewrite glob_star_unfold, H. reflexivity.
  - rewrite glob_star_unfold, IH. apply orb_true_r.
Qed.

Lemma glob_match_complete : forall p s, GMatch p s -> glob_match p s = true.
Proof.
  induction 1 as [|p run s _ IH|p x s _ IH|c p s NS NQ _ IH].
  - reflexivity.
  - apply glob_star_skip. exact IH.
  - cbn [glob_match]. change (QM =? STAR) with false. change (QM =? QM) with true. exact IH.
  - cbn [glob_match]. assert (E1 : (c =? STAR) = false) by (apply N.eqb_neq; exact NS).
    assert (E2 : (c =? QM) = false) by (apply N.eqb_neq; exact NQ). rewrite E1, E2, N.eqb_refl, IH. reflexivity.
Qed.

Theorem glob_match_spec : forall p s, glob_match p s = true <-> GMatch p s.
Proof. intros p s. split; [apply glob_match_sound|apply glob_match_complete]. Qed.

(* ---------- regular expressions: the derivative matcher decides the declarative language ---------- *)
Lemma nullable_spec : forall r, nullable r = true <-> Lang r [].
Proof.
  induction r as [| |c| |neg cs|a IHa b IHb|a IHa b IHb|a IHa]; cbn [nullable].
  - split; [discriminate|intros H; inversion H].
  - split; [constructor|reflexivity].
  - split; [discriminate|intros H; inversion H].
  - split; [discriminate|intros H; inversion H].
  - split; [discriminate|intros H; inversion H].
  - rewrite andb_true_iff, IHa, IHb. split.
    + intros [A B]. change (@nil N) with (@nil N ++ []). constructor; assumption.
    + intros H. inversion H as [| | | |a0 b0 s1 s2 A B E| | | |]; subst.
      destruct s1; [|discriminate]. destruct s2; [|discriminate]. auto.
  - rewrite orb_true_iff, IHa, IHb. split.
    + intros [A|B]; [apply L_altl|apply L_altr]; assumption.
    + intros H. inversion H; subst; auto.
  - split; [constructor|reflexivity].
Qed.

Lemma star_cons : forall a c s, Lang (Star a) (c :: s) ->
  exists s1 s2, s = s1 ++ s2 /\ Lang a (c :: s1) /\ Lang (Star a) s2.
Proof.
  intros a c s H. remember (Star a) as r eqn:Er. remember (c :: s) as t eqn:Et.
  revert a c s Er Et. induction H as [| | | | | | | |a0 s1 s2 H1 _ H2 IH2]; intros a' c' s' Er Et; try discriminate.
  inversion Er; subst a0. destruct s1 as [|x s1].
  - cbn [app] in Et. apply (IH2 a' c' s' eq_refl Et).
  - cbn [app] in Et. inversion Et; subst. exists s1, s2. auto.
Qed.

Ltac seq_inv H :=
  inversion H; subst; clear H;
  match goal with E : ?s1 ++ ?s2 = _ :: _ |- _ => destruct s1 as [|?x ?s1]; cbn [app] in E; [subst|inversion E; subst; clear E] end.

Lemma deriv_spec : forall r c s, Lang (deriv c r) s <-> Lang r (c :: s).
Proof.
  induction r as [| |d| |neg cs|a IHa b IHb|a IHa b IHb|a IHa]; intros c s; cbn [deriv].
  - split; intros H; inversion H.
  - split; intros H; inversion H.
  - destruct (N.eqb_spec c d) as [->|N]; split; intros H; inversion H; subst; try constructor. contradiction.
  - destruct (N.eqb_spec c 10) as [->|N]; split; intros H; inversion H; subst; try (constructor; assumption). contradiction.
  - destruct (cls_has neg cs c) eqn:E; split; intros H; inversion H; subst; try (constructor; assumption). congruence.
  - destruct (nullable a) eqn:Na.
    + split.
      * intros H. inversion H as [| | | | |a0 b0 s0 H1|a0 b0 s0 H1| |]; subst.
        -- inversion H1 as [| | | |a1 b1 s1 s2 A B| | | |]; subst. apply IHa in A.
           change (c :: s1 ++ s2) with ((c :: s1) ++ s2). constructor; assumption.
        -- apply IHb in H1. change (c :: s) with ([] ++ c :: s). constructor; [apply nullable_spec; exact Na|exact H1].
      * intros H. seq_inv H.
        -- apply L_altr. apply IHb. assumption.
        -- apply L_altl. constructor; [apply IHa; assumption|assumption].
    + split.
      * intros H. inversion H as [| | | |a1 b1 s1 s2 A B| | | |]; subst. apply IHa in A.
        change (c :: s1 ++ s2) with ((c :: s1) ++ s2). constructor; assumption.
      * intros H. seq_inv H.
        -- exfalso. match goal with A : Lang a [] |- _ => apply nullable_spec in A; congruence end.
        -- constructor; [apply IHa; assumption|assumption].
  - split.
    + intros H. inversion H; subst; [apply L_altl; apply IHa|apply L_altr; apply IHb]; assumption.
    + intros H. inversion H; subst; [apply L_altl; apply IHa|apply L_altr; apply IHb]; assumption.
  - split.
    + intros H. inversion H as [| | | |a1 b1 s1 s2 A B| | | |]; subst. apply IHa in A.
      change (c :: s1 ++ s2) with ((c :: s1) ++ s2). apply L_star1; assumption.
    + intros H. destruct (star_cons a c s H) as (s1 & s2 & -> & A & B). constructor; [apply IHa; exact A|exact B].
Qed.

Theorem full_spec : forall s r, full r s = true <-> Lang r s.
Proof.
  induction s as [|c s IH]; intros r; cbn [full].
  - apply nullable_spec.
  - rewrite IH. apply deriv_spec.
Qed.
