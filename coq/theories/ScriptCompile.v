(* C13: the ONE bash script that BashScriptExecutor compiles for a Cram document (compile_script in
   src/executors/bash_script_executor.rs): exported environment, then every shell expression as written, each followed by
   an empty line and the `echo` of its divider (also on stderr unless the streams are combined).  Definitions only. *)
From Coq Require Import List NArith Bool.
Import ListNotations.
From SV Require Import Lines Render ScriptExec.
Local Open Scope N_scope.

(* shell_escape::unix::escape 0.1.5 *)
Definition sh_safe (c : N) : bool :=
  ((97 <=? c) && (c <=? 122)) || ((65 <=? c) && (c <=? 90)) || ((48 <=? c) && (c <=? 57))
  || (c =? 45) || (c =? 95) || (c =? 61) || (c =? 47) || (c =? 44) || (c =? 46) || (c =? 43).
Definition sh_escape (s : list N) : list N :=
  match s with
  | _ :: _ => if forallb sh_safe s then s
              else [39] ++ flat_map (fun c => if (c =? 39) || (c =? 33) then [39; 92; c; 39] else [c]) s ++ [39]
  | [] => [39; 39]
  end.

Definition T_EXPORT : list N := [101;120;112;111;114;116;32].          (* export and a space *)
Definition T_ECHO : list N := [101;99;104;111;32;34].                  (* echo, space, double quote *)
Definition T_ECHO2 : list N := [49;62;38;50;32;101;99;104;111;32;34].  (* 1>&2 echo, space, double quote *)
Definition footer (salt : list N) (i : N) : list N := PREFIX ++ salt ++ COLONS ++ dec i ++ [58; 58; 36; 63].   (* ...::$? *)

(* the lines of the script; None: a variable name that would need quoting is rejected *)
Definition export_lines (env : list (list N * list N)) : option (list (list N)) :=
  if forallb (fun kv => text_eqb (sh_escape (fst kv)) (fst kv)) env
  then Some (map (fun kv => T_EXPORT ++ fst kv ++ [61] ++ sh_escape (snd kv)) env) else None.
Fixpoint test_blocks (salt : list N) (combined : bool) (i : N) (exprs : list (list N)) : list (list N) :=
  match exprs with
  | [] => []
  | e :: r => [e; []; T_ECHO ++ footer salt i ++ [34]]
              ++ (if combined then [] else [T_ECHO2 ++ footer salt i ++ [34]])
              ++ test_blocks salt combined (i + 1) r
  end.
Fixpoint script_join (l : list (list N)) : list N := match l with [] => [] | [x] => x | x :: r => x ++ [10] ++ script_join r end.
Definition compile_script (salt : list N) (combined : bool) (env : list (list N * list N)) (exprs : list (list N)) : option (list N) :=
  match exprs with
  | [] => Some []
  | _ => match export_lines env with
         | Some ex => Some (script_join (ex ++ test_blocks salt combined 0 exprs))
         | None => None
         end
  end.
