(* C13: the compiled Cram script can be read back: cutting it at the divider echoes returns every shell expression exactly as
   it was given, in order -- for expressions that do not themselves contain the divider prefix. *)
From Coq Require Import List NArith Lia Bool Arith ZifyBool ZifyNat ZifyN.
Import ListNotations.
From SV Require Import Lines Render RenderProofs ScriptExec ScriptExecProofs ScriptCompile.
Local Open Scope N_scope.

Definition LEAD : list N := [10; 10] ++ T_ECHO.
Definition block_tail (salt : list N) (combined : bool) (i : N) : list N :=
  footer salt i ++ [34] ++ (if combined then [] else [10] ++ T_ECHO2 ++ footer salt i ++ [34]).
Fixpoint strip (p s : list N) : option (list N) :=
  match p, s with
  | [], _ => Some s
  | a :: p', b :: s' => if a =? b then strip p' s' else None
  | _ :: _, [] => None
  end.
(* the reader: the text up to the next divider prefix, less the fixed lead (two line feeds, echo, a quote), is the expression *)
Fixpoint read_blocks (fuel : nat) (salt : list N) (combined : bool) (i : N) (s : list N) : option (list (list N)) :=
  match fuel with
  | O => None
  | S f =>
    match find_sub PREFIX s with
    | None => None
    | Some k =>
      if Nat.ltb k 8 then None
      else if text_eqb (firstn 8 (skipn (k - 8) s)) LEAD then
        match strip (block_tail salt combined i) (skipn k s) with
        | Some [] => Some [firstn (k - 8) s]
        | Some (c :: rest) => if c =? 10 then option_map (cons (firstn (k - 8) s)) (read_blocks f salt combined (i + 1) rest) else None
        | None => None
        end
      else None
    end
  end.

Lemma read_blocks_S : forall f salt combined i s, read_blocks (S f) salt combined i s =
    match find_sub PREFIX s with
    | None => None
    | Some k =>
      if Nat.ltb k 8 then None
      else if text_eqb (firstn 8 (skipn (k - 8) s)) LEAD then
        match strip (block_tail salt combined i) (skipn k s) with
        | Some [] => Some [firstn (k - 8) s]
        | Some (c :: rest) => if c =? 10 then option_map (cons (firstn (k - 8) s)) (read_blocks f salt combined (i + 1) rest) else None
        | None => None
        end
      else None
    end.
Proof. reflexivity. Qed.
Lemma strip_app : forall p s, strip p (p ++ s) = Some s.
Proof. induction p as [|a p IH]; intros s; [reflexivity|]. cbn [app strip]. rewrite N.eqb_refl. apply IH. Qed.

(* the text of the blocks *)
Fixpoint blocks_text (salt : list N) (combined : bool) (i : N) (exprs : list (list N)) : list N :=
  match exprs with
  | [] => []
  | [e] => e ++ LEAD ++ block_tail salt combined i
  | e :: r => e ++ LEAD ++ block_tail salt combined i ++ [10] ++ blocks_text salt combined (i + 1) r
  end.
Lemma script_join_cons : forall x y r, script_join (x :: y :: r) = x ++ [10] ++ script_join (y :: r).
Proof. reflexivity. Qed.
Lemma script_join_app_ne : forall a b, a <> [] -> b <> [] -> script_join (a ++ b) = script_join a ++ [10] ++ script_join b.
Proof.
  induction a as [|x a IH]; intros b Ha Hb; [congruence|]. destruct a as [|y a'].
  - cbn [app]. destruct b as [|z b']; [congruence|]. rewrite script_join_cons. reflexivity.
  - change ((x :: y :: a') ++ b) with (x :: (y :: a') ++ b). destruct ((y :: a') ++ b) as [|z w] eqn:E; [discriminate|].
    rewrite script_join_cons. rewrite <- E. rewrite (IH b ltac:(discriminate) Hb). rewrite script_join_cons. rewrite <- !app_assoc. reflexivity.
Qed.
Lemma script_join_one : forall x, script_join [x] = x.
Proof. reflexivity. Qed.
Lemma block_lines_text : forall (e salt : list N) (combined : bool) (i : N) (tailb : list (list N)),
  script_join ([e; []; T_ECHO ++ footer salt i ++ [34]] ++ (if combined then [] else [T_ECHO2 ++ footer salt i ++ [34]]) ++ tailb)
  = (e ++ LEAD ++ block_tail salt combined i) ++ match tailb with [] => [] | _ => [10] ++ script_join tailb end.
Proof.
  intros e salt combined i tailb. unfold LEAD, block_tail. destruct combined.
  - cbn [app]. destruct tailb as [|z w].
    + rewrite !script_join_cons, script_join_one. repeat first [rewrite <- app_assoc | rewrite app_nil_r | progress cbn [app]]. reflexivity.
    + rewrite !script_join_cons. repeat first [rewrite <- app_assoc | rewrite app_nil_r | progress cbn [app]]. reflexivity.
  - cbn [app]. destruct tailb as [|z w].
    + rewrite !script_join_cons, script_join_one. repeat first [rewrite <- app_assoc | rewrite app_nil_r | progress cbn [app]]. reflexivity.
    + rewrite !script_join_cons. repeat first [rewrite <- app_assoc | rewrite app_nil_r | progress cbn [app]]. reflexivity.
Qed.
Lemma blocks_are_text : forall exprs salt combined i,
  script_join (test_blocks salt combined i exprs) = blocks_text salt combined i exprs.
Proof.
  induction exprs as [|e r IH]; intros salt combined i; [reflexivity|].
  cbn [test_blocks]. rewrite block_lines_text. destruct r as [|e2 r'].
  - cbn [test_blocks blocks_text]. rewrite app_nil_r. reflexivity.
  - assert (NE: exists z w, test_blocks salt combined (i + 1) (e2 :: r') = z :: w) by (cbn [test_blocks app]; eexists; eexists; reflexivity).
    destruct NE as (z & w & E). rewrite E, <- E, (IH salt combined (i + 1)).
    change (blocks_text salt combined i (e :: e2 :: r'))
      with (e ++ LEAD ++ block_tail salt combined i ++ [10] ++ blocks_text salt combined (i + 1) (e2 :: r')).
    rewrite <- !app_assoc. reflexivity.
Qed.

(* the divider prefix does not begin before the footer *)
Lemma starts_cross : forall p a x b, starts p (a ++ x :: b) = true -> (length p <= length a)%nat \/ In x p.
Proof.
  induction p as [|c p IH]; intros a x b H; [left; cbn; lia|].
  destruct a as [|y a'].
  - cbn [app starts] in H. apply andb_true_iff in H. destruct H as [H _]. right. left. lia.
  - cbn [app starts] in H. apply andb_true_iff in H. destruct H as [_ H]. destruct (IH a' x b H) as [L|I]; [left; cbn [length]; lia|right; right; exact I].
Qed.
Lemma find_sub_none_app : forall p a x b, p <> [] -> find_sub p a = None -> find_sub p (x :: b) = None -> ~ In x p ->
  find_sub p (a ++ x :: b) = None.
Proof.
  intros p a x b Hp. induction a as [|c a IH]; intros Ha Hb Hx; [exact Hb|].
  destruct (find_sub_none_cons p c a Ha) as [H1 H2]. cbn [app]. rewrite find_sub_cons.
  destruct (starts p (c :: a ++ x :: b)) eqn:S.
  - exfalso. change (c :: a ++ x :: b) with ((c :: a) ++ x :: b) in S. destruct (starts_cross p (c :: a) x b S) as [L|I]; [|exact (Hx I)].
    change (c :: a ++ x :: b) with ((c :: a) ++ (x :: b)) in S. rewrite starts_long in S by exact L. congruence.
  - rewrite (IH H2 Hb Hx). reflexivity.
Qed.

Lemma footer_prefix : forall salt i, exists t, footer salt i = PREFIX ++ t.
Proof. intros. unfold footer. eexists. reflexivity. Qed.

Lemma find_in_block : forall e salt combined i rest, find_sub PREFIX e = None ->
  find_sub PREFIX (e ++ LEAD ++ block_tail salt combined i ++ rest) = Some (length e + 8)%nat.
Proof.
  intros e salt combined i rest He. unfold block_tail. destruct (footer_prefix salt i) as [t Ht].
  remember ([34] ++ (if combined then [] else [10] ++ T_ECHO2 ++ footer salt i ++ [34])) as X eqn:EX.
  rewrite Ht. rewrite <- !app_assoc. rewrite (app_assoc e LEAD).
  rewrite find_sub_app; [rewrite app_length; reflexivity|exact prefix_borderless|exact prefix_nonempty|].
  unfold LEAD. cbn [app]. apply find_sub_none_app; [exact prefix_nonempty|exact He|vm_compute; reflexivity|].
  vm_compute. intros H. repeat (destruct H as [H|H]; [discriminate|]). exact H.
Qed.

Theorem read_blocks_spec : forall exprs salt combined i, exprs <> [] ->
  Forall (fun e => find_sub PREFIX e = None) exprs ->
  read_blocks (S (length exprs)) salt combined i (script_join (test_blocks salt combined i exprs)) = Some exprs.
Proof.
  intros exprs salt combined i Hne H. rewrite blocks_are_text.
  revert i. induction exprs as [|e r IH]; intros i; [congruence|].
  apply Forall_cons_iff in H. destruct H as [He Hr].
  assert (Cut: forall rest, firstn (length e + 8 - 8) (e ++ LEAD ++ block_tail salt combined i ++ rest) = e
                       /\ firstn 8 (skipn (length e + 8 - 8) (e ++ LEAD ++ block_tail salt combined i ++ rest)) = LEAD
                       /\ skipn (length e + 8) (e ++ LEAD ++ block_tail salt combined i ++ rest) = block_tail salt combined i ++ rest).
  { intros rest. replace (length e + 8 - 8)%nat with (length e) by lia. split; [|split].
    - rewrite firstn_app, Nat.sub_diag, firstn_all. cbn [firstn]. apply app_nil_r.
    - rewrite skipn_app, Nat.sub_diag, skipn_all. cbn [skipn app]. reflexivity.
    - replace (e ++ LEAD ++ block_tail salt combined i ++ rest) with ((e ++ LEAD) ++ block_tail salt combined i ++ rest) by (rewrite <- app_assoc; reflexivity).
      rewrite skipn_app. replace (length e + 8)%nat with (length (e ++ LEAD)) by (rewrite app_length; reflexivity).
      rewrite skipn_all, Nat.sub_diag. reflexivity. }
  destruct r as [|e2 r'].
  - cbn [blocks_text length]. rewrite read_blocks_S.
    pose proof (find_in_block e salt combined i [] He) as F. rewrite !app_nil_r in F. rewrite F.
    assert (L8: Nat.ltb (length e + 8) 8 = false) by (apply Nat.ltb_ge; lia). rewrite L8.
    destruct (Cut []) as (C1 & C2 & C3). rewrite !app_nil_r in C1, C2, C3. rewrite C2, text_eqb_refl, C3, C1.
    replace (block_tail salt combined i) with (block_tail salt combined i ++ []) at 2 by apply app_nil_r.
    rewrite strip_app. reflexivity.
  - change (blocks_text salt combined i (e :: e2 :: r')) with (e ++ LEAD ++ block_tail salt combined i ++ [10] ++ blocks_text salt combined (i + 1) (e2 :: r')).
    change (S (length (e :: e2 :: r'))) with (S (S (length (e2 :: r')))). rewrite read_blocks_S.
    rewrite (find_in_block e salt combined i _ He).
    assert (L8: Nat.ltb (length e + 8) 8 = false) by (apply Nat.ltb_ge; lia). rewrite L8.
    destruct (Cut ([10] ++ blocks_text salt combined (i + 1) (e2 :: r'))) as (C1 & C2 & C3). rewrite C2, text_eqb_refl, C3, C1, strip_app.
    cbn [app]. change (10 =? 10) with true. cbv match.
    rewrite (IH ltac:(discriminate) Hr (i + 1)). reflexivity.
Qed.
