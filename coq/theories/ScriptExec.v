(* C13(c): the divider protocol of BashScriptExecutor (Cram documents: ONE script, the outputs of the test cases separated
   by divider lines `~~~~~~~~EXECDIVIDER::<salt>::<index>::<exit code>`).  Definitions only: parse_divider_bytes,
   iterate_divided_output, and what an ideal bash prints for the compiled script. *)
From Coq Require Import List NArith ZArith Bool Arith.
Import ListNotations.
From SV Require Import Lines Render.
Local Open Scope N_scope.

Notation bytes := (list N) (only parsing).

Definition PREFIX : list N :=
  [126;126;126;126;126;126;126;126;69;88;69;67;68;73;86;73;68;69;82;58;58].       (* ~~~~~~~~EXECDIVIDER:: *)
Definition COLONS : list N := [58; 58].

Fixpoint starts (p l : list N) : bool :=
  match p, l with [], _ => true | a :: p', b :: l' => (a =? b) && starts p' l' | _ :: _, [] => false end.
(* slice::windows(n).position(|w| w == p) *)
Fixpoint find_sub (p l : list N) : option nat :=
  if starts p l then Some O else match l with [] => None | _ :: r => option_map S (find_sub p r) end.

Fixpoint strip_nl_rev (r : list N) : list N := match r with 10 :: t => strip_nl_rev t | _ => r end.
Definition trim_nl (l : list N) : list N := rev (strip_nl_rev (rev l)).              (* BytesNewline::trim_newlines *)

Definition is_digit (c : N) : bool := (48 <=? c) && (c <=? 57).
Definition value (t : list N) : N := fold_left (fun a c => a * 10 + (c - 48)) t 0.
Definition all_digits (t : list N) : bool := match t with [] => false | _ => forallb is_digit t end.
(* str::parse::<usize>() / ::<i32>(): an optional sign, at least one digit, range *)
Definition parse_usize (t : list N) : option N :=
  let d := match t with 43 :: r => r | _ => t end in
  if all_digits d && (value d <? 18446744073709551616) then Some (value d) else None.
Definition parse_i32 (t : list N) : option Z :=
  match t with
  | 45 :: r => if all_digits r && (value r <=? 2147483648) then Some (- Z.of_N (value r))%Z else None
  | 43 :: r => if all_digits r && (value r <? 2147483648) then Some (Z.of_N (value r)) else None
  | _ => if all_digits t && (value t <? 2147483648) then Some (Z.of_N (value t)) else None
  end.

Inductive dsearch := NotFound | Found (prefix : list N) (index : N) (code : Z) | Bad.
Definition parse_divider (line : list N) : dsearch :=
  let line := trim_nl line in
  match find_sub PREFIX line with
  | None => NotFound
  | Some i =>
    let rest := skipn (i + length PREFIX) line in
    match find_sub COLONS rest with
    | None => Bad                                                   (* salt is missing *)
    | Some j =>
      let rest2 := skipn (j + 2) rest in
      match find_sub COLONS rest2 with
      | None => Bad                                                 (* output index is missing *)
      | Some k =>
        match parse_usize (firstn k rest2), parse_i32 (skipn (k + 2) rest2) with
        | Some n, Some c => Found (firstn i line) n c
        | _, _ => Bad
        end
      end
    end
  end.

(* parse_salted_divider_bytes: only a divider that carries the salt of this execution is one -- a line with the prefix and
   another salt is output like any other line *)
Definition parse_salted (salt line : list N) : dsearch :=
  let line := trim_nl line in
  match find_sub (PREFIX ++ salt ++ COLONS) line with
  | None => NotFound
  | Some i =>
    match parse_divider (skipn i line) with
    | Found _ n c => Found (firstn i line) n c
    | NotFound => NotFound
    | Bad => Bad
    end
  end.

(* iterate_divided_output: lines without divider are buffered; a divider line closes the output of test case `expected` *)
Fixpoint iterate (salt : list N) (lines : list (list N)) (buffer : list N) (expected : N) : option (list (list N * Z)) :=
  match lines with
  | [] => Some []                                                   (* what is left in the buffer is dropped *)
  | l :: r =>
    match parse_salted salt l with
    | Bad => None
    | NotFound => iterate salt r (buffer ++ l) expected
    | Found prefix idx code =>
      if idx =? expected then
        match iterate salt r [] (expected + 1) with Some rest => Some ((buffer ++ prefix, code) :: rest) | None => None end
      else None
    end
  end.
Definition split_outputs (salt stream : list N) : option (list (list N * Z)) := iterate salt (split_lines stream) [] 0.

(* finished_testcases: the number of divider lines of this execution in the stream (whatever index they carry; malformed
   ones are not counted) and the first of them that carries the given exit code *)
Fixpoint finished_lines (salt : list N) (code : Z) (lines : list (list N)) (n : N) (first : option N) : N * option N :=
  match lines with
  | [] => (n, first)
  | l :: r =>
    match parse_salted salt l with
    | Found _ _ c =>
      finished_lines salt code r (n + 1) (match first with None => if (c =? code)%Z then Some n else None | Some _ => first end)
    | _ => finished_lines salt code r n first
    end
  end.
Definition finished (salt : list N) (code : Z) (stream : list N) : N * option N :=
  finished_lines salt code (split_lines stream) 0 None.

(* execute_all for a shell that ended by itself with status `exit` (no timeout, not killed): skip, outputs, or an error *)
Inductive sverdict := VSkip (i : N) | VOuts (outs : list (list N * Z)) | VErr.
Fixpoint first_code (code : Z) (outs : list (list N * Z)) (i : N) : option N :=
  match outs with [] => None | (_, c) :: r => if (c =? code)%Z then Some i else first_code code r (i + 1) end.
Definition script_verdict (salt : list N) (skip : Z) (ntests : N) (exit : Z) (stream : list N) : sverdict :=
  match finished salt skip stream with
  | (_, Some i) => VSkip i
  | (fin, None) =>
    if (exit =? skip)%Z && (fin <? ntests) then VSkip 0 else
    match split_outputs salt stream with
    | None => VErr
    | Some outs =>
      match first_code skip outs 0 with
      | Some i => VSkip i
      | None => if N.of_nat (length outs) =? ntests then VOuts outs else VErr
      end
    end
  end.

(* what bash prints on stdout for the compiled script: every payload followed by `echo "<divider>"`, wherever the
   payload ended (so a payload without final newline shares its last line with the divider) *)
Definition divider_line (salt : list N) (i : N) (code : Z) : list N :=
  PREFIX ++ salt ++ COLONS ++ dec i ++ COLONS ++ decz code ++ [10].
Fixpoint ideal (salt : list N) (i : N) (outs : list (list N * Z)) : list N :=
  match outs with [] => [] | (p, c) :: r => p ++ divider_line salt i c ++ ideal salt (i + 1) r end.

(* no self-overlap: PREFIX cannot begin inside an occurrence of itself *)
Definition borderless (p : list N) : bool :=
  forallb (fun m => negb (text_eqb (firstn (length p - m) p) (skipn m p))) (seq 1 (length p - 1)).
