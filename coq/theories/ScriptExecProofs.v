(* C13(c): splitting the ideal output of the compiled Cram script gives back every payload and exit code. *)
From Coq Require Import List NArith ZArith Lia Bool Arith ZifyBool ZifyNat ZifyN.
Import ListNotations.
From SV Require Import Lines Render RenderProofs EnvProofs ScriptExec.
Local Open Scope N_scope.
Ltac Zify.zify_post_hook ::= Z.div_mod_to_equations.

(* ---------- starts / find_sub ---------- *)
Lemma starts_app_self : forall p r, starts p (p ++ r) = true.
Proof. induction p as [|a p IH]; intros r; cbn; [reflexivity|]. rewrite N.eqb_refl. apply IH. Qed.

Lemma starts_long : forall p a b, (length p <= length a)%nat -> starts p (a ++ b) = starts p a.
Proof.
  induction p as [|x p IH]; intros a b H; [destruct a; reflexivity|].
  destruct a as [|y a]; [cbn in H; lia|]. cbn [app starts]. rewrite (IH a b) by (cbn in H; lia). reflexivity.
Qed.

(* p starts t ++ s with t shorter than p: then t is the beginning of p and the rest of p starts s *)
Lemma starts_split : forall t p s, starts p (t ++ s) = true -> (length t <= length p)%nat ->
  t = firstn (length t) p /\ starts (skipn (length t) p) s = true.
Proof.
  induction t as [|c t IH]; intros p s H L; [split; [reflexivity|exact H]|].
  destruct p as [|a p]; [cbn in L; lia|]. cbn [app starts] in H. apply andb_true_iff in H. destruct H as [H1 H2].
  apply N.eqb_eq in H1. subst a. cbn [length firstn skipn]. destruct (IH p s H2) as [E1 E2]; [cbn in L; lia|].
  split; [f_equal; exact E1|exact E2].
Qed.
Lemma starts_prefix_eq : forall q p r, starts q (p ++ r) = true -> (length q <= length p)%nat -> q = firstn (length q) p.
Proof.
  induction q as [|a q IH]; intros p r H L; [reflexivity|].
  destruct p as [|b p]; [cbn in L; lia|]. cbn [app starts] in H. apply andb_true_iff in H. destruct H as [H1 H2].
  apply N.eqb_eq in H1. subst b. cbn [length firstn]. f_equal. apply (IH p r H2). cbn in L. lia.
Qed.

Lemma text_eqb_refl : forall a, text_eqb a a = true.
Proof. intros. apply text_eqb_eq. reflexivity. Qed.

(* the key fact: an occurrence of a borderless pattern cannot begin inside t when t ++ p ++ r follows *)
Lemma no_straddle : forall p t r, borderless p = true -> (0 < length t)%nat -> (length t < length p)%nat ->
  starts p (t ++ p ++ r) = false.
Proof.
  intros p t r Hb H0 HL. destruct (starts p (t ++ p ++ r)) eqn:E; [|reflexivity]. exfalso.
  destruct (starts_split t p (p ++ r) E ltac:(lia)) as [E1 E2].
  assert (E3: skipn (length t) p = firstn (length (skipn (length t) p)) p).
  { apply (starts_prefix_eq _ p r E2). rewrite skipn_length. lia. }
  rewrite skipn_length in E3.
  unfold borderless in Hb. rewrite forallb_forall in Hb.
  specialize (Hb (length t)). rewrite in_seq in Hb. specialize (Hb ltac:(lia)).
  rewrite <- E3, text_eqb_refl in Hb. discriminate.
Qed.

Lemma find_sub_none_cons : forall p c t, find_sub p (c :: t) = None -> starts p (c :: t) = false /\ find_sub p t = None.
Proof.
  intros p c t H. cbn [find_sub] in H. destruct (starts p (c :: t)); [discriminate|].
  destruct (find_sub p t); [discriminate|]. split; reflexivity.
Qed.

Theorem find_sub_app : forall p t r, borderless p = true -> p <> [] -> find_sub p t = None ->
  find_sub p (t ++ p ++ r) = Some (length t).
Proof.
  intros p t r Hb Hp. induction t as [|c t IH]; intros H.
  - cbn [app length]. destruct (p ++ r) eqn:E; cbn [find_sub]; rewrite <- ?E, starts_app_self; reflexivity.
  - destruct (find_sub_none_cons p c t H) as [H1 H2]. cbn [app find_sub].
    assert (S0: starts p (c :: t ++ p ++ r) = false).
    { destruct (le_lt_dec (length p) (length (c :: t))) as [L|L].
      - change (c :: t ++ p ++ r) with ((c :: t) ++ p ++ r). rewrite starts_long by exact L. exact H1.
      - change (c :: t ++ p ++ r) with ((c :: t) ++ p ++ r). apply no_straddle; [exact Hb|cbn; lia|exact L]. }
    rewrite S0. rewrite (IH H2). reflexivity.
Qed.

(* a separator that does not occur at all before it *)
Lemma find_sub_cons : forall p c l, find_sub p (c :: l) = if starts p (c :: l) then Some O else option_map S (find_sub p l).
Proof. reflexivity. Qed.
Lemma find_colons : forall t r, Forall (fun c => c <> 58) t -> find_sub COLONS (t ++ COLONS ++ r) = Some (length t).
Proof.
  induction t as [|c t IH]; intros r H; [reflexivity|].
  inversion H; subst. change ((c :: t) ++ COLONS ++ r) with (c :: (t ++ COLONS ++ r)). rewrite find_sub_cons.
  assert (E: starts COLONS (c :: t ++ COLONS ++ r) = false).
  { unfold COLONS. cbn [starts]. assert (E: (58 =? c) = false) by lia. rewrite E. reflexivity. }
  rewrite E, (IH r H3). reflexivity.
Qed.

(* ---------- numbers ---------- *)
Lemma dec_aux_digits : forall f n acc, Forall (fun c => is_digit c = true) acc -> Forall (fun c => is_digit c = true) (dec_aux f n acc).
Proof.
  induction f as [|f IH]; intros n acc H; cbn [dec_aux]; [exact H|].
  assert (D: is_digit (48 + n mod 10) = true) by (unfold is_digit; lia).
  destruct (n <? 10); [constructor; assumption|]. apply IH. constructor; assumption.
Qed.
Lemma dec_digits : forall n, Forall (fun c => is_digit c = true) (dec n).
Proof. intros. unfold dec. apply dec_aux_digits. constructor. Qed.
Lemma dec_all_digits : forall n, all_digits (dec n) = true.
Proof.
  intros n. unfold all_digits. pose proof (dec_nonempty n) as L. destruct (dec n) as [|c r] eqn:E; [cbn in L; lia|].
  rewrite <- E. apply forallb_forall. intros x Hx. pose proof (dec_digits n) as D. rewrite Forall_forall in D. apply D, Hx.
Qed.
Lemma value_dec : forall n, value (dec n) = n.
Proof. intros. exact (val_dec n). Qed.
Lemma dec_no_colon : forall n, Forall (fun c => c <> 58) (dec n).
Proof.
  intros n. eapply Forall_impl; [|apply dec_digits]. cbn beta. intros c H. unfold is_digit in H. lia.
Qed.
Lemma dec_head_not_sign : forall n, match dec n with 43 :: _ => False | 45 :: _ => False | _ => True end.
Proof.
  intros n. pose proof (dec_digits n) as D. destruct (dec n) as [|c r]; [exact I|]. inversion D; subst. unfold is_digit in H1.
  destruct (N.eq_dec c 43); [lia|]. destruct (N.eq_dec c 45); [lia|].
  destruct c as [|p]; [exact I|]. repeat (destruct p as [p|p|]; try exact I; try lia).
Qed.

Lemma parse_usize_dec : forall n, n < 18446744073709551616 -> parse_usize (dec n) = Some n.
Proof.
  intros n H. unfold parse_usize. pose proof (dec_head_not_sign n) as Hs.
  assert (E: match dec n with 43 :: r => r | _ => dec n end = dec n).
  { destruct (dec n) as [|c r]; [reflexivity|]. destruct (N.eq_dec c 43); [subst; contradiction|].
    destruct c as [|p]; [reflexivity|]. repeat (destruct p as [p|p|]; try reflexivity). contradiction. }
  rewrite E, dec_all_digits, value_dec. replace (n <? 18446744073709551616) with true by lia. reflexivity.
Qed.

Lemma parse_i32_decz : forall c, (- 2147483648 <= c < 2147483648)%Z -> parse_i32 (decz c) = Some c.
Proof.
  intros c H. destruct c as [|p|p]; unfold decz.
  - cbn [Z.to_N]. pose proof (dec_head_not_sign 0) as Hs. unfold parse_i32.
    destruct (dec 0) as [|x r] eqn:E; [pose proof (dec_nonempty 0) as L; rewrite E in L; cbn in L; lia|].
    assert (A: all_digits (x :: r) = true) by (rewrite <- E; apply dec_all_digits).
    assert (V: value (x :: r) = 0) by (rewrite <- E; apply value_dec).
    destruct (N.eq_dec x 45); [subst; contradiction|]. destruct (N.eq_dec x 43); [subst; contradiction|].
    destruct x as [|q]; [rewrite A, V; reflexivity|].
    repeat (destruct q as [q|q|]; try (rewrite A, V; reflexivity)); contradiction.
  - cbn [Z.to_N]. pose proof (dec_head_not_sign (Npos p)) as Hs. unfold parse_i32.
    destruct (dec (Npos p)) as [|x r] eqn:E; [pose proof (dec_nonempty (Npos p)) as L; rewrite E in L; cbn in L; lia|].
    assert (A: all_digits (x :: r) = true) by (rewrite <- E; apply dec_all_digits).
    assert (V: value (x :: r) = Npos p) by (rewrite <- E; apply value_dec).
    assert (R: (Npos p <? 2147483648) = true) by lia.
    destruct (N.eq_dec x 45); [subst; contradiction|]. destruct (N.eq_dec x 43); [subst; contradiction|].
    destruct x as [|q]; [rewrite A, V, R; reflexivity|].
    repeat (destruct q as [q|q|]; try (rewrite A, V, R; reflexivity)); contradiction.
  - unfold parse_i32. rewrite dec_all_digits, value_dec.
    assert (R: (Npos p <=? 2147483648) = true) by lia. rewrite R. reflexivity.
Qed.

(* ---------- substrings ---------- *)
Lemma starts_app_true : forall p b c, starts p b = true -> starts p (b ++ c) = true.
Proof.
  induction p as [|a p IH]; intros b c H; [reflexivity|]. destruct b as [|x b]; [discriminate|].
  cbn [app starts] in *. apply andb_true_iff in H. destruct H as [H1 H2]. rewrite H1. apply IH. exact H2.
Qed.
Lemma find_sub_drop_suffix : forall p b c, p <> [] -> find_sub p (b ++ c) = None -> find_sub p b = None.
Proof.
  intros p b c Hp. induction b as [|x b IH]; intros H.
  - destruct p; [congruence|]. reflexivity.
  - change ((x :: b) ++ c) with (x :: (b ++ c)) in H. destruct (find_sub_none_cons p x (b ++ c) H) as [H1 H2].
    rewrite find_sub_cons. destruct (starts p (x :: b)) eqn:E.
    + apply (starts_app_true p (x :: b) c) in E. change ((x :: b) ++ c) with (x :: b ++ c) in E. congruence.
    + rewrite (IH H2). reflexivity.
Qed.
Lemma find_sub_drop_prefix : forall p a x, find_sub p (a ++ x) = None -> find_sub p x = None.
Proof.
  intros p a x. induction a as [|c a IH]; intros H; [exact H|].
  change ((c :: a) ++ x) with (c :: (a ++ x)) in H. apply find_sub_none_cons in H. apply IH, H.
Qed.
Lemma find_sub_middle : forall p a b c, p <> [] -> find_sub p (a ++ b ++ c) = None -> find_sub p b = None.
Proof. intros p a b c Hp H. apply find_sub_drop_prefix in H. eapply find_sub_drop_suffix; eauto. Qed.

(* ---------- trim_nl ---------- *)
Lemma strip_nl_rev_suffix : forall r, exists ns, r = ns ++ strip_nl_rev r /\ Forall (fun c => c = 10) ns.
Proof.
  induction r as [|c r [ns [E F]]]; [exists []; split; [reflexivity|constructor]|].
  cbn [strip_nl_rev]. destruct (N.eq_dec c 10) as [->|Hc].
  - exists (10 :: ns). split; [cbn; f_equal; exact E|constructor; [reflexivity|exact F]].
  - exists []. assert (E2: strip_nl_rev (c :: r) = c :: r).
    { destruct c as [|q]; [reflexivity|]. repeat (destruct q as [q|q|]; try reflexivity). contradiction. }
    cbn [strip_nl_rev] in E2. rewrite E2. split; [reflexivity|constructor].
Qed.
Lemma trim_nl_prefix : forall l, exists s, l = trim_nl l ++ s.
Proof.
  intros l. unfold trim_nl. destruct (strip_nl_rev_suffix (rev l)) as [ns [E _]].
  exists (rev ns). rewrite <- rev_app_distr, <- E, rev_involutive. reflexivity.
Qed.
Lemma trim_nl_line : forall x, (match rev x with 10 :: _ => False | _ => True end) -> trim_nl (x ++ [10]) = x.
Proof.
  intros x H. unfold trim_nl. rewrite rev_app_distr. cbn [rev app strip_nl_rev].
  destruct (rev x) as [|c r] eqn:E.
  - cbn. apply (f_equal (@rev N)) in E. rewrite rev_involutive in E. subst. reflexivity.
  - assert (E2: strip_nl_rev (c :: r) = c :: r).
    { destruct c as [|q]; [reflexivity|]. repeat (destruct q as [q|q|]; try reflexivity). contradiction. }
    rewrite E2, <- E, rev_involutive. reflexivity.
Qed.

(* ---------- a divider line is recognised, a payload line is not ---------- *)
Definition salt_ok (salt : list N) : Prop := Forall (fun c => c <> 58 /\ c <> 10) salt.
Definition code_ok (c : Z) : Prop := (- 2147483648 <= c < 2147483648)%Z.

Lemma decz_no_colon_nl : forall c, Forall (fun x => x <> 58 /\ x <> 10) (decz c).
Proof.
  intros c. assert (D: forall n, Forall (fun x => x <> 58 /\ x <> 10) (dec n)).
  { intros n. eapply Forall_impl; [|apply dec_digits]. cbn beta. intros x H. unfold is_digit in H. lia. }
  destruct c; unfold decz; [apply D|apply D|constructor; [lia|apply D]].
Qed.
Lemma rev_last_digit : forall c, match rev (decz c) with 10 :: _ => False | _ => True end.
Proof.
  intros c. pose proof (decz_no_colon_nl c) as F. destruct (rev (decz c)) as [|x r] eqn:E; [exact I|].
  assert (In x (decz c)) by (apply in_rev; rewrite E; left; reflexivity).
  rewrite Forall_forall in F. destruct (F x H) as [_ N10].
  destruct x as [|q]; [exact I|]. repeat (destruct q as [q|q|]; try exact I). contradiction.
Qed.

Lemma prefix_nonempty : PREFIX <> [].
Proof. discriminate. Qed.
Lemma prefix_borderless : borderless PREFIX = true.
Proof. vm_compute. reflexivity. Qed.

Lemma parse_divider_line : forall tail salt i c,
  find_sub PREFIX tail = None -> salt_ok salt -> i < 18446744073709551616 -> code_ok c ->
  parse_divider (tail ++ divider_line salt i c) = Found tail i c.
Proof.
  intros tail salt i c Ht Hs Hi Hc. unfold parse_divider, divider_line.
  set (body := PREFIX ++ salt ++ COLONS ++ dec i ++ COLONS ++ decz c).
  assert (T: trim_nl (tail ++ PREFIX ++ salt ++ COLONS ++ dec i ++ COLONS ++ decz c ++ [10]) = tail ++ body).
  { replace (tail ++ PREFIX ++ salt ++ COLONS ++ dec i ++ COLONS ++ decz c ++ [10]) with ((tail ++ body) ++ [10])
      by (unfold body; rewrite <- !app_assoc; reflexivity).
    apply trim_nl_line. unfold body. rewrite !app_assoc. rewrite rev_app_distr.
    pose proof (rev_last_digit c) as R. destruct (rev (decz c)) as [|x r] eqn:E.
    - exfalso. apply (f_equal (@length N)) in E. rewrite rev_length in E. destruct c; unfold decz in E; cbn [length] in E;
        try (pose proof (dec_nonempty (Z.to_N 0)); lia); try (pose proof (dec_nonempty (Z.to_N (Z.pos p))); lia); lia.
    - cbn [app]. exact R. }
  rewrite T. unfold body.
  rewrite (find_sub_app PREFIX tail _ prefix_borderless prefix_nonempty Ht).
  rewrite skipn_app. rewrite skipn_all2 by lia. replace (length tail + length PREFIX - length tail)%nat with (length PREFIX) by lia.
  cbn [app]. rewrite skipn_app, skipn_all, Nat.sub_diag. cbn [skipn app].
  assert (S1: Forall (fun x => x <> 58) salt) by (eapply Forall_impl; [|exact Hs]; cbn; tauto).
  rewrite (find_colons salt _ S1).
  replace (skipn (length salt + 2) (salt ++ COLONS ++ dec i ++ COLONS ++ decz c)) with (dec i ++ COLONS ++ decz c).
  2:{ rewrite skipn_app. rewrite skipn_all2 by lia. replace (length salt + 2 - length salt)%nat with 2%nat by lia. reflexivity. }
  rewrite (find_colons (dec i) _ (dec_no_colon i)).
  rewrite firstn_app, firstn_all, Nat.sub_diag. cbn [firstn]. rewrite app_nil_r.
  replace (skipn (length (dec i) + 2) (dec i ++ COLONS ++ decz c)) with (decz c).
  2:{ rewrite skipn_app. rewrite skipn_all2 by lia. replace (length (dec i) + 2 - length (dec i))%nat with 2%nat by lia. reflexivity. }
  rewrite (parse_usize_dec i Hi), (parse_i32_decz c Hc).
  rewrite firstn_app, firstn_all, Nat.sub_diag. cbn [firstn]. rewrite app_nil_r. reflexivity.
Qed.

Lemma parse_payload_line : forall l, find_sub PREFIX l = None -> parse_divider l = NotFound.
Proof.
  intros l H. unfold parse_divider. destruct (trim_nl_prefix l) as [s E].
  rewrite E in H. apply (find_sub_drop_suffix PREFIX _ s prefix_nonempty) in H. rewrite H. reflexivity.
Qed.

(* ---------- the salted reading ---------- *)
Lemma find_sub_longer_none : forall p q l, find_sub p l = None -> find_sub (p ++ q) l = None.
Proof.
  intros p q. induction l as [|c l IH]; intros H.
  - destruct p as [|a p]; [discriminate|]. reflexivity.
  - destruct (find_sub_none_cons p c l H) as [H1 H2]. rewrite find_sub_cons.
    assert (E: starts (p ++ q) (c :: l) = false).
    { destruct (starts (p ++ q) (c :: l)) eqn:S; [|reflexivity]. exfalso.
      assert (starts p (c :: l) = true); [|congruence].
      clear -S. revert S. generalize (c :: l). induction p as [|a p IHp]; intros l0 S; [reflexivity|].
      destruct l0 as [|x l0]; [discriminate|]. cbn [app starts] in *. apply andb_true_iff in S. destruct S as [S1 S2].
      rewrite S1. apply IHp. exact S2. }
    rewrite E, (IH H2). reflexivity.
Qed.
Lemma find_sub_longer : forall p q l i, find_sub p l = Some i -> starts (p ++ q) (skipn i l) = true -> find_sub (p ++ q) l = Some i.
Proof.
  intros p q. induction l as [|c l IH]; intros i H S.
  - destruct p as [|a p]; [|discriminate]. cbn in H. injection H as <-. cbn [skipn] in S. destruct q; [reflexivity|discriminate].
  - rewrite find_sub_cons in H. rewrite find_sub_cons. destruct (starts p (c :: l)) eqn:Sp.
    + injection H as <-. cbn [skipn] in S. rewrite S. reflexivity.
    + destruct (find_sub p l) as [j|] eqn:F; [|discriminate]. cbn [option_map] in H. injection H as <-. cbn [skipn] in S.
      assert (E: starts (p ++ q) (c :: l) = false).
      { destruct (starts (p ++ q) (c :: l)) eqn:S2; [|reflexivity]. exfalso.
        assert (starts p (c :: l) = true); [|congruence].
        clear -S2. revert S2. generalize (c :: l). induction p as [|a p IHp]; intros l0 S2; [reflexivity|].
        destruct l0 as [|x l0]; [discriminate|]. cbn [app starts] in *. apply andb_true_iff in S2. destruct S2 as [S3 S4].
        rewrite S3. apply IHp. exact S4. }
      rewrite E, (IH j eq_refl S). reflexivity.
Qed.
Lemma trim_nl_fix : forall x, (match rev x with 10 :: _ => False | _ => True end) -> trim_nl x = x.
Proof.
  intros x H. unfold trim_nl. destruct (rev x) as [|c r] eqn:E.
  - apply (f_equal (@rev N)) in E. rewrite rev_involutive in E. subst. reflexivity.
  - assert (S: strip_nl_rev (c :: r) = c :: r).
    { cbn [strip_nl_rev]. destruct c as [|q]; [reflexivity|]. repeat (destruct q as [q|q|]; try reflexivity). contradiction. }
    rewrite S, <- E. apply rev_involutive.
Qed.

Lemma parse_salted_payload : forall salt l, find_sub PREFIX l = None -> parse_salted salt l = NotFound.
Proof.
  intros salt l H. unfold parse_salted. destruct (trim_nl_prefix l) as [s E].
  rewrite E in H. apply (find_sub_drop_suffix PREFIX _ s prefix_nonempty) in H.
  rewrite (find_sub_longer_none PREFIX (salt ++ COLONS) _ H). reflexivity.
Qed.
Lemma parse_salted_line : forall tail salt i c,
  find_sub PREFIX tail = None -> salt_ok salt -> i < 18446744073709551616 -> code_ok c ->
  parse_salted salt (tail ++ divider_line salt i c) = Found tail i c.
Proof.
  intros tail salt i c Ht Hs Hi Hc. unfold parse_salted, divider_line.
  set (body := PREFIX ++ salt ++ COLONS ++ dec i ++ COLONS ++ decz c).
  assert (Rb: match rev body with 10 :: _ => False | _ => True end).
  { unfold body. rewrite !app_assoc. rewrite rev_app_distr.
    pose proof (rev_last_digit c) as R. destruct (rev (decz c)) as [|x r] eqn:E.
    - exfalso. apply (f_equal (@length N)) in E. rewrite rev_length in E. destruct c; unfold decz in E; cbn [length] in E;
        try (pose proof (dec_nonempty (Z.to_N 0)); lia); try (pose proof (dec_nonempty (Z.to_N (Z.pos p))); lia); lia.
    - cbn [app]. exact R. }
  assert (T: trim_nl (tail ++ PREFIX ++ salt ++ COLONS ++ dec i ++ COLONS ++ decz c ++ [10]) = tail ++ body).
  { replace (tail ++ PREFIX ++ salt ++ COLONS ++ dec i ++ COLONS ++ decz c ++ [10]) with ((tail ++ body) ++ [10])
      by (unfold body; rewrite <- !app_assoc; reflexivity).
    apply trim_nl_line. rewrite rev_app_distr. destruct (rev body) as [|x r] eqn:E2; [|exact Rb].
    exfalso. apply (f_equal (@rev N)) in E2. rewrite rev_involutive in E2. unfold body, PREFIX in E2. cbn [app rev] in E2. discriminate. }
  rewrite T.
  assert (F0: find_sub PREFIX (tail ++ body) = Some (length tail)).
  { unfold body. exact (find_sub_app PREFIX tail _ prefix_borderless prefix_nonempty Ht). }
  assert (Sk: skipn (length tail) (tail ++ body) = body).
  { rewrite skipn_app, skipn_all, Nat.sub_diag. reflexivity. }
  rewrite (find_sub_longer PREFIX (salt ++ COLONS) (tail ++ body) (length tail) F0).
  2:{ rewrite Sk. unfold body. rewrite !app_assoc. rewrite <- (app_assoc PREFIX salt COLONS). rewrite <- !app_assoc.
      replace (PREFIX ++ salt ++ COLONS ++ dec i ++ COLONS ++ decz c) with ((PREFIX ++ salt ++ COLONS) ++ dec i ++ COLONS ++ decz c)
        by (rewrite <- !app_assoc; reflexivity).
      apply starts_app_self. }
  rewrite Sk.
  pose proof (parse_divider_line [] salt i c eq_refl Hs Hi Hc) as PD. cbn [app] in PD.
  assert (Eq: parse_divider body = parse_divider (divider_line salt i c)).
  { unfold parse_divider. unfold divider_line.
    replace (PREFIX ++ salt ++ COLONS ++ dec i ++ COLONS ++ decz c ++ [10]) with (body ++ [10]) by (unfold body; rewrite <- !app_assoc; reflexivity).
    rewrite (trim_nl_line body Rb), (trim_nl_fix body Rb). reflexivity. }
  rewrite Eq, PD. rewrite firstn_app, firstn_all, Nat.sub_diag. cbn [firstn]. rewrite app_nil_r. reflexivity.
Qed.

(* ---------- the lines of payload ++ divider line ++ rest ---------- *)
Fixpoint cut (cur : list N) (p : list N) : list (list N) * list N :=
  match p with
  | [] => ([], cur)
  | b :: r => if b =? 10 then let (ls, c) := cut [] r in (rev (b :: cur) :: ls, c) else cut (b :: cur) r
  end.

Lemma split_aux_no_nl : forall d cur rest, Forall (fun x => x <> 10) d ->
  split_aux cur (d ++ 10 :: rest) = (rev cur ++ d ++ [10]) :: split_aux [] rest.
Proof.
  induction d as [|x d IH]; intros cur rest H.
  - cbn [app split_aux]. change (10 =? NL) with true. cbv iota. cbn [rev]. reflexivity.
  - inversion H; subst. cbn [app split_aux]. assert (E: (x =? NL) = false) by (unfold NL; lia). rewrite E.
    rewrite IH by exact H3. cbn [rev]. rewrite <- !app_assoc. reflexivity.
Qed.

Lemma split_aux_cut : forall p cur d rest, Forall (fun x => x <> 10) d ->
  split_aux cur (p ++ d ++ 10 :: rest)
  = fst (cut cur p) ++ (rev (snd (cut cur p)) ++ d ++ [10]) :: split_aux [] rest.
Proof.
  induction p as [|b p IH]; intros cur d rest H.
  - cbn [app cut fst snd]. apply split_aux_no_nl. exact H.
  - cbn [app split_aux cut]. unfold NL, byte in *. destruct (b =? 10) eqn:E.
    + rewrite IH by exact H. destruct (cut [] p) as [ls c]. reflexivity.
    + apply IH. exact H.
Qed.

Lemma cut_concat : forall p cur, concat (fst (cut cur p)) ++ rev (snd (cut cur p)) = rev cur ++ p.
Proof.
  induction p as [|b p IH]; intros cur; cbn [cut].
  - cbn. rewrite app_nil_r. reflexivity.
  - destruct (b =? 10) eqn:E.
    + pose proof (IH []) as H. destruct (cut [] p) as [ls c]. cbn [fst snd concat] in *. rewrite <- app_assoc, H. cbn [rev app].
      rewrite <- app_assoc. reflexivity.
    + rewrite IH. cbn [rev]. rewrite <- app_assoc. reflexivity.
Qed.

(* every complete line, and the unfinished last one, is a piece of rev cur ++ p *)
Lemma cut_pieces : forall p cur, find_sub PREFIX (rev cur ++ p) = None ->
  Forall (fun l => find_sub PREFIX l = None) (fst (cut cur p)) /\ find_sub PREFIX (rev (snd (cut cur p))) = None.
Proof.
  induction p as [|b p IH]; intros cur H; cbn [cut].
  - cbn [fst snd]. rewrite app_nil_r in H. split; [constructor|exact H].
  - destruct (b =? 10) eqn:E.
    + assert (H1: find_sub PREFIX (rev (b :: cur)) = None).
      { cbn [rev]. replace (rev cur ++ b :: p) with ((rev cur ++ [b]) ++ p) in H by (rewrite <- app_assoc; reflexivity).
        eapply find_sub_drop_suffix; [apply prefix_nonempty|exact H]. }
      assert (H2: find_sub PREFIX (rev [] ++ p) = None).
      { cbn [rev app]. replace (rev cur ++ b :: p) with ((rev cur ++ [b]) ++ p) in H by (rewrite <- app_assoc; reflexivity).
        eapply find_sub_drop_prefix; exact H. }
      destruct (IH [] H2) as [F T]. destruct (cut [] p) as [ls c]. cbn [fst snd] in *. split; [constructor; assumption|exact T].
    + apply IH. cbn [rev]. rewrite <- app_assoc. exact H.
Qed.

(* ---------- the loop ---------- *)
Lemma iterate_payload_lines : forall salt ls rest buffer e, Forall (fun l => find_sub PREFIX l = None) ls ->
  iterate salt (ls ++ rest) buffer e = iterate salt rest (buffer ++ concat ls) e.
Proof.
  intros salt. induction ls as [|l ls IH]; intros rest buffer e H; [cbn; rewrite app_nil_r; reflexivity|].
  inversion H; subst. cbn [app iterate]. rewrite (parse_salted_payload salt l H2). rewrite (IH rest (buffer ++ l) e H3).
  cbn [concat]. rewrite <- app_assoc. reflexivity.
Qed.

Definition payload_ok (pc : list N * Z) : Prop := find_sub PREFIX (fst pc) = None /\ code_ok (snd pc).

Theorem split_ideal : forall salt outs i, salt_ok salt -> Forall payload_ok outs ->
  i + N.of_nat (length outs) <= 18446744073709551616 ->
  iterate salt (split_lines (ideal salt i outs)) [] i = Some outs.
Proof.
  intros salt outs. induction outs as [|[p c] r IH]; intros i Hs Ho Hi; [reflexivity|].
  inversion Ho as [|x y [Hp Hc] Hr]; subst. cbn [fst snd] in Hp, Hc.
  cbn [ideal]. unfold split_lines, divider_line.
  set (d := PREFIX ++ salt ++ COLONS ++ dec i ++ COLONS ++ decz c).
  replace (p ++ (PREFIX ++ salt ++ COLONS ++ dec i ++ COLONS ++ decz c ++ [10]) ++ ideal salt (i + 1) r)
    with (p ++ d ++ 10 :: ideal salt (i + 1) r) by (unfold d; rewrite <- !app_assoc; reflexivity).
  assert (Dn: Forall (fun x => x <> 10) d).
  { unfold d. rewrite !Forall_app. repeat split.
    - unfold PREFIX. repeat constructor; discriminate.
    - eapply Forall_impl; [|exact Hs]; cbn; tauto.
    - unfold COLONS. repeat constructor; discriminate.
    - eapply Forall_impl; [|apply dec_digits]. cbn beta. intros x H. unfold is_digit in H. lia.
    - unfold COLONS. repeat constructor; discriminate.
    - eapply Forall_impl; [|apply decz_no_colon_nl]; cbn; tauto. }
  rewrite (split_aux_cut p [] d _ Dn).
  assert (Hp': find_sub PREFIX (rev [] ++ p) = None) by exact Hp.
  destruct (cut_pieces p [] Hp') as [F T].
  rewrite (iterate_payload_lines salt _ _ [] i F). cbn [app iterate].
  assert (Ed: d ++ [10] = divider_line salt i c) by (unfold d, divider_line; rewrite <- !app_assoc; reflexivity).
  rewrite Ed.
  pose proof (parse_salted_line _ salt i c T Hs ltac:(cbn [length] in Hi; lia) Hc) as PD.
  unfold byte in *. rewrite PD.
  rewrite N.eqb_refl. change (split_aux [] (ideal salt (i + 1) r)) with (split_lines (ideal salt (i + 1) r)).
  rewrite (IH (i + 1) Hs Hr ltac:(cbn [length] in Hi; lia)).
  pose proof (cut_concat p []) as C. cbn [rev app] in C. rewrite C. reflexivity.
Qed.
