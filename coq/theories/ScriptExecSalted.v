(* C13(c), stronger form: the divider protocol after the salt is compared (parse_salted_divider_bytes).  A payload may
   hold the divider prefix, even whole divider lines of ANOTHER execution; only the needle `PREFIX ++ salt ++ "::"` of
   this execution must not occur in it.  The string-search argument of ScriptExecProofs is redone for the needle, which
   is not a constant: it has no self-overlap because PREFIX has none and the salt holds neither `~` nor `:`. *)
From Coq Require Import List NArith ZArith Lia Bool Arith ZifyBool ZifyNat ZifyN.
Import ListNotations.
From SV Require Import Lines Render RenderProofs EnvProofs ScriptExec ScriptExecProofs.
Local Open Scope N_scope.
Ltac Zify.zify_post_hook ::= Z.div_mod_to_equations.

Definition needle (salt : list N) : list N := PREFIX ++ salt ++ COLONS.
(* what the salt of an execution is made of: no `:`, no line feed, no `~` (it is alphanumeric in the implementation) *)
Definition salt_plain (salt : list N) : Prop := Forall (fun c => c <> 58 /\ c <> 10 /\ c <> 126) salt.

Lemma salt_plain_ok : forall salt, salt_plain salt -> salt_ok salt.
Proof. intros salt H. eapply Forall_impl; [|exact H]. cbn beta. tauto. Qed.

Definition no_overlap (p : list N) : Prop :=
  forall t r, (0 < length t)%nat -> (length t < length p)%nat -> starts p (t ++ p ++ r) = false.

Theorem find_sub_app_no : forall p t r, no_overlap p -> p <> [] -> find_sub p t = None ->
  find_sub p (t ++ p ++ r) = Some (length t).
Proof.
  intros p t r Hb Hp. induction t as [|c t IH]; intros H.
  - cbn [app length]. destruct (p ++ r) eqn:E; cbn [find_sub]; rewrite <- ?E, starts_app_self; reflexivity.
  - destruct (find_sub_none_cons p c t H) as [H1 H2]. cbn [app find_sub].
    assert (S0: starts p (c :: t ++ p ++ r) = false).
    { destruct (le_lt_dec (length p) (length (c :: t))) as [L|L].
      - change (c :: t ++ p ++ r) with ((c :: t) ++ p ++ r). rewrite starts_long by exact L. exact H1.
      - change (c :: t ++ p ++ r) with ((c :: t) ++ p ++ r). apply Hb; [cbn; lia|exact L]. }
    rewrite S0. rewrite (IH H2). reflexivity.
Qed.

Lemma starts_app_left : forall p q l, starts (p ++ q) l = true -> starts p l = true.
Proof.
  induction p as [|a p IH]; intros q l S; [reflexivity|].
  destruct l as [|x l]; [discriminate|]. cbn [app starts] in *. apply andb_true_iff in S. destruct S as [S1 S2].
  rewrite S1. exact (IH q l S2).
Qed.

Lemma needle_nonempty : forall salt, needle salt <> [].
Proof. intros salt. unfold needle, PREFIX. discriminate. Qed.
Lemma needle_length : forall salt, length (needle salt) = (23 + length salt)%nat.
Proof. intros salt. unfold needle. rewrite !app_length. cbn [length PREFIX COLONS]. lia. Qed.

Theorem needle_no_overlap : forall salt, salt_plain salt -> no_overlap (needle salt).
Proof.
  intros salt Hs t r H0 HL. destruct (starts (needle salt) (t ++ needle salt ++ r)) eqn:E; [|reflexivity]. exfalso.
  rewrite needle_length in HL.
  destruct (le_lt_dec 21 (length t)) as [L|L].
  - (* the occurrence would reach over PREFIX into the salt: a `~` where the salt or `::` stands *)
    destruct (starts_split t (needle salt) (needle salt ++ r) E ltac:(rewrite needle_length; lia)) as [_ E2].
    unfold needle at 1 in E2. rewrite skipn_app in E2. rewrite skipn_all2 in E2 by (cbn [length PREFIX]; lia).
    cbn [app] in E2. change (length PREFIX) with 21%nat in E2.
    destruct (skipn (length t - 21) (salt ++ COLONS)) as [|x s] eqn:Sk.
    + apply (f_equal (@length N)) in Sk. rewrite skipn_length, app_length in Sk. cbn [length COLONS] in Sk. lia.
    + assert (I: In x (salt ++ COLONS)).
      { rewrite <- (firstn_skipn (length t - 21) (salt ++ COLONS)). apply in_or_app. right. rewrite Sk. left. reflexivity. }
      assert (X: x = 126).
      { unfold needle, PREFIX in E2. cbn [app starts] in E2. apply andb_true_iff in E2. destruct E2 as [E3 _]. lia. }
      apply in_app_or in I. destruct I as [I|I].
      * unfold salt_plain in Hs. rewrite Forall_forall in Hs. specialize (Hs x I). lia.
      * unfold COLONS in I. cbn [In] in I. lia.
  - (* the occurrence would begin inside PREFIX: PREFIX has no self-overlap *)
    assert (P: starts PREFIX (t ++ PREFIX ++ (salt ++ COLONS ++ r)) = true).
    { apply (starts_app_left PREFIX (salt ++ COLONS)). unfold needle in E. rewrite <- ?app_assoc in E. rewrite <- ?app_assoc. exact E. }
    rewrite (no_straddle PREFIX t _ prefix_borderless H0 ltac:(cbn [length PREFIX]; lia)) in P. discriminate.
Qed.

(* ---------- lines ---------- *)
Lemma parse_salted_other : forall salt l, find_sub (needle salt) l = None -> parse_salted salt l = NotFound.
Proof.
  intros salt l H. unfold parse_salted. destruct (trim_nl_prefix l) as [s E].
  rewrite E in H. apply (find_sub_drop_suffix (needle salt) _ s (needle_nonempty salt)) in H.
  change (PREFIX ++ salt ++ COLONS) with (needle salt). rewrite H. reflexivity.
Qed.

Lemma parse_salted_line2 : forall tail salt i c,
  find_sub (needle salt) tail = None -> salt_plain salt -> i < 18446744073709551616 -> code_ok c ->
  parse_salted salt (tail ++ divider_line salt i c) = Found tail i c.
Proof.
  intros tail salt i c Ht Hp Hi Hc. pose proof (salt_plain_ok salt Hp) as Hs. unfold parse_salted, divider_line.
  set (body := PREFIX ++ salt ++ COLONS ++ dec i ++ COLONS ++ decz c).
  assert (Rb: match rev body with 10 :: _ => False | _ => True end).
  { unfold body. rewrite !app_assoc. rewrite rev_app_distr.
    pose proof (rev_last_digit c) as R. destruct (rev (decz c)) as [|x r] eqn:E.
    - exfalso. apply (f_equal (@length N)) in E. rewrite rev_length in E. destruct c; unfold decz in E; cbn [length] in E;
        try (pose proof (dec_nonempty (Z.to_N 0)); lia); try (pose proof (dec_nonempty (Z.to_N (Z.pos p))); lia); lia.
    - cbn [app]. exact R. }
  assert (T: trim_nl (tail ++ PREFIX ++ salt ++ COLONS ++ dec i ++ COLONS ++ decz c ++ [10]) = tail ++ body).
  { replace (tail ++ PREFIX ++ salt ++ COLONS ++ dec i ++ COLONS ++ decz c ++ [10]) with ((tail ++ body) ++ [10])
      by (unfold body; rewrite <- !app_assoc; reflexivity).
    apply trim_nl_line. rewrite rev_app_distr. destruct (rev body) as [|x r] eqn:E2; [|exact Rb].
    exfalso. apply (f_equal (@rev N)) in E2. rewrite rev_involutive in E2. unfold body, PREFIX in E2. cbn [app rev] in E2. discriminate. }
  rewrite T.
  assert (Eb: body = needle salt ++ (dec i ++ COLONS ++ decz c)) by (unfold body, needle; rewrite <- !app_assoc; reflexivity).
  change (PREFIX ++ salt ++ COLONS) with (needle salt).
  assert (F0: find_sub (needle salt) (tail ++ body) = Some (length tail)).
  { rewrite Eb. exact (find_sub_app_no (needle salt) tail _ (needle_no_overlap salt Hp) (needle_nonempty salt) Ht). }
  rewrite F0.
  assert (Sk: skipn (length tail) (tail ++ body) = body).
  { rewrite skipn_app, skipn_all, Nat.sub_diag. reflexivity. }
  rewrite Sk.
  pose proof (parse_divider_line [] salt i c eq_refl Hs Hi Hc) as PD. cbn [app] in PD.
  assert (Eq: parse_divider body = parse_divider (divider_line salt i c)).
  { unfold parse_divider. unfold divider_line.
    replace (PREFIX ++ salt ++ COLONS ++ dec i ++ COLONS ++ decz c ++ [10]) with (body ++ [10]) by (unfold body; rewrite <- !app_assoc; reflexivity).
    rewrite (trim_nl_line body Rb), (trim_nl_fix body Rb). reflexivity. }
  rewrite Eq, PD. rewrite firstn_app, firstn_all, Nat.sub_diag. cbn [firstn]. rewrite app_nil_r. reflexivity.
Qed.

(* every complete line, and the unfinished last one, is a piece of rev cur ++ p -- for any pattern *)
Lemma cut_pieces_pat : forall pat, pat <> [] -> forall p cur, find_sub pat (rev cur ++ p) = None ->
  Forall (fun l => find_sub pat l = None) (fst (cut cur p)) /\ find_sub pat (rev (snd (cut cur p))) = None.
Proof.
  intros pat Hpat. induction p as [|b p IH]; intros cur H; cbn [cut].
  - cbn [fst snd]. rewrite app_nil_r in H. split; [constructor|exact H].
  - destruct (b =? 10) eqn:E.
    + assert (H1: find_sub pat (rev (b :: cur)) = None).
      { cbn [rev]. replace (rev cur ++ b :: p) with ((rev cur ++ [b]) ++ p) in H by (rewrite <- app_assoc; reflexivity).
        eapply find_sub_drop_suffix; [exact Hpat|exact H]. }
      assert (H2: find_sub pat (rev [] ++ p) = None).
      { cbn [rev app]. replace (rev cur ++ b :: p) with ((rev cur ++ [b]) ++ p) in H by (rewrite <- app_assoc; reflexivity).
        eapply find_sub_drop_prefix; exact H. }
      destruct (IH [] H2) as [F T]. destruct (cut [] p) as [ls c]. cbn [fst snd] in *. split; [constructor; assumption|exact T].
    + apply IH. cbn [rev]. rewrite <- app_assoc. exact H.
Qed.

Lemma iterate_other_lines : forall salt ls rest buffer e, Forall (fun l => find_sub (needle salt) l = None) ls ->
  iterate salt (ls ++ rest) buffer e = iterate salt rest (buffer ++ concat ls) e.
Proof.
  intros salt. induction ls as [|l ls IH]; intros rest buffer e H; [cbn; rewrite app_nil_r; reflexivity|].
  inversion H; subst. cbn [app iterate]. rewrite (parse_salted_other salt l H2). rewrite (IH rest (buffer ++ l) e H3).
  cbn [concat]. rewrite <- app_assoc. reflexivity.
Qed.

(* a payload of this execution: free of the needle only *)
Definition payload_salted (salt : list N) (pc : list N * Z) : Prop := find_sub (needle salt) (fst pc) = None /\ code_ok (snd pc).

Lemma payload_ok_salted : forall salt pc, payload_ok pc -> payload_salted salt pc.
Proof. intros salt pc [H1 H2]. split; [exact (find_sub_longer_none PREFIX (salt ++ COLONS) _ H1)|exact H2]. Qed.

Theorem split_ideal_salted : forall salt outs i, salt_plain salt -> Forall (payload_salted salt) outs ->
  i + N.of_nat (length outs) <= 18446744073709551616 ->
  iterate salt (split_lines (ideal salt i outs)) [] i = Some outs.
Proof.
  intros salt outs. induction outs as [|[p c] r IH]; intros i Hs Ho Hi; [reflexivity|].
  inversion Ho as [|x y [Hp Hc] Hr]; subst. cbn [fst snd] in Hp, Hc.
  cbn [ideal]. unfold split_lines, divider_line.
  set (d := PREFIX ++ salt ++ COLONS ++ dec i ++ COLONS ++ decz c).
  replace (p ++ (PREFIX ++ salt ++ COLONS ++ dec i ++ COLONS ++ decz c ++ [10]) ++ ideal salt (i + 1) r)
    with (p ++ d ++ 10 :: ideal salt (i + 1) r) by (unfold d; rewrite <- !app_assoc; reflexivity).
  assert (Dn: Forall (fun x => x <> 10) d).
  { unfold d. rewrite !Forall_app. repeat split.
    - unfold PREFIX. repeat constructor; discriminate.
    - eapply Forall_impl; [|exact Hs]; cbn; tauto.
    - unfold COLONS. repeat constructor; discriminate.
    - eapply Forall_impl; [|apply dec_digits]. cbn beta. intros x H. unfold is_digit in H. lia.
    - unfold COLONS. repeat constructor; discriminate.
    - eapply Forall_impl; [|apply decz_no_colon_nl]; cbn; tauto. }
  rewrite (split_aux_cut p [] d _ Dn).
  assert (Hp': find_sub (needle salt) (rev [] ++ p) = None) by exact Hp.
  destruct (cut_pieces_pat (needle salt) (needle_nonempty salt) p [] Hp') as [F T].
  rewrite (iterate_other_lines salt _ _ [] i F). cbn [app iterate].
  assert (Ed: d ++ [10] = divider_line salt i c) by (unfold d, divider_line; rewrite <- !app_assoc; reflexivity).
  rewrite Ed.
  pose proof (parse_salted_line2 _ salt i c T Hs ltac:(cbn [length] in Hi; lia) Hc) as PD.
  unfold byte in *. rewrite PD.
  rewrite N.eqb_refl. change (split_aux [] (ideal salt (i + 1) r)) with (split_lines (ideal salt (i + 1) r)).
  rewrite (IH (i + 1) Hs Hr ltac:(cbn [length] in Hi; lia)).
  pose proof (cut_concat p []) as C. cbn [rev app] in C. rewrite C. reflexivity.
Qed.

(* not vacuous, and strictly more than split_ideal: the first payload holds a whole divider line of another execution
   (salt `zz`), which split_ideal's premise excludes; it comes back as output *)
Definition other_divider : list N := PREFIX ++ [122; 122] ++ COLONS ++ [48] ++ COLONS ++ [48; 10].
Example salted_example :
  let salt := [97; 98; 99] in
  let outs := [([104; 105; 10] ++ other_divider ++ [120], 0%Z); ([], 3%Z)] in
  salt_plain salt /\ Forall (payload_salted salt) outs /\ ~ payload_ok (hd ([], 0%Z) outs)
  /\ split_outputs salt (ideal salt 0 outs) = Some outs.
Proof.
  cbv zeta. split; [|split; [|split]].
  - unfold salt_plain. repeat constructor; discriminate.
  - constructor; [|constructor; [|constructor]]; (split; [vm_compute; reflexivity|unfold code_ok; cbn [snd]; lia]).
  - intros [H _]. vm_compute in H. discriminate.
  - vm_compute. reflexivity.
Qed.

Lemma split_aux_pieces : forall pat, pat <> [] -> forall bs cur, find_sub pat (rev cur ++ bs) = None ->
  Forall (fun l => find_sub pat l = None) (split_aux cur bs).
Proof.
  intros pat Hpat. induction bs as [|b r IH]; intros cur H; cbn [split_aux].
  - rewrite app_nil_r in H. destruct cur as [|c cur']; [constructor|]. constructor; [exact H|constructor].
  - replace (rev cur ++ b :: r) with ((rev cur ++ [b]) ++ r) in H by (rewrite <- app_assoc; reflexivity).
    destruct (b =? NL).
    + constructor.
      * cbn [rev]. eapply find_sub_drop_suffix; [exact Hpat|exact H].
      * apply IH. cbn [rev app]. eapply find_sub_drop_prefix; exact H.
    + apply IH. cbn [rev]. exact H.
Qed.

(* ---------- finished_testcases on the ideal stream: as many as there are test cases, and the first with the code ---------- *)
Lemma finished_other_lines : forall salt code ls rest n first, Forall (fun l => find_sub (needle salt) l = None) ls ->
  finished_lines salt code (ls ++ rest) n first = finished_lines salt code rest n first.
Proof.
  intros salt code. induction ls as [|l ls IH]; intros rest n first H; [reflexivity|].
  inversion H; subst. cbn [app finished_lines]. rewrite (parse_salted_other salt l H2). apply IH. exact H3.
Qed.

Theorem finished_ideal_gen : forall salt code outs i n first, salt_plain salt -> Forall (payload_salted salt) outs ->
  i + N.of_nat (length outs) <= 18446744073709551616 ->
  finished_lines salt code (split_lines (ideal salt i outs)) n first
  = (n + N.of_nat (length outs), match first with Some f => Some f | None => first_code code outs n end).
Proof.
  intros salt code outs. induction outs as [|[p c] r IH]; intros i n first Hs Ho Hi.
  - cbn [ideal length first_code]. cbn. rewrite N.add_0_r. destruct first; reflexivity.
  - inversion Ho as [|x y [Hp Hc] Hr]; subst. cbn [fst snd] in Hp, Hc.
    cbn [ideal]. unfold split_lines, divider_line.
    set (d := PREFIX ++ salt ++ COLONS ++ dec i ++ COLONS ++ decz c).
    replace (p ++ (PREFIX ++ salt ++ COLONS ++ dec i ++ COLONS ++ decz c ++ [10]) ++ ideal salt (i + 1) r)
      with (p ++ d ++ 10 :: ideal salt (i + 1) r) by (unfold d; rewrite <- !app_assoc; reflexivity).
    assert (Dn: Forall (fun x => x <> 10) d).
    { unfold d. rewrite !Forall_app. repeat split.
      - unfold PREFIX. repeat constructor; discriminate.
      - eapply Forall_impl; [|exact Hs]; cbn; tauto.
      - unfold COLONS. repeat constructor; discriminate.
      - eapply Forall_impl; [|apply dec_digits]. cbn beta. intros x H. unfold is_digit in H. lia.
      - unfold COLONS. repeat constructor; discriminate.
      - eapply Forall_impl; [|apply decz_no_colon_nl]; cbn; tauto. }
    rewrite (split_aux_cut p [] d _ Dn).
    assert (Hp': find_sub (needle salt) (rev [] ++ p) = None) by exact Hp.
    destruct (cut_pieces_pat (needle salt) (needle_nonempty salt) p [] Hp') as [F T].
    rewrite (finished_other_lines salt code _ _ n first F). cbn [finished_lines].
    assert (Ed: d ++ [10] = divider_line salt i c) by (unfold d, divider_line; rewrite <- !app_assoc; reflexivity).
    rewrite Ed.
    pose proof (parse_salted_line2 _ salt i c T Hs ltac:(cbn [length] in Hi; lia) Hc) as PD.
    unfold byte in *. rewrite PD.
    change (split_aux [] (ideal salt (i + 1) r)) with (split_lines (ideal salt (i + 1) r)).
    rewrite (IH (i + 1) (n + 1) _ Hs Hr ltac:(cbn [length] in Hi; lia)).
    f_equal; [cbn [length]; lia|].
    cbn [first_code]. destruct first as [f|]; [reflexivity|]. destruct (c =? code)%Z; reflexivity.
Qed.

Theorem finished_ideal : forall salt code outs, salt_plain salt -> Forall (payload_salted salt) outs ->
  N.of_nat (length outs) <= 18446744073709551616 ->
  finished salt code (ideal salt 0 outs) = (N.of_nat (length outs), first_code code outs 0).
Proof.
  intros salt code outs Hs Ho Hi. unfold finished. rewrite (finished_ideal_gen salt code outs 0 0 None Hs Ho ltac:(lia)).
  f_equal.
Qed.

(* the whole decision for a script that ran to its end: the document is skipped exactly when a test case ended in the
   skip code -- at the first such test case -- and otherwise every test case gets its own output and exit code; the exit
   status of the shell itself does not matter then (every test case printed its divider) *)
Theorem script_verdict_ideal : forall salt skip exit outs, salt_plain salt -> Forall (payload_salted salt) outs ->
  N.of_nat (length outs) <= 18446744073709551616 ->
  script_verdict salt skip (N.of_nat (length outs)) exit (ideal salt 0 outs)
  = match first_code skip outs 0 with Some i => VSkip i | None => VOuts outs end.
Proof.
  intros salt skip exit outs Hs Ho Hi. unfold script_verdict. rewrite (finished_ideal salt skip outs Hs Ho Hi).
  destruct (first_code skip outs 0) as [k|] eqn:E; [reflexivity|].
  rewrite N.ltb_irrefl, andb_false_r. unfold split_outputs.
  rewrite (split_ideal_salted salt outs 0 Hs Ho ltac:(lia)). rewrite E, N.eqb_refl. reflexivity.
Qed.

(* the script was left early (`exit <skip code>` in test case k): the dividers of the test cases before it are there, its
   own is not; the document is skipped -- at an earlier test case that ended in the skip code if there is one *)
Theorem script_verdict_left_early : forall salt skip outs partial ntests, salt_plain salt -> Forall (payload_salted salt) outs ->
  find_sub (needle salt) partial = None ->
  N.of_nat (length outs) < ntests -> ntests <= 18446744073709551616 ->
  exists k, script_verdict salt skip ntests skip (ideal salt 0 outs ++ partial) = VSkip k
            /\ (first_code skip outs 0 = None -> k = 0) /\ (forall j, first_code skip outs 0 = Some j -> k = j).
Proof.
  intros salt skip outs partial ntests Hs Ho Hpart Hn Hmax.
  assert (Fin: finished salt skip (ideal salt 0 outs ++ partial) = (N.of_nat (length outs), first_code skip outs 0)).
  { (* the partial output adds lines without the needle after the last divider line *)
    unfold finished.
    assert (G: forall outs i n first, Forall (payload_salted salt) outs -> i + N.of_nat (length outs) <= 18446744073709551616 ->
      finished_lines salt skip (split_lines (ideal salt i outs ++ partial)) n first
      = (n + N.of_nat (length outs), match first with Some f => Some f | None => first_code skip outs n end)).
    { clear outs Ho Hn. induction outs as [|[p c] r IH]; intros i n first Ho Hi.
      - cbn [ideal app length first_code N.of_nat].
        pose proof (split_aux_pieces (needle salt) (needle_nonempty salt) partial [] Hpart) as L.
        change (split_aux [] partial) with (split_lines partial) in L.
        pose proof (finished_other_lines salt skip _ [] n first L) as FO. rewrite app_nil_r in FO.
        unfold byte in *. rewrite FO.
        cbn [finished_lines]. rewrite N.add_0_r. destruct first; reflexivity.
      - inversion Ho as [|x y [Hp Hc] Hr]; subst. cbn [fst snd] in Hp, Hc.
        cbn [ideal]. unfold split_lines, divider_line.
        set (d := PREFIX ++ salt ++ COLONS ++ dec i ++ COLONS ++ decz c).
        replace ((p ++ (PREFIX ++ salt ++ COLONS ++ dec i ++ COLONS ++ decz c ++ [10]) ++ ideal salt (i + 1) r) ++ partial)
          with (p ++ d ++ 10 :: (ideal salt (i + 1) r ++ partial)) by (unfold d; rewrite <- !app_assoc; reflexivity).
        assert (Dn: Forall (fun x => x <> 10) d).
        { unfold d. rewrite !Forall_app. repeat split.
          - unfold PREFIX. repeat constructor; discriminate.
          - eapply Forall_impl; [|exact Hs]; cbn; tauto.
          - unfold COLONS. repeat constructor; discriminate.
          - eapply Forall_impl; [|apply dec_digits]. cbn beta. intros x H. unfold is_digit in H. lia.
          - unfold COLONS. repeat constructor; discriminate.
          - eapply Forall_impl; [|apply decz_no_colon_nl]; cbn; tauto. }
        rewrite (split_aux_cut p [] d _ Dn).
        assert (Hp': find_sub (needle salt) (rev [] ++ p) = None) by exact Hp.
        destruct (cut_pieces_pat (needle salt) (needle_nonempty salt) p [] Hp') as [F T].
        rewrite (finished_other_lines salt skip _ _ n first F). cbn [finished_lines].
        assert (Ed: d ++ [10] = divider_line salt i c) by (unfold d, divider_line; rewrite <- !app_assoc; reflexivity).
        rewrite Ed.
        pose proof (parse_salted_line2 _ salt i c T Hs ltac:(cbn [length] in Hi; lia) Hc) as PD.
        unfold byte in *. rewrite PD.
        change (split_aux [] (ideal salt (i + 1) r ++ partial)) with (split_lines (ideal salt (i + 1) r ++ partial)).
        rewrite (IH (i + 1) (n + 1) _ Hr ltac:(cbn [length] in Hi; lia)).
        f_equal; [cbn [length]; lia|].
        cbn [first_code]. destruct first as [f|]; [reflexivity|]. destruct (c =? skip)%Z; reflexivity. }
    rewrite (G outs 0 0 None Ho ltac:(lia)). f_equal. }
  unfold script_verdict. rewrite Fin. destruct (first_code skip outs 0) as [j|] eqn:E.
  - exists j. split; [reflexivity|]. split; [discriminate|]. intros j0 H. injection H as <-. reflexivity.
  - exists 0. rewrite Z.eqb_refl. assert (L: (N.of_nat (length outs) <? ntests) = true) by lia. rewrite L.
    split; [reflexivity|]. split; [reflexivity|discriminate].
Qed.
