(* C15, Cram: the byte-level decision of BashScriptExecutor (ScriptExec.script_verdict, what execute_all does with the
   bytes the script printed) refines the state machine the C15 theorems are stated over (Exec.exec_script2, per-test
   exit codes): for the stream of a script that ran to its end both say the same. *)
From Coq Require Import List NArith ZArith Lia Bool Arith ZifyBool ZifyNat ZifyN.
Import ListNotations.
From SV Require Import Lines Exec ScriptExec ScriptExecProofs ScriptExecSalted.
Local Open Scope N_scope.

Section Refine.
Variable okf : list N -> bool.          (* whether the matcher accepts an output: irrelevant for the decision *)
Definition abs_out (pc : list N * Z) : rstep := {| status := Code (snd pc); out_ok := okf (fst pc) |}.

Lemma before_stop_codes : forall outs, before_stop (map abs_out outs) = map abs_out outs.
Proof. induction outs as [|pc r IH]; [reflexivity|]. cbn [map before_stop abs_out status]. rewrite IH. reflexivity. Qed.
Lemma first_stop_codes : forall outs, script_first_stop (map abs_out outs) = None.
Proof. induction outs as [|pc r IH]; [reflexivity|]. cbn [map script_first_stop abs_out status]. exact IH. Qed.
Lemma find_skip_first_code : forall skip outs k,
  find_skip skip (map abs_out outs) k = option_map N.to_nat (first_code skip outs (N.of_nat k)).
Proof.
  intros skip. induction outs as [|[p c] r IH]; intros k; [reflexivity|].
  cbn [map find_skip abs_out status snd first_code]. destruct (c =? skip)%Z.
  - cbn [option_map]. rewrite Nat2N.id. reflexivity.
  - rewrite IH. replace (N.of_nat (S k)) with (N.of_nat k + 1) by lia. reflexivity.
Qed.

Theorem script_verdict_refines : forall salt skip exit outs, salt_plain salt -> Forall (payload_salted salt) outs ->
  N.of_nat (length outs) <= 18446744073709551616 ->
  match script_verdict salt skip (N.of_nat (length outs)) exit (ideal salt 0 outs) with
  | VSkip i => exec_script2 skip (map abs_out outs) None = ExSkipped (N.to_nat i)
  | VOuts o => o = outs /\ exec_script2 skip (map abs_out outs) None = ExOk (map abs_out outs)
  | VErr => False
  end.
Proof.
  intros salt skip exit outs Hs Ho Hi. rewrite (script_verdict_ideal salt skip exit outs Hs Ho Hi).
  unfold exec_script2, produced. rewrite before_stop_codes, (find_skip_first_code skip outs 0). cbn [N.of_nat].
  destruct (first_code skip outs 0) as [i|]; cbn [option_map]; [reflexivity|].
  rewrite first_stop_codes. split; reflexivity.
Qed.
End Refine.
