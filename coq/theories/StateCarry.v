(* C12: the carrier protocol of BashRunner / StatefulExecutor.  Definitions only.
   Each test case runs in a fresh bash process: the script sources the state file the previous one wrote (options,
   aliases, functions, variables, directory and directory stack) and, unless the test case is detached, an EXIT trap
   writes the file anew, leaving out read-only variables and the excluded names (regenerated from bash_runner.rs).
   What bash does with a snippet is a parameter (step); what is modelled is what is written, what is left out, what a
   fresh process starts from and in which order things are restored. *)
From Coq Require Import List NArith Bool.
Import ListNotations.
From SV Require Import gen_Template Render.
Local Open Scope N_scope.

Notation text := (list N) (only parsing).

Record var := mkVar { v_value : text; v_exported : bool; v_readonly : bool; v_attrs : text }.
Definition assoc (A : Type) := list (text * A).
Fixpoint lookup {A} (n : text) (m : assoc A) : option A :=
  match m with [] => None | (k, v) :: r => if text_eqb n k then Some v else lookup n r end.

Record shell := mkSh {
  vars : assoc var; funs : assoc text; aliases : assoc text; opts : assoc bool; cwd : text; dstack : list text }.

Fixpoint name_mem (n : text) (l : list text) : bool := match l with [] => false | x :: r => text_eqb n x || name_mem n r end.
Definition excluded (n : text) : bool := name_mem n excluded_names.

(* the two `grep -Ev` filters over `declare -p`: no read-only variable, no excluded name (whole names, not prefixes) *)
Definition keep_var (nv : text * var) : bool := negb (v_readonly (snd nv)) && negb (excluded (fst nv)).
Definition persisted_names (all readonly_ : list text) : list text :=
  filter (fun n => negb (name_mem n readonly_) && negb (excluded n)) all.

Record dump := mkDump {
  du_opts : assoc bool; du_aliases : assoc text; du_funs : assoc text; du_vars : assoc var; du_cwd : text; du_dstack : list text }.
Definition persist (s : shell) : dump :=
  mkDump (opts s) (aliases s) (funs s) (filter keep_var (vars s)) (cwd s) (dstack s).

(* a fresh process ([boot]: the inherited environment, bash's own variables, default options, the work directory)
   sources the dump: `declare` re-creates or overwrites, nothing is ever unset *)
Definition restore (boot : shell) (d : dump) : shell :=
  mkSh (du_vars d ++ vars boot) (du_funs d) (du_aliases d) (du_opts d ++ opts boot) (du_cwd d) (du_dstack d).

(* what a test case can observe: everything but the excluded variables *)
Definition veq (a b : shell) : Prop :=
  (forall n, excluded n = false -> lookup n (vars a) = lookup n (vars b))
  /\ (forall n, lookup n (funs a) = lookup n (funs b))
  /\ (forall n, lookup n (aliases a) = lookup n (aliases b))
  /\ (forall n, lookup n (opts a) = lookup n (opts b))
  /\ cwd a = cwd b /\ dstack a = dstack b.

(* a state the carrier is transparent for: no visible read-only variable, and nothing the fresh process defines by itself
   (inherited environment, IFS, ...) has been unset *)
Definition carriable (boot s : shell) : Prop :=
  (forall n v, excluded n = false -> lookup n (vars s) = Some v -> v_readonly v = false)
  /\ (forall n, excluded n = false -> lookup n (vars boot) <> None -> lookup n (vars s) <> None)
  /\ (forall n, lookup n (opts boot) <> None -> lookup n (opts s) <> None).

Section Run.
Variables snippet out : Type.
Variable step : snippet -> shell -> shell * out.        (* bash *)
Variable boot : shell.

(* StatefulExecutor::execute_all: one process per test case, the state file in between; detached: persist_state = 0 *)
Fixpoint per_process (file : option dump) (h : list (snippet * bool)) : list (option out) :=
  match h with
  | [] => []
  | (c, detached) :: r =>
    let s0 := match file with Some d => restore boot d | None => boot end in
    let so := step c s0 in
    (if detached then None else Some (snd so)) :: per_process (if detached then file else Some (persist (fst so))) r
  end.
(* the same snippets typed into one session (a detached one in a subshell) *)
Fixpoint session (s : shell) (h : list (snippet * bool)) : list (option out) :=
  match h with
  | [] => []
  | (c, detached) :: r =>
    let so := step c s in
    (if detached then None else Some (snd so)) :: session (if detached then s else fst so) r
  end.
Fixpoint transparent (s : shell) (h : list (snippet * bool)) : Prop :=
  match h with
  | [] => True
  | (c, detached) :: r => if detached then transparent s r else carriable boot (fst (step c s)) /\ transparent (fst (step c s)) r
  end.
End Run.
