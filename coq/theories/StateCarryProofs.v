(* C12: proofs about the carrier protocol. *)
From Coq Require Import List NArith Bool.
Import ListNotations.
From SV Require Import gen_Template Render EnvProofs StateCarry.
Local Open Scope N_scope.

Lemma lookup_app {A} : forall n (a b : assoc A),
  lookup n (a ++ b) = match lookup n a with Some v => Some v | None => lookup n b end.
Proof.
  intros n a b. induction a as [|[k v] r IH]; cbn [lookup app]; [reflexivity|].
  destruct (text_eqb n k); [reflexivity|exact IH].
Qed.

(* a visible name whose binding is not read-only is found among the persisted variables with the same binding *)
Lemma lookup_persisted : forall n (m : assoc var) v, excluded n = false ->
  lookup n m = Some v -> v_readonly v = false -> lookup n (filter keep_var m) = Some v.
Proof.
  intros n m v He. induction m as [|[k w] r IH]; intros H Hr; cbn [lookup] in H; [discriminate|].
  cbn [filter]. destruct (text_eqb n k) eqn:E.
  - inversion H; subst w. apply text_eqb_eq in E. subst k.
    unfold keep_var at 1. cbn [fst snd]. rewrite Hr, He. cbn [negb andb lookup].
    assert (R: text_eqb n n = true) by (apply text_eqb_eq; reflexivity). rewrite R. reflexivity.
  - destruct (keep_var (k, w)); [cbn [lookup]; rewrite E|]; apply IH; assumption.
Qed.
(* a name that is not bound is not bound among the persisted variables either *)
Lemma lookup_persisted_none : forall n (m : assoc var), lookup n m = None -> lookup n (filter keep_var m) = None.
Proof.
  intros n m. induction m as [|[k w] r IH]; intros H; cbn [lookup] in H; [reflexivity|].
  cbn [filter]. destruct (text_eqb n k) eqn:E; [discriminate|].
  destruct (keep_var (k, w)); [cbn [lookup]; rewrite E|]; apply IH; assumption.
Qed.

(* the heart of the carrier: a fresh process that sources what a carriable state persisted sees that very state *)
Theorem restore_persist : forall boot s, carriable boot s -> veq (restore boot (persist s)) s.
Proof.
  intros boot s [H1 [H2 H3]]. unfold veq, restore, persist. cbn [vars funs aliases opts cwd dstack du_vars du_funs du_aliases du_opts du_cwd du_dstack].
  split; [|split; [|split; [|split; [|split]]]]; try reflexivity.
  - intros n He. rewrite lookup_app. destruct (lookup n (vars s)) as [v|] eqn:E.
    + rewrite (lookup_persisted n (vars s) v He E (H1 n v He E)). reflexivity.
    + rewrite (lookup_persisted_none n (vars s) E).
      destruct (lookup n (vars boot)) eqn:Eb; [|reflexivity]. exfalso. apply (H2 n He); [rewrite Eb; discriminate|exact E].
  - intros n. rewrite lookup_app. destruct (lookup n (opts s)) eqn:E; [reflexivity|].
    destruct (lookup n (opts boot)) eqn:Eb; [|reflexivity]. exfalso. apply (H3 n); [rewrite Eb; discriminate|exact E].
Qed.

Lemma veq_refl : forall s, veq s s.
Proof. intros s. unfold veq. repeat split; reflexivity. Qed.
Lemma veq_trans : forall a b c, veq a b -> veq b c -> veq a c.
Proof.
  intros a b c [A1 [A2 [A3 [A4 [A5 A6]]]]] [B1 [B2 [B3 [B4 [B5 B6]]]]]. unfold veq.
  split; [intros n H; rewrite A1, B1; auto|]. split; [intros n; rewrite A2, B2; reflexivity|].
  split; [intros n; rewrite A3, B3; reflexivity|]. split; [intros n; rewrite A4, B4; reflexivity|].
  split; congruence.
Qed.
Lemma veq_sym : forall a b, veq a b -> veq b a.
Proof.
  intros a b [A1 [A2 [A3 [A4 [A5 A6]]]]]. unfold veq.
  split; [intros n H; rewrite A1; auto|]. split; [intros n; rewrite A2; reflexivity|].
  split; [intros n; rewrite A3; reflexivity|]. split; [intros n; rewrite A4; reflexivity|]. split; congruence.
Qed.
Lemma carriable_veq : forall boot a b, veq a b -> carriable boot b -> carriable boot a.
Proof.
  intros boot a b [A1 [_ [_ [A4 _]]]] [H1 [H2 H3]]. split; [|split].
  - intros n v He Hl. rewrite A1 in Hl by exact He. eapply H1; eauto.
  - intros n He Hb. rewrite A1 by exact He. apply H2; assumption.
  - intros n Hb. rewrite A4. apply H3; assumption.
Qed.

Section Run.
Variables snippet out : Type.
Variable step : snippet -> shell -> shell * out.
Variable boot : shell.
(* bash does not let a snippet observe the excluded variables (they are bash's own, or scrut's) *)
Hypothesis step_veq : forall c s1 s2, veq s1 s2 -> veq (fst (step c s1)) (fst (step c s2)) /\ snd (step c s1) = snd (step c s2).

Lemma carry_from : forall h file s,
  veq (match file with Some d => restore boot d | None => boot end) s ->
  transparent snippet out step boot s h ->
  per_process snippet out step boot file h = session snippet out step s h.
Proof.
  induction h as [|[c det] r IH]; intros file s Hv Ht; [reflexivity|].
  cbn [per_process session transparent] in *.
  destruct (step_veq c _ _ Hv) as [Hs Ho].
  destruct det.
  - f_equal. apply IH; assumption.
  - destruct Ht as [Hc Ht]. rewrite Ho. f_equal. apply IH; [|exact Ht].
    cbn [fst]. eapply veq_trans; [|exact Hs].
    apply restore_persist. eapply carriable_veq; [exact Hs|exact Hc].
Qed.

Theorem carry : forall h, transparent snippet out step boot boot h ->
  per_process snippet out step boot None h = session snippet out step boot h.
Proof. intros h Ht. apply carry_from; [apply veq_refl|exact Ht]. Qed.

(* a detached test case leaves nothing behind: the state file the next one finds is the one it found itself *)
Theorem detached_leaves_nothing : forall c r file,
  per_process snippet out step boot file ((c, true) :: r) = None :: per_process snippet out step boot file r.
Proof. intros. reflexivity. Qed.
End Run.

(* the two listed findings: unsetting something the fresh process defines by itself is not carried, nor is a read-only
   variable (documented) *)
Definition X : list N := [88].
Example unset_not_carried :
  let boot := mkSh [(X, mkVar [49] true false [])] [] [] [] [] [] in
  let s := mkSh [] [] [] [] [] [] in          (* after `unset X` *)
  lookup X (vars (restore boot (persist s))) <> lookup X (vars s) /\ excluded X = false.
Proof. cbv zeta. split; [vm_compute; discriminate|vm_compute; reflexivity]. Qed.
Example readonly_not_carried :
  let boot := mkSh [] [] [] [] [] [] in
  let s := mkSh [(X, mkVar [49] false true [])] [] [] [] [] [] in     (* after `readonly X=1` *)
  lookup X (vars (restore boot (persist s))) <> lookup X (vars s).
Proof. cbv zeta. vm_compute. discriminate. Qed.

(* the name filter works on whole names: a user variable that merely begins like an excluded one is persisted *)
Example prefix_names_are_persisted :
  persisted_names [[85;73;68]; [85;73;68;95;77;73;78]; [83;67;82;85;84;95;84;69;83;84;95;88]; [76;73;78;69;78;79]; [86;49]] [[86;49]]
  = [[85;73;68;95;77;73;78]; [83;67;82;85;84;95;84;69;83;84;95;88]].          (* UID UID_MIN SCRUT_TEST_X LINENO V1(readonly) *)
Proof. vm_compute. reflexivity. Qed.
