(* C13(a): model of str::replace and of the chain of replacements BashRunner::run applies to its script template. *)
From Coq Require Import List NArith Bool Lia.
Import ListNotations.
Local Open Scope N_scope.

Fixpoint starts_with (pat l : list N) : bool :=
  match pat, l with
  | [], _ => true
  | p :: pat', x :: l' => (p =? x) && starts_with pat' l'
  | _ :: _, [] => false
  end.

(* str::replace(pat, to): non-overlapping matches, left to right; [skip] = bytes of a match still to be consumed.
   The pattern is non-empty at every use. *)
Fixpoint repl (pat to : list N) (skip : nat) (l : list N) : list N :=
  match l with
  | [] => []
  | x :: r =>
    match skip with
    | S k => repl pat to k r
    | O => if starts_with pat l then to ++ repl pat to (length pat - 1) r else x :: repl pat to 0 r
    end
  end.
Definition replace_all (pat to l : list N) : list N := repl pat to 0 l.

(* does [pat] occur at offset k of l *)
Definition occurs_at (pat l : list N) (k : nat) : bool := starts_with pat (skipn k l).
(* the pattern occurs at offset i and nowhere a left-to-right scan would find it before or after *)
Definition single_at (pat l : list N) (i : nat) : bool :=
  occurs_at pat l i
  && forallb (fun k => negb (occurs_at pat l k)) (seq 0 i)
  && forallb (fun k => negb (occurs_at pat l k)) (seq (i + length pat) (length l - (i + length pat))).

(* placeholders by number: 0 {state_directory} 1 {name} 2 {shell_expression} 3 {excluded_variables} 4 {persist_state} *)
Definition render_chain (template : list N) (names : list (list N)) (order : list nat) (values : list (list N)) : list N :=
  fold_left (fun t ph => replace_all (nth ph names []) (nth ph values []) t) order template.
