(* C13(a): BashRunner::run as the replace chain over the regenerated template (definitions only). *)
From Coq Require Import List NArith Bool.
Import ListNotations.
From SV Require Import Template gen_Template.
Local Open Scope N_scope.

(* ---------- (a) the script sent to bash ---------- *)
Definition values (sd name expr : list N) (detached : bool) : list (list N) :=
  [sd; name; expr; excluded_value; if detached then [48] else [49]].
(* BashRunner::run: the template with the replace chain applied in the order found in the source *)
Definition render (sd name expr : list N) (detached : bool) : list N :=
  render_chain template ph_names chain_order (values sd name expr detached).
(* everything but the user's expression substituted *)
Definition around (sd name : list N) (detached : bool) : list N :=
  render_chain template ph_names (removelast chain_order) (values sd name [] detached).
Definition expr_placeholder : list N := nth 2 ph_names [].

