From Coq Require Import List NArith Bool Lia Arith.
Import ListNotations.
From SV Require Import Template.
Local Open Scope N_scope.

Lemma skipn_add : forall (A : Type) (b a : nat) (l : list A), skipn a (skipn b l) = skipn (b + a) l.
Proof. induction b as [|b IH]; intros a l; [reflexivity|]. destruct l as [|x r]; [destruct a; reflexivity|]. cbn [skipn plus]. apply IH. Qed.

Lemma starts_with_app : forall pat rest, starts_with pat (pat ++ rest) = true.
Proof. induction pat as [|p pat IH]; intros rest; cbn; [reflexivity|]. rewrite N.eqb_refl, IH. reflexivity. Qed.

Lemma repl_skip : forall pat to k l, (k <= length l)%nat -> repl pat to k l = repl pat to 0 (skipn k l).
Proof.
  intros pat to k. induction k as [|k IH]; intros l H; [reflexivity|].
  destruct l as [|x r]; [cbn in H; lia|]. cbn [repl skipn]. apply IH. cbn in H. lia.
Qed.

(* no match anywhere: nothing changes *)
Lemma repl_no_occ : forall pat to l, (forall k, (k < length l)%nat -> occurs_at pat l k = false) -> repl pat to 0 l = l.
Proof.
  intros pat to. induction l as [|x r IH]; intros H; [reflexivity|].
  cbn [repl]. pose proof (H 0%nat ltac:(cbn; lia)) as H0. unfold occurs_at in H0. cbn [skipn] in H0. rewrite H0.
  f_equal. apply IH. intros k Hk. specialize (H (S k) ltac:(cbn; lia)). exact H.
Qed.

Lemma repl_prefix : forall pat to pre rest,
  (forall k, (k < length pre)%nat -> occurs_at pat (pre ++ rest) k = false) ->
  repl pat to 0 (pre ++ rest) = pre ++ repl pat to 0 rest.
Proof.
  intros pat to. induction pre as [|x pre IH]; intros rest H; [reflexivity|].
  cbn [app repl]. pose proof (H 0%nat ltac:(cbn; lia)) as H0. unfold occurs_at in H0. cbn [skipn app] in H0. rewrite H0.
  f_equal. apply IH. intros k Hk. specialize (H (S k) ltac:(cbn; lia)). exact H.
Qed.

Theorem replace_single : forall pat to l i, pat <> [] -> single_at pat l i = true ->
  replace_all pat to l = firstn i l ++ to ++ skipn (i + length pat) l.
Proof.
  intros pat to l i Hne H. unfold single_at in H. apply andb_true_iff in H. destruct H as [H H3].
  apply andb_true_iff in H. destruct H as [H1 H2]. rewrite forallb_forall in H2, H3.
  unfold replace_all.
  assert (Hi : (i <= length l)%nat).
  { destruct (le_lt_dec i (length l)); [assumption|]. unfold occurs_at in H1. rewrite skipn_all2 in H1 by lia.
    destruct pat; [contradiction|discriminate]. }
  rewrite <- (firstn_skipn i l) at 1.
  rewrite repl_prefix.
  2:{ intros k Hk. rewrite firstn_skipn. rewrite firstn_length in Hk.
      specialize (H2 k ltac:(apply in_seq; lia)). apply negb_true_iff in H2. exact H2. }
  f_equal.
  (* at offset i the pattern starts *)
  unfold occurs_at in H1. destruct (skipn i l) as [|x r] eqn:E.
  { destruct pat; [contradiction|discriminate]. }
  cbn [repl]. rewrite H1. f_equal.
  assert (Hlen : (length pat <= length (x :: r))%nat).
  { clear -H1. revert H1. generalize (x :: r). induction pat as [|p pat IH]; intros l H; [cbn; lia|].
    destruct l as [|y l]; [discriminate|]. cbn in H. apply andb_true_iff in H. destruct H as [_ H]. apply IH in H. cbn. lia. }
  destruct pat as [|p pat']; [contradiction|]. cbn [length] in *. replace (S (length pat') - 1)%nat with (length pat') by lia.
  rewrite repl_skip by (cbn in Hlen; lia).
  assert (Es : skipn (length pat') r = skipn (i + S (length pat')) l).
  { rewrite <- skipn_add. rewrite E. reflexivity. }
  rewrite Es. apply repl_no_occ.
  intros k Hk. rewrite skipn_length in Hk.
  specialize (H3 (i + S (length pat') + k)%nat ltac:(apply in_seq; lia)). apply negb_true_iff in H3.
  unfold occurs_at in *. rewrite skipn_add. exact H3.
Qed.

(* ---------- the chain: the value of a placeholder that is not substituted does not matter ---------- *)
Lemma chain_indep : forall names order t vals vals',
  (forall ph, In ph order -> nth ph vals [] = nth ph vals' []) ->
  render_chain t names order vals = render_chain t names order vals'.
Proof.
  intros names order. unfold render_chain. induction order as [|ph order IH]; intros t vals vals' H; [reflexivity|].
  cbn [fold_left]. rewrite (H ph (or_introl eq_refl)). apply IH. intros p Hp. apply H. right. exact Hp.
Qed.

Lemma chain_app : forall names o1 o2 t vals,
  render_chain t names (o1 ++ o2) vals = render_chain (render_chain t names o1 vals) names o2 vals.
Proof. intros. unfold render_chain. apply fold_left_app. Qed.

Lemma render_chain_snoc : forall t names o k vals,
  render_chain t names (o ++ [k]) vals = replace_all (nth k names []) (nth k vals []) (render_chain t names o vals).
Proof. intros. unfold render_chain. rewrite fold_left_app. reflexivity. Qed.
