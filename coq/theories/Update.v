(* C10: model of MarkdownUpdateGenerator::generate_update over the token stream of the Markdown model.  The bodies of
   the regenerated tests (Outcome::generate_testcase) are an input.  Definitions only. *)
From Coq Require Import List NArith Bool.
Import ListNotations.
From SV Require Import Template Escape LineParser Markdown.
Local Open Scope N_scope.

Definition has_command (code : list (nat * text)) : bool := existsb (fun p => starts_with P_DOLLAR (snd p)) code.
Fixpoint max_bt (acc : nat) (ls : list text) : nat :=
  match ls with [] => acc | l :: r => max_bt (Nat.max acc (count_bt l)) r end.
Definition fence_for (body : list text) : text := repeat BT (S (max_bt 2 body)).

Definition header (cfg : option text) : text :=
  SCRUT ++ match cfg with Some c => [32; 123] ++ trim_start c ++ [125] | None => [] end.

(* one token; [bodies] = generated bodies still to be used (one per test block that has a command) *)
Definition update_tok (t : token) (bodies : list (list text)) : list text * list (list text) :=
  match t with
  | TLine _ l => ([l], bodies)
  | TFront lines _ => ([DASHES] ++ lines ++ [DASHES], bodies)
  | TVerb _ _ raw => (raw, bodies)
  | TTest cfg comments code _ =>
    if has_command code then
      match bodies with
      | b :: rest => let f := fence_for b in ([f ++ header cfg] ++ comments ++ b ++ [f], rest)
      | [] => ([], [])              (* the implementation reports an error: no outcome for this test *)
      end
    else let b := map snd code in let f := fence_for b in ([f ++ header cfg] ++ comments ++ b ++ [f], bodies)
  end.
Fixpoint update_toks (ts : list token) (bodies : list (list text)) : list text :=
  match ts with
  | [] => []
  | t :: r => let '(ls, rest) := update_tok t bodies in ls ++ update_toks r rest
  end.
(* without any outcome the document is returned as it is *)
Definition update_md (doc : list text) (bodies : list (list text)) : list text :=
  match bodies with [] => doc | _ => update_toks (md_tokens doc) bodies end.

(* the lines of a document that are outside scrut blocks, in order *)
Definition is_test (t : token) : bool := match t with TTest _ _ _ _ => true | _ => false end.
Definition outside (ts : list token) : list text := concat (map tok_raw (filter (fun t => negb (is_test t)) ts)).
(* a front-matter token whose closing `---` was present *)
Definition front_closed (t : token) : bool :=
  match t with TFront lines raw => list_eqb (concat raw) (concat ([DASHES] ++ lines ++ [DASHES])) && Nat.eqb (length raw) (2 + length lines) | _ => true end.
