(* C10 over the document grammar: updating a rendered well-formed document yields the rendering of the same AST with
   new bodies and new fences; by the round-trip theorem of C06 it parses to the same commands. *)
From Coq Require Import List NArith Bool Lia Arith.
Import ListNotations.
From SV Require Import Template TemplateProofs gen_Unicode Escape LineParser CramSpec Markdown MdSpec MarkdownProofs MdParseProofs Update UpdateProofs.
Local Open Scope N_scope.

Definition block_text (c : text) (conts : list text) (b : list bline) : list text :=
  [P_DOLLAR ++ c] ++ map (fun x => P_GT ++ x) conts ++ map render_body b.

(* the document after update: scrut blocks re-fenced, their inline configuration re-rendered, the bodies of the blocks
   with a command replaced by the given ones (commands and continuations are those of the document) *)
Fixpoint subst (d : list elem) (bs : list (list bline)) : list elem :=
  match d with
  | [] => []
  | EScrut n cfg hs cm (Some (c, conts, old)) tail :: r =>
    match bs with
    | b :: bs' => EScrut (S (max_bt 2 (block_text c conts b))) (option_map trim_start cfg) [] cm (Some (c, conts, b)) [] :: subst r bs'
    | [] => EScrut n cfg hs cm (Some (c, conts, old)) tail :: subst r []
    end
  | EScrut n cfg hs cm None tail :: r => EScrut 3 (option_map trim_start cfg) [] cm None [] :: subst r bs
  | e :: r => e :: subst r bs
  end.
(* the generated bodies handed to update, one per block with a command *)
Fixpoint bodies_for (d : list elem) (bs : list (list bline)) : list (list text) :=
  match d with
  | [] => []
  | EScrut _ _ _ _ (Some (c, conts, _)) _ :: r =>
    match bs with b :: bs' => block_text c conts b :: bodies_for r bs' | [] => [] end
  | _ :: r => bodies_for r bs
  end.
Fixpoint commands (d : list elem) : nat :=
  match d with [] => O | EScrut _ _ _ _ (Some _) _ :: r => S (commands r) | _ :: r => commands r end.

Lemma has_command_code_lines : forall i c conts b, has_command (code_lines i (Some (c, conts, b))) = true.
Proof. intros. unfold code_lines. cbn [app numbered has_command existsb snd]. reflexivity. Qed.

Lemma map_snd_numbered : forall ls i, map snd (numbered i ls) = ls.
Proof. induction ls as [|l ls IH]; intros i; cbn [numbered map snd]; [reflexivity|]. rewrite IH. reflexivity. Qed.

Lemma trim_start_idem : forall l, trim_start (trim_start l) = trim_start l.
Proof.
  intros l. unfold trim_start. induction l as [|c r IH]; [reflexivity|]. cbn [drop_while].
  destruct (is_white c) eqn:E; [exact IH|]. cbn [drop_while]. rewrite E. reflexivity.
Qed.

(* update of the tokens of a rendered document = rendering of the substituted document *)
Theorem update_render : forall d idx bs, length bs = commands d ->
  update_toks (tokens_from idx d) (bodies_for d bs) = render_md (subst d bs).
Proof.
  induction d as [|e d IH]; intros idx bs Hl; [reflexivity|].
  cbn [tokens_from]. destruct e as [lines|l|k t| |n lang body tail|n cfg hs cm cmd tail]; cbn [elem_tokens app update_toks update_tok commands] in *.
  - cbn [bodies_for subst render_md flat_map render_elem]. fold (render_md (subst d bs)). rewrite (IH _ bs Hl). rewrite <- !app_assoc. reflexivity.
  - cbn [bodies_for subst render_md flat_map render_elem app]. fold (render_md (subst d bs)). rewrite (IH _ bs Hl). reflexivity.
  - cbn [bodies_for subst render_md flat_map render_elem app]. fold (render_md (subst d bs)). rewrite (IH _ bs Hl). reflexivity.
  - cbn [bodies_for subst render_md flat_map render_elem app]. fold (render_md (subst d bs)). rewrite (IH _ bs Hl). reflexivity.
  - cbn [bodies_for subst render_md flat_map]. fold (render_md (subst d bs)). rewrite (IH _ bs Hl). reflexivity.
  - destruct cmd as [[[c conts] old]|].
    + rewrite has_command_code_lines. destruct bs as [|b bs']; [cbn in Hl; lia|]. cbn [bodies_for subst render_md flat_map].
      fold (render_md (subst d bs')). rewrite (IH _ bs' ltac:(cbn in Hl; lia)).
      unfold fence_for, header, fence, block_text. cbn [render_elem option_map]. destruct cfg as [c0|]; cbn [option_map]; rewrite ?app_nil_r;
        cbn [app]; repeat rewrite <- app_assoc; cbn [app]; reflexivity.
    + cbn [code_lines has_command existsb map]. cbn [bodies_for subst render_md flat_map]. fold (render_md (subst d bs)). rewrite (IH _ bs Hl).
      unfold fence_for, header, fence. cbn [max_bt render_elem option_map app]. destruct cfg as [c0|]; cbn [option_map]; rewrite ?app_nil_r;
        cbn [app]; repeat rewrite <- app_assoc; cbn [app]; reflexivity.
Qed.

(* substitution keeps the commands (and the titles) of the tests *)
Lemma tests_subst_cmds : forall d bs line st line', length bs = commands d ->
  map (fun t => (pt_title (mt_test t), pt_cmd (mt_test t))) (md_tests_from (subst d bs) line st)
  = map (fun t => (pt_title (mt_test t), pt_cmd (mt_test t))) (md_tests_from d line' st).
Proof.
  induction d as [|e d IH]; intros bs line st line' Hl; [reflexivity|].
  destruct e as [lines|l|k t| |n lang body tail|n cfg hs cm cmd tail]; cbn [subst md_tests_from commands] in *; try (apply IH; exact Hl).
  destruct cmd as [[[c conts] old]|].
  - destruct bs as [|b bs']; [cbn in Hl; lia|]. cbn [md_tests_from map mt_test pt_title pt_cmd]. f_equal. apply IH. cbn in Hl. lia.
  - cbn [md_tests_from]. apply IH. exact Hl.
Qed.

Section Same.
Variable pe_ok : text -> bool.
Variable front_ok : list text -> bool.
Variable cfg_ok : text -> bool.

Theorem update_same_commands : forall d bs, wf_md pe_ok front_ok cfg_ok d = true -> length bs = commands d ->
  wf_md pe_ok front_ok cfg_ok (subst d bs) = true ->
  exists ts, parse_md pe_ok front_ok cfg_ok (update_md (render_md d) (bodies_for d bs)) = LOk ts
             /\ map (fun t => (pt_title (mt_test t), pt_cmd (mt_test t))) ts
                = map (fun t => (pt_title (mt_test t), pt_cmd (mt_test t))) (md_tests_of d).
Proof.
  intros d bs Hwf Hl Hwf'. unfold update_md. destruct (bodies_for d bs) as [|b0 br] eqn:Eb.
  - exists (md_tests_of d). split; [apply parse_render_md; exact Hwf|reflexivity].
  - rewrite <- Eb. unfold md_tokens. unfold wf_md in Hwf. change (Top false) with (Top (negb true)).
    rewrite (tokens_render pe_ok front_ok cfg_ok d true 0%nat Hwf). rewrite (update_render d 0%nat bs Hl).
    exists (md_tests_of (subst d bs)). split; [apply parse_render_md; exact Hwf'|].
    unfold md_tests_of. apply tests_subst_cmds. exact Hl.
Qed.

(* part of the well-formedness of the substituted document comes for free: no line of a new body closes its new fence *)
Lemma subst_fence_open : forall c conts b l, In l (block_text c conts b) -> closes (S (max_bt 2 (block_text c conts b))) l = false.
Proof. intros. apply fence_not_closed_by_body. assumption. Qed.
End Same.

(* ---------- idempotence at the level of the document grammar ---------- *)
Lemma commands_subst : forall d bs, length bs = commands d -> commands (subst d bs) = commands d.
Proof.
  induction d as [|e d IH]; intros bs Hl; [reflexivity|].
  destruct e as [lines|l|k t| |n lang body tail|n cfg hs cm cmd tail]; cbn [subst commands] in *; try (apply IH; exact Hl).
  destruct cmd as [[[c conts] old]|].
  - destruct bs as [|b bs']; [cbn in Hl; lia|]. cbn [commands]. f_equal. apply IH. cbn in Hl. lia.
  - cbn [commands]. apply IH. exact Hl.
Qed.

Lemma option_map_trim_idem : forall (cfg : option text), option_map trim_start (option_map trim_start cfg) = option_map trim_start cfg.
Proof. intros [c|]; cbn [option_map]; [rewrite trim_start_idem|]; reflexivity. Qed.

Lemma subst_idem : forall d bs, length bs = commands d -> subst (subst d bs) bs = subst d bs.
Proof.
  induction d as [|e d IH]; intros bs Hl; [reflexivity|].
  destruct e as [lines|l|k t| |n lang body tail|n cfg hs cm cmd tail]; cbn [subst commands] in *; try (f_equal; apply IH; exact Hl).
  destruct cmd as [[[c conts] old]|].
  - destruct bs as [|b bs']; [cbn in Hl; lia|]. cbn [subst]. rewrite option_map_trim_idem. f_equal. apply IH. cbn in Hl. lia.
  - cbn [subst]. rewrite option_map_trim_idem. f_equal. apply IH. exact Hl.
Qed.

Lemma bodies_for_subst : forall d bs, length bs = commands d -> bodies_for (subst d bs) bs = bodies_for d bs.
Proof.
  induction d as [|e d IH]; intros bs Hl; [reflexivity|].
  destruct e as [lines|l|k t| |n lang body tail|n cfg hs cm cmd tail]; cbn [subst bodies_for commands] in *; try (apply IH; exact Hl).
  destruct cmd as [[[c conts] old]|].
  - destruct bs as [|b bs']; [cbn in Hl; lia|]. cbn [bodies_for]. f_equal. apply IH. cbn in Hl. lia.
  - cbn [bodies_for]. apply IH. exact Hl.
Qed.

Section Idem.
Variable pe_ok : text -> bool.
Variable front_ok : list text -> bool.
Variable cfg_ok : text -> bool.

(* updating the updated document with the same bodies changes nothing *)
Theorem update_idempotent : forall d bs, wf_md pe_ok front_ok cfg_ok d = true -> length bs = commands d ->
  wf_md pe_ok front_ok cfg_ok (subst d bs) = true -> bodies_for d bs <> [] ->
  update_md (update_md (render_md d) (bodies_for d bs)) (bodies_for d bs) = update_md (render_md d) (bodies_for d bs).
Proof.
  intros d bs Hwf Hl Hwf' Hne.
  assert (E1: update_md (render_md d) (bodies_for d bs) = render_md (subst d bs)).
  { unfold update_md. destruct (bodies_for d bs) as [|b0 br] eqn:Eb; [congruence|]. rewrite <- Eb.
    unfold md_tokens, wf_md in *. change (Top false) with (Top (negb true)).
    rewrite (tokens_render pe_ok front_ok cfg_ok d true 0%nat Hwf). apply update_render. exact Hl. }
  rewrite E1.
  unfold update_md. destruct (bodies_for d bs) as [|b0 br] eqn:Eb; [congruence|]. rewrite <- Eb.
  unfold md_tokens, wf_md in *. change (Top false) with (Top (negb true)).
  rewrite (tokens_render pe_ok front_ok cfg_ok (subst d bs) true 0%nat Hwf').
  rewrite <- (bodies_for_subst d bs Hl).
  rewrite (update_render (subst d bs) 0%nat bs ltac:(rewrite commands_subst; assumption)).
  rewrite (subst_idem d bs Hl). reflexivity.
Qed.
End Idem.
