From Coq Require Import List NArith Bool Lia Arith.
Import ListNotations.
From SV Require Import Template Escape EscapeProofs LineParser Markdown MarkdownProofs Update.
Local Open Scope N_scope.

(* the raw lines of a front-matter token are its opening ---, its lines, and the closing --- when there was one *)
Definition front_shape (t : token) : Prop :=
  match t with TFront lines raw => raw = [DASHES] ++ lines ++ [DASHES] \/ raw = [DASHES] ++ lines | _ => True end.

(* what update writes for a token that is not a test block is the token's own lines; for an unterminated
   front-matter the missing closing line is added; nothing is ever dropped *)
Theorem update_tok_outside : forall t bodies, is_test t = false -> front_shape t ->
  let out := fst (update_tok t bodies) in
  (out = tok_raw t \/ out = tok_raw t ++ [DASHES]) /\ snd (update_tok t bodies) = bodies.
Proof.
  intros t bodies Ht Hs. destruct t as [i l|lines raw|st lang raw|cfg cm code raw]; cbn [update_tok fst snd tok_raw]; try discriminate.
  - split; [left; reflexivity|reflexivity].
  - cbn [front_shape] in Hs. split; [|reflexivity]. destruct Hs as [->| ->]; [left; reflexivity|right].
    rewrite <- !app_assoc. reflexivity.
  - split; [left; reflexivity|reflexivity].
Qed.

(* the fence update chooses is longer than any run of leading backticks in the body: no body line closes it *)
Lemma max_bt_ge_acc : forall ls acc, (acc <= max_bt acc ls)%nat.
Proof. induction ls as [|l r IH]; intros acc; cbn [max_bt]; [lia|]. specialize (IH (Nat.max acc (count_bt l))). lia. Qed.
Lemma max_bt_ge : forall ls acc l, In l ls -> (count_bt l <= max_bt acc ls)%nat.
Proof.
  induction ls as [|x r IH]; intros acc l H; [destruct H|]. cbn [max_bt]. destruct H as [->|H].
  - pose proof (max_bt_ge_acc r (Nat.max acc (count_bt l))). lia.
  - apply IH. exact H.
Qed.
Theorem fence_not_closed_by_body : forall body l, In l body -> closes (S (max_bt 2 body)) l = false.
Proof.
  intros body l H. unfold closes. apply Nat.leb_gt. pose proof (max_bt_ge body 2 l H). lia.
Qed.
Theorem fence_at_least_three : forall body, (3 <= S (max_bt 2 body))%nat.
Proof. intros body. pose proof (max_bt_ge_acc body 2). lia. Qed.

(* ---------- every token the tokenizer produces has the front-matter shape ---------- *)
Definition st_front_ok (s : mstate) : Prop := match s with InFront acc raw => raw = [DASHES] ++ acc | _ => True end.

Lemma mstep_front : forall s idx l s' out, st_front_ok s -> mstep s idx l = (s', out) ->
  st_front_ok s' /\ Forall front_shape out.
Proof.
  intros s idx l s' out Hs H. destruct s as [cs|acc raw|n start lang raw|n cfg cm code raw]; cbn [mstep] in H.
  - destruct (negb cs && list_eqb l DASHES) eqn:E.
    + inversion H; subst. apply andb_true_iff in E. destruct E as [_ E]. apply list_eqb_spec in E. subst l.
      split; [reflexivity|constructor].
    + destruct (extract_code_block_start l) as [[[n lang] cfg]|].
      * destruct (list_eqb lang SCRUT); inversion H; subst; split; try exact I; constructor.
      * inversion H; subst. split; [exact I|]. constructor; [exact I|constructor].
  - cbn [st_front_ok] in Hs. subst raw. destruct (list_eqb l DASHES) eqn:E; inversion H; subst.
    + apply list_eqb_spec in E. subst l. split; [exact I|]. constructor; [|constructor]. left. reflexivity.
    + split; [|constructor]. cbn [st_front_ok]. reflexivity.
  - destruct (closes n l); inversion H; subst; split; try exact I; repeat constructor.
  - destruct code as [|c code'].
    + destruct (is_comment l); [inversion H; subst; split; [exact I|constructor]|].
      destruct (closes n l); inversion H; subst; split; try exact I; repeat constructor.
    + destruct (closes n l); inversion H; subst; split; try exact I; repeat constructor.
Qed.

Lemma mrun_front : forall ls s idx, st_front_ok s -> Forall front_shape (mrun s idx ls).
Proof.
  induction ls as [|l r IH]; intros s idx Hs; cbn [mrun].
  - destruct s as [cs|acc raw|n start lang raw|n cfg cm code raw]; cbn [mflush]; try (repeat constructor; fail).
    constructor; [|constructor]. cbn [st_front_ok] in Hs. cbn [front_shape]. right. exact Hs.
  - destruct (mstep s idx l) as [s' out] eqn:E. destruct (mstep_front _ _ _ _ _ Hs E) as [Hs' Ho].
    apply Forall_app. split; [exact Ho|apply IH; exact Hs'].
Qed.

Theorem tokens_front_shape : forall ls, Forall front_shape (md_tokens ls).
Proof. intros ls. apply mrun_front. exact I. Qed.
