From Coq Require Import List NArith ZArith Lia Bool ZifyBool ZifyNat ZifyN.
Import ListNotations.
Local Open Scope N_scope.
Ltac Zify.zify_post_hook ::= Z.div_mod_to_equations.

Definition is_scalar (c : N) : bool := (c <? 55296) || ((57344 <=? c) && (c <? 1114112)).

Definition enc (c : N) : list N :=
  if c <? 128 then [c]
  else if c <? 2048 then [192 + c / 64; 128 + c mod 64]
  else if c <? 65536 then [224 + c / 4096; 128 + (c / 64) mod 64; 128 + c mod 64]
  else [240 + c / 262144; 128 + (c / 4096) mod 64; 128 + (c / 64) mod 64; 128 + c mod 64].

Definition cont (b : N) : bool := (128 <=? b) && (b <? 192).

(* strict decoder of one scalar: returns (code point, rest) *)
Definition dec1 (bs : list N) : option (N * list N) :=
  match bs with
  | [] => None
  | b0 :: r =>
    if b0 <? 128 then Some (b0, r)
    else if b0 <? 194 then None
    else if b0 <? 224 then
      match r with b1 :: r1 => if cont b1 then Some ((b0 - 192) * 64 + (b1 - 128), r1) else None | _ => None end
    else if b0 <? 240 then
      match r with b1 :: b2 :: r2 =>
        if cont b1 && cont b2 then
          let c := (b0 - 224) * 4096 + (b1 - 128) * 64 + (b2 - 128) in
          if (2048 <=? c) && is_scalar c then Some (c, r2) else None
        else None | _ => None end
    else if b0 <? 245 then
      match r with b1 :: b2 :: b3 :: r3 =>
        if cont b1 && cont b2 && cont b3 then
          let c := (b0 - 240) * 262144 + (b1 - 128) * 4096 + (b2 - 128) * 64 + (b3 - 128) in
          if (65536 <=? c) && (c <? 1114112) then Some (c, r3) else None
        else None | _ => None end
    else None
  end.

Lemma dec1_enc : forall c r, is_scalar c = true -> dec1 (enc c ++ r) = Some (c, r).
Proof.
  intros c r Hs. unfold is_scalar in Hs. unfold enc.
  destruct (c <? 128) eqn:H1.
  { cbn. rewrite H1. reflexivity. }
  destruct (c <? 2048) eqn:H2.
  { cbn [app dec1].
    assert (E1: (192 + c / 64 <? 128) = false) by lia. rewrite E1.
    assert (E2: (192 + c / 64 <? 194) = false) by lia. rewrite E2.
    assert (E3: (192 + c / 64 <? 224) = true) by lia. rewrite E3.
    assert (E4: cont (128 + c mod 64) = true) by (unfold cont; lia). rewrite E4.
    f_equal. f_equal. lia. }
  destruct (c <? 65536) eqn:H3.
  { cbn [app dec1].
    assert (E1: (224 + c / 4096 <? 128) = false) by lia. rewrite E1.
    assert (E2: (224 + c / 4096 <? 194) = false) by lia. rewrite E2.
    assert (E3: (224 + c / 4096 <? 224) = false) by lia. rewrite E3.
    assert (E3': (224 + c / 4096 <? 240) = true) by lia. rewrite E3'.
    assert (E4: cont (128 + (c / 64) mod 64) = true) by (unfold cont; lia). rewrite E4.
    assert (E5: cont (128 + c mod 64) = true) by (unfold cont; lia). rewrite E5. cbn [andb].
    assert (E6: (224 + c / 4096 - 224) * 4096 + (128 + (c / 64) mod 64 - 128) * 64 + (128 + c mod 64 - 128) = c) by lia.
    rewrite E6.
    assert (E7: (2048 <=? c) = true) by lia. rewrite E7.
    unfold is_scalar. rewrite Hs. reflexivity. }
  cbn [app dec1].
  assert (E1: (240 + c / 262144 <? 128) = false) by lia. rewrite E1.
  assert (E2: (240 + c / 262144 <? 194) = false) by lia. rewrite E2.
  assert (E3: (240 + c / 262144 <? 224) = false) by lia. rewrite E3.
  assert (E3': (240 + c / 262144 <? 240) = false) by lia. rewrite E3'.
  assert (E3'': (240 + c / 262144 <? 245) = true) by lia. rewrite E3''.
  assert (E4: cont (128 + (c / 4096) mod 64) = true) by (unfold cont; lia). rewrite E4.
  assert (E5: cont (128 + (c / 64) mod 64) = true) by (unfold cont; lia). rewrite E5.
  assert (E5': cont (128 + c mod 64) = true) by (unfold cont; lia). rewrite E5'. cbn [andb].
  assert (E6: (240 + c / 262144 - 240) * 262144 + (128 + (c / 4096) mod 64 - 128) * 4096 + (128 + (c / 64) mod 64 - 128) * 64 + (128 + c mod 64 - 128) = c) by lia.
  rewrite E6.
  assert (E7: (65536 <=? c) = true) by lia. rewrite E7.
  assert (E8: (c <? 1114112) = true) by lia. rewrite E8. reflexivity.
Qed.

(* the converse direction: what dec1 accepts re-encodes to the same bytes *)
Lemma enc_dec1 : forall bs c r, dec1 bs = Some (c, r) -> bs = enc c ++ r /\ is_scalar c = true.
Proof.
  intros bs c r H. unfold dec1 in H.
  destruct bs as [|b0 bs]; [discriminate|].
  destruct (b0 <? 128) eqn:H1.
  { inversion H; subst. unfold enc, is_scalar. rewrite H1. split; [reflexivity|lia]. }
  destruct (b0 <? 194) eqn:H2; [discriminate|].
  destruct (b0 <? 224) eqn:H3.
  { destruct bs as [|b1 r1]; [discriminate|]. destruct (cont b1) eqn:C1; [|discriminate].
    inversion H; subst; clear H. unfold cont in C1. unfold enc, is_scalar.
    assert (E1: ((b0 - 192) * 64 + (b1 - 128) <? 128) = false) by lia. rewrite E1.
    assert (E2: ((b0 - 192) * 64 + (b1 - 128) <? 2048) = true) by lia. rewrite E2.
    split; [|lia]. cbn [app]. f_equal; [lia|]. f_equal. lia. }
  destruct (b0 <? 240) eqn:H4.
  { destruct bs as [|b1 [|b2 r2]]; try discriminate.
    destruct (cont b1) eqn:C1; [|discriminate]. destruct (cont b2) eqn:C2; [|discriminate]. cbn [andb] in H.
    destruct ((2048 <=? (b0 - 224) * 4096 + (b1 - 128) * 64 + (b2 - 128)) && is_scalar ((b0 - 224) * 4096 + (b1 - 128) * 64 + (b2 - 128))) eqn:G; [|discriminate].
    inversion H; subst; clear H. apply andb_true_iff in G as [G1 G2]. split; [|exact G2].
    unfold cont in *. unfold enc.
    assert (E1: ((b0 - 224) * 4096 + (b1 - 128) * 64 + (b2 - 128) <? 128) = false) by lia. rewrite E1.
    assert (E2: ((b0 - 224) * 4096 + (b1 - 128) * 64 + (b2 - 128) <? 2048) = false) by lia. rewrite E2.
    assert (E3: ((b0 - 224) * 4096 + (b1 - 128) * 64 + (b2 - 128) <? 65536) = true) by lia. rewrite E3.
    cbn [app]. f_equal; [lia|]. f_equal; [lia|]. f_equal. lia. }
  destruct (b0 <? 245) eqn:H5; [|discriminate].
  destruct bs as [|b1 [|b2 [|b3 r3]]]; try discriminate.
  destruct (cont b1) eqn:C1; [|discriminate]. destruct (cont b2) eqn:C2; [|discriminate]. destruct (cont b3) eqn:C3; [|discriminate]. cbn [andb] in H.
  match type of H with (if ?g then _ else _) = _ => destruct g eqn:G end; [|discriminate].
  inversion H; subst; clear H. apply andb_true_iff in G as [G1 G2]. unfold cont in *.
  split; [|unfold is_scalar; lia]. unfold enc.
  match goal with |- _ = (if ?c <? 128 then _ else _) ++ _ => 
    assert (E1: (c <? 128) = false) by lia; rewrite E1;
    assert (E2: (c <? 2048) = false) by lia; rewrite E2;
    assert (E3: (c <? 65536) = false) by lia; rewrite E3 end.
  cbn [app]. f_equal; [lia|]. f_equal; [lia|]. f_equal; [lia|]. f_equal. lia.
Qed.

(* ---------- whole strings: String::from_utf8 (strict) and its inverse ---------- *)
Fixpoint dec_all (fuel : nat) (bs : list N) : option (list N) :=
  match bs with
  | [] => Some []
  | _ :: _ =>
    match fuel with
    | O => None
    | S f => match dec1 bs with
             | Some (c, r) => option_map (cons c) (dec_all f r)
             | None => None
             end
    end
  end.
Definition utf8_decode (bs : list N) : option (list N) := dec_all (length bs) bs.
Definition utf8_encode (cs : list N) : list N := flat_map enc cs.

Lemma enc_nonempty : forall c, enc c <> [].
Proof. intros c. unfold enc. repeat match goal with |- context [if ?b then _ else _] => destruct b end; discriminate. Qed.

Lemma enc_length : forall c, (1 <= length (enc c))%nat.
Proof. intros c. unfold enc. repeat match goal with |- context [if ?b then _ else _] => destruct b end; cbn; lia. Qed.

Lemma dec_all_encode : forall cs fuel, Forall (fun c => is_scalar c = true) cs ->
  (length (utf8_encode cs) <= fuel)%nat -> dec_all fuel (utf8_encode cs) = Some cs.
Proof.
  induction cs as [|c cs IH]; intros fuel H Hf.
  - destruct fuel; reflexivity.
  - inversion H as [|? ? Hc Hcs]; subst. cbn [utf8_encode flat_map] in *.
    destruct (enc c ++ flat_map enc cs) as [|b t] eqn:E.
    { exfalso. apply app_eq_nil in E. destruct E as [E _]. exact (enc_nonempty c E). }
    rewrite <- E. rewrite <- E in Hf. rewrite app_length in Hf. pose proof (enc_length c).
    destruct fuel as [|f]; [lia|]. rewrite E at 1. cbn [dec_all]. rewrite <- E.
    rewrite dec1_enc by exact Hc. fold (utf8_encode cs). rewrite (IH f Hcs) by (unfold utf8_encode; lia). reflexivity.
Qed.

Theorem utf8_decode_encode : forall cs, Forall (fun c => is_scalar c = true) cs -> utf8_decode (utf8_encode cs) = Some cs.
Proof. intros cs H. unfold utf8_decode. apply (dec_all_encode cs _ H). lia. Qed.

Lemma dec_all_sound : forall fuel bs cs, dec_all fuel bs = Some cs ->
  utf8_encode cs = bs /\ Forall (fun c => is_scalar c = true) cs.
Proof.
  induction fuel as [|f IH]; intros bs cs H.
  - destruct bs; [inversion H; subst; split; [reflexivity|constructor]|discriminate].
  - destruct bs as [|b t]; [inversion H; subst; split; [reflexivity|constructor]|].
    cbn [dec_all] in H. destruct (dec1 (b :: t)) as [[c r]|] eqn:D; [|discriminate].
    destruct (dec_all f r) as [cs'|] eqn:R; [|discriminate]. inversion H; subst; clear H.
    destruct (enc_dec1 _ _ _ D) as [E S]. destruct (IH _ _ R) as [E' S'].
    split; [|constructor; assumption]. cbn [utf8_encode flat_map]. fold (utf8_encode cs'). rewrite E', E. reflexivity.
Qed.

Theorem utf8_decode_sound : forall bs cs, utf8_decode bs = Some cs ->
  utf8_encode cs = bs /\ Forall (fun c => is_scalar c = true) cs.
Proof. intros bs cs H. exact (dec_all_sound _ _ _ H). Qed.

Lemma dec_all_ascii : forall bs fuel, Forall (fun b => b < 128) bs -> (length bs <= fuel)%nat -> dec_all fuel bs = Some bs.
Proof.
  induction bs as [|b t IH]; intros fuel H Hf; [destruct fuel; reflexivity|].
  inversion H as [|? ? Hb Ht]; subst. destruct fuel as [|f]; [cbn in Hf; lia|].
  cbn [dec_all dec1]. assert (E : (b <? 128) = true) by lia. rewrite E.
  rewrite IH; [reflexivity|exact Ht|cbn in Hf; lia].
Qed.

Lemma utf8_decode_ascii : forall bs, Forall (fun b => b < 128) bs -> utf8_decode bs = Some bs.
Proof. intros bs H. apply dec_all_ascii; [exact H|lia]. Qed.

Lemma enc_bytes : forall c, is_scalar c = true -> Forall (fun b => b < 256) (enc c).
Proof.
  intros c H. unfold is_scalar in H. unfold enc.
  repeat match goal with |- context [if ?b then _ else _] => destruct b eqn:? end; repeat constructor; lia.
Qed.

Lemma enc_ascii : forall c, c < 128 -> enc c = [c].
Proof. intros c H. unfold enc. assert (E : (c <? 128) = true) by lia. rewrite E. reflexivity. Qed.

Lemma enc_high : forall c, 128 <= c -> Forall (fun b => 128 <= b) (enc c).
Proof.
  intros c H. unfold enc.
  repeat match goal with |- context [if ?b then _ else _] => destruct b eqn:? end; repeat constructor; lia.
Qed.
