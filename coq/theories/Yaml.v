(* C17: scrut's own part of writing a configuration in the one-line YAML form: double-quoted scalars (yaml_quoted),
   plain-or-quoted scalars (yaml_scalar) and the environment mapping; with the reader of exactly that notation.
   Text is a list of code points.  Definitions only. *)
From Coq Require Import List NArith Bool.
Import ListNotations.
From SV Require Import Utf8 Escape.
Local Open Scope N_scope.

(* char::is_control (Cc) plus the characters YAML treats as breaks / byte order mark, and the two non-characters it rejects *)
Definition needs_u_escape (c : N) : bool :=
  (c <? 32) || ((127 <=? c) && (c <=? 159)) || (c =? 8232) || (c =? 8233) || (c =? 65279) || (c =? 65534) || (c =? 65535).
Definition hex4 (c : N) : list N := [hexd (c / 4096); hexd ((c / 256) mod 16); hexd ((c / 16) mod 16); hexd (c mod 16)].
Definition quote_char (c : N) : list N :=
  if c =? 34 then [92; 34]
  else if c =? 92 then [92; 92]
  else if needs_u_escape c then [92; 117] ++ hex4 c
  else [c].
Definition yaml_quoted (t : list N) : list N := [34] ++ flat_map quote_char t ++ [34].

(* reader of a double-quoted scalar body (after the opening quote): returns the text and what follows the closing quote *)
Definition hexval (c : N) : option N :=
  if (48 <=? c) && (c <=? 57) then Some (c - 48)
  else if (97 <=? c) && (c <=? 102) then Some (c - 87)
  else if (65 <=? c) && (c <=? 70) then Some (c - 55) else None.
Inductive qst := QN | QB | QU (k : nat) (acc : N).
Fixpoint rq (st : qst) (out_rev : list N) (l : list N) : option (list N * list N) :=
  match l with
  | [] => None
  | c :: r =>
    match st with
    | QN => if c =? 34 then Some (rev out_rev, r)
            else if c =? 92 then rq QB out_rev r else rq QN (c :: out_rev) r
    | QB => if c =? 34 then rq QN (34 :: out_rev) r
            else if c =? 92 then rq QN (92 :: out_rev) r
            else if c =? 117 then rq (QU 0 0) out_rev r else None
    | QU k acc =>
      match hexval c with
      | Some v => if Nat.eqb k 3 then rq QN (acc * 16 + v :: out_rev) r else rq (QU (S k) (acc * 16 + v)) out_rev r
      | None => None
      end
    end
  end.
Definition yaml_unquote (q : list N) : option (list N) :=
  match q with
  | 34 :: body => match rq QN [] body with Some (t, []) => Some t | _ => None end
  | _ => None
  end.

(* plain where unambiguous: first character a letter or / . _ ; all characters letters, digits, / . _ - ; not a YAML keyword *)
Definition is_alpha (c : N) : bool := ((65 <=? c) && (c <=? 90)) || ((97 <=? c) && (c <=? 122)).
Definition is_digit_c (c : N) : bool := (48 <=? c) && (c <=? 57).
Definition plain_first (c : N) : bool := is_alpha c || (c =? 47) || (c =? 46) || (c =? 95).
Definition plain_char (c : N) : bool := is_alpha c || is_digit_c c || (c =? 47) || (c =? 46) || (c =? 95) || (c =? 45).
Definition lower (c : N) : N := if (65 <=? c) && (c <=? 90) then c + 32 else c.
Definition KEYWORDS : list (list N) :=
  [[116; 114; 117; 101]; [102; 97; 108; 115; 101]; [110; 117; 108; 108]; [121; 101; 115]; [110; 111]; [111; 110]; [111; 102; 102]; [121]; [110]].
Definition is_plain (t : list N) : bool :=
  match t with
  | [] => false
  | c :: _ => plain_first c && forallb plain_char t && negb (existsb (list_eqb (map lower t)) KEYWORDS)
  end.
Definition yaml_scalar (t : list N) : list N := if is_plain t then t else yaml_quoted t.
Definition read_scalar (s : list N) : option (list N) :=
  match s with 34 :: _ => yaml_unquote s | _ => Some s end.
