(* C17: the `environment: {name: "value", ...}` part of the one-line configuration as to_yaml_one_liner writes it, and a
   reference reader of flow mappings of scalars; the reader returns exactly the pairs that were written. *)
From Coq Require Import List NArith ZArith Bool Lia Arith ZifyBool ZifyNat ZifyN.
Import ListNotations.
From SV Require Import Escape Yaml YamlProofs.
Local Open Scope N_scope.

Notation text := (list N) (only parsing).

Definition SEP : text := [44; 32].          (* ", " *)
Definition COLON : text := [58; 32].        (* ": " *)
Fixpoint join_sep (l : list text) : text := match l with [] => [] | [x] => x | x :: r => x ++ SEP ++ join_sep r end.
(* what to_yaml_one_liner writes for the environment *)
Definition env_entry (kv : text * text) : text := yaml_scalar (fst kv) ++ COLON ++ yaml_quoted (snd kv).
Definition env_text (env : list (text * text)) : text := [123] ++ join_sep (map env_entry env) ++ [125].

(* ---------- the reference reader ---------- *)
Definition starts2 (a b : N) (s : text) : bool := match s with x :: y :: _ => (x =? a) && (y =? b) | _ => false end.
Definition head_is (a : N) (s : text) : bool := match s with x :: _ => x =? a | [] => false end.
(* a plain key: everything up to the first ": " *)
Fixpoint split_colon (s : text) : option (text * text) :=
  match s with
  | [] => None
  | c :: r => if starts2 58 32 s then Some ([], tl r)
              else match split_colon r with Some (k, rest) => Some (c :: k, rest) | None => None end
  end.
Definition read_key (s : text) : option (text * text) :=
  if head_is 34 s then
    match rq QN [] (tl s) with
    | Some (k, r) => if starts2 58 32 r then Some (k, skipn 2 r) else None
    | None => None end
  else match split_colon s with Some ([], _) => None | x => x end.
Definition read_value (s : text) : option (text * text) := if head_is 34 s then rq QN [] (tl s) else None.
Fixpoint read_entries (fuel : nat) (s : text) : option (list (text * text) * text) :=
  match fuel with
  | O => None
  | S f =>
    match read_key s with
    | None => None
    | Some (k, r1) =>
      match read_value r1 with
      | None => None
      | Some (v, r2) =>
        if head_is 125 r2 then Some ([(k, v)], tl r2)
        else if starts2 44 32 r2 then
          match read_entries f (skipn 2 r2) with Some (m, rest) => Some ((k, v) :: m, rest) | None => None end
        else None
      end
    end
  end.
Definition read_env (s : text) : option (list (text * text) * text) :=
  if head_is 123 s then
    if head_is 125 (tl s) then Some ([], tl (tl s)) else read_entries (length s) (tl s)
  else None.

(* ---------- proofs ---------- *)
Lemma plain_char_not_special : forall c, plain_char c = true -> c <> 58 /\ c <> 34 /\ c <> 125 /\ c <> 44.
Proof. intros c H. unfold plain_char, is_alpha, is_digit_c in H. lia. Qed.

Lemma split_colon_plain : forall k r, forallb plain_char k = true -> split_colon (k ++ COLON ++ r) = Some (k, r).
Proof.
  induction k as [|c k IH]; intros r H; [reflexivity|].
  cbn [forallb] in H. apply andb_true_iff in H. destruct H as [Hc Hk]. destruct (plain_char_not_special c Hc) as [N1 _].
  cbn [app split_colon]. assert (E: starts2 58 32 (c :: k ++ COLON ++ r) = false).
  { unfold starts2. destruct (k ++ COLON ++ r); [reflexivity|]. assert (E: (c =? 58) = false) by lia. rewrite E. reflexivity. }
  rewrite E, (IH r Hk). reflexivity.
Qed.

Lemma is_plain_chars : forall t, is_plain t = true -> forallb plain_char t = true /\ t <> [].
Proof.
  intros t H. unfold is_plain in H. destruct t as [|c r]; [discriminate|].
  apply andb_true_iff in H. destruct H as [H _]. apply andb_true_iff in H. destruct H as [_ H]. split; [exact H|discriminate].
Qed.

Definition scalar_ok (t : text) : Prop := Forall (fun c => c < 1114112) t.

Lemma read_key_scalar : forall k r, scalar_ok k -> read_key (yaml_scalar k ++ COLON ++ r) = Some (k, r).
Proof.
  intros k r Hk. unfold yaml_scalar. destruct (is_plain k) eqn:Ep.
  - destruct (is_plain_chars k Ep) as [Hc Hne]. unfold read_key.
    assert (Eh: head_is 34 (k ++ COLON ++ r) = false).
    { destruct k as [|c k']; [congruence|]. cbn [forallb] in Hc. apply andb_true_iff in Hc. destruct Hc as [Hc _].
      destruct (plain_char_not_special c Hc) as (_ & N2 & _). cbn. lia. }
    rewrite Eh, (split_colon_plain k r Hc). destruct k; [congruence|reflexivity].
  - unfold read_key, yaml_quoted. cbn [app head_is tl]. change (34 =? 34) with true. cbv iota.
    rewrite <- app_assoc. rewrite rq_flat by exact Hk. cbn [app rq]. change (34 =? 34) with true. cbv iota.
    rewrite app_nil_r, rev_involutive. reflexivity.
Qed.

Lemma read_value_quoted : forall v r, scalar_ok v -> read_value (yaml_quoted v ++ r) = Some (v, r).
Proof.
  intros v r Hv. unfold read_value, yaml_quoted. cbn [app head_is tl]. change (34 =? 34) with true. cbv iota.
  rewrite <- app_assoc. rewrite rq_flat by exact Hv. cbn [app rq]. change (34 =? 34) with true. cbv iota.
  rewrite app_nil_r, rev_involutive. reflexivity.
Qed.

Definition pair_ok (kv : text * text) : Prop := scalar_ok (fst kv) /\ scalar_ok (snd kv).

Lemma read_entries_spec : forall env fuel rest, env <> [] -> Forall pair_ok env -> (length env <= fuel)%nat ->
  read_entries fuel (join_sep (map env_entry env) ++ 125 :: rest) = Some (env, rest).
Proof.
  induction env as [|[k v] env IH]; intros fuel rest Hne Hok Hf; [congruence|].
  inversion Hok as [|x y [Hk Hv] Hr]; subst. cbn [fst snd] in Hk, Hv.
  destruct fuel as [|f]; [cbn in Hf; lia|]. cbn [read_entries].
  destruct env as [|kv2 env'].
  - cbn [map join_sep]. unfold env_entry. cbn [fst snd]. rewrite <- !app_assoc.
    rewrite (read_key_scalar k _ Hk). rewrite (read_value_quoted v _ Hv). cbn [app head_is tl]. reflexivity.
  - change (join_sep (map env_entry ((k, v) :: kv2 :: env'))) with (env_entry (k, v) ++ SEP ++ join_sep (map env_entry (kv2 :: env'))).
    unfold env_entry at 1. cbn [fst snd]. rewrite <- !app_assoc.
    rewrite (read_key_scalar k _ Hk). rewrite (read_value_quoted v _ Hv).
    cbn [app SEP head_is starts2 skipn]. change (44 =? 125) with false. change (44 =? 44) with true. change (32 =? 32) with true. cbv iota. cbn [andb].
    rewrite (IH f rest ltac:(discriminate) Hr ltac:(cbn in *; lia)). reflexivity.
Qed.

Lemma entry_head : forall kv r, head_is 125 (env_entry kv ++ r) = false.
Proof.
  intros [k v] r. unfold env_entry, yaml_scalar. cbn [fst snd]. destruct (is_plain k) eqn:Ep.
  - destruct (is_plain_chars k Ep) as [Hc Hne]. destruct k as [|c k']; [congruence|].
    cbn [forallb] in Hc. apply andb_true_iff in Hc. destruct Hc as [Hc _]. destruct (plain_char_not_special c Hc) as (_ & _ & N3 & _).
    cbn [app head_is]. apply N.eqb_neq. exact N3.
  - unfold yaml_quoted. reflexivity.
Qed.
Lemma join_sep_head : forall kv env, exists tail, join_sep (map env_entry (kv :: env)) = env_entry kv ++ tail.
Proof. intros kv [|kv2 env']; cbn [map join_sep]; [exists []; rewrite app_nil_r; reflexivity|eexists; reflexivity]. Qed.

Lemma join_sep_length : forall env, (length env <= length (join_sep (map env_entry env)))%nat.
Proof.
  induction env as [|kv env IH]; [cbn; lia|]. destruct env as [|kv2 env'].
  - cbn [map join_sep length]. unfold env_entry. rewrite !app_length. cbn [COLON length]. lia.
  - change (join_sep (map env_entry (kv :: kv2 :: env'))) with (env_entry kv ++ SEP ++ join_sep (map env_entry (kv2 :: env'))).
    rewrite !app_length. cbn [SEP length] in *. lia.
Qed.

Theorem read_env_text : forall env rest, Forall pair_ok env -> read_env (env_text env ++ rest) = Some (env, rest).
Proof.
  intros env rest H. unfold read_env, env_text. cbn [app head_is tl]. change (123 =? 123) with true. cbv iota.
  destruct env as [|kv env'].
  - cbn [map join_sep app head_is tl]. reflexivity.
  - assert (Eh: head_is 125 ((join_sep (map env_entry (kv :: env')) ++ [125]) ++ rest) = false).
    { destruct (join_sep_head kv env') as [tail ->]. rewrite <- !app_assoc. apply entry_head. }
    rewrite Eh. rewrite <- app_assoc. cbn [app]. apply read_entries_spec; [discriminate|exact H|].
    pose proof (join_sep_length (kv :: env')) as L. cbn [length] in *. rewrite !app_length. cbn [length]. lia.
Qed.
