From Coq Require Import List NArith ZArith Lia Bool ZifyBool ZifyNat ZifyN.
Import ListNotations.
From SV Require Import Utf8 Escape EscapeProofs Yaml.
Local Open Scope N_scope.
Ltac Zify.zify_post_hook ::= Z.div_mod_to_equations.

Lemma hexval_hexd : forall d, d < 16 -> hexval (hexd d) = Some d.
Proof.
  intros d H. unfold hexval. destruct (hexd_range d H) as [[R L]|[R L]].
  - assert (E : ((48 <=? hexd d) && (hexd d <=? 57)) = true) by lia. rewrite E. f_equal. unfold hexd in *. destruct (d <? 10) eqn:X; lia.
  - assert (E : ((48 <=? hexd d) && (hexd d <=? 57)) = false) by lia. rewrite E.
    assert (E' : ((97 <=? hexd d) && (hexd d <=? 102)) = true) by lia. rewrite E'. f_equal. unfold hexd in *. destruct (d <? 10) eqn:X; lia.
Qed.

Lemma hexd_not_special : forall d, d < 16 -> hexd d <> 34 /\ hexd d <> 92.
Proof. intros d H. destruct (hexd_range d H) as [[R _]|[R _]]; lia. Qed.

(* one character written, then read *)
Lemma rq_quote_char : forall c out rest, c < 1114112 ->
  rq QN out (quote_char c ++ rest) = rq QN (c :: out) rest.
Proof.
  intros c out rest Hc. unfold quote_char.
  destruct (c =? 34) eqn:E34; [assert (c = 34) by lia; subst; reflexivity|].
  destruct (c =? 92) eqn:E92; [assert (c = 92) by lia; subst; reflexivity|].
  destruct (needs_u_escape c) eqn:EU.
  - assert (Hs : c < 65536) by (unfold needs_u_escape in EU; lia).
    cbn [app hex4 rq]. change (92 =? 34) with false. change (92 =? 92) with true. cbv iota.
    change (117 =? 34) with false. change (117 =? 92) with false. change (117 =? 117) with true. cbv iota.
    rewrite !hexval_hexd by lia. cbn [Nat.eqb].
    assert (V : ((0 * 16 + c / 4096) * 16 + (c / 256) mod 16) * 16 + (c / 16) mod 16 = c / 16) by lia.
    replace ((((0 * 16 + c / 4096) * 16 + (c / 256) mod 16) * 16 + (c / 16) mod 16) * 16 + c mod 16) with c by lia.
    reflexivity.
  - cbn [app rq]. rewrite E34, E92. reflexivity.
Qed.

Lemma rq_flat : forall t out rest, Forall (fun c => c < 1114112) t ->
  rq QN out (flat_map quote_char t ++ rest) = rq QN (rev t ++ out) rest.
Proof.
  induction t as [|c t IH]; intros out rest H; [reflexivity|].
  inversion H as [|? ? Hc Ht]; subst. cbn [flat_map]. rewrite <- app_assoc. rewrite rq_quote_char by exact Hc.
  rewrite IH by exact Ht. cbn [rev]. rewrite <- app_assoc. reflexivity.
Qed.

Theorem unquote_quoted : forall t, Forall (fun c => c < 1114112) t -> yaml_unquote (yaml_quoted t) = Some t.
Proof.
  intros t H. unfold yaml_unquote, yaml_quoted. cbn [app]. rewrite rq_flat by exact H.
  cbn [rq]. rewrite app_nil_r, rev_involutive. reflexivity.
Qed.

(* quoted text contains nothing that YAML would not read verbatim: no raw quote, control character or line break *)
Lemma quote_char_clean : forall c, Forall (fun x => needs_u_escape x = false) (quote_char c).
Proof.
  intros c. unfold quote_char.
  destruct (c =? 34); [repeat constructor|]. destruct (c =? 92); [repeat constructor|].
  destruct (needs_u_escape c) eqn:E; [|constructor; [exact E|constructor]].
  assert (Hs : c < 65536) by (unfold needs_u_escape in E; lia).
  cbn [app hex4]. repeat constructor; try reflexivity;
  match goal with |- needs_u_escape (hexd ?d) = false => destruct (hexd_range d ltac:(lia)) as [[R _]|[R _]]; unfold needs_u_escape; lia end.
Qed.

Theorem quoted_clean : forall t, Forall (fun x => needs_u_escape x = false) (yaml_quoted t).
Proof.
  intros t. unfold yaml_quoted. apply Forall_app. split; [repeat constructor|]. apply Forall_app. split; [|repeat constructor].
  induction t as [|c t IH]; [constructor|]. cbn [flat_map]. apply Forall_app. split; [apply quote_char_clean|exact IH].
Qed.

(* plain-or-quoted scalars read back as the text they were written from *)
Theorem read_scalar_scalar : forall t, Forall (fun c => c < 1114112) t -> read_scalar (yaml_scalar t) = Some t.
Proof.
  intros t H. unfold yaml_scalar. destruct (is_plain t) eqn:P.
  - unfold read_scalar. destruct t as [|c r]; [discriminate|]. unfold is_plain in P.
    apply andb_true_iff in P. destruct P as [P _]. apply andb_true_iff in P. destruct P as [P _].
    assert (c <> 34) by (unfold plain_first, is_alpha in P; lia).
    destruct c as [|p]; [reflexivity|]. do 6 (destruct p as [p|p|]; try reflexivity). exfalso. apply H0. reflexivity.
  - unfold read_scalar. change (yaml_quoted t) with (34 :: (flat_map quote_char t ++ [34])). apply (unquote_quoted t H).
Qed.
