(* GENERATED from /repo by bin/gen.py on every run -- do not edit *)
From Coq Require Import List NArith ZArith Bool.
Import ListNotations.
From SV Require Import Config.
Local Open Scope N_scope.

Definition default_skip_document_code : Z := (80)%Z.
Definition default_document_timeout_ms : N := 900000.
Definition tc_default_markdown : tcfg := {| output_stream := Some 0; keep_crlf := None; timeout := None; detached := None; skip_code := Some (80)%Z; strip_ansi := None; wait := None; environment := [] |}.
Definition tc_default_cram : tcfg := {| output_stream := Some 2; keep_crlf := Some true; timeout := None; detached := None; skip_code := Some (80)%Z; strip_ansi := None; wait := None; environment := [] |}.
Definition tc_empty_get_skip_code : Z := (80)%Z.
Definition doc_default_markdown_total_timeout : option N := Some 900000.
Definition doc_default_cram_total_timeout : option N := Some 900000.
