(* GENERATED from /repo by bin/gen.py on every run -- do not edit *)
From Coq Require Import List NArith.
Import ListNotations.
Local Open Scope N_scope.

(* (name, Some literal value | None = computed per document) in the order build_env_vars pushes them *)
Definition env_always : list (list N * option (list N)) := [([84; 69; 83; 84; 68; 73; 82], None); ([84; 69; 83; 84; 70; 73; 76; 69], None); ([84; 77; 80; 68; 73; 82], None); ([84; 69; 83; 84; 83; 72; 69; 76; 76], None); ([76; 65; 78; 71], Some [67]); ([76; 65; 78; 71; 85; 65; 71; 69], Some [67]); ([76; 67; 95; 65; 76; 76], Some [67]); ([84; 90], Some [71; 77; 84]); ([67; 79; 76; 85; 77; 78; 83], Some [56; 48]); ([67; 68; 80; 65; 84; 72], Some []); ([71; 82; 69; 80; 95; 79; 80; 84; 73; 79; 78; 83], Some [])].
Definition env_cram_compat : list (list N * option (list N)) := [([67; 82; 65; 77; 84; 77; 80], None); ([84; 77; 80], None); ([84; 69; 77; 80], None)].
