(* GENERATED from /repo by bin/gen.py on every run -- do not edit *)
From Coq Require Import List NArith Bool.
Import ListNotations.
Local Open Scope N_scope.

(* humantime 2.4.0, src/duration.rs.  Units are numbered 0 ns, 1 us, 2 ms, 3 s, 4 min, 5 h, 6 day, 7 week, 8 month, 9 year *)
Definition ht_version : list N := [50; 46; 52; 46; 48].
(* Unit::from_str: every accepted unit name *)
Definition ht_unit_names : list (list N * N) := [([110; 97; 110; 111; 115], 0); ([110; 115; 101; 99], 0); ([110; 115], 0); ([117; 115; 101; 99], 1); ([117; 115], 1); ([181; 115], 1); ([109; 105; 108; 108; 105; 115], 2); ([109; 115; 101; 99], 2); ([109; 115], 2); ([115; 101; 99; 111; 110; 100; 115], 3); ([115; 101; 99; 111; 110; 100], 3); ([115; 101; 99; 115], 3); ([115; 101; 99], 3); ([115], 3); ([109; 105; 110; 117; 116; 101; 115], 4); ([109; 105; 110; 117; 116; 101], 4); ([109; 105; 110], 4); ([109; 105; 110; 115], 4); ([109], 4); ([104; 111; 117; 114; 115], 5); ([104; 111; 117; 114], 5); ([104; 114], 5); ([104; 114; 115], 5); ([104], 5); ([100; 97; 121; 115], 6); ([100; 97; 121], 6); ([100], 6); ([119; 101; 101; 107; 115], 7); ([119; 101; 101; 107], 7); ([119; 107], 7); ([119; 107; 115], 7); ([119], 7); ([109; 111; 110; 116; 104; 115], 8); ([109; 111; 110; 116; 104], 8); ([77], 8); ([121; 101; 97; 114; 115], 9); ([121; 101; 97; 114], 9); ([121; 114], 9); ([121; 114; 115], 9); ([121], 9)].
(* parse_unit: (unit, multiplier, counts nanoseconds?) *)
Definition ht_unit_amounts : list (N * N * bool) := [(0, 1, true); (1, 1000, true); (2, 1000000, true); (3, 1, false); (4, 60, false); (5, 3600, false); (6, 86400, false); (7, 604800, false); (8, 2630016, false); (9, 31557600, false)].
(* Display: seconds per year / month / day / hour *)
Definition ht_format_divisors : list N := [31557600; 2630016; 86400; 3600].
