(* GENERATED from /repo by bin/gen.py on every run -- do not edit *)
From Coq Require Import List NArith.
Import ListNotations.
Local Open Scope N_scope.

(* kind names accepted in ` (<kind><quantifier>)`, with the rule they make: 0 equal, 1 no-eol, 2 escaped, 3 glob, 4 regex *)
Definition kind_names : list (list N * nat) := [([101; 113; 117; 97; 108], 0%nat); ([101; 113], 0%nat); ([110; 111; 45; 101; 111; 108], 1%nat); ([101; 115; 99; 97; 112; 101; 100], 2%nat); ([101; 115; 99], 2%nat); ([103; 108; 111; 98], 3%nat); ([103; 108], 3%nat); ([114; 101; 103; 101; 120], 4%nat); ([114; 101], 4%nat)].
