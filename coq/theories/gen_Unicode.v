(* GENERATED from /repo by bin/gen.py on every run -- do not edit *)
From Coq Require Import List NArith.
Import ListNotations.
Local Open Scope N_scope.

(* char::is_other() of the unicode_categories crate scrut links: inclusive code point ranges *)
Definition other_ranges : list (N * N) := [(0, 31); (127, 159); (173, 173); (1536, 1541); (1564, 1564); (1757, 1757); (1807, 1807); (6158, 6158); (8203, 8207); (8234, 8238); (8288, 8292); (8294, 8303); (57344, 63743); (65279, 65279); (65529, 65531); (69821, 69821); (113824, 113827); (119155, 119162); (917505, 917505); (917536, 917631); (983040, 1048573); (1048576, 1114109)].
(* char::is_whitespace() of the Rust standard library *)
Definition whitespace_ranges : list (N * N) := [(9, 13); (32, 32); (133, 133); (160, 160); (5760, 5760); (8192, 8202); (8232, 8233); (8239, 8239); (8287, 8287); (12288, 12288)].
