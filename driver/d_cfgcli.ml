(* C16 end to end: what each test case of a real `scrut test` run observably ran with (stream, CR LF translation,
   environment variables) against the proved precedence: command line > inline > document defaults > format defaults *)
open Svmodel
open Util

type docd = { role : char; defaults : tcfg; tests : tcfg list }

let parse_docd (s : string) : docd =
  match split_on ':' s with
  | role :: rest ->
    (* the layer texts contain ':' inside env=k:v, so re-join and split on the two top-level separators by position *)
    let body = String.concat ":" rest in
    (* body = "<defaults layer>:<test layer>/<test layer>..." ; a layer always starts with "os=" *)
    let idx = (let rec find i = if i + 4 > String.length body then failwith "docd" else if String.sub body i 4 = ":os=" then i else find (i + 1) in find 0) in
    let d = String.sub body 0 idx and ts = String.sub body (idx + 1) (String.length body - idx - 1) in
    { role = role.[0]; defaults = D_config.parse_tc d; tests = List.map D_config.parse_tc (split_on '/' ts) }
  | _ -> failwith "docd"

let os_name = function Some 0 -> "stdout" | Some 1 -> "stderr" | Some 2 -> "combined" | _ -> "?"

let run () = iter_lines (fun line ->
  try
    match split_on '|' (String.sub line 2 (String.length line - 2)) with
    | cli :: docs :: ex :: seen :: marks_fields ->
      (* marks contain '|' themselves: id|VA|VB|VC|VD joined by ',' *)
      let marks = String.concat "|" marks_fields in
      let toks = split_on ' ' cli in
      let compat = List.mem "cc=1" toks in
      let sh = (try List.find (fun t -> String.length t = 5 && String.sub t 0 3 = "sh=") toks with Not_found -> "sh=--") in
      (* the `shell` key: command line > main document > default; one shell for the whole run *)
      let want_shell = if sh.[3] <> '-' then String.make 1 sh.[3] else if sh.[4] <> '-' then String.make 1 sh.[4] else "default" in
      bump ("shell:" ^ sh ^ (if compat then "/cram-compat" else ""));
      let cli = D_config.parse_tc (String.concat " " (List.filter (fun t -> t <> "cc=1" && not (String.length t >= 3 && String.sub t 0 3 = "sh=")) toks)) in
      if compat then bump "cli:cram-compat";
      let format_defaults = if compat then tc_default_cram else tc_default_markdown in
      let docs = List.map parse_docd (split_on ';' docs) in
      let main = List.hd docs in
      let exit_code = int_of_string (D_config.field ex) in
      bump (Printf.sprintf "documents:%d" (List.length docs));
      List.iter (fun d -> bump (Printf.sprintf "role:%c" d.role)) docs;
      bump (Printf.sprintf "cli:os=%s/kc=%s" (match cli.output_stream with None -> "-" | Some x -> string_of_int (int_of_n x)) (match cli.keep_crlf with None -> "-" | Some b -> string_of_bool b));
      note_distinct (String.concat "|" [D_config.show_tc cli; String.concat ";" (List.map (fun d -> D_config.show_tc d.defaults) docs)]) (List.length docs >= 2 || List.length main.tests >= 2);
      sample line;
      if exit_code <> 50 then report "DIFF:cfg-run" (Printf.sprintf "exit status %d: every test of the run fails on purpose" exit_code) line
      else begin
        let seen_l = if seen = "-" then [] else List.map (fun e -> match String.index_opt e '=' with
            | Some i -> (String.sub e 0 i, String.sub e (i + 1) (String.length e - i - 1)) | None -> (e, "?")) (split_on ',' seen) in
        let marks_l = if marks = "-" then [] else List.map (fun m -> split_on '|' m) (split_on ',' marks) in
        (* effective configuration of test ti of document di, composed as scrut composes it: the parser lays the test's
           inline configuration over its OWN document's defaults and the format defaults, the test command applies the flags,
           the executor fills in the MAIN document's defaults *)
        let expected di ti =
          let d = List.nth docs di in
          let tc = List.nth d.tests ti in
          with_defaults (with_overrides (with_defaults (with_defaults tc d.defaults) format_defaults) cli) main.defaults in
        let earlier : (int * string) list ref = ref [] in     (* variables exported by earlier test cases of the run *)
        List.iter (fun m -> match m with
          | [id; va; vb; vc; vd; shell_seen] ->
            if shell_seen <> want_shell then
              report "SPEC:C16" (Printf.sprintf "test %s ran in shell %s, the layers say %s (--shell > the main document's shell > /bin/bash)" id shell_seen want_shell) line;
            (match Scanf.sscanf id "D%dT%d" (fun a b -> (a, b)) with
             | (di, ti) ->
               let e = expected di ti in
               (* ---- stream and CR LF, from the diff of the failing test *)
               let obs = (try List.assoc id seen_l with Not_found -> "?") in
               let os = (match e.output_stream with Some x -> Some (int_of_n x) | None -> None) in
               let keep = (match e.keep_crlf with Some b -> b | None -> false) in
               let cr = if keep then "+" else "" in
               let want = (match os with Some 0 -> "O" ^ cr | Some 1 -> "E" ^ cr | Some 2 -> "O" ^ cr ^ "E" ^ cr | _ -> "?") in
               bump ("effective:" ^ os_name os ^ (if keep then "/keep_crlf" else ""));
               if obs <> want then
                 report "SPEC:C16" (Printf.sprintf "test %s was validated on %s, the layers say %s (output_stream=%s keep_crlf=%b: command line > inline > document defaults > format defaults)" id obs want (os_name os) keep) line;
               (* ---- environment variables *)
               List.iteri (fun k v ->
                 let key = k + 1 in
                 let want = (match lookup (n_of_int key) e.environment with Some x -> Printf.sprintf "v%d" (int_of_n x) | None -> "unset") in
                 let prev = (try Some (List.assoc key !earlier) with Not_found -> None) in
                 (match prev with
                  | Some p when p <> want ->
                    (* an earlier test case exported this variable with another value: the restored shell state shadows the configuration *)
                    if v = p && want <> "unset" then report "SPEC:C16" "known:env-shadowed-by-carried-state a variable set by the configuration of this test case keeps the value an earlier test case of the document exported" line
                    else if v <> p && v <> want then report "SPEC:C16" (Printf.sprintf "test %s sees V%c=%s, the layers say %s" id (Char.chr (65 + k)) v want) line
                  | _ ->
                    if v <> want then report "SPEC:C16" (Printf.sprintf "test %s sees V%c=%s, the layers say %s (inline > document defaults)" id (Char.chr (65 + k)) v want) line);
                 if v <> "unset" then earlier := (key, v) :: List.remove_assoc key !earlier) [va; vb; vc; vd])
          | _ -> report "BAD" "mark" line) marks_l;
        let n_tests = List.fold_left (fun a d -> a + List.length d.tests) 0 docs in
        if List.length marks_l <> n_tests then report "DIFF:cfg-run" (Printf.sprintf "%d of %d tests ran" (List.length marks_l) n_tests) line
      end
    | _ -> report "BAD" "unparsable case line" line
  with Failure m -> report "BAD" ("cfgcli case: " ^ m) line | Scanf.Scan_failure m -> report "BAD" ("cfgcli case: " ^ m) line)
