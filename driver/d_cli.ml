(* C05/C14/C15/C20 end to end: model of executor + test command vs `scrut test -r json` with real bash *)
open Svmodel
open Util

type t = { kind : char; code : int; inl : int option }
type doc = { cram : bool; role : char; docskip : int option; total : int option; tests : t list; idx : int; fileno : int }

let parse_test s =
  let kind = s.[0] in
  let rest = String.sub s 1 (String.length s - 1) in
  let code, inl = match String.index_opt rest 'i' with
    | Some i -> (String.sub rest 0 i, Some (int_of_string (String.sub rest (i + 1) (String.length rest - i - 1))))
    | None -> (rest, None) in
  { kind; code = (if code = "" then 0 else int_of_string code); inl }
let parse_doc idx s =
  match split_on ':' s with
  | [fr; sk; tt; ts] ->
    { cram = fr.[0] = 'c'; role = fr.[1]; docskip = (if sk = "-" then None else Some (int_of_string sk));
      total = (if tt = "-" then None else Some (int_of_string tt)); tests = List.map parse_test (split_on ',' ts); idx;
      fileno = (if String.length fr > 2 then int_of_string (String.sub fr 2 (String.length fr - 2)) else idx) }
  | _ -> failwith "doc"

let res_str = function Some Success -> "ok" | Some Failed -> "failed" | Some FailedTimeout -> "timeout" | Some RSkipped -> "skipped" | None -> "none"

let run () = iter_lines (fun line ->
  let rest = String.sub line 2 (String.length line - 2) in
  match split_on '|' rest with
  | [tag; ex] when String.length tag > 0 && tag.[0] = '!' ->
    (* C20: the exit status is 0, 50 or 1 -- 1 when scrut itself could not do its job, here: could not write the result *)
    bump ("cli:" ^ tag); note_distinct line true;
    if D_config.field ex <> "1" then report "SPEC:C20" (Printf.sprintf "STDOUT cannot be written to (%s): exit status %s, not 1" tag (D_config.field ex)) line
  | [docs_s; ct; ex; json; entries; marks; leftover; late; compat_s; dirs_s] ->
    let compat = (compat_s = "compat=1") in
    if dirs_s = "dirs=1" then bump "documents given as directories (nested, next to files that are no documents)";
    let docs = List.mapi parse_doc (split_on ';' docs_s) in
    (* a limit of more than twelve digits of seconds (2^64 - 1 is generated) is beyond what the clock can express: no limit *)
    let cli_timeout = (let v = D_config.field ct in if v = "-" then None else if String.length v > 12 then (bump "cli:--timeout-seconds 2^64-1"; Some 0) else Some (1000 * int_of_string v)) in
    let cli_unlimited = (cli_timeout = Some 0) in   (* --timeout-seconds 0: no limit, whatever the documents say *)
    let mains = List.filter (fun d -> d.role = 'm') docs in
    let pres = List.filter (fun d -> d.role = 'p') docs and apps = List.filter (fun d -> d.role = 'a') docs in
    let with_ids d = List.mapi (fun i t -> (d, i, t)) d.tests in
    (* per main document: what runs, and the model's executor result *)
    let plan = List.map (fun (m : doc) ->
      let all = List.concat_map with_ids pres @ with_ids m @ List.concat_map with_ids apps in
      let skip_of (d, _, t) = (match t.inl with Some k -> k | None -> (match m.docskip with Some k -> k | None -> int_of_z default_skip_document_code)) in
      let tcs = List.map (fun ((_, _, t) as x) ->
          { expected = (if t.kind = 'E' then Some (z_of_int t.code) else None); t_skip = z_of_int (skip_of x);
            per_timeout = (if t.kind = 'T' || t.kind = 'B' then Some (n_of_int 400) else None); empty_ok = true }) all in
      let script_mode = m.cram || compat in   (* one script per document: Cram files, and every document under --cram-compat *)
      (* the skip code of the one script: 80 for a Cram file; under --cram-compat what the test cases carry (the same on all of them) *)
      let script_skip = (if m.cram then default_skip_document_code else (match all with x :: _ -> z_of_int (skip_of x) | [] -> default_skip_document_code)) in
      (* a plain `exit 3` leaves the script with code 3: when 3 IS the skip code of the script that is a skip like `exit <skip code>` *)
      let x_is_skip = script_mode && int_of_z script_skip = 3 in
      let total_ms = (match cli_timeout with Some t -> t | None -> (match m.total with Some t -> t | None -> int_of_n default_document_timeout_ms)) in
      (* time that has certainly passed before each test case starts: two seconds for every `wait: 2s` so far (this one included) *)
      let elapsed = (let rec f acc = function [] -> [] | (_, _, t) :: r -> let acc' = (if t.kind = 'w' then acc + 2000 else acc) in acc' :: f acc' r in
                     let l = f 0 all in List.mapi (fun i e -> if (let (_, _, t) = List.nth all i in t.kind = 'w') then e - 2000 else e) l) in
      let rs = List.map2 (fun ((_, _, t) as x) el ->
          let st = (if (not m.cram) && total_ms > 0 && el >= total_ms then TimedOut else match t.kind with
              | 'P' | 'O' | 'w' -> Code Z0 | 'C' | 'E' -> Code (z_of_int t.code) | 'S' -> Code (z_of_int (if m.cram then 80 else skip_of x))
              | 'Q' -> if script_mode then ESkipped else Code (z_of_int (skip_of x))
              | 'G' when cli_unlimited -> Code Z0
              | 'T' | 'G' | 'B' -> TimedOut | 'D' -> EDetached | 'K' -> Unknown | 'X' -> if x_is_skip then ESkipped else Code (z_of_int 3) | _ -> failwith "kind") in
          { status = st; out_ok = (t.kind <> 'O') }) all elapsed in
      let total = (match cli_timeout with Some 0 -> None | Some t -> Some (n_of_int t) | None ->
                     (match m.total with Some t -> Some (n_of_int t) | None -> Some default_document_timeout_ms)) in
      (* Cram: the first test case that leaves the script early with a plain `exit 3` *)
      let early = (if x_is_skip then None else let rec f i = function [] -> None | (_, _, t) :: r -> if t.kind = 'X' then Some (nat_of_int i) else f (i + 1) r in f 0 all) in
      let e = if script_mode then exec_script2 script_skip rs early
              else exec_timed tcs rs total (List.map n_of_int elapsed) in
      (m, all, tcs, rs, e)) mains in
    let model_docs = List.map (fun (_, _, tcs, _, e) -> (tcs, e)) plan in
    let mexit = int_of_z (run_exit model_docs) in
    let mout = run_outcomes model_docs in
    (* expected entries and marks *)
    let errored = (mexit = 1) in
    let exp_entries = if errored then [] else
        List.concat (List.map2 (fun (m, all, _, _, _) results ->
          List.concat (List.map2 (fun ((d : doc), i, _) r ->
            match r with None -> [] | Some _ -> [Printf.sprintf "doc%d.%s/D%dT%d=%s" m.fileno (if m.cram then "t" else "md") d.idx i (res_str r)]) all results)) plan mout) in
    let rec marks_until = function
      | [] -> []
      | (m, all, _, rs, e) :: rest ->
        let reached =
          if m.cram || compat then (let rec f i = function [] -> i | ((_, _, t), (r : rstep)) :: rest -> (match r.status with Unknown | TimedOut | ESkipped -> i + 1 | _ -> if t.kind = 'X' then i + 1 else f (i + 1) rest) in f 0 (List.combine all rs))
          else (match e with
              | ExOk _ -> (let rec f i = function [] -> i | (r : rstep) :: t -> (match r.status with Unknown -> i + 1 | _ -> f (i + 1) t) in f 0 rs)
              | ExSkipped i | ExFailed i -> int_of_nat i + 1
              | ExTimeout (_, outs) -> List.length outs) in
        let ms = List.filteri (fun i _ -> i < reached) (List.map (fun ((d : doc), i, _) -> Printf.sprintf "D%dT%d" d.idx i) all) in
        (match e with ExFailed _ -> ms | _ -> ms @ marks_until rest) in
    let exp_marks = marks_until plan in
    let has k = List.exists (fun d -> List.exists (fun t -> t.kind = k) d.tests) docs in
    bump (Printf.sprintf "exit:%d" mexit); bump (Printf.sprintf "docs:%d" (List.length mains));
    List.iter (fun k -> if has k then bump (Printf.sprintf "has:%c" k)) ['P'; 'O'; 'C'; 'E'; 'S'; 'Q'; 'T'; 'G'; 'B'; 'D'; 'K'; 'X'; 'w'];
    if pres <> [] then bump "has:prepend"; if apps <> [] then bump "has:append";
    if List.exists (fun d -> d.cram) mains then bump "has:cram";
    note_distinct docs_s (List.length (List.concat_map (fun d -> d.tests) docs) >= 2); sample line;
    let iexit = int_of_string (D_config.field ex) in
    let ientries = if entries = "-" then [] else split_on ',' entries in
    let imarks = (let v = D_config.field marks in if v = "-" then [] else split_on ',' v) in
    if iexit <> mexit then report "DIFF:exit" (Printf.sprintf "model=%d impl=%d" mexit iexit) line;
    if ientries <> exp_entries then report "DIFF:results" ("model=" ^ String.concat "," exp_entries) line;
    (* detached commands write their marker asynchronously: compare marks without them *)
    let is_detached_mark mk = List.exists (fun d -> List.exists (fun (dd, i, t) -> t.kind = 'D' && Printf.sprintf "D%dT%d" dd.idx i = mk) (with_ids d)) docs in
    (* a test case that starts with no time left is cut off at once: whether its shell got as far as its marker is not determined *)
    let no_time_marks = List.concat_map (fun d ->
        if d.cram || d.role <> 'm' then [] else
          let after_wait = ref false in
          List.concat (List.mapi (fun i t -> let r = (if !after_wait then [Printf.sprintf "D%dT%d" d.idx i] else []) in
                                    if t.kind = 'w' then after_wait := true; r) d.tests)) docs in
    let strip l = List.filter (fun mk -> not (is_detached_mark mk) && not (List.mem mk no_time_marks)) l in
    if strip imarks <> strip exp_marks then report "DIFF:marks" ("model=" ^ String.concat "," exp_marks) line;
    if json <> "json=1" then report "SPEC:C19" "json renderer output is not well-formed JSON" line;
    if leftover <> "leftover=0" then report "SPEC:C18" ("directories left in TMPDIR after the run: " ^ leftover) line;
    (* with --timeout-seconds 0 the slow command is not limited at all and finishes: its late line is then expected *)
    if late <> "late=-" && not cli_unlimited then report "SPEC:C14" ("a command that ran into its limit was not aborted, it went on running after scrut had reported the timeout: " ^ late) line;
    if cli_unlimited then bump "cli:timeout-seconds-0"; if compat then bump "cli:cram-compat";
    (* C16: the command line is the top layer: with --timeout-seconds 0 no limit of a lower layer may cut a test case short *)
    if cli_unlimited && List.exists (fun e -> (match String.rindex_opt e '=' with Some i -> String.sub e (i + 1) (String.length e - i - 1) = "timeout" | None -> false))
                          (if entries = "-" then [] else split_on ',' entries) then
      report "SPEC:C16" "--timeout-seconds 0 (no limit) was given on the command line and yet a test case timed out on the limit of the document" line;
    if cli_unlimited && (has 'T' || has 'G') && late = "late=-" then report "SPEC:C16" "--timeout-seconds 0 (no limit) was given and yet the slow command did not run to its end" line;
    if has 'T' || has 'G' then bump "waited-for-late-effects";
    (* ---- oracles on what the implementation reported ---- *)
    let kind_of e = (match String.rindex_opt e '=' with Some i -> String.sub e (i + 1) (String.length e - i - 1) | None -> "?") in
    let any k = List.exists (fun e -> kind_of e = k) ientries in
    (* C20: exit status *)
    let expect_exit = if errored then 1 else if any "failed" || any "timeout" then 50 else 0 in
    if not errored && iexit <> expect_exit then
      report "SPEC:C20" (Printf.sprintf "exit status %d but the reported results imply %d" iexit expect_exit) line;
    (* C15: a document that is skipped does not make the run fail *)
    if not errored && iexit = 1 && List.exists (fun (_, _, _, _, e) -> match e with ExSkipped _ -> true | _ -> false) plan then
      report "SPEC:C15" "a test case ended in its skip code, no document failed to execute, and yet the run ended with status 1 instead of skipping the document" line;
    if errored && iexit <> 1 then report "SPEC:C20" (Printf.sprintf "a document could not be executed but the exit status is %d" iexit) line;
    if not errored then begin
      (* C20: every executed test once and in order; one result per non-detached test *)
      if strip imarks <> strip exp_marks then report "SPEC:C20" "tests were not executed exactly once in document order (prepend, own, append)" line;
      let n_expected = List.length exp_entries in
      if List.length ientries <> n_expected then report "SPEC:C20" (Printf.sprintf "%d results reported for %d test cases that must have one" (List.length ientries) n_expected) line
      else if List.map (fun e -> List.hd (split_on '=' e)) ientries <> List.map (fun e -> List.hd (split_on '=' e)) exp_entries then
        report "SPEC:C20" "results are not reported once per test case in order" line;
      (* per document oracles *)
      let off = ref 0 in
      List.iter2 (fun (m, all, tcs, rs, e) results ->
        let n = List.length (List.filter (fun r -> r <> None) results) in
        let mine = List.filteri (fun i _ -> i >= !off && i < !off + n) ientries in
        off := !off + n;
        let kinds = List.map kind_of mine in
        (match e with
         | ExSkipped _ ->
           if List.exists (fun k -> k <> "skipped") kinds then report "SPEC:C15" (Printf.sprintf "document %d: a test ended in its skip code but not every test is reported skipped" m.idx) line
         | ExTimeout (_, outs) ->
           let k = List.length outs - 1 in
           List.iteri (fun i kd ->
             if i = k && kd <> "timeout" then report "SPEC:C14" (Printf.sprintf "document %d: the timed-out test is reported as %s" m.idx kd) line;
             if i > k && kd <> "skipped" then report "SPEC:C14" (Printf.sprintf "document %d: a test after the timed-out one is reported as %s" m.idx kd) line;
             (* C05 on the tests validated before the timeout *)
             if i < k && i < List.length tcs then begin
               let (tc : tcase) = List.nth tcs i and (r : rstep) = List.nth outs i in
               let should_pass = (match r.status with Code c -> int_of_z c = (match tc.expected with Some e -> int_of_z e | None -> 0) && r.out_ok | _ -> false) in
               if kd = "ok" && not should_pass then report "SPEC:C05" (Printf.sprintf "document %d: a test (before a timeout) that did not end in the expected exit code with the expected output is reported as succeeded" m.idx) line;
               if kd <> "ok" && should_pass then report "SPEC:C05" (Printf.sprintf "document %d: a test (before a timeout) with expected exit code and output is reported as %s" m.idx kd) line
             end) kinds
         | ExOk outs ->
           let rs = outs in
           if List.mem "skipped" kinds then report "SPEC:C15" (Printf.sprintf "document %d: a test is reported skipped although none ended in its skip code and none timed out" m.idx) line;
           (* C05 *)
           let reported = List.filter (fun (_, r) -> r <> None) (List.combine (List.combine tcs rs) results) in
           if List.length reported = List.length kinds then
             List.iter2 (fun (((tc : tcase), (r : rstep)), _) kd ->
               let should_pass = (match r.status with Code c -> int_of_z c = (match tc.expected with Some e -> int_of_z e | None -> 0) && r.out_ok | _ -> false) in
               if kd = "ok" && not should_pass then report "SPEC:C05" (Printf.sprintf "document %d: a test that did not end in the expected exit code with the expected output is reported as succeeded" m.idx) line;
               if kd <> "ok" && should_pass then report "SPEC:C05" (Printf.sprintf "document %d: a test with expected exit code and output is reported as %s" m.idx kd) line) reported kinds
         | ExFailed _ -> ())) plan mout
    end
  | _ -> report "BAD" "unparsable case line" line)
