(* C16: configuration layering — model vs real merge functions, and the proved precedence oracle on the implementation's result *)
open Svmodel
open Util

let field s =  (* "k=v" -> v *)
  match String.index_opt s '=' with Some i -> String.sub s (i + 1) (String.length s - i - 1) | None -> failwith ("field " ^ s)
let opt f s = if s = "-" then None else Some (f s)
let ints s = if s = "-" then [] else List.map int_of_string (split_on ',' s)
let parse_env s =
  if s = "-" then [] else List.map (fun kv -> match split_on ':' kv with [k; v] -> (n_of_int (int_of_string k), n_of_int (int_of_string v)) | _ -> failwith "env") (split_on ',' s)
let parse_tc_fields (f : string list) : tcfg =
  match f with
  | [os; kc; to_; de; sk; sa; wa; env] ->
    { output_stream = opt (fun x -> n_of_int (int_of_string x)) (field os);
      keep_crlf = opt (fun x -> x = "1") (field kc);
      timeout = opt (fun x -> n_of_int (int_of_string x)) (field to_);
      detached = opt (fun x -> x = "1") (field de);
      skip_code = opt (fun x -> z_of_int (int_of_string x)) (field sk);
      strip_ansi = opt (fun x -> x = "1") (field sa);
      wait = opt (fun x -> n_of_int (int_of_string x)) (field wa);
      environment = parse_env (field env) }
  | _ -> failwith "tc fields"
let parse_tc s = parse_tc_fields (split_on ' ' s)
let keys_of (cs : tcfg list) = List.sort_uniq compare (List.concat_map (fun c -> List.map (fun (k, _) -> int_of_n k) c.environment) cs)
let show_tc (c : tcfg) : string =
  let o f = function None -> "-" | Some x -> f x in
  let b = o (fun x -> if x then "1" else "0") in
  let n = o (fun x -> string_of_int (int_of_n x)) in
  let ks = keys_of [c] in
  let env = if ks = [] then "-" else String.concat "," (List.map (fun k ->
      match lookup (n_of_int k) c.environment with Some v -> Printf.sprintf "%d:%d" k (int_of_n v) | None -> "?") ks) in
  Printf.sprintf "os=%s kc=%s to=%s de=%s sk=%s sa=%s wa=%s env=%s" (n c.output_stream) (b c.keep_crlf) (n c.timeout) (b c.detached)
    (o (fun z -> string_of_int (int_of_z z)) c.skip_code) (b c.strip_ansi) (n c.wait) env
let parse_doc s : dcfg =
  match split_on ' ' s with
  | ap :: pp :: sh :: tt :: rest ->
    { d_append = List.map n_of_int (ints (field ap)); d_prepend = List.map n_of_int (ints (field pp));
      d_shell = opt (fun x -> n_of_int (int_of_string x)) (field sh);
      d_total_timeout = opt (fun x -> n_of_int (int_of_string x)) (field tt);
      d_defaults = parse_tc_fields rest }
  | _ -> failwith "doc"
let show_doc (d : dcfg) : string =
  let l v = if v = [] then "-" else String.concat "," (List.map (fun x -> string_of_int (int_of_n x)) v) in
  let n = function None -> "-" | Some x -> string_of_int (int_of_n x) in
  Printf.sprintf "ap=%s pp=%s sh=%s tt=%s %s" (l d.d_append) (l d.d_prepend) (n d.d_shell) (n d.d_total_timeout) (show_tc d.d_defaults)

let count_set (c : tcfg) =
  let i = function None -> 0 | Some _ -> 1 in
  i c.output_stream + i c.keep_crlf + i c.timeout + i c.detached + i c.skip_code + i c.strip_ansi + i c.wait + List.length c.environment

let run () = iter_lines (fun line ->
  let tag = line.[0] and rest = String.sub line 2 (String.length line - 2) in
  let parts = split_on '|' rest in
  let inputs = split_on ';' (List.hd parts) in
  match tag, inputs, List.tl parts with
  | 'E', [cli; tc; doc; fmt; forced], [r3] ->
    let cli = parse_tc cli and tc = parse_tc tc and doc = parse_tc doc and fmt = parse_tc fmt and forced = (parse_tc forced).environment in
    let m = effective cli tc doc fmt forced in
    let layers = List.length (List.filter (fun c -> count_set c > 0) [cli; tc; doc; fmt]) in
    bump (Printf.sprintf "E:layers_set:%d" layers);
    let keys = keys_of [cli; tc; doc; fmt; { tempty with environment = forced }] in
    bump (Printf.sprintf "E:env_names:%d" (List.length keys));
    note_distinct line (layers >= 2); sample line;
    if show_tc m <> r3 then report "DIFF:effective" ("model=" ^ show_tc m) line;
    let ri = parse_tc r3 in
    let allkeys = List.map n_of_int (List.sort_uniq compare (keys @ keys_of [ri])) in
    if not (precedence_b cli tc doc fmt forced allkeys ri) then
      report "SPEC:C16" "effective configuration does not take every key from the highest-precedence layer that sets it" line
  | 'A', [a; b; c], [left; right; ea; eb] ->
    let a' = parse_tc a and b' = parse_tc b and c' = parse_tc c in
    bump "A"; note_distinct line (count_set a' + count_set b' + count_set c' >= 2); sample line;
    let ml = show_tc (with_defaults (with_defaults a' b') c') in
    if ml <> left then report "DIFF:merge" ("model=" ^ ml) line;
    let mr = show_tc (with_defaults a' (with_defaults b' c')) in
    if mr <> right then report "DIFF:merge" ("model=" ^ mr) line;
    if left <> right then report "SPEC:C16" "layering is not associative" line;
    if ea <> a || eb <> a then report "SPEC:C16" "an empty layer changes the configuration" line
  | 'D', [a; b; c], [m; o; left; right] ->
    let a' = parse_doc a and b' = parse_doc b and c' = parse_doc c in
    bump "D"; note_distinct line true; sample line;
    let mm = show_doc (dwith_defaults a' b') in
    if mm <> m then report "DIFF:docmerge" ("model=" ^ mm) line;
    let mo = show_doc (dwith_overrides a' b') in
    if mo <> o then report "DIFF:docmerge" ("model=" ^ mo) line;
    let ml = show_doc (dwith_defaults (dwith_defaults a' b') c') in
    if ml <> left then report "DIFF:docmerge" ("model=" ^ ml) line;
    if left <> right then report "SPEC:C16" "document layering is not associative" line;
    let mi = parse_doc m in
    if mi.d_append <> b'.d_append @ a'.d_append || mi.d_prepend <> a'.d_prepend @ b'.d_prepend then
      report "SPEC:C16" "prepend/append lists do not accumulate in order" line
  | 'P', [tc; doc], [parsed; pdoc] ->
    let tc' = parse_tc tc and doc' = parse_tc doc in
    bump "P"; note_distinct line (count_set tc' + count_set doc' >= 1); sample line;
    let m = show_tc (with_defaults (with_defaults tc' doc') tc_default_markdown) in
    if m <> parsed then report "DIFF:parse-site" ("model=" ^ m) line;
    if show_tc doc' <> pdoc then report "DIFF:parse-site" ("document defaults read back differently: model=" ^ show_tc doc') line;
    (match parsed with
     | "err" | "panic" | "count" -> report "SPEC:C16" ("markdown parser: " ^ parsed) line
     | _ ->
       let ri = parse_tc parsed in
       let keys = List.map n_of_int (keys_of [tc'; doc'; ri]) in
       if not (precedence_b tempty tc' doc' tc_default_markdown [] keys ri) then
         report "SPEC:C16" "parsed test case does not take every key from inline config, then document defaults, then the format default" line)
  | _ -> report "BAD" "unparsable case line" line)
