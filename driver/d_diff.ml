(* C01/C02/C03: model DiffTool::diff vs implementation, plus the proved oracles on the implementation's result *)
open Svmodel
open Util

let parse_entries (s : string) : nat entry list option =
  if s = "-" then Some [] else if s = "P" || s = "E" then None else
  let parts = List.filter (fun x -> x <> "") (split_on ';' s) in
  let ints x = if x = "" then [] else List.map int_of_string (split_on ',' x) in
  let mk js = List.map (fun j -> (nat_of_int j, nat_of_int j)) js in
  Some (List.map (fun p ->
    match p.[0] with
    | 'M' -> (match split_on ':' (String.sub p 1 (String.length p - 1)) with
              | [i; js] -> EMatched (nat_of_int (int_of_string i), mk (ints js))
              | [i] -> EMatched (nat_of_int (int_of_string i), [])
              | _ -> failwith "entry")
    | 'U' -> EUnmatched (nat_of_int (int_of_string (String.sub p 1 (String.length p - 1))))
    | 'X' -> EUnexpected (mk (ints (String.sub p 1 (String.length p - 1))))
    | _ -> failwith "entry kind") parts)

let show_entries (d : nat entry list) : string =
  if d = [] then "-" else
  let js b = String.concat "," (List.map (fun (_, l) -> string_of_int (int_of_nat l)) b) in
  String.concat "" (List.map (function
    | EMatched (i, b) -> Printf.sprintf "M%d:%s;" (int_of_nat i) (js b)
    | EUnmatched i -> Printf.sprintf "U%d;" (int_of_nat i)
    | EUnexpected b -> Printf.sprintf "X%s;" (js b)) d)

let run () = iter_lines (fun line ->
  match (match split_on '|' line with [a; b; c; d; _text] -> [a; b; c; d] | l -> l) with
  | [inp; ents; nodiff; valid] ->
    let f = Array.of_list (split_on ' ' inp) in
    let ne = int_of_string f.(0) and nl = int_of_string f.(1) in
    let q = f.(2) and m = f.(3) in
    let es = List.init ne (fun i ->
      let c = q.[i] in
      make_exp (c = '?' || c = '*') (c = '*' || c = '+')
        (fun jn -> let j = int_of_nat jn in j >= 0 && j < nl && m.[i * nl + j] = '1')) in
    let ls = List.init nl (fun j -> nat_of_int j) in
    let md = match diff es ls with Some d -> d | None -> failwith "model fuel" in
    let macc = accepts es ls in
    let desc = describedb es ls in
    let det = detb es false ls in
    let iacc = (nodiff = "1") in
    let ival = (valid = "1") in
    let quant = List.exists (fun e -> exp_opt e || exp_mul e) es in
    bump (Printf.sprintf "size:%s" (if ne * nl = 0 then "empty" else if ne <= 3 && nl <= 3 then "le3x3" else if ne <= 6 && nl <= 8 then "le6x8" else "big"));
    bump (Printf.sprintf "accepted:%b" macc); bump (Printf.sprintf "deterministic:%b" det);
    bump (Printf.sprintf "described:%b" desc); bump (Printf.sprintf "quantified:%b" quant);
    note_distinct inp (ne > 0 && nl > 0);
    sample line;
    (* correspondence *)
    let ms = show_entries md in
    if ms <> ents then report "DIFF:entries" ("model=" ^ ms) line;
    if macc <> iacc then report "DIFF:accept" (Printf.sprintf "model=%b impl=%b" macc iacc) line;
    if macc <> ival then report "DIFF:validate" (Printf.sprintf "model=%b impl=%b" macc ival) line;
    (* oracles on the implementation's own result *)
    if (iacc || ival) && not desc then report "SPEC:C01" "implementation accepts an output its expectations do not describe" line;
    (match parse_entries ents with
     | None -> report "SPEC:C02" "implementation crashed or returned an error" line
     | Some d -> if not (conservation_b (=) es ls d) then report "SPEC:C02" "conservation violated by the implementation's diff" line);
    if det && (iacc <> desc || ival <> desc) then
      report "SPEC:C03" (Printf.sprintf "deterministic list: described=%b but implementation accepts=%b validate=%b" desc iacc ival) line
  | _ -> report "BAD" "unparsable case line" line)
