(* C13(c): scripted streams through the real BashScriptExecutor (fake shell) against the model of the divider protocol *)
open Svmodel
open Util

let bytes_of_hex s = List.map n_of_int (hex_decode s)
let hex_of_bytes l = hex_encode (List.map int_of_n l)
let salt = List.map (fun c -> n_of_int (Char.code c)) (List.init 20 (String.get "SALTsalt0123456789ab"))

(* C lines: the script the real executor compiled (dumped by the fake shell, salt replaced) against compile_script *)
let run_script line =
  match split_on '|' (String.sub line 2 (String.length line - 2)) with
  | [comb; env; exprs; script] ->
    let combined = (comb = "1") in
    let env = (if env = "-" then [] else List.map (fun kv -> match split_on ':' kv with [k; v] -> (bytes_of_hex k, bytes_of_hex v) | _ -> ([], [])) (split_on ',' env)) in
    let exprs = List.map bytes_of_hex (split_on ',' exprs) in
    bump (if combined then "script:combined" else "script:separate-streams"); if env <> [] then bump "script:exports";
    note_distinct line true;
    (match compile_script salt combined env exprs with
     | Some m -> if m <> bytes_of_hex script then report "DIFF:script" "the script handed to the shell is not the model's compile_script" line
     | None -> report "BAD" "model rejects the environment" line)
  | _ -> report "BAD" "unparsable script line" line

(* F lines.  [skip_only]: the stream is run for C15 -- only the decision "is the document skipped, and at which test case" is
   judged (the rest belongs to C13) *)
let run_gen (skip_only : bool) = iter_lines (fun line ->
  if String.length line > 1 && line.[0] = 'C' then (if not skip_only then run_script line) else
  try
    match split_on '|' (String.sub line 2 (String.length line - 2)) with
    | [head; out] ->
      (match split_on ' ' head with
       | [n; exit_code; stream] ->
         let n = int_of_string n and exit_code = int_of_string exit_code and stream = bytes_of_hex stream in
         let show outs = if outs = [] then "-" else String.concat "," (List.map (fun (p, c) -> Printf.sprintf "%d:%s" (int_of_z c) (hex_of_bytes p)) outs) in
         let v = script_verdict salt (z_of_int 80) (n_of_int n) (z_of_int exit_code) stream in
         let want = (match v with VSkip i -> Printf.sprintf "skip:%d" (int_of_n i) | VOuts outs -> show outs | VErr -> "err") in
         (* the shapes the theorems speak about: the ideal stream of all test cases; the ideal stream of the first k and the
            unfinished output of the one that left the script *)
         let m = split_outputs salt stream in
         let is_ideal = (match m with Some outs -> List.length outs = n && ideal salt (n_of_int 0) outs = stream | None -> false) in
         let is_early = (match m with
             | Some outs when List.length outs < n ->
               let pre = ideal salt (n_of_int 0) outs in
               let lp = List.length pre in
               List.length stream >= lp && List.filteri (fun i _ -> i < lp) stream = pre
               && (match fst (finished salt (z_of_int 80) stream) with f -> int_of_n f = List.length outs)
             | _ -> false) in
         let is_skip s = String.length s > 5 && String.sub s 0 5 = "skip:" in
         bump (Printf.sprintf "tests:%d" n); bump (Printf.sprintf "shell-exit:%d" exit_code);
         bump (match v with VSkip _ -> "model:skip" | VErr -> "model:error" | VOuts _ -> if is_ideal then "model:ideal-stream" else "model:ok-with-leftover");
         if is_early then bump "shape:script-left-early";
         note_distinct head (n > 1); sample (if String.length line > 300 then String.sub line 0 300 else line);
         if skip_only then begin
           if (is_skip out || is_skip want) && out <> want then begin
             if is_ideal || (is_early && exit_code = 80) then report "SPEC:C15" (Printf.sprintf "a Cram document whose script printed these dividers and ended with status %d: expected %s, the executor says %s" exit_code want out) line
             else report "DIFF:skipcode" ("model=" ^ want) line
           end
         end else begin
           if out = "panic" then report "SPEC:C13" "the executor panicked on the output of the script" line
           else if out <> want then begin
             if is_ideal then report "SPEC:C13" ("the outputs / exit codes of the test cases are not the ones the script printed: expected " ^ want) line
             else report "DIFF:divider" ("model=" ^ want) line
           end
         end
       | _ -> report "BAD" "divider head" line)
    | _ -> report "BAD" "unparsable case line" line
  with Failure m -> report "BAD" ("divider case: " ^ m) line)
let run () = run_gen false
let run_skip () = run_gen true
