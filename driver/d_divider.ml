(* C13(c): scripted streams through the real BashScriptExecutor (fake shell) against the model of the divider protocol *)
open Svmodel
open Util

let bytes_of_hex s = List.map n_of_int (hex_decode s)
let hex_of_bytes l = hex_encode (List.map int_of_n l)
let salt = List.map (fun c -> n_of_int (Char.code c)) (List.init 20 (String.get "SALTsalt0123456789ab"))

(* C lines: the script the real executor compiled (dumped by the fake shell, salt replaced) against compile_script *)
let run_script line =
  match split_on '|' (String.sub line 2 (String.length line - 2)) with
  | [comb; env; exprs; script] ->
    let combined = (comb = "1") in
    let env = (if env = "-" then [] else List.map (fun kv -> match split_on ':' kv with [k; v] -> (bytes_of_hex k, bytes_of_hex v) | _ -> ([], [])) (split_on ',' env)) in
    let exprs = List.map bytes_of_hex (split_on ',' exprs) in
    bump (if combined then "script:combined" else "script:separate-streams"); if env <> [] then bump "script:exports";
    note_distinct line true;
    (match compile_script salt combined env exprs with
     | Some m -> if m <> bytes_of_hex script then report "DIFF:script" "the script handed to the shell is not the model's compile_script" line
     | None -> report "BAD" "model rejects the environment" line)
  | _ -> report "BAD" "unparsable script line" line

let run () = iter_lines (fun line ->
  if String.length line > 1 && line.[0] = 'C' then run_script line else
  try
    match split_on '|' (String.sub line 2 (String.length line - 2)) with
    | [head; out] ->
      (match split_on ' ' head with
       | [n; stream] ->
         let n = int_of_string n and stream = bytes_of_hex stream in
         let m = split_outputs salt stream in
         let show outs = if outs = [] then "-" else String.concat "," (List.map (fun (p, c) -> Printf.sprintf "%d:%s" (int_of_z c) (hex_of_bytes p)) outs) in
         let skip = (match m with Some outs -> List.exists (fun (_, c) -> int_of_z c = 80) outs | None -> false) in
         let want = (match m with Some outs when List.length outs = n && not skip -> show outs | _ -> "err") in
         let is_ideal = (match m with Some outs -> ideal salt (n_of_int 0) outs = stream | None -> false) in
         bump (Printf.sprintf "tests:%d" n); bump (if want = "err" then "model:error" else if is_ideal then "model:ideal-stream" else "model:ok-with-leftover");
         note_distinct head (n > 1); sample (if String.length line > 300 then String.sub line 0 300 else line);
         if out = "panic" then report "SPEC:C13" "the executor panicked on the output of the script" line
         else if out <> want then begin
           if is_ideal then report "SPEC:C13" ("the outputs / exit codes of the test cases are not the ones the script printed: expected " ^ want) line
           else report "DIFF:divider" ("model=" ^ want) line
         end
       | _ -> report "BAD" "divider head" line)
    | _ -> report "BAD" "unparsable case line" line
  with Failure m -> report "BAD" ("divider case: " ^ m) line)
