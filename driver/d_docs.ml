(* C07: Cram documents -- model of CramParser::parse and the grammar specification (tests_of) vs the real parser *)
open Svmodel
open Util

let bytes_of_hex s = List.map n_of_int (hex_decode s)
let hex_of_bytes l = hex_encode (List.map int_of_n l)
let text_of_hex s = match utf8_decode (bytes_of_hex s) with Some cs -> cs | None -> failwith "text"
let hex_of_text t = hex_of_bytes (utf8_encode t)
let pe_ok (l : n list) = (match parse (fun x -> x) (fun _ -> true) (fun x -> x) l with POk _ -> true | PErr -> false)
let cram_cfg = lazy (String.map (fun c -> if c = ' ' then '~' else c) (D_config.show_tc tc_default_cram))

let show_case (t : ptest) : string =
  Printf.sprintf "%s^%s^%s^%s^%d^%s" (hex_of_text t.pt_title)
    (hex_of_text (List.concat (List.mapi (fun i l -> if i = 0 then l else n_of_int 10 :: l) t.pt_cmd)))
    (if t.pt_exps = [] then "_" else String.concat "+" (List.map hex_of_text t.pt_exps))
    (match t.pt_code with None -> "-" | Some c -> string_of_int (int_of_n c)) (int_of_nat t.pt_line) (Lazy.force cram_cfg)
let show_res = function LErr -> "err" | LOk [] -> "ok:-" | LOk l -> "ok:" ^ String.concat "&" (List.map show_case l)

let parse_ast (s : string) : block list =
  if s = "-" then [] else
  List.map (fun b ->
    let body = String.sub b 1 (String.length b - 1) in
    match b.[0] with
    | 'T' -> BTitle (text_of_hex body) | 'C' -> BComment (text_of_hex body) | 'B' -> BBlank
    | 'X' ->
      (match split_on '/' body with
       | [cmds; items] ->
         let cs = List.map text_of_hex (split_on ',' cmds) in
         let items = if items = "-" then [] else List.map (fun it ->
             let v = String.sub it 1 (String.length it - 1) in
             if it.[0] = 'E' then BExp (text_of_hex v) else BCode (List.map (fun c -> n_of_int (Char.code c)) (List.of_seq (String.to_seq v)))) (split_on ',' items) in
         BTest (List.hd cs, List.tl cs, items)
       | _ -> failwith "test block")
    | _ -> failwith "block") (split_on ';' s)


(* independent of model and grammar: the expected exit code of every returned test case is written in the document, on a line
   `[n]` between the test's own `$` line and the next test's (C06 / C07: "expected exit code ... exactly those written") *)
let exit_codes_written (same_block : n list array -> int -> int -> bool) (lines : n list list) (res : string) : string option =
  if String.length res < 4 || String.sub res 0 3 <> "ok:" || res = "ok:-" then None else begin
    let tests = List.filter_map (fun t -> match split_on '^' t with
        | [_; _; _; code; ln; _] -> Some ((if code = "-" then None else Some (int_of_string code)), int_of_string ln)
        | _ -> None) (split_on '&' (String.sub res 3 (String.length res - 3))) in
    let arr = Array.of_list lines in
    let code_of (l : n list) : int option =
      let rec drop = function c :: r when int_of_n c = 32 -> drop r | r -> r in
      (match drop l with
       | c :: r when int_of_n c = 91 ->
         let rec digits acc = function
           | d :: r when int_of_n d >= 48 && int_of_n d <= 57 -> digits (acc * 10 + (int_of_n d - 48)) r
           | [e] when int_of_n e = 93 -> Some acc
           | _ -> None in
         (match r with d :: _ when int_of_n d >= 48 && int_of_n d <= 57 -> digits 0 r | _ -> None)
       | _ -> None) in
    (* .. or before its command in the same block (lines of a block that precede the `$` line belong to that command):
       then no line that ends a block ([sep]) stands between the two *)
    let rec go prev = function
      | [] -> None
      | (code, ln) :: rest ->
        let stop = (match rest with (_, ln2) :: _ -> ln2 - 1 | [] -> Array.length arr) in
        (match code with
         | None -> go ln rest
         | Some c ->
           let found = ref false in
           for i = ln to min stop (Array.length arr) - 1 do if code_of arr.(i) = Some c then found := true done;
           let before = ref false in
           for i = min (ln - 2) (Array.length arr - 1) downto prev do
             if i >= 0 && code_of arr.(i) = Some c && same_block arr i (ln - 1) then before := true
           done;
           if !found || !before then go ln rest
           else Some (Printf.sprintf "the test case of line %d expects exit code %d, which is not written in its block" ln c)) in
    go 0 tests
  end

let run_cram () = iter_lines (fun line ->
  match split_on '|' (String.sub line 2 (String.length line - 2)) with
  | [ast; doc; res] ->
    let text = text_of_hex doc in
    let lines = str_lines text in
    let m = show_res (parse_cram pe_ok lines) in
    bump (if ast = "~" then "kind:soup" else "kind:grammar");
    bump ("result:" ^ (if res = "err" then "err" else if res = "panic" then "panic" else "ok"));
    note_distinct doc (List.length lines > 1); sample line;
    if m <> res then report "DIFF:cram" ("model=" ^ m) line;
    if res = "panic" then report "SPEC:C07" "parsing a Cram document panicked" line;
    (* Cram: the same block = no line between the two that is neither indented nor a comment *)
    let cram_sep l = (match l with a :: _ when int_of_n a = 35 -> false | a :: b :: _ -> not (int_of_n a = 32 && int_of_n b = 32) | _ -> true) in
    (match exit_codes_written (fun arr i j -> let ok = ref true in for k = i + 1 to j - 1 do if cram_sep arr.(k) then ok := false done; !ok) lines res with Some m -> report "SPEC:C07" m line | None -> ());
    if ast <> "~" then begin
      let d = parse_ast ast in
      (* the document really is the rendering of the AST (modulo the line terminators the harness chose) *)
      if render_cram d <> lines then report "BAD" "harness rendering differs from the specification's" line
      else if wf_cram pe_ok d then begin
        bump "grammar:wf";
        let expect = show_res (LOk (cram_tests_of d)) in
        if expect <> res then report "SPEC:C07" ("the tests returned are not the ones written in the document: expected " ^ expect) line
      end else bump "grammar:not-wf(skipped)"
    end
  | _ -> report "BAD" "unparsable case line" line)

(* ---------------------------------------------------------------- C06: Markdown *)
let cfg_table = [| "timeout: 3s"; "output_stream: stderr"; "keep_crlf: true, skip_document_code: 7"; "environment: {FOO: bar}" |]
let cfg_meaning = [| "os=- kc=- to=3000 de=- sk=- sa=- wa=- env=-"; "os=1 kc=- to=- de=- sk=- sa=- wa=- env=-";
                     "os=- kc=1 to=- de=- sk=7 sa=- wa=- env=-"; "os=- kc=- to=- de=- sk=- sa=- wa=- env=FOO:bar" |]
let front_table = [| ["total_timeout: 5s"]; ["defaults:"; "  skip_document_code: 9"]; ["defaults:"; "  keep_crlf: false"; "  environment:"; "    FOO: doc"; "    BAR: doc"] |]
let front_meaning = [| "os=- kc=- to=- de=- sk=- sa=- wa=- env=-"; "os=- kc=- to=- de=- sk=9 sa=- wa=- env=-"; "os=- kc=0 to=- de=- sk=- sa=- wa=- env=BAR:doc,FOO:doc" |]
let text_of_string s = List.map (fun c -> n_of_int (Char.code c)) (List.of_seq (String.to_seq s))
let string_of_text t = String.concat "" (List.map (fun c -> let i = int_of_n c in if i < 128 then String.make 1 (Char.chr i) else "?") t)

(* configurations with symbolic environment names: printed in the harness' notation *)
let show_cfg_sym (inline : string option) (docd : string) : string =
  (* precedence inline > document defaults > markdown default, on the textual fields *)
  let parse s = List.map (fun kv -> match String.index_opt kv '=' with Some i -> (String.sub kv 0 i, String.sub kv (i + 1) (String.length kv - i - 1)) | None -> (kv, "")) (split_on ' ' s) in
  let fmt = parse (D_config.show_tc tc_default_markdown) and d = parse docd and i = (match inline with Some s -> parse s | None -> []) in
  let pick k = (let g l = (try let v = List.assoc k l in if v = "-" then None else Some v with Not_found -> None) in
                match g i with Some v -> v | None -> (match g d with Some v -> v | None -> (match g fmt with Some v -> v | None -> "-"))) in
  let env = (let g l = (try let v = List.assoc "env" l in if v = "-" then [] else List.map (fun kv -> match split_on ':' kv with [k; v] -> (k, v) | _ -> (kv, "")) (split_on ',' v) with Not_found -> []) in
             let merged = List.fold_left (fun acc (k, v) -> (k, v) :: List.remove_assoc k acc) [] (g d @ g i) in
             let sorted = List.sort compare merged in
             if sorted = [] then "-" else String.concat "," (List.map (fun (k, v) -> k ^ ":" ^ v) sorted)) in
  String.concat "~" (List.map (fun k -> k ^ "=" ^ (if k = "env" then env else pick k)) ["os"; "kc"; "to"; "de"; "sk"; "sa"; "wa"; "env"])

let parse_md_ast (s : string) : elem list * int option =
  if s = "-" then ([], None) else begin
    let front = ref None in
    let hl v = if v = "_" then [] else List.map text_of_hex (split_on ',' v) in
    let d = List.map (fun e ->
      let body = String.sub e 1 (String.length e - 1) in
      match e.[0] with
      | 'F' -> let i = int_of_string body in front := Some i; EFront (List.map text_of_string front_table.(i))
      | 'P' -> EProse (text_of_hex body)
      | 'H' -> EHeading (nat_of_int (Char.code body.[0] - 48), text_of_hex (String.sub body 1 (String.length body - 1)))
      | 'B' -> EBlank
      | 'V' -> (match split_on '/' (String.sub body 1 (String.length body - 1)) with
          | [lang; b; tl] -> EForeign (nat_of_int (Char.code body.[0] - 48), text_of_hex lang, hl b, text_of_hex tl)
          | _ -> failwith "foreign")
      | 'S' ->
        let n = Char.code body.[0] - 48 in
        (match split_on '/' (String.sub body 1 (String.length body - 1)) with
         | cfg :: comments :: rest0 ->
           let tl = text_of_hex (List.nth rest0 (List.length rest0 - 1)) in
           let rest = List.filteri (fun i _ -> i < List.length rest0 - 1) rest0 in
           let cfg, hs = (match split_on 'h' cfg with [c; h] -> (c, text_of_hex h) | [c] -> (c, []) | _ -> failwith "scrut header") in
           let cfg = if cfg = "-" then None else Some (text_of_string cfg_table.(int_of_string cfg)) in
           let cmd = (match rest with
               | ["~"] -> None
               | [cmds; items] ->
                 let cs = List.map text_of_hex (split_on ',' cmds) in
                 let items = if items = "_" then [] else List.map (fun it ->
                     let v = String.sub it 1 (String.length it - 1) in
                     if it.[0] = 'E' then BExp (text_of_hex v) else BCode (text_of_string v)) (split_on ',' items) in
                 Some ((List.hd cs, List.tl cs), items)
               | _ -> failwith "scrut cmd") in
           EScrut (nat_of_int n, cfg, hs, hl comments, cmd, tl)
         | _ -> failwith "scrut")
      | _ -> failwith "elem") (split_on ';' s) in
    (d, !front)
  end

let show_mtest (docd : string) (t : mtest) : string =
  let p = t.mt_test in
  let inline = (match t.mt_cfg with None -> None | Some c ->
      let s = string_of_text c in
      (let r = ref None in Array.iteri (fun i x -> if x = s then r := Some cfg_meaning.(i)) cfg_table; !r)) in
  Printf.sprintf "%s^%s^%s^%s^%d^%s" (hex_of_text p.pt_title)
    (hex_of_text (List.concat (List.mapi (fun i l -> if i = 0 then l else n_of_int 10 :: l) p.pt_cmd)))
    (if p.pt_exps = [] then "_" else String.concat "+" (List.map hex_of_text p.pt_exps))
    (match p.pt_code with None -> "-" | Some c -> string_of_int (int_of_n c)) (int_of_nat p.pt_line) (show_cfg_sym inline docd)
let show_mres docd = function LErr -> "err" | LOk [] -> "ok:-" | LOk l -> "ok:" ^ String.concat "&" (List.map (show_mtest docd) l)

(* environment names in the implementation's answer are FOO/BAR: bring `K`-less names into the same notation *)
let norm_impl (s : string) = s

let run_md () = iter_lines (fun line ->
  match split_on '|' (String.sub line 2 (String.length line - 2)) with
  | [ast; doc; res] ->
    let text = text_of_hex doc in
    let lines = str_lines text in
    let soup = (ast = "~") in
    let trunc = (String.length ast > 0 && ast.[0] = '^') in
    bump (if soup then "kind:soup" else if trunc then "kind:truncated" else "kind:grammar");
    bump ("result:" ^ (if res = "err" then "err" else if res = "panic" then "panic" else "ok"));
    note_distinct doc (List.length lines > 1); sample line;
    if res = "panic" then report "SPEC:C06" "parsing a Markdown document panicked" line;
    (* Markdown: the same block = both lines are code lines of one test block of the (lossless, C06_nothing_dropped) tokenizer model *)
    let blocks = List.filter_map (function TTest (_, _, code, _) -> Some (List.map (fun (i, _) -> int_of_nat i) code) | _ -> None) (md_tokens lines) in
    (match exit_codes_written (fun _ i j -> List.exists (fun b -> List.mem i b && List.mem j b) blocks) lines res with Some m -> report "SPEC:C06" m line | None -> ());
    let known_cfg c = Array.exists (fun x -> x = string_of_text c) cfg_table in
    let known_front ls = Array.exists (fun x -> List.map text_of_string x = ls) front_table in
    if soup then begin
      (* YAML acceptance is external: compare only when the model needs no YAML verdict it cannot give *)
      let needs_yaml = List.exists (function TFront (_, _) -> true | TTest (Some _, _, _, _) -> true | _ -> false) (md_tokens lines) in
      if needs_yaml then bump "soup:yaml-not-compared"
      else begin
        let m = show_mres (D_config.show_tc tempty) (parse_md pe_ok (fun _ -> true) (fun _ -> true) lines) in
        if m <> norm_impl res then report "DIFF:markdown" ("model=" ^ m) line
      end
    end else begin
      let k, ast' = if trunc then (match split_on '^' ast with [_; k; a] -> (Some (int_of_string k), a) | _ -> failwith "trunc") else (None, ast) in
      let (d, fi) = parse_md_ast ast' in
      let docd = (match fi with Some i -> front_meaning.(i) | None -> D_config.show_tc tempty) in
      let full = render_md d in
      let m = show_mres (if trunc && (match k with Some k -> k < 1 + (match fi with Some i -> List.length front_table.(i) + 1 | None -> 0) | None -> false) then D_config.show_tc tempty else docd)
          (parse_md pe_ok known_front known_cfg lines) in
      (match k with
       | None ->
         if full <> lines then report "BAD" "harness rendering differs from the specification's" line
         else begin
           let unknown_yaml = List.exists (function TFront (ls, _) -> not (known_front ls) | TTest (Some c, _, _, _) -> not (known_cfg c) | _ -> false) (md_tokens lines) in
           if unknown_yaml then bump "grammar:yaml-not-compared"
           else if m <> norm_impl res then report "DIFF:markdown" ("model=" ^ m) line;
           if wf_md pe_ok known_front known_cfg d then begin
             bump "grammar:wf";
             let expect = show_mres docd (LOk (md_tests_of d)) in
             if expect <> norm_impl res then report "SPEC:C06" ("the tests returned are not the ones written in the document: expected " ^ expect) line
           end else bump "grammar:not-wf(skipped)"
         end
       | Some k ->
         let pre = List.filteri (fun i _ -> i < k) full in
         if pre <> lines then report "BAD" "harness truncation differs" line
         else begin
           (* a truncated document: an error, or at least the tests of every block that is complete *)
           if wf_md pe_ok known_front known_cfg d && res <> "err" && res <> "panic" then begin
             bump "truncated:wf";
             let complete =
               (let rec go els line acc = match els with
                   | [] -> acc
                   | e :: r -> let next = line + List.length (render_elem e) in
                     if next <= k then go r next (acc @ [e]) else acc in go d 0 []) in
             let want = List.map (show_mtest docd) (md_tests_of complete) in
             let got = if res = "ok:-" then [] else split_on '&' (String.sub res 3 (String.length res - 3)) in
             let strip_cfg s = (match String.rindex_opt s '^' with Some i -> String.sub s 0 i | None -> s) in
             let rec is_prefix a b = match a, b with [], _ -> true | x :: a', y :: b' -> strip_cfg x = strip_cfg y && is_prefix a' b' | _, [] -> false in
             if not (is_prefix want got) then report "SPEC:C06" "a truncated document silently loses a test of a complete block" line;
             if List.length got > List.length want + 1 then report "SPEC:C06" "a truncated document yields tests that are not in it" line;
             (* the block the document ends in: once its `$` line is there, it is read to the end and yields its test *)
             let cut = (let rec go els line = match els with
                 | [] -> None
                 | e :: r -> let next = line + List.length (render_elem e) in if next <= k then go r next else Some (e, line) in go d 0) in
             (match cut with
              | Some (EScrut (_, _, _, comments, Some _, _), start) when k >= start + 1 + List.length comments + 1 ->
                if List.length got <> List.length want + 1 then
                  report "SPEC:C06" "the document ends inside a scrut block (after its `$` line): the block is neither reported nor read to the end -- its test is silently dropped" line
              | _ -> ())
           end;
           let unknown_yaml = List.exists (function TFront (ls, _) -> not (known_front ls) | TTest (Some c, _, _, _) -> not (known_cfg c) | _ -> false) (md_tokens lines) in
           if unknown_yaml then bump "truncated:yaml-not-compared"
           else if m <> norm_impl res then report "DIFF:markdown" ("model=" ^ m) line
         end)
    end
  | _ -> report "BAD" "unparsable case line" line)
