(* C07: Cram documents -- model of CramParser::parse and the grammar specification (tests_of) vs the real parser *)
open Svmodel
open Util

let bytes_of_hex s = List.map n_of_int (hex_decode s)
let hex_of_bytes l = hex_encode (List.map int_of_n l)
let text_of_hex s = match utf8_decode (bytes_of_hex s) with Some cs -> cs | None -> failwith "text"
let hex_of_text t = hex_of_bytes (utf8_encode t)
let pe_ok (l : n list) = (match parse (fun x -> x) (fun _ -> true) (fun x -> x) l with POk _ -> true | PErr -> false)
let cram_cfg = lazy (String.map (fun c -> if c = ' ' then '~' else c) (D_config.show_tc tc_default_cram))

let show_case (t : ptest) : string =
  Printf.sprintf "%s^%s^%s^%s^%d^%s" (hex_of_text t.pt_title)
    (hex_of_text (List.concat (List.mapi (fun i l -> if i = 0 then l else n_of_int 10 :: l) t.pt_cmd)))
    (if t.pt_exps = [] then "_" else String.concat "+" (List.map hex_of_text t.pt_exps))
    (match t.pt_code with None -> "-" | Some c -> string_of_int (int_of_n c)) (int_of_nat t.pt_line) (Lazy.force cram_cfg)
let show_res = function LErr -> "err" | LOk [] -> "ok:-" | LOk l -> "ok:" ^ String.concat "," (List.map show_case l)

let parse_ast (s : string) : block list =
  if s = "-" then [] else
  List.map (fun b ->
    let body = String.sub b 1 (String.length b - 1) in
    match b.[0] with
    | 'T' -> BTitle (text_of_hex body) | 'C' -> BComment (text_of_hex body) | 'B' -> BBlank
    | 'X' ->
      (match split_on '/' body with
       | [cmds; items] ->
         let cs = List.map text_of_hex (split_on ',' cmds) in
         let items = if items = "-" then [] else List.map (fun it ->
             let v = String.sub it 1 (String.length it - 1) in
             if it.[0] = 'E' then BExp (text_of_hex v) else BCode (List.map (fun c -> n_of_int (Char.code c)) (List.of_seq (String.to_seq v)))) (split_on ',' items) in
         BTest (List.hd cs, List.tl cs, items)
       | _ -> failwith "test block")
    | _ -> failwith "block") (split_on ';' s)

let run_cram () = iter_lines (fun line ->
  match split_on '|' (String.sub line 2 (String.length line - 2)) with
  | [ast; doc; res] ->
    let text = text_of_hex doc in
    let lines = str_lines text in
    let m = show_res (parse_cram pe_ok lines) in
    bump (if ast = "~" then "kind:soup" else "kind:grammar");
    bump ("result:" ^ (if res = "err" then "err" else if res = "panic" then "panic" else "ok"));
    note_distinct doc (List.length lines > 1); sample line;
    if m <> res then report "DIFF:cram" ("model=" ^ m) line;
    if res = "panic" then report "SPEC:C07" "parsing a Cram document panicked" line;
    if ast <> "~" then begin
      let d = parse_ast ast in
      (* the document really is the rendering of the AST (modulo the line terminators the harness chose) *)
      if render_cram d <> lines then report "BAD" "harness rendering differs from the specification's" line
      else if wf_cram pe_ok d then begin
        bump "grammar:wf";
        let expect = show_res (LOk (cram_tests_of d)) in
        if expect <> res then report "SPEC:C07" ("the tests returned are not the ones written in the document: expected " ^ expect) line
      end else bump "grammar:not-wf(skipped)"
    end
  | _ -> report "BAD" "unparsable case line" line)
