(* C18 end to end: what every test case saw (cwd, documented variables) and what is left on disk after 1-3 concurrent
   scrut processes, against the directory model (dir_run_docs) and the regenerated variable table *)
open Svmodel
open Util

let text_of_string s = List.init (String.length s) (fun i -> n_of_int (Char.code s.[i]))
let string_of_bytes (l : n list) = let b = Buffer.create 64 in List.iter (fun c -> Buffer.add_char b (Char.chr (int_of_n c land 255))) l; Buffer.contents b
let string_of_hex s = string_of_bytes (List.map n_of_int (hex_decode s))
let starts_with s p = String.length s >= String.length p && String.sub s 0 (String.length p) = p
let ends_with s p = String.length s >= String.length p && String.sub s (String.length s - String.length p) (String.length p) = p

type doc_d = { cram : bool; bad : bool; linked : bool; tests : string; sub : string; name : string }
type proc_d = { flag : char; shared : bool; abort : char; docs : doc_d list }

let parse_proc (s : string) : proc_d =
  match split_on ':' s with
  | [fa; ds] ->
    { flag = (if fa.[0] = 'W' then 'w' else fa.[0]); shared = (fa.[0] = 'W'); abort = fa.[1];
      docs = List.map (fun d -> match split_on '/' d with
          | [t; sub; name] ->
            let cram = t.[0] = 'c' in
            let bad = String.length t > 1 && t.[1] = '!' in
            let linked = String.length t > 1 && t.[1] = '@' in   (* the document is a symbolic link to a file elsewhere, under another name *)
            let k = if bad || linked then 2 else 1 in
            let tests = String.sub t k (String.length t - k) in
            { cram; bad; linked; tests; sub = string_of_hex sub; name = string_of_hex name }
          | _ -> failwith "doc") (split_on ',' ds) }
  | _ -> failwith "proc"

(* which tests of a document are executed: Markdown stops after the first skip / timeout, a Cram script runs to its end *)
let executed (d : doc_d) : int list =
  let n = String.length d.tests in
  if d.cram then List.init n (fun i -> i) else begin
    let rec go i = if i >= n then [] else if d.tests.[i] = 'S' || d.tests.[i] = 'T' || d.tests.[i] = 'Z' then [i] else i :: go (i + 1) in go 0
  end
let nexps c = match c with 'P' | 'V' | 'O' | 'C' | 'N' -> 1 | _ -> 0
let dollar_line (d : doc_d) (t : int) : int =
  let rec go u acc = if u >= t then acc else go (u + 1) (acc + 6 + nexps d.tests.[u]) in go 0 0 + 4

let literal_of (name : string) : string option =
  let rec find = function
    | [] -> None
    | (k, v) :: r -> if string_of_bytes k = name then (match v with Some x -> Some (string_of_bytes x) | None -> None) else find r in
  find env_always

let run () = iter_lines (fun line ->
  try
    match split_on '|' (String.sub line 2 (String.length line - 2)) with
    | [root; bash; descr; results; left; _nleft] ->
      let root = string_of_hex root and bash = string_of_hex bash in
      let procs = List.map parse_proc (split_on ';' descr) in
      let res = List.map (fun r -> match split_on '/' r with
          | [ex; probes; wl] -> (int_of_string (String.sub ex 5 (String.length ex - 5)),
                                 (if probes = "-" then [] else List.map (fun p -> split_on '|' (string_of_hex p)) (split_on ',' probes)),
                                 (if wl = "~" then None else Some (if wl = "-" then [] else split_on ',' wl)))
          | _ -> failwith "result") (split_on ';' results) in
      let left = if left = "-" then [] else split_on ',' left in
      let flag = (List.hd procs).flag in
      bump (Printf.sprintf "flag:%c%s/processes:%d" flag (if (List.hd procs).shared then "(shared)" else "") (List.length procs));
      List.iter (fun p -> bump (Printf.sprintf "abort:%c" p.abort); List.iter (fun d ->
          bump (if d.cram then "doc:cram" else "doc:markdown"); if d.bad then bump "doc:unparsable-include"; if d.linked then bump "doc:symbolic-link";
          String.iter (fun c -> bump (Printf.sprintf "test:%c" c)) d.tests) p.docs) procs;
      let names = List.concat_map (fun p -> List.map (fun d -> d.name) p.docs) procs in
      if List.length (List.sort_uniq compare names) < List.length names then bump "identical-file-names";
      note_distinct descr (List.length names >= 2); sample (if String.length line > 400 then String.sub line 0 400 else line);
      let want_exec = ref 0 and want_temp = ref 0 in
      let all_pwds = ref [] in
      List.iteri (fun pi (p, (exit, probes0, wl)) ->
        (* `<id>|late|yes/no`: TMPDIR looked at again after the test case has been busy for a while *)
        let late = List.filter (fun f -> match f with [_; "late"; _] -> true | _ -> false) probes0 in
        let probes = List.filter (fun f -> match f with [_; "late"; _] -> false | _ -> true) probes0 in
        List.iter (fun f -> match f with
            | [id; _; v] -> if v <> "yes" then report "SPEC:C18" (Printf.sprintf "process %d test %s: its TMPDIR was removed while the test case was running" pi id) line
            | _ -> ()) late;
        (* ---- the model of this process's run *)
        let mflag = (match p.flag with 'w' -> FWork | 'k' -> FKeep | _ -> FDefault) in
        let mdocs = if p.abort = 'u' then [] else
            List.mapi (fun di d -> { d_name = text_of_string d.name;
                                     d_class = (if p.abort = 's' then DExecError else if d.bad then DBadInclude else DRun);
                                     d_work_files = List.map nat_of_int (executed d); d_tmp_files = List.map nat_of_int (executed d) }) p.docs in
        let s0 = (match mflag with FWork -> [[SGiven]; [SGiven; SFile (nat_of_int 999)]] | _ -> []) in
        let final = dir_run_docs mflag (nat_of_int 0) mdocs s0 in
        List.iter (fun q -> match q with [SExec _] -> incr want_exec | [STemp _] -> incr want_temp | _ -> ()) final;
        let nproc = int_of_nat (dir_processed mdocs) in
        let errored = p.abort <> '-' || List.exists (fun d -> d.bad) p.docs in
        (* the documents that are really executed: those before the first one that fails to set up *)
        let run_docs_l = if p.abort <> '-' then [] else
            (let rec go di = function [] -> [] | d :: r -> if d.bad then [] else (di, d) :: go (di + 1) r in go 0 p.docs) in
        ignore nproc;
        if errored && exit <> 1 then report "DIFF:env-exit" (Printf.sprintf "process %d: expected exit status 1, got %d" pi exit) line;
        if not errored && exit <> 0 && exit <> 50 then report "DIFF:env-exit" (Printf.sprintf "process %d: exit status %d" pi exit) line;
        (* ---- which tests ran, in which order *)
        let want_ids = List.concat_map (fun (di, d) -> List.map (fun t -> Printf.sprintf "P%dD%dT%d" pi di t) (executed d)) run_docs_l in
        let got_ids = List.map (fun f -> List.hd f) probes in
        if want_ids <> got_ids then report "DIFF:env-exec" (Printf.sprintf "process %d: probes %s, expected %s" pi (String.concat "," got_ids) (String.concat "," want_ids)) line
        else begin
          (* ---- what every test case saw *)
          let pdir = Printf.sprintf "%s/p%d" root pi in
          List.iter (fun (di, d) ->
            let mine = List.filter (fun f -> starts_with (List.hd f) (Printf.sprintf "P%dD%dT" pi di)) probes in
            let nth f i = (try List.nth f i with _ -> "?") in
            let pwds = List.sort_uniq compare (List.map (fun f -> nth f 1) mine) in
            let tmps = List.sort_uniq compare (List.map (fun f -> nth f 4) mine) in
            if mine <> [] then begin
              if List.length pwds <> 1 then report "SPEC:C18" (Printf.sprintf "process %d document %d: its test cases ran in different directories" pi di) line
              else all_pwds := (List.hd pwds, p.flag) :: !all_pwds;
              if List.length tmps <> 1 then report "SPEC:C18" (Printf.sprintf "process %d document %d: TMPDIR differs between its test cases" pi di) line;
              List.iteri (fun k f ->
                let t = List.nth (executed d) k in
                let fail what = report "SPEC:C18" (Printf.sprintf "process %d document %d test %d: %s" pi di t what) line in
                let pwd = nth f 1 and tmp = nth f 4 in
                (match p.flag with
                 | 'w' -> let given = if p.shared then root ^ "/shared-workdir" else pdir ^ "/given-workdir" in
                   if pwd <> given then fail ("work directory is " ^ pwd ^ ", not the given one");
                   if not (starts_with tmp (given ^ "/temp.")) then fail ("TMPDIR " ^ tmp ^ " is not the temporary directory inside the given work directory")
                 | 'k' -> if not (starts_with pwd (root ^ "/tmp/execution.") && ends_with pwd ("/" ^ d.name)) then fail ("work directory " ^ pwd ^ " is not <TMPDIR>/execution.*/<document>");
                   if not (starts_with tmp (root ^ "/tmp/temp.")) then fail ("TMPDIR " ^ tmp ^ " is not <TMPDIR>/temp.*")
                 | _ -> if not (starts_with pwd (root ^ "/tmp/execution.") && ends_with pwd ("/" ^ d.name)) then fail ("work directory " ^ pwd ^ " is not <TMPDIR>/execution.*/<document>");
                   if tmp <> Filename.dirname pwd ^ "/__tmp" then fail ("TMPDIR " ^ tmp ^ " is not the __tmp directory next to the work directory"));
                if nth f 2 <> (if d.sub = "" then pdir else pdir ^ "/" ^ d.sub) then fail ("TESTDIR=" ^ nth f 2);
                if nth f 3 <> d.name then fail ("TESTFILE=" ^ nth f 3);
                if nth f 5 <> bash then fail ("TESTSHELL=" ^ nth f 5);
                List.iter (fun (col, name) ->
                    match literal_of name with
                    | Some v -> if nth f col <> v then fail (Printf.sprintf "%s=%s, documented %s" name (nth f col) v)
                    | None -> fail (name ^ " is no longer among the variables build_env_vars sets to a literal"))
                  [6, "LANG"; 7, "LANGUAGE"; 8, "LC_ALL"; 9, "TZ"; 10, "COLUMNS"; 11, "CDPATH"; 12, "GREP_OPTIONS"];
                let arg = if d.sub = "" then d.name else d.sub ^ "/" ^ d.name in
                if not d.cram then begin
                  let want = string_of_bytes (utf8_encode (scrut_test_value (text_of_string arg) (n_of_int (dollar_line d t)))) in
                  if nth f 13 <> want then fail (Printf.sprintf "SCRUT_TEST=%s, expected %s" (nth f 13) want)
                end;
                if d.cram && nth f 14 = "unset" then fail "CRAMTMP is not set for a Cram document";
                if nth f 15 <> "yes" then fail ("the directory TMPDIR points to (" ^ tmp ^ ") does not exist while the test case runs")) mine
            end) run_docs_l
        end;
        (* ---- --work-directory: the given directory is kept with its content, its temp.* is gone *)
        (match p.flag, wl with
         | 'w', Some l ->
           if not (List.mem "pre-existing" l) then report "SPEC:C18" (Printf.sprintf "process %d: a file of the given work directory is gone" pi) line;
           if List.exists (fun n -> starts_with n "temp.") l then report "SPEC:C18" (Printf.sprintf "process %d: a temp.* directory is left in the given work directory" pi) line;
           List.iter (fun id -> if not (List.mem ("made-by-" ^ id) l) then report "SPEC:C18" (Printf.sprintf "process %d: the file test %s created in the given work directory is gone" pi id) line) got_ids
         | 'w', None -> report "SPEC:C18" (Printf.sprintf "process %d: the directory given with --work-directory was removed" pi) line
         | _, _ -> ())) (List.combine procs res);
      (* ---- no two documents share a work directory (unless it was given) *)
      let own = List.filter (fun (_, f) -> f <> 'w') !all_pwds in
      if List.length (List.sort_uniq compare (List.map fst own)) <> List.length own then report "SPEC:C18" "two documents of the run share a work directory" line;
      (* ---- what is left in TMPDIR: the model's final file system *)
      let n_exec = List.length (List.filter (fun n -> starts_with n "execution.") left) and n_temp = List.length (List.filter (fun n -> starts_with n "temp.") left) in
      let n_other = List.length left - n_exec - n_temp in
      if n_exec <> !want_exec || n_temp <> !want_temp || n_other <> 0 then
        report "SPEC:C18" (Printf.sprintf "left in TMPDIR after the run: %d execution.*, %d temp.*, %d other; the model leaves %d and %d (%s)" n_exec n_temp n_other !want_exec !want_temp
                             (if flag = 'k' then "--keep-temporary-directories" else "nothing may remain")) line
    | _ -> report "BAD" "unparsable case line" line
  with Failure m -> report "BAD" ("env case: " ^ m) line | Invalid_argument m -> report "BAD" ("env case: " ^ m) line)
