(* C11: model of the Escaper and of the `(escaped)` reader vs the implementation; the property on the implementation's text *)
open Svmodel
open Util

let bytes_of_hex s = List.map n_of_int (hex_decode s)
let hex_of_bytes l = hex_encode (List.map int_of_n l)
let text_hex (cs : n list) = hex_of_bytes (utf8_encode cs)     (* code points -> utf-8 hex *)

let run () = iter_lines (fun line ->
  let tag = line.[0] in
  let rest = String.sub line 2 (String.length line - 2) in
  match tag, split_on '|' rest with
  | 'S', [inp; "panic"] -> report "SPEC:C11" "the escaper panicked" line
  | 'S', [inp; hu; ep; ee; rb] ->
    (match split_on ' ' inp with
     | [m; content; nl] ->
       let md = if m = "a" then Ascii else Unicode in
       let bs = bytes_of_hex content in
       let ln = if nl = "1" then bs @ [n_of_int 10] else bs in
       let valid = (utf8_decode bs <> None) in
       let mhu = has_unprintable md bs in
       bump (Printf.sprintf "mode:%s/valid_utf8:%b/unprintable:%b" m valid mhu);
       bump (Printf.sprintf "len:%s" (let n = List.length bs in if n = 0 then "0" else if n <= 2 then "1-2" else if n <= 8 then "3-8" else if n <= 32 then "9-32" else ">32"));
       if List.exists (fun b -> int_of_n b = 92) bs then bump "has:backslash";
       note_distinct (m ^ content) (List.length bs > 0); sample line;
       if (if mhu then "1" else "0") <> hu then report "DIFF:has_unprintable" (Printf.sprintf "model=%b" mhu) line;
       let mep = text_hex (escaped_printable md bs) in
       if mhu && mep <> ep then report "DIFF:escaped_printable" ("model=" ^ mep) line;
       if (not mhu) && ep <> content then report "DIFF:escaped_printable" "model: unchanged" line;
       let mee = (match escaped_expectation md ln with Plain t -> "P:" ^ text_hex t | Escaped t -> "E:" ^ text_hex t) in
       if mee <> ee then report "DIFF:escaped_expectation" ("model=" ^ mee) line;
       (* the property, on the text the implementation wrote *)
       let kind = ee.[0] and itext_b = bytes_of_hex (String.sub ee 2 (String.length ee - 2)) in
       (match utf8_decode itext_b with
        | None -> report "SPEC:C11" "the written text is not valid UTF-8" line
        | Some itext ->
          let okc c = (match md with Ascii -> printable c | Unicode -> not (is_other c)) in
          if not (List.for_all okc itext) then report "SPEC:C11" "the written text contains a character that is not printable in this mode" line;
          if kind = 'E' then begin
            (match decode itext with
             | Some b when b = bs -> ()
             | Some b -> report "SPEC:C11" ("the escaped text reads back as different bytes: " ^ hex_of_bytes b) line
             | None -> report "SPEC:C11" "the escaped text does not parse as an escaped expectation" line);
            (match rb with
             | "1100" -> ()
             | "err" -> report "SPEC:C11" "the implementation cannot parse its own escaped text" line
             | "panic" -> report "SPEC:C11" "parsing/matching the escaped text panicked" line
             | s when String.length s = 4 ->
               if s.[0] <> '1' || s.[1] <> '1' then report "SPEC:C11" "the escaped expectation does not match the line it was generated from" line
               else report "SPEC:C11" "the escaped expectation also matches a line with different content" line
             | _ -> report "BAD" "readback" line)
          end else begin
            if itext_b <> bs then report "SPEC:C11" "a line written as plain text differs from the line" line
          end)
     | _ -> report "BAD" "escape case" line)
  | 'D', [text; res] ->
    let tb = bytes_of_hex text in
    (match utf8_decode tb with
     | None -> report "BAD" "text not utf8" line
     | Some cs ->
       let m = (match decode cs with Some b -> "escaped:" ^ hex_of_bytes b | None -> "err") in
       bump ("decode:" ^ (if m = "err" then "err" else "ok")); note_distinct line true; sample line;
       if m <> res then report "DIFF:decode" ("model=" ^ m) line;
       if res = "panic" then report "SPEC:C08" "parsing an expectation line panicked" line)
  | _ -> report "BAD" "unparsable case line" line)
