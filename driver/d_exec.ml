(* C05/C14/C15 at the executor: model of StatefulExecutor::execute_all vs the real one under a scripted mock runner *)
open Svmodel
open Util

let replace_tilde s = String.map (fun c -> if c = '~' then ' ' else c) s

let parse_status s : exit =
  match s.[0] with
  | 'C' -> Code (z_of_int (int_of_string (String.sub s 1 (String.length s - 1))))
  | 'T' -> TimedOut | 'S' -> ESkipped | 'D' -> EDetached | 'U' -> Unknown | 'E' -> RunnerErr
  | _ -> failwith "status"

let show_status total (g : bool) (e : exit) =
  match e with
  | Code c -> Printf.sprintf "C%d" (int_of_z c)
  | TimedOut -> if g then Printf.sprintf "T%d" total else "T7"
  | ESkipped -> "S" | EDetached -> "D" | Unknown -> "U" | RunnerErr -> "E"

let run_validate () = iter_lines (fun line ->
  match split_on '|' (String.sub line 2 (String.length line - 2)) with
  | [inp; res] ->
    (match split_on ' ' inp with
     | [st; ex; os; so; se; _] ->
       let status = parse_status st in
       let expected = if ex = "-" then None else Some (z_of_int (int_of_string ex)) in
       let osn = if os = "-" then None else Some (n_of_int (int_of_string os)) in
       let ok = stream_ok osn (so = "1") (se = "1") in
       let tc = { expected; t_skip = z_of_int 80; per_timeout = None; empty_ok = true } in
       let v = verdict tc { status; out_ok = ok } in
       let is_code = (match status with Code _ -> true | _ -> false) in
       let code_ok = (match status with Code c -> int_of_z c = (match expected with Some e -> int_of_z e | None -> 0) | _ -> false) in
       bump ("status:" ^ String.make 1 st.[0]); bump ("verdict:" ^ res); note_distinct line true; sample line;
       let mres = (match v with Success -> "ok" | _ -> if code_ok then "output" else "code") in
       if mres <> res then report "DIFF:validate" ("model=" ^ mres) line;
       (* the property, on the implementation's answer *)
       if res = "ok" && not (code_ok && ok) then report "SPEC:C05" "validate succeeds although exit code or configured stream is wrong" line;
       if res <> "ok" && code_ok && ok then report "SPEC:C05" "validate fails although exit code and configured stream are right" line;
       if is_code && not code_ok && res <> "code" then report "SPEC:C05" "a wrong exit code is not reported as such" line;
       if res = "panic" then report "SPEC:C05" "validate panicked" line
     | _ -> report "BAD" "validate case" line)
  | _ -> report "BAD" "validate case" line)

let run () = iter_lines (fun line ->
  let rest = String.sub line 2 (String.length line - 2) in
  match split_on '|' rest with
  | [tcs_s; doc_s; res; obs; left] ->
    let doc = D_config.parse_doc doc_s in
    let tests = if tcs_s = "-" then [] else List.map (fun t ->
        let f = split_on ' ' (replace_tilde t) in
        let n = List.length f in
        let cfgf = List.filteri (fun i _ -> i < n - 2) f in
        let st = D_config.field (List.nth f (n - 2)) and sl = int_of_string (D_config.field (List.nth f (n - 1))) in
        (D_config.parse_tc_fields cfgf, parse_status st, sl)) (split_on ';' tcs_s) in
    let n = List.length tests in
    (* what the executor computes before running: inline > document defaults *)
    let merged = List.map (fun (c, _, _) -> with_defaults c doc.d_defaults) tests in
    let skip_of (c : tcfg) = match c.skip_code with Some z -> z | None -> default_skip_document_code in
    let tcs = List.map (fun (c : tcfg) -> { expected = None; t_skip = skip_of c; per_timeout = c.timeout; empty_ok = true }) merged in
    let rs = List.map (fun (_, st, _) -> { status = st; out_ok = true }) tests in
    let total = match doc.d_total_timeout with None -> Some default_document_timeout_ms | Some N0 -> None | Some t -> Some t in
    let total_ms = match total with Some t -> int_of_n t | None -> 0 in
    let elapsed = List.rev (snd (List.fold_left (fun (acc, l) (_, _, sl) -> (acc + sl, n_of_int acc :: l)) (0, []) tests)) in
    let gs = gs_of tcs total elapsed in
    let limits = limits_of tcs total elapsed in
    let m = exec tcs rs gs O in
    let outs_str outs =
      let first_unknown = (let rec f i = function [] -> max_int | (r : rstep) :: t -> (match r.status with Unknown -> i | _ -> f (i + 1) t) in f 0 outs) in
      if outs = [] then "-" else String.concat "," (List.mapi (fun i (r : rstep) ->
        let g = (try List.nth gs i with _ -> false) in
        let padded = (match r.status with EDetached -> true | _ -> i > first_unknown) in
        show_status total_ms g r.status ^ (if padded then "e" else "o")) outs) in
    let ms = match m with
      | ExOk outs -> "OK " ^ outs_str outs
      | ExSkipped i -> Printf.sprintf "SKIP %d" (int_of_nat i)
      | ExTimeout (g, outs) -> if g then "TIMEOUT T " ^ outs_str outs else Printf.sprintf "TIMEOUT I%d %s" (List.length outs - 1) (outs_str outs)
      | ExFailed i -> Printf.sprintf "FAILED %d" (int_of_nat i) in
    let kind = List.hd (split_on ' ' ms) in
    bump ("result:" ^ kind); bump (Printf.sprintf "tests:%d" n);
    bump (Printf.sprintf "total:%s" (match doc.d_total_timeout with None -> "default" | Some N0 -> "unlimited" | _ -> "set"));
    note_distinct line (n >= 2); sample line;
    if ms <> res then report "DIFF:exec" ("model=" ^ ms) line;
    if left <> "left=0" then report "SPEC:C18" "state directory left behind by execute_all" line;
    (* observations made by the runner: effective limit, skip code, SCRUT_TEST, name, merged configuration *)
    let obsl = if obs = "-" then [] else split_on '+' obs in
    let reached = match m with ExOk _ -> (let rec f i = function [] -> i | (r : rstep) :: t -> (match r.status with Unknown -> i + 1 | _ -> f (i + 1) t) in f 0 rs)
                             | ExSkipped i | ExFailed i -> int_of_nat i + 1 | ExTimeout (_, outs) -> List.length outs in
    if List.length obsl <> reached then report "DIFF:exec" (Printf.sprintf "runner invoked %d times, model %d" (List.length obsl) reached) line;
    List.iteri (fun i o ->
      if i < n then begin
        match split_on '/' o with
        | [name; to_; sk; rest] ->
          if name <> Printf.sprintf "exec%d" (i + 1) then report "DIFF:exec" "runner name" line;
          let lim = List.nth limits i and g = List.nth gs i in
          let per = (List.nth tcs i).per_timeout in
          let el = int_of_n (List.nth elapsed i) in
          (match lim, to_ with
           | None, "-" -> bump "limit:none"
           | Some d, t when t <> "-" ->
             let t = int_of_string t and d = int_of_n d in
             let close = (match per, total with Some p, Some tt -> abs (int_of_n p - (int_of_n tt - el)) < 600 | _ -> false) in
             if close then bump "limit:inconclusive(limits within 600ms)"
             else if g then begin
               bump "limit:document";
               if not (t <= d && t >= d - 500) then begin
                 report "DIFF:limit" (Printf.sprintf "test %d: model says the document limit (%d ms left) applies, runner was handed %d ms" i d t) line;
                 (match per with Some p when int_of_n p < t - 500 || true ->
                    if abs (t - int_of_n p) <= 1 && int_of_n p > d + 500 then
                      report "SPEC:C14" (Printf.sprintf "test %d runs with its own timeout %d ms although only %d ms of the document limit are left" i (int_of_n p) d) line
                  | _ -> ())
               end
             end else begin
               bump "limit:per-test";
               if t <> d then begin
                 report "DIFF:limit" (Printf.sprintf "test %d: model says the per-test limit %d ms applies, runner was handed %d ms" i d t) line;
                 if t > d + 500 then report "SPEC:C14" (Printf.sprintf "test %d is allowed %d ms although its own timeout is %d ms" i t d) line
               end
             end
           | None, t -> report "DIFF:limit" ("model: no limit; runner was handed " ^ t) line
           | Some d, _ -> report "DIFF:limit" "model: a limit applies; runner was handed none" line;
             report "SPEC:C14" (Printf.sprintf "test %d runs without any timeout although a limit of %d ms is configured" i (int_of_n d)) line);
          if int_of_string sk <> int_of_z (List.nth tcs i).t_skip then report "DIFF:skipcode" (Printf.sprintf "test %d effective skip code: model %d impl %s" i (int_of_z (List.nth tcs i).t_skip) sk) line;
          if String.length rest >= 2 then begin
            if rest.[0] <> '1' then report "SPEC:C18" (Printf.sprintf "test %d: SCRUT_TEST=<file>:<line> not set for the runner" i) line;
            if rest.[1] <> '1' then report "SPEC:C18" (Printf.sprintf "test %d: state directory not inside the temp directory" i) line;
            let cfg_s = replace_tilde (String.sub rest 2 (String.length rest - 2)) in
            let icfg = D_config.parse_tc cfg_s in
            let mcfg = { (List.nth merged i) with timeout = icfg.timeout } in
            if D_config.show_tc mcfg <> D_config.show_tc icfg then
              report "DIFF:exec-config" (Printf.sprintf "test %d configuration at the runner: model=%s" i (D_config.show_tc mcfg)) line;
            (* C16 at the executor site: inline > document defaults *)
            let keys = List.map n_of_int (D_config.keys_of [icfg; List.nth merged i]) in
            let (c0, _, _) = List.nth tests i in
            if not (precedence_b tempty c0 doc.d_defaults tempty [] keys { icfg with timeout = (List.nth merged i).timeout }) then
              report "SPEC:C16" (Printf.sprintf "test %d: configuration at the runner does not prefer inline values over document defaults" i) line
          end
        | _ -> report "BAD" "observation" line
      end) obsl;
    (* executor-level oracles on the implementation's own result *)
    let ires = split_on ' ' res in
    let skip_reached =
      let rec f i = function
        | [] -> None
        | ((tc : tcase), (r : rstep)) :: t ->
          (match r.status with
           | Code c -> if int_of_z c = int_of_z tc.t_skip then Some i else f (i + 1) t
           | EDetached -> f (i + 1) t
           | ESkipped -> Some i
           | _ -> None) in
      f 0 (List.combine tcs rs) in
    (match skip_reached, List.hd ires with
     | Some i, "SKIP" -> if List.nth ires 1 <> string_of_int i then report "DIFF:exec" "skip index" line
     | Some i, k -> report "SPEC:C15" (Printf.sprintf "test %d ended in its skip code but the executor reported %s" i k) line
     | None, "SKIP" -> report "SPEC:C15" "executor reports a skip although no reached test ended in its skip code" line
     | None, _ -> ());
    (match List.hd ires with
     | "TIMEOUT" ->
       if not (List.exists (fun (r : rstep) -> r.status = TimedOut) rs) then report "SPEC:C14" "timeout reported although the runner never timed out" line
     | "OK" ->
       let reached_timeout =
         let rec f = function [] -> false | (r : rstep) :: t -> (match r.status with TimedOut -> true | Code _ | EDetached -> f t | _ -> false) in
         skip_reached = None && f rs in
       if reached_timeout then report "SPEC:C14" "the runner timed out but the executor reports a normal completion" line;
       (* C05: after an Unknown nothing may carry an exit code *)
       let outs = if List.length ires > 1 && List.nth ires 1 <> "-" then split_on ',' (List.nth ires 1) else [] in
       let rec chk seen = function [] -> () | o :: t ->
         if seen && o.[0] <> 'U' then report "SPEC:C05" "an output after a test without exit code carries a status other than unknown" line
         else chk (seen || o.[0] = 'U') t in
       chk false outs;
       if List.length outs <> n && not (List.exists (fun (r : rstep) -> r.status = RunnerErr) rs) then
         report "SPEC:C20" (Printf.sprintf "%d outputs for %d test cases" (List.length outs) n) line
     | _ -> ())
  | _ -> report "BAD" "unparsable case line" line)
