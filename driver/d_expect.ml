(* C08: model of the expectation grammar / canonical rendering vs ExpectationMaker; round-trip oracle on the implementation *)
open Svmodel
open Util

let bytes_of_hex s = List.map n_of_int (hex_decode s)
let hex_of_bytes l = hex_encode (List.map int_of_n l)
let text_of_hex s = match utf8_decode (bytes_of_hex s) with Some cs -> cs | None -> failwith "text not utf8"
let str_of (cs : n list) = String.concat "" (List.map (fun c -> let i = int_of_n c in if i < 128 then String.make 1 (Char.chr i) else "?") cs)
let kind_name = function 0 -> "equal" | 1 -> "no-eol" | 2 -> "escaped" | 3 -> "glob" | _ -> "regex"

(* (kind, expression bytes, opt, mul) as unmake reports them *)
let unmake_model (e : expectation) : string =
  let (k, b) = (match e.e_rule with
      | REqual t -> ("equal", utf8_encode t) | RNoEol t -> ("no-eol", utf8_encode t)
      | REscaped (_, b) -> ("escaped", b) | RGlob p -> ("glob", utf8_encode p) | RRegex p -> ("regex", utf8_encode p)) in
  Printf.sprintf "%s:%s:%d%d" k (hex_of_bytes b) (if e.e_opt then 1 else 0) (if e.e_mul then 1 else 0)

let parse_shown s = match split_on ':' s with [k; b; om] -> Some (k, bytes_of_hex b, om) | _ -> None

let run () = iter_lines (fun line ->
  let rest = String.sub line 2 (String.length line - 2) in
  let f = split_on '|' rest in
  let lhex = List.hd f in
  let ltext = text_of_hex lhex in
  let ((me, mk), mq) = extract ltext in
  let mkind = (match lookup_kind mk kind_names with Some id -> int_of_nat id | None -> -1) in
  bump ("kind:" ^ (if mkind < 0 then "unknown" else kind_name mkind)); bump ("quant:" ^ (if mq = [] then "none" else str_of mq));
  bump (match split_mod ltext with None -> "modifier:no" | Some _ -> "modifier:yes");
  note_distinct lhex (ltext <> []); sample line;
  match List.tl f with
  | ["panic"] -> report "SPEC:C08" "parsing an expectation line panicked" line
  | ["err"] ->
    (* an error is only allowed for an explicitly marked regex / escaped (or escaped glob) expression *)
    let explicit = (mkind = 4 || mkind = 2 || (mkind = 3 && expression_as_escaped me <> None)) && split_mod ltext <> None in
    (match parse (fun x -> x) (fun _ -> false) (fun x -> x) ltext with
     | PErr -> ()
     | POk _ -> if mkind <> 4 then report "DIFF:parse" "model parses this line, the implementation reports an error" line);
    if not explicit then report "SPEC:C08" ("a line fails to parse although it is not an explicitly marked regex/escaped expression (kind " ^ str_of mk ^ ")") line
  | ["ok"; shown; orig; ra; backa; ru; backu] ->
    (match parse_shown shown with
     | None -> report "BAD" "shown" line
     | Some (ik, ib, iom) ->
       (* regex preparation and compilation are external: take them from the implementation *)
       let prep = (fun (_ : n list) -> match utf8_decode ib with Some t -> t | None -> []) in
       (match parse prep (fun _ -> true) prep ltext with
        | PErr -> report "DIFF:parse" "model reports an error, the implementation parses this line" line
        | POk m ->
          if unmake_model m <> shown then report "DIFF:parse" ("model=" ^ unmake_model m) line;
          if orig <> lhex then report "DIFF:parse" "original_string differs from the line" line;
          let ma = hex_of_bytes (utf8_encode (render_exp Ascii m)) and mu = hex_of_bytes (utf8_encode (render_exp Unicode m)) in
          if ma <> ra then report "DIFF:render" ("ascii model=" ^ ma) line;
          if mu <> ru then report "DIFF:render" ("unicode model=" ^ mu) line;
          (* the grammar, stated on what the implementation returned *)
          let ikind_ok = (ik = (if mkind < 0 then "?" else kind_name mkind)) in
          if not ikind_ok then report "SPEC:C08" "the kind is not the one of the final ` (<kind><quantifier>)` group" line;
          (* round trip on the implementation's own rendering *)
          let unprintable b = has_unprintable Unicode b || has_unprintable Ascii b in
          let ends_with_str (b : n list) (suf : string) =
            let s = String.concat "" (List.map (fun x -> String.make 1 (Char.chr (int_of_n x land 255))) b) in
            let ls = String.length s and lf = String.length suf in ls >= lf && String.sub s (ls - lf) lf = suf in
          let collision b = List.exists (ends_with_str b) [" (no-eol)"; " (escaped)"; " \\(escaped\\)"; " (esc)"; " \\(esc\\)"] in
          let check name back =
            (match back with
             | "panic" -> report "SPEC:C08" ("rendering/re-parsing panicked (" ^ name ^ ")") line
             | "err" ->
               if ik = "regex" then report "SPEC:C08" "known:roundtrip-regex-render the canonical form of a regex expectation does not parse back" line
               else if (ik = "glob" || ik = "no-eol") && unprintable ib then report "SPEC:C08" "known:roundtrip-unprintable-nonequal the canonical form does not parse back" line
               else if (ik = "glob" || ik = "escaped") && collision ib then report "SPEC:C08" "known:roundtrip-suffix-collision the canonical form does not parse back" line
               else report "SPEC:C08" ("the canonical form does not parse back (" ^ name ^ ")") line
             | s ->
               (match parse_shown s with
                | None -> report "BAD" "back" line
                | Some (bk, bb, bom) ->
                  let same_sem =
                    (match ik, bk with
                     | ("equal" | "escaped" | "no-eol"), ("equal" | "escaped" | "no-eol") ->
                       bb = ib && ((ik = "no-eol") = (bk = "no-eol") || true)
                     | a, b -> a = b && bb = ib) in
                  if bom <> iom then report "SPEC:C08" ("the canonical form parses back with a different quantifier (" ^ name ^ ")") line
                  else if not same_sem then begin
                    if (ik = "glob" || ik = "regex" || ik = "no-eol") && unprintable ib then
                      report "SPEC:C08" "known:roundtrip-unprintable-nonequal glob/regex/no-eol expression with unprintable characters is rendered escaped but keeps its kind" line
                    else if ik = "regex" then report "SPEC:C08" "known:roundtrip-regex-render the prepared regex text is not a fixed point of the preparation" line
                    else if collision ib && (ik = "escaped" || ik = "glob" || (ik = "equal" && unprintable ib)) then report "SPEC:C08" "known:roundtrip-suffix-collision the expression text itself ends in ` (no-eol)` / ` (escaped)`" line
                    else report "SPEC:C08" ("the canonical form parses back to an expectation with different content (" ^ name ^ "): " ^ s) line
                  end)) in
          check "ascii" backa; check "unicode" backu))
  | _ -> report "BAD" "unparsable case line" line)
