(* C09: generated tests, parsed back and validated by the real code; the written lines are compared with the model *)
open Svmodel
open Util

let bytes_of_hex s = List.map n_of_int (hex_decode s)
let hex_of_bytes l = hex_encode (List.map int_of_n l)
let starts_with_str (b : n list) (s : string) =
  let rec go i = function
    | _ when i >= String.length s -> true
    | [] -> false
    | c :: r -> int_of_n c = Char.code s.[i] && go (i + 1) r in go 0 b

(* split an output stream into lines keeping the final LF of each *)
let split_lines_keep (bs : n list) : n list list = split_lines bs

(* J lines: the real `scrut create`, then the real `scrut test` on what it wrote *)
let run_created line =
  match split_on '|' (String.sub line 2 (String.length line - 2)) with
  | [head; doc; info] ->
    (match split_on ' ' head with
     | [fmt; esc; cmd_hex; code; out; title_hex] ->
       let cram = (fmt = "c") and compat = (fmt = "k") in     (* k: a Markdown document created under --cram-compat *)
       let md = (match esc with "ascii" -> Ascii | "unicode" -> Unicode | _ -> if cram then Ascii else Unicode) in
       let raw = bytes_of_hex out in
       (* Markdown documents translate CR LF unless told otherwise; Cram documents (and --cram-compat) keep it *)
       let outb = if cram || compat then raw else replace_crlf raw in
       let lines = split_lines_keep outb in
       bump (Printf.sprintf "created:%s/escaping:%s" fmt esc); bump ("created-exit:" ^ (if code = "0" then "0" else "nonzero"));
       note_distinct head (lines <> []); sample (if String.length line > 300 then String.sub line 0 300 else line);
       let has s sub = (let n = String.length sub in let rec go i = i + n <= String.length s && (String.sub s i n = sub || go (i + 1)) in go 0) in
       if not (has info "create=0") then report "SPEC:C09" ("`scrut create` failed: " ^ info) line
       else begin
         let dl = str_lines (match utf8_decode (bytes_of_hex doc) with Some t -> t | None -> []) in
         let cmd = bytes_of_hex cmd_hex and title = Some (bytes_of_hex title_hex) in
         let codeN = n_of_int (int_of_string code) in
         let cfg_of_tcfg (t : tcfg) : ycfg = { yempty with y_os = t.output_stream; y_kc = t.keep_crlf; y_sk = t.skip_code } in
         let compat_cfg = (match gen_config_suffix (cfg_of_tcfg tc_default_cram) (cfg_of_tcfg tc_default_markdown) with
             | _ :: _ :: r -> (match List.rev r with _ :: m -> Some (List.rev m) | [] -> None) | _ -> None) in
         (* the documents with the guards of the generator (a first line `> ..`, a Cram line `$ ..`, an escaped rendering ending in ` (no-eol)`) *)
         let model = if cram then render_cram (gen_cram_doc_g md title cmd [] lines codeN)
           else if compat then render_md (gen_md_docs_g md compat_cfg [{ g_title = title; g_cmd = cmd; g_conts = []; g_lines = lines; g_code = codeN }])
           else render_md (gen_md_doc_g md None title cmd [] lines codeN) in
         if model <> dl then report "DIFF:generated-document" "the document `scrut create` wrote is not the rendering of the model's title and test block" line;
         let first_gt = (match lines with l :: _ -> starts_with_str l "> " | [] -> false) in
         let dollar = cram && List.exists (fun l -> starts_with_str l "$ ") lines in
         if not (has info "test=0") then begin
           if first_gt then report "SPEC:C09" "known:first-line-looks-like-continuation the first output line starts with `> ` and is read back as a continuation of the command" line
           else if dollar then report "SPEC:C09" "known:cram-dollar-line an output line starting with `$ ` is read back as another command in a Cram document" line
           else report "SPEC:C09" ("the document written by `scrut create` does not pass `scrut test` on the same command: " ^ info) line
         end;
         if not (has info "leftover=0") then report "SPEC:C18" ("directories left in TMPDIR after create and test: " ^ info) line
       end
     | _ -> report "BAD" "created head" line)
  | _ -> report "BAD" "unparsable case line" line

(* V lines: the real `scrut update --convert`, then the real `scrut test` on the converted document.  Every test of the
   source document has no expectation lines, so every line of its output is generated anew: the converted document is the
   create-flavour rendering of each test in the other format, joined by two blank lines.  A Cram source carries its format
   defaults into the Markdown header (what differs from the Markdown defaults, written as the one-liner). *)
let cfg_of_tcfg (t : tcfg) : ycfg =
  { yempty with y_os = t.output_stream; y_kc = t.keep_crlf; y_sk = t.skip_code }
let run_converted line =
  match split_on '|' (String.sub line 2 (String.length line - 2)) with
  | [head; conv; info] ->
    (match split_on ' ' head with
     | [dir; esc; tests] ->
       let from_cram = (dir = "c2m") in
       let md = (match esc with "ascii" -> Ascii | "unicode" -> Unicode | _ -> if from_cram then Ascii else Unicode) in
       let has s sub = (let n = String.length sub in let rec go i = i + n <= String.length s && (String.sub s i n = sub || go (i + 1)) in go 0) in
       let ts = List.map (fun t -> match split_on ':' t with
           | [title; cmd; code; out] -> (bytes_of_hex title, bytes_of_hex cmd, int_of_string code, bytes_of_hex out)
           | _ -> ([], [], 0, [])) (split_on ',' tests) in
       bump (Printf.sprintf "converted:%s/escaping:%s/tests:%d" dir esc (List.length ts));
       note_distinct head true; sample (if String.length line > 300 then String.sub line 0 300 else line);
       if not (has info "update=0") then report "SPEC:C09" ("`scrut update --convert` failed: " ^ info) line
       else begin
         let dl = str_lines (match utf8_decode (bytes_of_hex conv) with Some t -> t | None -> []) in
         let suffix = if from_cram then gen_config_suffix (cfg_of_tcfg tc_default_cram) (cfg_of_tcfg tc_default_markdown) else [] in
         let crlf_matters = ref false in
         (* the model's document of several tests (C09_cram_tests_read_back / C09_markdown_tests_read_back) *)
         let gtests = List.map (fun (title, cmd, code, raw) ->
             (* a Markdown test translates CR LF before the output is compared or written; a Cram test keeps it *)
             let outb = if from_cram then raw else replace_crlf raw in
             if outb <> raw then crlf_matters := true;
             { g_title = (match title with [] -> None | t -> Some t); g_cmd = cmd; g_conts = []; g_lines = split_lines_keep outb; g_code = n_of_int code }) ts in
         let cfg = (match suffix with _ :: _ :: r -> (match List.rev r with _ :: m -> Some (List.rev m) | [] -> None) | _ -> None) in
         let model = if from_cram then render_md (gen_md_docs_g md cfg gtests) else render_cram (gen_cram_docs_g md gtests) in
         if model <> dl then report "DIFF:generated-document" "the document `scrut update --convert` wrote is not the model's rendering of the tests in the other format" line;
         let first_gt = List.exists (fun (_, _, _, raw) -> match split_lines_keep raw with l :: _ -> starts_with_str l "> " | [] -> false) ts in
         let dollar = (not from_cram) && List.exists (fun (_, _, _, raw) -> List.exists (fun l -> starts_with_str l "$ ") (split_lines_keep raw)) ts in
         if not (has info "test=0") then begin
           if first_gt then report "SPEC:C09" "known:first-line-looks-like-continuation the first output line starts with `> ` and is read back as a continuation of the command" line
           else if dollar then report "SPEC:C09" "known:cram-dollar-line an output line starting with `$ ` is read back as another command in a Cram document" line
           else if !crlf_matters then bump "converted:markdown-to-cram with CR LF in the output: the Cram test runs under other defaults (not required by C09)"
           else report "SPEC:C09" ("the document written by `scrut update --convert` does not pass `scrut test`: " ^ info) line
         end;
         if not (has info "source-kept=1") then report "SPEC:C09" "the source document was changed by a conversion" line;
         if not (has info "leftover=0") then report "SPEC:C18" ("directories left in TMPDIR after convert and test: " ^ info) line
       end
     | _ -> report "BAD" "converted head" line)
  | _ -> report "BAD" "unparsable case line" line

let run () = iter_lines (fun line ->
  if String.length line > 1 && line.[0] = 'J' then run_created line else
  if String.length line > 1 && line.[0] = 'V' then run_converted line else
  match split_on '|' (String.sub line 2 (String.length line - 2)) with
  | [head; gen; pk; same; vk] ->
    (match split_on ' ' head with
     | [fmt; esc; upd; expr_hex; code; out; title_hex] ->
       let given_title = (match bytes_of_hex title_hex with [] -> None | t -> Some t) in
       let cram = (fmt = "c") in
       let md = if esc = "a" then Ascii else Unicode in
       let outb = bytes_of_hex out in
       let lines = split_lines_keep outb in
       bump (Printf.sprintf "format:%s/flavour:%s" fmt (match upd with "0" -> "create" | "1" -> "update" | _ -> "update-quantified"));
       bump ("exit:" ^ (if code = "0" then "0" else "nonzero")); bump (Printf.sprintf "lines:%d" (min 5 (List.length lines)));
       note_distinct head (lines <> []); sample line;
       let ok = (pk = "ok1" && same = "1" && vk = "ok") in
       (* correspondence: in the create flavour every expectation line of the generated test is the model's *)
       if upd = "0" && gen <> "-" then begin
         let doc = (match utf8_decode (bytes_of_hex gen) with Some t -> t | None -> []) in
         let dl = str_lines doc in
         let want = List.map (fun l -> (if cram then [n_of_int 32; n_of_int 32] else []) @ l) (guarded_lines true md lines) in
         let rec contains_seq hay need = match need with
           | [] -> true
           | _ -> (match hay with [] -> false | _ :: t ->
               let rec pre a b = (match a, b with _, [] -> true | x :: a', y :: b' -> x = y && pre a' b' | [], _ -> false) in
               pre hay need || contains_seq t need) in
         if not (contains_seq dl want) then report "DIFF:generated-lines" "the expectation lines in the generated test are not the model's" line
       end;
       (* Cram, create flavour: the WHOLE generated document is the rendering of the model's grammar element
          (C09_cram_test_reads_back), with or without the title line *)
       if cram && upd = "0" && gen <> "-" then begin
         let doc = (match utf8_decode (bytes_of_hex gen) with Some t -> t | None -> []) in
         let dl = str_lines doc in
         let expr_lines = (let rec split cur acc = function
             | [] -> List.rev (List.rev cur :: acc)
             | c :: r -> if int_of_n c = 10 then split [] (List.rev cur :: acc) r else split (c :: cur) acc r in split [] [] (bytes_of_hex expr_hex)) in
         let cmd, conts = (match expr_lines with c :: r -> (c, r) | [] -> ([], [])) in
         let title = given_title in
         let model = render_cram (gen_cram_doc_g md title cmd conts lines (n_of_int (int_of_string code))) in
         if model <> dl then report "DIFF:generated-document" "the generated Cram document is not the rendering of the model's test block" line
       end;
       (* Markdown, create flavour: `# title`, blank, fenced scrut block (C09_markdown_test_reads_back) *)
       if (not cram) && upd = "0" && gen <> "-" then begin
         let doc = (match utf8_decode (bytes_of_hex gen) with Some t -> t | None -> []) in
         let dl = str_lines doc in
         let expr_lines = (let rec split cur acc = function
             | [] -> List.rev (List.rev cur :: acc)
             | c :: r -> if int_of_n c = 10 then split [] (List.rev cur :: acc) r else split (c :: cur) acc r in split [] [] (bytes_of_hex expr_hex)) in
         let cmd, conts = (match expr_lines with c :: r -> (c, r) | [] -> ([], [])) in
         let title = given_title in
         let model = render_md (gen_md_doc_g md None title cmd conts lines (n_of_int (int_of_string code))) in
         if model <> dl then report "DIFF:generated-document" "the generated Markdown document is not the rendering of the model's title and test block" line
       end;
       (* known classes *)
       let first_gt = (match lines with l :: _ -> starts_with_str l "> " | [] -> false) in
       let dollar = cram && List.exists (fun l -> starts_with_str l "$ ") lines in
       if pk = "genpanic" || pk = "panic" then report "SPEC:C09" "generating or parsing back panicked" line
       else if not ok then begin
         if first_gt then report "SPEC:C09" "known:first-line-looks-like-continuation the first output line starts with `> ` and is read back as a continuation of the command" line
         else if dollar then report "SPEC:C09" "known:cram-dollar-line an output line starting with `$ ` is read back as another command in a Cram document" line
         else if upd = "2" then report "SPEC:C09" "known:regen-kept-quantified a kept quantified expectation followed by an overlapping one: the regenerated list describes the output but the greedy matcher rejects it" line
         else report "SPEC:C09" (Printf.sprintf "the generated test does not pass on the output it was generated from (parse=%s same-expression=%s validate=%s)" pk same vk) line
       end
     | _ -> report "BAD" "gen head" line)
  | _ -> report "BAD" "unparsable case line" line)
