(* C19: the renderers.  The case line carries outcomes (built from real validate results) and what the four real
   renderers returned; the extracted model renders the same outcomes and the proved facts are evaluated on the
   implementation's text. *)
open Svmodel
open Util

let bytes_of_hex s = List.map n_of_int (hex_decode s)
let text_of_hex s = match utf8_decode (bytes_of_hex s) with Some t -> t | None -> bytes_of_hex s
let string_of_bytes (l : n list) = let b = Buffer.create 64 in List.iter (fun c -> Buffer.add_char b (Char.chr (int_of_n c land 255))) l; Buffer.contents b
let string_of_text (t : n list) = string_of_bytes (utf8_encode t)
let string_of_hex s = string_of_bytes (bytes_of_hex s)

let contains (hay : string) (needle : string) : bool =
  let n = String.length needle and h = String.length hay in
  if n = 0 then true else begin
    let rec go i = if i + n > h then false else if String.sub hay i n = needle then true else
        (match String.index_from_opt hay (i + 1) needle.[0] with Some j -> go j | None -> false) in
    match String.index_opt hay needle.[0] with Some j -> go j | None -> false
  end

let parse_dline (s : string) : dline =
  let body = String.sub s 1 (String.length s - 1) in
  match s.[0] with
  | 'm' -> (match split_on '.' body with
      | [i; m; e; f] -> DMatched (n_of_int (int_of_string i), m = "1", text_of_hex e, (if f = "~" then None else Some (n_of_int (int_of_string f))))
      | _ -> failwith "dline m")
  | 'u' -> (match split_on '.' body with
      | [i; m; e; o] -> DUnmatched (n_of_int (int_of_string i), m = "1", text_of_hex e, text_of_hex o)
      | _ -> failwith "dline u")
  | 'x' -> DUnexpected (if body = "" then [] else List.map (fun p -> match split_on '_' p with
      | [i; b] -> (n_of_int (int_of_string i), bytes_of_hex b) | _ -> failwith "dline x") (split_on '/' body))
  | _ -> failwith "dline"

let parse_result (s : string) : result =
  let body = String.sub s 1 (String.length s - 1) in
  match s.[0] with
  | 'S' -> OSuccess | 'K' -> OSkipped | 'T' -> OTimeout
  | 'E' -> (match split_on ':' body with [a; e] -> OExit (z_of_int (int_of_string a), z_of_int (int_of_string e)) | _ -> failwith "E")
  | 'I' -> OInternal (text_of_hex body)
  | 'M' -> (match split_on ':' body with
      | [n; ds] -> OMalformed (n_of_int (int_of_string n), if ds = "" then [] else List.map parse_dline (split_on '+' ds))
      | _ -> failwith "M")
  | _ -> failwith "result"

let parse_outcome (s : string) : outcome =
  match split_on ',' s with
  | [loc; title; expr; line; nexps; exit; fmt; esc; so; se; res] ->
    { o_location = (if loc = "~" then None else Some (text_of_hex loc)); o_title = text_of_hex title; o_expr = text_of_hex expr;
      o_line = n_of_int (int_of_string line); o_nexps = n_of_int (int_of_string nexps);
      o_exit = (if exit = "~" then None else Some (z_of_int (int_of_string exit)));
      o_cram = (fmt = "c"); o_esc = (if esc = "a" then Ascii else Unicode); o_stdout = bytes_of_hex so; o_stderr = bytes_of_hex se;
      o_res = parse_result res }
  | _ -> failwith "outcome"

let kind_name = function OSuccess -> "success" | OMalformed _ -> "malformed_output" | OExit _ -> "invalid_exit_code"
                       | OInternal _ -> "internal_error" | OTimeout -> "timeout" | OSkipped -> "skipped"

let run () = iter_lines (fun line ->
  try
    match split_on '|' (String.sub line 2 (String.length line - 2)) with
    | [pp; outs; pretty; mono; diff; json; yaml] ->
      let pp = (match split_on ' ' pp with
          | [m; a; s] -> { max_sur = nat_of_int (int_of_string m); absolute = (a = "1"); summarize = (s = "1") } | _ -> failwith "pp") in
      let os = if outs = "-" then [] else List.map parse_outcome (split_on ';' outs) in
      let nloc = List.length (List.filter (fun o -> o.o_location <> None) os) in
      let uniform = (nloc = 0 || nloc = List.length os) in
      let failed = List.filter (fun o -> match o.o_res with OSuccess | OSkipped -> false | _ -> true) os in
      bump (Printf.sprintf "outcomes:%d" (List.length os));
      bump (Printf.sprintf "surrounding:%d/absolute:%b" (int_of_nat pp.max_sur) pp.absolute);
      List.iter (fun o -> bump ("result:" ^ kind_name o.o_res);
        (match o.o_res with OMalformed (_, d) ->
           bump (Printf.sprintf "diff-lines:%s" (let n = List.length d in if n <= 2 then string_of_int n else if n <= 6 then "3-6" else "7+"));
           List.iter (function
               | DUnexpected ls -> List.iter (fun (_, b) ->
                   bump (if utf8_decode b = None then "unexpected:invalid-utf8" else if List.length b > 200 then "unexpected:long" else "unexpected:other")) ls
               | DUnmatched _ -> bump "unmatched" | DMatched _ -> ()) d
         | _ -> ())) os;
      note_distinct outs (failed <> []); sample (if String.length line > 500 then String.sub line 0 500 else line);
      (* the diffs the implementation produced are well indexed (C02), the premise of the totality theorem *)
      if not (List.for_all result_ok os) then report "DIFF:wellindexed" "a diff returned by TestCase::validate has an index out of range" line;
      (* --- no crash, no error *)
      let bad = ref false in
      let crash name v = if v = "panic" then (bad := true; report "SPEC:C19" (name ^ " renderer panicked") line)
        else if v = "err" && (name <> "diff" || uniform) then (bad := true; report "SPEC:C19" (name ^ " renderer returned an error: no report") line)
        else if v = "malformed" then (bad := true; report "SPEC:C19" (name ^ " rendering is not well-formed") line) in
      crash "pretty" pretty; crash "pretty (monochrome)" mono; crash "diff" diff; crash "json" json; crash "yaml" yaml;
      (* --- model vs implementation *)
      let mp = render_pretty pp os and md = render_diff os in
      let impl_text v = if String.length v > 3 && String.sub v 0 3 = "ok:" then Some (string_of_hex (String.sub v 3 (String.length v - 3))) else None in
      (match mp, impl_text pretty with
       | RendOk t, Some s -> if string_of_text t <> s then report "DIFF:pretty" "pretty rendering differs from the model" line
       | RendPanic, Some _ -> report "DIFF:pretty" "the model of the pretty renderer panics, the implementation does not" line
       | RendOk _, None -> if not !bad then report "DIFF:pretty" "pretty renderer failed, the model renders" line
       | _, _ -> ());
      (match md, impl_text diff with
       | RendOk t, Some s -> if string_of_text t <> s then report "DIFF:diff" "diff rendering differs from the model" line
       | RendErr, Some _ -> report "DIFF:diff" "the model of the diff renderer bails out, the implementation does not" line
       | RendOk _, None -> if not !bad then report "DIFF:diff" "diff renderer failed, the model renders" line
       | _, _ -> ());
      let want = if os = [] then "-" else String.concat "," (List.map (fun e ->
          Printf.sprintf "%d:%s:%s" (if e.se_location = None then 0 else 1) (string_of_text e.se_kind)
            (String.concat "" (List.map (fun k -> string_of_int (int_of_n k)) e.se_diff))) (structured os)) in
      List.iter (fun (name, v) ->
          if String.length v >= 3 && String.sub v 0 3 = "ok:" then begin
            let got = String.sub v 3 (String.length v - 3) in
            if got <> want then report "SPEC:C19" (Printf.sprintf "%s: not one entry per outcome with its result kind (got %s, want %s)" name got want) line
          end) ["json", json; "yaml", yaml];
      (* --- every difference is shown (evaluated on the implementation's text) *)
      (match impl_text pretty with
       | Some s ->
         List.iter (fun o -> match o.o_res with
             | OMalformed (_, d) -> List.iter (function
                 | DUnmatched (_, _, e, _) ->
                   (match highlight e with Some c -> if not (contains s ("- " ^ string_of_text c ^ "\n")) then
                         report "SPEC:C19" "pretty: an unmatched expectation is missing from the rendering" line | None -> ())
                 | DUnexpected ls -> List.iter (fun (_, b) ->
                     let l = if (match List.rev b with c :: _ -> int_of_n c = 10 | [] -> false) then b else b @ s_NOEOL in
                     let wt = (match escaped_expectation o.o_esc l with Plain t -> t | Escaped t -> t @ s_ESCAPED) in
                     (match highlight wt with Some c -> if not (contains s ("+ " ^ string_of_text c ^ "\n")) then
                           report "SPEC:C19" "pretty: an unexpected output line is missing from the rendering" line | None -> ())) ls
                 | DMatched _ -> ()) d
             | _ -> ()) os;
         if failed = [] && (s <> (if pp.summarize then (match mp with RendOk t -> string_of_text t | _ -> s) else ""))
         then report "SPEC:C19" "pretty: output for a run without failures is not just the summary" line;
         if failed = [] && contains s "// ===" then report "SPEC:C19" "pretty: a failure section although no test failed" line
       | None -> ());
      (match impl_text diff with
       | Some s ->
         List.iter (fun o -> let pre = if o.o_cram then "  " else "" in match o.o_res with
             | OMalformed (_, d) -> List.iter (function
                 | DUnmatched (_, _, _, orig) -> if not (contains s ("-" ^ pre ^ string_of_text orig ^ "\n")) then
                     report "SPEC:C19" "diff: an unmatched expectation is missing from the rendering" line
                 | DUnexpected ls -> List.iter (fun (_, b) ->
                     if not (contains s ("+" ^ pre ^ string_of_text (utf8_lossy (trim_newlines b)) ^ "\n")) then
                       report "SPEC:C19" "diff: an unexpected output line is missing from the rendering" line) ls
                 | DMatched _ -> ()) d
             | _ -> ()) os;
         if List.for_all (fun o -> o.o_res = OSuccess) os && s <> "" then report "SPEC:C19" "diff: output although every test passed" line
       | None -> ())
    | _ -> report "BAD" "unparsable case line" line
  with Failure m -> report "BAD" ("render case: " ^ m) line)
