(* C04: the five expectation kinds -- proved matchers vs ExpectationMaker::parse(..).matches(..) *)
open Svmodel
open Util

let bytes_of_hex s = List.map n_of_int (hex_decode s)
let hex_of_bytes l = hex_encode (List.map int_of_n l)
let text_of_hex s = match utf8_decode (bytes_of_hex s) with Some cs -> cs | None -> failwith "text"

(* prefix-serialised regex AST *)
let parse_re (s : string) : re =
  let toks = ref (List.filter (fun x -> x <> "") (split_on ' ' s)) in
  let next () = match !toks with t :: r -> toks := r; t | [] -> failwith "re eof" in
  let rec go () =
    let t = next () in
    match t.[0] with
    | 'e' -> Eps | '.' -> Any | 'z' -> Emp
    | 'c' -> Chr (n_of_int (int_of_string (String.sub t 1 (String.length t - 1))))
    | 'k' -> let parts = split_on ',' (String.sub t 2 (String.length t - 2)) in
      Cls (t.[1] = '1', List.filter_map (fun x -> if x = "" then None else Some (n_of_int (int_of_string x))) parts)
    | 's' -> let a = go () in let b = go () in Seq (a, b)
    | 'a' -> let a = go () in let b = go () in Alt (a, b)
    | '*' -> Star (go ())
    | _ -> failwith "re tok" in
  go ()

let b2s b = if b then "1" else "0"

let run () = iter_lines (fun line ->
  let kind = line.[2] in
  let rest = String.sub line 4 (String.length line - 4) in
  let f = split_on '|' rest in
  note_distinct line true; sample line;
  match kind, f with
  | 'r', [ast; top; ln; res] ->
    let r = parse_re ast in
    (match split_on ' ' ln with
     | [s; _nl] ->
       let s = text_of_hex s in
       let m = full r s in
       bump (Printf.sprintf "regex:match=%b" m);
       if hex_of_bytes (utf8_encode (print_top r)) <> top then report "BAD" "printer mismatch between harness and model" line
       else begin
         if res <> b2s m then begin
           report "DIFF:regex" (Printf.sprintf "model=%b" m) line;
           report "SPEC:C04" (if m then "a regex expectation does not match a line that is in the language of its expression"
                              else "a regex expectation matches a line although the whole line is not in the language of its expression") line
         end
       end
     | _ -> report "BAD" "regex line" line)
  | ('u' | 'k'), [ast; top; ln; res] ->
    (* user-style notation: `]` outside a class unescaped, class members unescaped where legal *)
    let r = parse_re ast in
    (match split_on ' ' ln with
     | [s; _nl] ->
       let s = text_of_hex s in
       let m = full r s in
       bump (Printf.sprintf "regex(user notation%s):match=%b" (if kind = 'k' then ", counted repetition" else "") m);
       (* with a counted repetition the tree is the sequence it stands for: the notation `{n}`, `{n,m}`, `{n,}` is the harness's *)
       if kind = 'u' && hex_of_bytes (utf8_encode (print_user r)) <> top then report "BAD" "user-notation printer mismatch between harness and model" line
       else if res <> b2s m then begin
         (* the listed known finding: a `]` that stands for itself after a complete character class is pulled into that class *)
         let rec flat = function Seq (a, b) -> flat a @ flat b | x -> [x] in
         let rec has p = function Seq (a, b) | Alt (a, b) -> has p a || has p b | Star a -> has p a | x -> p x in
         let is_cls = (function Cls (_, _) -> true | _ -> false) and is_rb = (function Chr c -> int_of_n c = 93 | _ -> false) in
         let rec after_class seen = function
           | [] -> false
           | x :: t -> (seen && has is_rb x) || after_class (seen || has is_cls x) t in
         if after_class false (flat r) then
           report "SPEC:C04" "known:regex-class-heuristic a closing square bracket that stands for itself after a complete character class is taken into that class ([a]b] is read as [a\\]b]): the expectation does not match the lines of the expression as written" line
         else begin
           report "DIFF:regex" (Printf.sprintf "model=%b" m) line;
           report "SPEC:C04" (if m then "a regex expectation (user notation) does not match a line that is in the language of its expression"
                              else "a regex expectation (user notation) matches a line although the whole line is not in the language of its expression") line
         end
       end
     | _ -> report "BAD" "regex line" line)
  | 'z', [e; res; as_written; cleaned; cleaned_ok] ->
    (* the preparation of a regex expression, character for character (what does not compile afterwards is not observable) *)
    let et = text_of_hex e in
    (* RegexRule::make tries the cleaned expression first; the verdict of the crate comes from the harness, whose port of the
       clean-up is compared with the model's *)
    if text_of_hex cleaned <> cleanup et then report "BAD" "the harness's port of the clean-up pass differs from the model's" line;
    let m = regex_effective (fun _ -> cleaned_ok = "1") et in
    bump (if res = "err" then "prepare:does-not-compile" else if m = et then "prepare:unchanged" else "prepare:changed");
    let plain0 = List.for_all (fun c -> let c = int_of_n c in c <> 92 && c <> 123 && c <> 125 && c <> 91 && c <> 93 && c <> 40 && c <> 41 && c <> 42 && c <> 43 && c <> 63 && c <> 124) et in
    if res = "err" && plain0 then report "SPEC:C04" "a regex expression made of literal characters, `.` `^` `-` only is rejected" line;
    (* a regular expression that the regex crate takes as written, and that the compatibility passes leave as it is, is a regex
       expectation: it must not be rejected (e.g. \p{L}+, whose braces used to be escaped) *)
    if res = "err" && as_written = "1" && m = et then
      report "SPEC:C04" "a well-formed regular expression (accepted by the regex crate as written, left alone by the compatibility passes) is rejected" line;
    if res = "panic" then report "SPEC:C04" "making a regex rule panicked" line
    else if res <> "err" then begin
      let impl = text_of_hex (String.sub res 1 (String.length res - 1)) in
      if impl <> m then report "DIFF:regex-prepare" "the prepared regex expression differs from the model's" line;
      (* C04_regex_prepare_plain, evaluated on the implementation: without backslash and brackets the expression is used as written *)
      let plain = List.for_all (fun c -> let c = int_of_n c in c <> 92 && c <> 123 && c <> 125 && c <> 91 && c <> 93) et in
      if plain && impl <> et then report "SPEC:C04" "a regex expression without backslash, curly or square bracket is not handed to the regex crate as written" line
    end
  | 'g', [p; ln; res; cres] ->
    let p = text_of_hex p in
    (match split_on ' ' ln with
     | [s; _nl] ->
       let s = text_of_hex s in
       let has_bs = List.exists (fun c -> int_of_n c = 92) p in
       let m = glob_match p s in
       bump (Printf.sprintf "glob:match=%b" m);
       if res <> b2s m then begin
         report "DIFF:glob" (Printf.sprintf "model=%b" m) line;
         report "SPEC:C04" "a glob expectation does not match exactly the lines where ? is one character and * any run" line
       end;
       (* cram-style glob: same meaning unless the pattern uses backslash escapes *)
       let cm = full (cram_glob_re p) s in
       if cres <> b2s cm then report "DIFF:cramglob" (Printf.sprintf "model=%b" cm) line;
       if (not has_bs) && cres <> "err" && cres <> b2s m then report "SPEC:C04" "a Cram-style glob without escapes differs from the glob semantics" line
     | _ -> report "BAD" "glob line" line)
  | ('q' | 'p' | 'n' | 'x'), [e; ln; res] ->
    let eb = bytes_of_hex e and lb = bytes_of_hex ln in
    (match kind with
     | 'q' | 'p' ->
       let m = m_equal eb lb in
       bump (Printf.sprintf "equal:match=%b" m);
       if res <> b2s m then (report "DIFF:equal" (Printf.sprintf "model=%b" m) line;
                              report "SPEC:C04" "an equal expectation does not match exactly the expression followed by a newline" line)
     | 'n' ->
       let m = m_noeol eb lb in
       bump (Printf.sprintf "no-eol:match=%b" m);
       if res <> b2s m then (report "DIFF:no-eol" (Printf.sprintf "model=%b" m) line;
                              report "SPEC:C04" "a no-eol expectation does not match exactly the expression" line)
     | _ ->
       (match utf8_decode eb with
        | None -> ()
        | Some et ->
          let body = escaped_body et in
          if body <> et then bump "escaped:with-trailing-(no-eol)";
          (match decode body with
           | None -> bump "escaped:malformed"; if res <> "err" then report "DIFF:escaped" "model: malformed escape" line
           | Some b ->
             let m = m_escaped b lb in
             bump (Printf.sprintf "escaped:match=%b" m);
             if res <> b2s m then (report "DIFF:escaped" (Printf.sprintf "model=%b" m) line;
                                    report "SPEC:C04" "an escaped expectation does not match exactly the lines whose content equals the resolved expression" line))))
  | _ -> report "BAD" "unparsable case line" line)
