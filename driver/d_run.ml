(* C13: template rendering, CRLF translation, and bytes/exit codes through the real executors *)
open Svmodel
open Util

let bytes_of_hex s = List.map n_of_int (hex_decode s)
let hex_of_bytes l = hex_encode (List.map int_of_n l)
let ob s = match s with "-" -> None | "1" -> Some true | _ -> Some false
let plain_text (l : n list) = List.for_all (fun b -> let c = int_of_n b in c = 10 || (c >= 32 && c < 127)) l
(* the one class of ANSI escape sequences whose removal is decided here: colour / style sequences ESC [ digits-and-semicolons m
   in otherwise plain text -- strip_sgr / sgr_text are the extracted Coq definitions (Ansi.v; C13_strip_exactly_colour_sequences) *)
let find_single pat l =
  (* first offset at which pat occurs, if single_at holds there *)
  let n = List.length l in
  let rec go i rest = if i > n then None else
      (match rest with
       | _ when single_at pat l (nat_of_int i) -> Some i
       | [] -> None
       | _ :: t -> go (i + 1) t) in
  (* only try the first occurrence: single_at fails for every other offset anyway *)
  let rec first i rest = match rest with
    | [] -> None
    | _ :: t -> if (let rec sw p r = (match p, r with [], _ -> true | x :: p', y :: r' -> x = y && sw p' r' | _, [] -> false) in sw pat rest) then Some i else first (i + 1) t in
  ignore go;
  match first 0 l with Some i when single_at pat l (nat_of_int i) -> Some i | _ -> None

let run () = iter_lines (fun line ->
  let tag = line.[0] in
  let rest = String.sub line 2 (String.length line - 2) in
  match tag, split_on '|' rest with
  | 'B', [inp; out; out_marker] ->
    (match split_on ' ' inp with
     | [sd; name; expr] ->
       let sd = bytes_of_hex sd and name = bytes_of_hex name and expr = bytes_of_hex expr in
       let m = "0:" ^ hex_of_bytes (render sd name expr false) in
       bump "template"; note_distinct line true; sample line;
       if m <> out then report "DIFF:template" "model renders a different script" line;
       (match out with
        | "err" | "panic" -> report "SPEC:C13" ("rendering the script failed: " ^ out) line
        | _ ->
          let ar = around sd name false in
          (match find_single expr_placeholder ar with
           | None -> bump "template:inconclusive(placeholder not unique)"
           | Some i ->
             let pre = List.filteri (fun k _ -> k < i) ar and post = List.filteri (fun k _ -> k >= i + List.length expr_placeholder) ar in
             if out <> "0:" ^ hex_of_bytes (pre @ expr @ post) then
               report "SPEC:C13" "the shell does not receive the expression verbatim (text inside it was rewritten)" line);
          (* independent of the model: the script for this expression must be the script for a marker expression with the marker replaced *)
          let marker = List.map (fun c -> n_of_int (Char.code c)) (List.of_seq (String.to_seq "@@SVH-EXPRESSION-MARKER@@")) in
          (match out_marker with
           | "err" -> ()
           | hm ->
             let sm = bytes_of_hex hm in
             (match find_single marker sm with
              | None -> bump "template:marker-not-unique"
              | Some i ->
                let pre = List.filteri (fun k _ -> k < i) sm and post = List.filteri (fun k _ -> k >= i + List.length marker) sm in
                if out <> "0:" ^ hex_of_bytes (pre @ expr @ post) then
                  report "SPEC:C13" "the script differs from the marker script beyond the expression itself: text inside the expression was rewritten" line)))
     | _ -> report "BAD" "template case" line)
  | 'L', [inp; a; c] ->
    (match split_on ' ' inp with
     | [b; keep; strip] ->
       let b = bytes_of_hex b in
       bump "crlf"; note_distinct line (List.length b > 1); sample line;
       let ma = hex_of_bytes (replace_crlf b) in
       if ma <> a then report "DIFF:crlf" ("model=" ^ ma) line;
       if a <> hex_of_bytes (crlf_spec b) then report "SPEC:C13" "replace_crlf does not remove exactly the CRs that are followed by LF" line;
       let strip_on = (ob strip = Some true) in
       if strip_on && not (sgr_text b) then bump "crlf:strip-not-compared(control bytes)"
       else begin
         if strip_on && not (plain_text b) then bump "crlf:strip-compared(colour sequences)";
         let mc = hex_of_bytes (render_output strip_sgr (ob keep) (ob strip) b) in
         if mc <> c then report "DIFF:render_output" ("model=" ^ mc) line;
         let expect = (let e = if ob keep = Some true then b else crlf_spec b in if strip_on then strip_sgr e else e) in
         if c <> hex_of_bytes expect then report "SPEC:C13" "render_output applies a transformation other than the documented ones" line
       end
     | _ -> report "BAD" "crlf case" line)
  | 'G', [n; r] ->
    bump "crlf-big"; note_distinct line true;
    if r <> "ok" then report "SPEC:C13" (Printf.sprintf "CRLF translation of an output with %s CR LF pairs: %s" n r) line
  | 'E', [_inp; r] ->
    bump "exec-early-exit-long-input"; note_distinct line true;
    if r <> "ok" then report "SPEC:C13" ("a shell that leaves early (exit 3) with 200 kB of its input unread: the recorded exit code / output is not the command's: " ^ r) line
  | 'H', [inp; r] ->
    bump ("exec-big-crlf:" ^ (match split_on ' ' inp with ex :: fd :: _ -> ex ^ "/fd" ^ fd | _ -> "?")); note_distinct line true;
    if r <> "ok" then report "SPEC:C13" ("CR LF translation of a large output through the real executor (a CR at every odd offset): " ^ r) line
  | 'O', [inp; out] ->
    (match split_on ' ' inp with
     | [ex; os; keep; strip; cmds] ->
       let cram = (ex = "c") in
       let combined = (os = "2") in
       let parse_cmd c = (match split_on '/' c with
           | [ws; code] -> (List.map (fun w -> (w.[0] = '2', bytes_of_hex (String.sub w 1 (String.length w - 1)))) (split_on '+' ws), int_of_string code)
           | _ -> failwith "cmd") in
       let cs = List.map parse_cmd (split_on ';' cmds) in
       let strip_on = (ob strip = Some true) in
       let all_plain = List.for_all (fun (ws, _) -> List.for_all (fun (_, b) -> sgr_text b) ws) cs in
       if strip_on && all_plain && not (List.for_all (fun (ws, _) -> List.for_all (fun (_, b) -> plain_text b) ws) cs) then bump "exec:strip-compared(colour sequences)";
       bump (Printf.sprintf "exec:%s/stream:%s/keep:%s" ex os keep); note_distinct line true; sample line;
       if strip_on && not all_plain then bump "exec:strip-not-compared(control bytes)"
       else begin
         let expect = String.concat "," (List.map (fun (ws, code) ->
             let (o, e) = recorded strip_sgr combined (ob keep) (ob strip) ws in
             Printf.sprintf "%d:%s:%s" code (hex_of_bytes o) (hex_of_bytes e)) cs) in
         let has_prefix (b : n list) =
           let s = String.concat "" (List.map (fun x -> String.make 1 (Char.chr (int_of_n x))) b) in
           (try ignore (Str.search_forward (Str.regexp_string "~~~~~~~~EXECDIVIDER::") s 0); true with Not_found -> false) in
         let spoof = cram && List.exists (fun (ws, _) -> List.exists (fun (_, b) -> has_prefix b) ws) cs in
         if expect <> out then begin
           if spoof then report "SPEC:C13" "known:cram-divider-prefix-in-output a Cram test whose output contains a line with scrut's divider prefix is not captured" line
           else begin
             report "DIFF:capture" ("model=" ^ expect) line;
             report "SPEC:C13" "recorded stdout/stderr/exit code differ from what the commands wrote (beyond the documented transformations)" line
           end
         end
       end
     | _ -> report "BAD" "exec case" line)
  | _ -> report "BAD" "unparsable case line" line)
