(* C12: histories through the real StatefulExecutor (one bash per test case) against one bash session; and the state
   file the carrier really wrote against the model of its filters *)
open Svmodel
open Util

let text_of_string s = List.init (String.length s) (fun i -> n_of_int (Char.code s.[i]))
let string_of_bytes (l : n list) = let b = Buffer.create 64 in List.iter (fun c -> Buffer.add_char b (Char.chr (int_of_n c land 255))) l; Buffer.contents b
let string_of_hex s = string_of_bytes (List.map n_of_int (hex_decode s))
let contains (hay : string) (needle : string) : bool =
  let n = String.length needle and h = String.length hay in
  let rec go i = i + n <= h && (String.sub hay i n = needle || go (i + 1)) in n = 0 || go 0
let words s = List.filter (fun w -> w <> "") (String.split_on_char ' ' s)

(* drop what a listed known finding explains: every line (and every NAME=... segment of the env line) naming the variable *)
let without (vars : string list) (s : string) : string =
  let mentions l = List.exists (fun v -> contains l ("declare -- " ^ v ^ "=") || contains l ("declare -x " ^ v ^ "=") || contains l ("declare -r " ^ v ^ "=") || contains l ("declare -rx " ^ v ^ "=")
                                         || l = v ^ " unset" || contains l (v ^ ": readonly variable")) vars in
  let lines = String.split_on_char '\n' s in
  let lines = List.filter (fun l -> not (mentions l)) lines in
  let lines = List.map (fun l ->
      if contains l "~" && List.exists (fun v -> contains l (v ^ "=")) vars then
        String.concat "~" (List.filter (fun seg -> not (List.exists (fun v -> String.length seg > String.length v && String.sub seg 0 (String.length v + 1) = v ^ "=") vars)) (String.split_on_char '~' l))
      else l) lines in
  String.concat "\n" lines

(* stdout~~stderr: the known findings are removed from each part separately, error messages about the variable from stderr *)
let split_streams (s : string) : string * string =
  let n = String.length s in
  let rec find i = if i < 0 then None else if i + 1 < n && s.[i] = '~' && s.[i + 1] = '~' && (i = 0 || s.[i - 1] = '\n') then Some i else find (i - 1) in
  match find (n - 2) with Some i -> (String.sub s 0 i, String.sub s (i + 2) (n - i - 2)) | None -> (s, "")
let without2 (vars : string list) (s : string) : string * string =
  let (o, e) = split_streams s in
  let e_lines = List.filter (fun l -> not (List.exists (fun v -> contains l (v ^ ": readonly variable")) vars)) (String.split_on_char '\n' e) in
  (without vars o, without vars (String.concat "\n" e_lines))

let run () = iter_lines (fun line ->
  try
    match split_on '|' (String.sub line 2 (String.length line - 2)) with
    | [hist; impl; reference; states] ->
      let steps = List.map (fun h -> match split_on ':' h with
          | [c; s] -> let det = String.length c > 0 && c.[0] = 'D' in
            ((if det then String.sub c 1 (String.length c - 1) else c), string_of_hex s, det)
          | _ -> failwith "step") (split_on ';' hist) in
      let impl = List.map string_of_hex (split_on ';' impl) and reference = List.map string_of_hex (split_on ';' reference) in
      bump (Printf.sprintf "steps:%d" (List.length steps));
      List.iter (fun (c, _, det) -> if det then bump "detached"; String.iter (fun ch -> if ch <> '-' then bump (Printf.sprintf "class:%c" ch)) c) steps;
      note_distinct hist (List.exists (fun (c, _, _) -> c <> "-") steps); sample (if String.length line > 300 then String.sub line 0 300 else line);
      if List.length impl <> List.length steps then begin
        report "SPEC:C12" ("the executor did not run the history: " ^ (match impl with x :: _ -> x | [] -> "")) line
      end else begin
        let seen = ref "" in
        let dead = ref false in   (* a fatal shell error (e.g. an unbound variable under set -u) ends the ONE session: nothing to compare with from there on *)
        List.iteri (fun i ((c, _, det), (a, b)) ->
          if not det then seen := !seen ^ c;
          if contains b "<missing marker" && not !dead then (dead := true; bump "inconclusive:the-reference-session-died");
          if a <> b && not !dead then begin
            (* which known findings can explain a difference at this point of the history *)
            let vars = (if String.contains !seen 'U' then ["INH2"] else []) @ (if String.contains !seen 'B' then ["IFS"] else []) @ (if String.contains !seen 'r' then ["RO"] else []) @ (if String.contains !seen 'T' then ["TRAPV"] else []) in
            if vars <> [] && without2 vars a = without2 vars b then begin
              if List.mem "INH2" vars && without2 (List.filter (fun v -> v <> "INH2") vars) a <> without2 (List.filter (fun v -> v <> "INH2") vars) b then
                report "SPEC:C12" "known:unset-not-carried a variable that the fresh process defines by itself (inherited environment, IFS) was unset, the next test case sees it again" line
              else if List.mem "IFS" vars && without2 (List.filter (fun v -> v <> "IFS") vars) a <> without2 (List.filter (fun v -> v <> "IFS") vars) b then
                report "SPEC:C12" "known:unset-not-carried a variable that the fresh process defines by itself (inherited environment, IFS) was unset, the next test case sees it again" line
              else if List.mem "TRAPV" vars && without2 (List.filter (fun v -> v <> "TRAPV") vars) a <> without2 (List.filter (fun v -> v <> "TRAPV") vars) b then
                report "SPEC:C12" "known:exit-trap-replaces-persist a test case that sets its own EXIT trap leaves no state behind: what it defined is missing in the next test case" line
              else report "SPEC:C12" "known:readonly-not-carried a read-only variable is not carried to the next test case (documented exclusion)" line
            end else
              report "SPEC:C12" (Printf.sprintf "test case %d observes a state that differs from the single bash session" i) line
          end) (List.combine steps (List.combine impl reference));
        (* the state files: exactly the variables that are not read-only and not excluded *)
        (* a test case with its own EXIT trap writes no state file (known finding): the file found afterwards is an older one *)
        if states <> "-" && List.exists (fun (c, _, _) -> String.contains c 'T') steps then bump "state-file:not-compared(own EXIT trap in the history)"
        else if states <> "-" then List.iter (fun st -> match split_on '/' st with
            | [declared; all; ro] ->
              let declared = words (string_of_hex declared) and all = words (string_of_hex all) and ro = words (string_of_hex ro) in
              (* a value with a line that itself starts with `declare -` confuses the line-wise reading of the file here: skip those histories *)
              (* no list of names: the test case that wrote this file died of a fatal shell error before the probe *)
              if all <> [] && not (List.mem "fake" declared) && not (List.exists (fun (_, s, _) -> contains s "declare -r fake") steps) then begin
                let want = List.map (fun n -> string_of_bytes n) (persisted_names (List.map text_of_string all) (List.map text_of_string ro)) in
                let internal n = String.length n >= 2 && String.sub n 0 2 = "__" in
                let norm l = List.sort_uniq compare (List.filter (fun n -> not (internal n)) l) in
                if norm declared <> norm want then begin
                  let missing = List.filter (fun n -> not (List.mem n declared)) (norm want) and extra = List.filter (fun n -> not (List.mem n want)) (norm declared) in
                  report "DIFF:state-file" (Printf.sprintf "persisted variables differ from the filter model: missing %s; unexpected %s" (String.concat "," missing) (String.concat "," extra)) line
                end
              end
            | _ -> ()) (split_on ';' states)
      end
    | _ -> report "BAD" "unparsable case line" line
  with Failure m -> report "BAD" ("state case: " ^ m) line | Invalid_argument m -> report "BAD" ("state case: " ^ m) line)
