(* C10: update rewrites only failing expectations and is idempotent -- checked on the implementation's documents with
   the token model; the structural part of generate_update is compared with the model *)
open Svmodel
open Util

let bytes_of_hex s = List.map n_of_int (hex_decode s)
let text_of_hex s = match utf8_decode (bytes_of_hex s) with Some cs -> cs | None -> failwith "text"
let is_hex s = s <> "" && s <> "-" && String.for_all (fun c -> (c >= '0' && c <= '9') || (c >= 'a' && c <= 'f')) s
let starts_with_str (b : n list) (s : string) =
  let rec go i = function _ when i >= String.length s -> true | [] -> false | c :: r -> int_of_n c = Char.code s.[i] && go (i + 1) r in go 0 b
let is_code_line (l : n list) = (match extract_exit_code l with Some _ -> true | None -> false)

let tests_of toks = List.filter_map (function TTest (cfg, cm, code, _) -> Some (cfg, cm, code) | _ -> None) toks

let run () = iter_lines (fun line ->
  let fields = split_on '|' (String.sub line 2 (String.length line - 2)) in
  let info = (if List.length fields = 7 then List.nth fields 6 else "") in
  (* K lines: the same through the real `scrut update --replace -y` (twice) and `scrut test`, default language or --markdown-languages sh *)
  if info <> "" then begin
    bump "through:cli"; List.iter (fun f -> if String.length f > 5 && String.sub f 0 5 = "lang=" then bump f) (split_on ' ' info);
    let ends_with s suf = String.length s >= String.length suf && String.sub s (String.length s - String.length suf) (String.length suf) = suf in
    let contains s sub = (let n = String.length sub in let rec go i = i + n <= String.length s && (String.sub s i n = sub || go (i + 1)) in go 0) in
    if not (contains info "update=0,0") then report "BAD" ("`scrut update` did not run: " ^ info) line;
    if not (contains info " test=0 ") && not (ends_with info "test=0") then report "SPEC:C10" ("after `scrut update` (twice) `scrut test` does not pass on the updated document: " ^ info) line;
    (* line endings: a document written with CR LF keeps them on every line (the lines outside scrut blocks are preserved byte for
       byte, so their CR as well), one written with LF stays so; "none": a document without any line ending *)
    List.iter (fun f -> if String.length f > 8 && String.sub f 0 8 = "endings=" then begin
        bump ("line-" ^ f); List.iter (fun g -> if String.length g > 5 && String.sub g 0 5 = "mode=" then bump g) (split_on ' ' info);
        (match split_on '>' (String.sub f 8 (String.length f - 8)) with
         | [o; a; b] -> if (a <> o && a <> "none") || (b <> o && b <> "none") then
             report "SPEC:C10" (Printf.sprintf "the document had %s line endings, after update it has %s (and %s after the second update): lines outside scrut blocks were not preserved byte for byte" o a b) line
         | _ -> ()) end) (split_on ' ' info)
  end;
  match (if info <> "" then List.filteri (fun i _ -> i < 6) fields else fields) with
  | [doc; kinds; u1; u2; c0; c1] ->
    let orig = str_lines (text_of_hex doc) in
    let t0 = md_tokens orig in
    let kinds = if kinds = "-" then [] else split_on ',' kinds in
    bump (Printf.sprintf "tests:%d" (min 5 (List.length kinds)));
    List.iter (fun k -> bump ("outcome:" ^ k)) kinds;
    note_distinct doc (kinds <> []); sample line;
    if u1 = "panic" then report "SPEC:C10" "generate_update panicked" line
    else if u1 = "err" then bump "update:error"
    else begin
      let up = str_lines (text_of_hex u1) in
      let t1 = md_tokens up in
      let b0 = tests_of t0 and b1 = tests_of t1 in
      (* model of the structural part: same generator over our tokens, with the bodies the implementation produced *)
      let bodies = List.filter_map (fun (_, _, code) -> if has_command code then Some (List.map snd code) else None) b1 in
      let m = update_md orig bodies in
      if m <> up then report "DIFF:update" "model renders a different updated document around the regenerated bodies" line;
      (* known classes inherited from C09: a changed output whose first line starts with `> ` *)
      let gt_class = List.exists (fun (_, _, code) ->
          match List.filter (fun (_, l) -> not (starts_with_str l "$ ")) code with
          | _ -> false) b1 in
      ignore gt_class;
      let cmds_same = (c0 = c1) in
      (* a. lines outside scrut blocks *)
      let o0 = outside t0 and o1 = outside t1 in
      let dashes = List.map n_of_int [45; 45; 45] in
      if not (o1 = o0 || o1 = o0 @ [dashes]) then report "SPEC:C10" "lines outside scrut blocks are not preserved" line;
      (* b. blocks: number, configuration, comments *)
      if List.length b0 <> List.length b1 then
        (if cmds_same then report "SPEC:C10" "the number of scrut blocks changed" line)
      else begin
        List.iter2 (fun (cfg0, cm0, _) (cfg1, cm1, _) ->
          let norm = (function None -> None | Some c -> Some (Markdown_trim.trim_start_text c)) in
          if norm cfg0 <> norm cfg1 then report "SPEC:C10" "the inline configuration of a block changed" line;
          if cm0 <> cm1 then report "SPEC:C10" "the comment lines of a block changed" line) b0 b1;
        (* c. passing tests keep their expectation lines exactly *)
        let with_cmd l = List.filter (fun (_, _, code) -> has_command code) l in
        let w0 = with_cmd b0 and w1 = with_cmd b1 in
        if List.length w0 = List.length kinds && List.length w1 = List.length kinds then
          List.iteri (fun i k ->
            if k = "ok" then begin
              let (_, _, code0) = List.nth w0 i and (_, _, code1) = List.nth w1 i in
              let strip code = List.filter (fun l -> not (is_code_line l)) (List.map snd code) in
              if strip code0 <> strip code1 then report "SPEC:C10" "the lines of a passing test were rewritten" line
            end) kinds
      end;
      (* d. same commands after re-parsing; e. idempotence *)
      let first_gt = (not cmds_same) in
      (* the listed shape: in the ORIGINAL document an expectation line `> ..` stands behind another line of the body (an exit-code
         line, which the regenerated block moves to its end, or an expectation that the update removes): it may become the first line *)
      let gt_after_code (ls : n list list) =
        let rec body = function l :: r when starts_with_str l "$ " -> conts r | _ :: r -> body r | [] -> []
        and conts = function l :: r when starts_with_str l "> " -> conts r | r -> r in
        (match body ls with _ :: later -> List.exists (fun l -> starts_with_str l "> ") later | [] -> false) in
      let shape = List.exists (fun (_, _, code) -> gt_after_code (List.map snd code)) b0 in
      if not cmds_same && not shape then report "SPEC:C10" "the updated document parses to different commands" line
      else if not cmds_same then report "SPEC:C10" "known:first-line-looks-like-continuation the updated document parses to different commands (a kept expectation line that starts with `> ` became the first line after the shell expression)" line;
      if is_hex u2 || u2 = "-" then begin
        if u2 <> u1 && not first_gt then report "SPEC:C10" "updating the updated document with the same outputs changes it again" line
      end else if not first_gt then report "SPEC:C10" ("second update: " ^ u2) line
    end
  | _ -> report "BAD" "unparsable case line" line)
