(* C17: configuration written and read back by the real code; scrut's scalar notation compared with the model *)
open Svmodel
open Util

let bytes_of_hex s = List.map n_of_int (hex_decode s)
let text_of_hex s = match utf8_decode (bytes_of_hex s) with Some cs -> cs | None -> []
let field s = match String.index_opt s '=' with Some i -> String.sub s (i + 1) (String.length s - i - 1) | None -> s
let unx s = if String.length s > 0 && s.[0] = 'x' then String.sub s 1 (String.length s - 1) else s
let contains (hay : n list) (needle : n list) =
  let rec pre a b = (match a, b with _, [] -> true | x :: a', y :: b' -> x = y && pre a' b' | [], _ -> false) in
  let rec go h = pre h needle || (match h with [] -> false | _ :: t -> go t) in go hay
let txt s = List.map (fun c -> n_of_int (Char.code c)) (List.of_seq (String.to_seq s))

let cfg_of_fields (orig : string) : ycfg =
  let fields = split_on ' ' orig in
  let get k = (try field (List.find (fun f -> String.length f > String.length k && String.sub f 0 (String.length k + 1) = k ^ "=") fields) with Not_found -> "-") in
  let dur_of s = if s = "-" then None else (match split_on '.' s with [a; b] -> Some (n_of_int (int_of_string a), n_of_int (int_of_string b)) | _ -> None) in
  let flag k = (match get k with "-" -> None | "1" -> Some true | _ -> Some false) in
  let env = get "env" and wp = get "wp" in
  { y_os = (match get "os" with "-" -> None | v -> Some (n_of_int (int_of_string v)));
    y_kc = flag "kc"; y_to = dur_of (get "to"); y_de = flag "de";
    y_sk = (match get "sk" with "-" -> None | v -> Some (z_of_int (int_of_string v)));
    y_sa = flag "sa";
    y_wa = (match dur_of (get "wa") with None -> None | Some d -> Some (d, (if wp = "-" then None else Some (text_of_hex (unx wp)))));
    y_env = (if env = "-" then [] else List.map (fun kv -> match split_on ':' kv with [k; v] -> (text_of_hex (unx k), text_of_hex (unx v)) | _ -> ([], [])) (split_on ',' env)) }

(* Y 3: configuration -> MarkdownTestCaseGenerator -> document -> MarkdownParser with the defaults of the format *)
let run_generated line =
  match split_on '|' (String.sub line 4 (String.length line - 4)) with
  | [orig; text; back; expect; dflt] ->
    bump "form:generated-block-header"; note_distinct orig true; sample line;
    if back = "panic" then report "SPEC:C17" "generating the test or reading it back panicked" line
    else if back <> expect then
      report "SPEC:C17" "a test generated from a configuration reads back (with the defaults of the format) with a different configuration" line;
    if text <> "-" then begin
      let c = cfg_of_fields orig and d = cfg_of_fields dflt in
      let doc = text_of_hex text in
      let header = (match str_lines doc with h :: _ -> h | [] -> []) in
      let model = txt "```scrut" @ gen_config_suffix c d in
      if header <> model then report "DIFF:one-liner" "the header of the generated block is not ```scrut followed by the one-liner of what differs from the format defaults" line;
      if ywith_defaults (ydiff c d) d <> ywith_defaults c d then report "BAD" "model: diff then defaults" line;
      if cfg_of_fields expect <> ywith_defaults c d then report "DIFF:one-liner" "with_defaults_from disagrees with the model" line
    end
  | _ -> report "BAD" "unparsable case line" line

(* Y 4: diff and with_defaults_from as functions, against ydiff / ywith_defaults (environments compared as sorted maps) *)
let run_diff line =
  match split_on '|' (String.sub line 4 (String.length line - 4)) with
  | [c; d; x; xd; cd] ->
    bump "form:diff-and-defaults"; note_distinct line true;
    if x = "panic" then report "SPEC:C17" "TestCaseConfig::diff panicked" line
    else begin
      let sort_env (y : ycfg) = { y with y_env = List.sort compare y.y_env } in
      let c = cfg_of_fields c and d = cfg_of_fields d in
      if sort_env (ydiff c d) <> sort_env (cfg_of_fields x) then report "DIFF:one-liner" "TestCaseConfig::diff is not the model's ydiff" line;
      if sort_env (ywith_defaults (cfg_of_fields x) d) <> sort_env (cfg_of_fields xd) then report "DIFF:one-liner" "with_defaults_from is not the model's ywith_defaults" line;
      if d.y_env = [] && xd <> cd then report "SPEC:C17" "what diff leaves out does not come back from the defaults" line;
      if d.y_env <> [] then bump (if xd = cd then "diff:defaults-with-environment:restored" else "diff:defaults-with-environment:NOT-restored (latent, see DESIGN 10)")
    end
  | _ -> report "BAD" "unparsable case line" line

let run () = iter_lines (fun line ->
  let kind = line.[2] in
  if kind = '3' then run_generated line else if kind = '4' then run_diff line else
  match split_on '|' (String.sub line 4 (String.length line - 4)) with
  | [orig; text; back] ->
    let fields = split_on ' ' orig in
    let get k = (try field (List.find (fun f -> String.length f > String.length k && String.sub f 0 (String.length k + 1) = k ^ "=") fields) with Not_found -> "-") in
    let env = get "env" and wp = get "wp" in
    bump (Printf.sprintf "form:%s" (if kind = '1' then "one-liner" else "serde_yaml"));
    if env <> "-" then bump "has:environment"; if wp <> "-" then bump "has:wait.path"; if get "to" <> "-" then bump "has:timeout";
    note_distinct orig (orig <> back || true); sample line;
    if back = "panic" then report "SPEC:C17" "writing or reading the configuration panicked" line
    else begin
      (* equality; an omitted total_timeout is the documented default (900 s) *)
      let norm s = (let fs = split_on ' ' s in String.concat " " (List.map (fun f -> if f = "tt=900.000000000" then "tt=-" else f) fs)) in
      if norm back <> norm orig then
        report "SPEC:C17" (if back = "err" || (String.length back > 3 && String.sub back 0 3 = "de:") then "the written configuration does not parse back" else "the configuration reads back with different values") line
    end;
    if kind = '1' && text <> "-" then begin
      let one = text_of_hex text in
      (* the whole one-liner against the transcription of to_yaml_one_liner, and the reference reader
         (C17_one_liner_reads_back) applied to what the implementation wrote *)
      let dur_of s = if s = "-" then None else (match split_on '.' s with [a; b] -> Some (n_of_int (int_of_string a), n_of_int (int_of_string b)) | _ -> None) in
      let flag k = (match get k with "-" -> None | "1" -> Some true | _ -> Some false) in
      let cfg = { y_os = (match get "os" with "-" -> None | v -> Some (n_of_int (int_of_string v)));
                  y_kc = flag "kc"; y_to = dur_of (get "to"); y_de = flag "de";
                  y_sk = (match get "sk" with "-" -> None | v -> Some (z_of_int (int_of_string v)));
                  y_sa = flag "sa";
                  y_wa = (match dur_of (get "wa") with None -> None | Some d -> Some (d, (if wp = "-" then None else Some (text_of_hex (unx wp)))));
                  y_env = (if env = "-" then [] else List.map (fun kv -> match split_on ':' kv with [k; v] -> (text_of_hex (unx k), text_of_hex (unx v)) | _ -> ([], [])) (split_on ',' env)) } in
      if one_liner cfg <> one then report "DIFF:one-liner" "the one-line configuration is not the text the model of to_yaml_one_liner writes" line;
      (match read_one_liner one with
       | Some c when c = cfg -> ()
       | Some _ -> report "DIFF:one-liner" "the reference reader reads the written one-line configuration back as a different configuration" line
       | None -> report "DIFF:one-liner" "the reference reader cannot read the written one-line configuration" line);
      (match cfg.y_to with Some (a, b) -> (match parse_duration (format_duration a b) with DOk (a', b') when a' = a && b' = b -> () | _ -> report "BAD" "model duration round trip" line) | None -> ());
      if get "to" <> "-" && get "wa" <> "-" then bump "has:timeout+wait";
      (* scrut's own notation: environment mapping and wait path, against the model *)
      if env <> "-" then begin
        let pairs = List.map (fun kv -> match split_on ':' kv with [k; v] -> (text_of_hex (unx k), text_of_hex (unx v)) | _ -> ([], [])) (split_on ',' env) in
        let seg = txt "environment: {" @ List.concat (List.mapi (fun i (k, v) -> (if i > 0 then txt ", " else []) @ yaml_scalar k @ txt ": " @ yaml_quoted v) pairs) @ txt "}" in
        if not (contains one seg) then report "DIFF:one-liner" "the environment mapping is not written as the model writes it" line;
        List.iter (fun (k, v) ->
          if read_scalar (yaml_scalar k) <> Some k || yaml_unquote (yaml_quoted v) <> Some v then report "BAD" "model round trip" line) pairs;
        (* the reference reader of flow mappings (C17_environment_reads_back) applied to what the implementation wrote *)
        let rec after h = (match h with [] -> None | _ :: t -> if contains [] [] && (let p = txt "environment: " in
            let rec pre a b = (match a, b with _, [] -> true | x :: a', y :: b' -> x = y && pre a' b' | [], _ -> false) in pre h p)
            then Some (let rec drop n l = if n = 0 then l else (match l with [] -> [] | _ :: r -> drop (n - 1) r) in drop 13 h) else after t) in
        (match after one with
         | Some rest -> (match read_env rest with
             | Some (m, _) -> if m <> pairs then report "DIFF:one-liner" "the reference reader does not read the written environment back as the pairs of the configuration" line
             | None -> report "DIFF:one-liner" "the reference reader cannot read the written environment mapping" line)
         | None -> ())
      end;
      if wp <> "-" then begin
        let p = text_of_hex (unx wp) in
        if not (contains one (txt "path: " @ yaml_scalar p)) then report "DIFF:one-liner" "the wait path is not written as the model writes it" line
      end
    end
  | _ -> report "BAD" "unparsable case line" line)
