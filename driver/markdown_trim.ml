open Svmodel
let trim_start_text (c : n list) : n list = trim_start c
