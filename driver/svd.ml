let () =
  match Sys.argv.(1) with
  | "diff" -> D_diff.run ()
  | "config" -> D_config.run ()
  | "exec" -> D_exec.run ()
  | "cli" -> D_cli.run ()
  | "escape" -> D_escape.run ()
  | "run" -> D_run.run ()
  | "expect" -> D_expect.run ()
  | "rules" -> D_rules.run ()
  | "cram" -> D_docs.run_cram ()
  | "md" -> D_docs.run_md ()
  | "gen" -> D_gen.run ()
  | "upd" -> D_upd.run ()
  | "yaml" -> D_yaml.run ()
  | "render" -> D_render.run ()
  | "envrun" -> D_env.run ()
  | "validate" -> D_exec.run_validate ()
  | x -> prerr_endline ("unknown " ^ x); exit 2
