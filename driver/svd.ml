let () =
  match Sys.argv.(1) with
  | "diff" -> D_diff.run ()
  | "config" -> D_config.run ()
  | x -> prerr_endline ("unknown " ^ x); exit 2
