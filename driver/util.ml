(* shared helpers for the extracted-model driver *)
open Svmodel
let rec nat_of_int n = if n <= 0 then O else S (nat_of_int (n - 1))
let rec int_of_nat = function O -> 0 | S n -> 1 + int_of_nat n
let rec pos_of_int n = if n <= 1 then XH else if n land 1 = 0 then XO (pos_of_int (n lsr 1)) else XI (pos_of_int (n lsr 1))
let n_of_int n = if n <= 0 then N0 else Npos (pos_of_int n)
let rec int_of_pos = function XH -> 1 | XO p -> 2 * int_of_pos p | XI p -> 2 * int_of_pos p + 1
let int_of_n = function N0 -> 0 | Npos p -> int_of_pos p
let z_of_int n = if n = 0 then Z0 else if n > 0 then Zpos (pos_of_int n) else Zneg (pos_of_int (-n))
let int_of_z = function Z0 -> 0 | Zpos p -> int_of_pos p | Zneg p -> - (int_of_pos p)
let split_on c s = String.split_on_char c s
let hex_decode (s : string) : int list =
  if s = "-" then [] else begin
    let n = String.length s / 2 in
    List.init n (fun i -> int_of_string ("0x" ^ String.sub s (2 * i) 2))
  end
let hex_encode (l : int list) : string =
  if l = [] then "-" else String.concat "" (List.map (Printf.sprintf "%02x") l)
let histo : (string, int) Hashtbl.t = Hashtbl.create 64
let bump k = Hashtbl.replace histo k (1 + (try Hashtbl.find histo k with Not_found -> 0))
let seen : (string, unit) Hashtbl.t = Hashtbl.create 100000
let distinct = ref 0
let note_distinct (s : string) (nontrivial : bool) =
  let h = Digest.string s in
  if not (Hashtbl.mem seen h) then begin
    if Hashtbl.length seen < 3_000_000 then Hashtbl.add seen h ();
    if nontrivial then incr distinct
  end
let total = ref 0
let kinds : (string, int) Hashtbl.t = Hashtbl.create 16
(* at most 20 CASE lines per kind and process are printed; all are counted (COUNT lines) *)
let report kind detail line =
  (* known-finding classes are counted (and capped) separately, so that they never mask another failure *)
  let kind = if String.length detail > 6 && String.sub detail 0 6 = "known:" then
      kind ^ "/" ^ (match String.index_opt detail ' ' with Some i -> String.sub detail 0 i | None -> detail) else kind in
  let n = (try Hashtbl.find kinds kind with Not_found -> 0) in
  Hashtbl.replace kinds kind (n + 1);
  if n < 20 then Printf.printf "CASE\t%s\t%s\t%s\n" kind detail line
let summary () =
  Printf.printf "SUMMARY\tn=%d\tdistinct_nontrivial=%d\n" !total !distinct;
  Hashtbl.iter (fun k v -> Printf.printf "HISTO\t%s\t%d\n" k v) histo;
  Hashtbl.iter (fun k v -> Printf.printf "COUNT\t%s\t%d\n" k v) kinds
let samples = ref 0
let sample line = if !samples < 5 && (!total mod 997 = 1 || !total < 3) then begin incr samples; Printf.printf "SAMPLE\t%s\n" line end
let iter_lines f =
  (try while true do
      let l = input_line stdin in
      if l <> "" then begin incr total; f l end
    done with End_of_file -> ());
  summary ()
