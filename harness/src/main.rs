mod rng;
mod p_diff;
mod p_consts;
mod p_config;
mod p_exec;
mod p_cli;
mod p_escape;
mod p_run;
mod p_expect;
mod p_rules;
mod p_docs;
mod p_md;
mod p_gen;
mod p_upd;
mod p_updcli;
mod p_createcli;
mod p_convcli;
mod p_yaml;
mod p_render;
mod p_env;
mod p_cfgcli;
mod p_state;
mod p_divider;

use std::io::{BufWriter, Write};

fn main() {
    let args: Vec<String> = std::env::args().skip(1).collect();
    if args.is_empty() { eprintln!("usage: svh <sub> ..."); std::process::exit(2); }
    std::panic::set_hook(Box::new(|_| {}));
    let stdout = std::io::stdout();
    let mut w = BufWriter::with_capacity(1 << 20, stdout.lock());
    match args[0].as_str() {
        "diff" => p_diff::main(&args[1..], &mut w),
        "config" => p_config::main(&args[1..], &mut w),
        "exec" => p_exec::main(&args[1..], &mut w),
        "cli" => p_cli::main(&args[1..], &mut w),
        "validate" => p_exec::validate_main(&args[1..], &mut w),
        "unicode" => p_consts::unicode(&args[1..], &mut w),
        "escape" => p_escape::main(&args[1..], &mut w),
        "run" => p_run::main(&args[1..], &mut w),
        "crlf-child" => p_run::crlf_child(&args[1..]),
        "expect" => p_expect::main(&args[1..], &mut w),
        "rules" => p_rules::main(&args[1..], &mut w),
        "docs" => p_docs::main(&args[1..], &mut w),
        "gen" => p_gen::main(&args[1..], &mut w),
        "upd" => p_upd::main(&args[1..], &mut w),
        "updcli" => p_updcli::main(&args[1..], &mut w),
        "createcli" => p_createcli::main(&args[1..], &mut w),
        "convcli" => p_convcli::main(&args[1..], &mut w),
        "yaml" => p_yaml::main(&args[1..], &mut w),
        "render" => p_render::main(&args[1..], &mut w),
        "envrun" => p_env::main(&args[1..], &mut w),
        "cfgcli" => p_cfgcli::main(&args[1..], &mut w),
        "state" => p_state::main(&args[1..], &mut w),
        "divider" => p_divider::main(&args[1..], &mut w),
        "fake-shell" => p_divider::fake_shell(),
        "consts" => p_consts::main(&args[1..], &mut w),
        x => { eprintln!("unknown subcommand {}", x); std::process::exit(2); }
    }
    w.flush().unwrap();
}
