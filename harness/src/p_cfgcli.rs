//! C16 end to end: the real `scrut test` on documents whose configuration is layered four ways (command-line flags,
//! inline per test case, document defaults, format defaults), with prepended / appended documents that have their own
//! defaults.  Every test prints to stdout and stderr with CR LF endings and fails on purpose, so that `-r json` shows
//! which stream it was validated on and whether CR LF was translated; the environment variables it sees are appended
//! to a marker file.
use std::io::Write;
use std::path::{Path, PathBuf};
use std::process::Command;

use crate::rng::Rng;

#[derive(Clone, Debug, Default)]
struct Layer { os: Option<u8>, kc: Option<bool>, env: Vec<(u8, u8)> }
#[derive(Clone, Debug)]
struct Doc { role: char, defaults: Layer, tests: Vec<Layer> }   // role: m main, p/a prepended/appended through the front-matter, P/A through flags

const NAMES: [&str; 4] = ["VA", "VB", "VC", "VD"];
const STREAMS: [&str; 3] = ["stdout", "stderr", "combined"];

fn gen_layer(r: &mut Rng, density: u64, val: u8) -> Layer {
    let mut l = Layer::default();
    if r.below(10) < density { l.os = Some(r.below(3) as u8); }
    if r.below(10) < density { l.kc = Some(r.chance(1, 2)); }
    for k in 0..4u8 { if r.below(10) < density { l.env.push((k + 1, val)); } }
    l
}
fn yaml_items(l: &Layer) -> Vec<String> {
    let mut v = vec![];
    if let Some(o) = l.os { v.push(format!("output_stream: {}", STREAMS[o as usize])); }
    if let Some(k) = l.kc { v.push(format!("keep_crlf: {}", k)); }
    if !l.env.is_empty() { v.push(format!("environment: {{{}}}", l.env.iter().map(|(k, x)| format!("{}: v{}", NAMES[*k as usize - 1], x)).collect::<Vec<_>>().join(", "))); }
    v
}
fn show_layer(l: &Layer) -> String {
    format!("os={} kc={} to=- de=- sk=- sa=- wa=- env={}", l.os.map_or("-".into(), |o| o.to_string()), l.kc.map_or("-".into(), |k| (k as u8).to_string()),
        if l.env.is_empty() { "-".to_string() } else { l.env.iter().map(|(k, v)| format!("{}:{}", k, v)).collect::<Vec<_>>().join(",") })
}
fn render(d: &Doc, di: usize, marks: &Path, prepend: &[String], append: &[String], shell: Option<&str>) -> String {
    let mut s = String::new();
    let items = yaml_items(&d.defaults);
    if !items.is_empty() || !prepend.is_empty() || !append.is_empty() || shell.is_some() {
        s.push_str("---\n");
        if let Some(sh) = shell { s.push_str(&format!("shell: {}\n", sh)); }
        if !items.is_empty() { s.push_str("defaults:\n"); for i in &items { s.push_str(&format!("  {}\n", i)); } }
        if !prepend.is_empty() { s.push_str(&format!("prepend: [{}]\n", prepend.join(", "))); }
        if !append.is_empty() { s.push_str(&format!("append: [{}]\n", append.join(", "))); }
        s.push_str("---\n\n");
    }
    for (ti, t) in d.tests.iter().enumerate() {
        let id = format!("D{}T{}", di, ti);
        let items = yaml_items(t);
        s.push_str(&format!("# {}\n\n", id));
        if items.is_empty() { s.push_str("```scrut\n"); } else { s.push_str(&format!("```scrut {{{}}}\n", items.join(", "))); }
        s.push_str(&format!("$ printf 'O\\r\\n'; printf 'E\\r\\n' >&2; echo \"{}|${{VA-unset}}|${{VB-unset}}|${{VC-unset}}|${{VD-unset}}|${{SVH_SHELL-default}}\" >> {}\nzzz never matches\n```\n\n", id, marks.display()));
    }
    s
}

fn run_case(r: &mut Rng, scrut: &str, base: &Path) -> String {
    let dir = tempfile::Builder::new().prefix("cfg.").tempdir_in(base).unwrap();
    let marks = dir.path().join("marks");
    let density = *r.pick(&[2u64, 4, 6, 8]);
    // --cram-compat: the Markdown document runs as ONE script with the Cram defaults as the lowest layer; every test case must then carry
    // the same configuration, and nothing is prepended or appended
    let compat = r.chance(1, 5);
    let mut docs = vec![Doc { role: 'm', defaults: gen_layer(r, density, 1), tests: (0..r.range(1, 3)).map(|_| gen_layer(r, density, 2)).collect() }];
    if compat { let first = docs[0].tests[0].clone(); for t in docs[0].tests.iter_mut() { *t = first.clone(); } }
    for role in ['p', 'a', 'P', 'A'] {
        if !compat && r.chance(1, 3) { docs.push(Doc { role, defaults: gen_layer(r, density, if role == 'p' || role == 'P' { 3 } else { 4 }), tests: (0..r.range(1, 2)).map(|_| gen_layer(r, density, 5)).collect() }); }
    }
    let name = |i: usize, d: &Doc| format!("{}{}.md", match d.role { 'm' => "main", 'p' | 'P' => "pre", _ => "app" }, i);
    let fm_pre: Vec<String> = docs.iter().enumerate().filter(|(_, d)| d.role == 'p').map(|(i, d)| name(i, d)).collect();
    let fm_app: Vec<String> = docs.iter().enumerate().filter(|(_, d)| d.role == 'a').map(|(i, d)| name(i, d)).collect();
    // the `shell` key: two wrapper shells that name themselves in a variable and hand over to bash; the command line names one, the
    // main document another (or neither).  A prepended / appended document may name one too: the run has ONE shell, that of the main layers
    let wrapper = |n: &str| -> String {
        let p = dir.path().join(format!("sh{}", n));
        std::fs::write(&p, format!("#!/bin/bash\nexport SVH_SHELL={}\nexec /bin/bash \"$@\"\n", n)).unwrap();
        use std::os::unix::fs::PermissionsExt;
        std::fs::set_permissions(&p, std::fs::Permissions::from_mode(0o755)).unwrap();
        p.to_string_lossy().to_string()
    };
    let (sh_a, sh_b, sh_c) = (wrapper("A"), wrapper("B"), wrapper("C"));
    let cli_shell = if r.chance(1, 4) { Some("A") } else { None };
    let doc_shell = if r.chance(1, 3) { Some("B") } else { None };
    let other_shell = r.chance(1, 3);
    for (i, d) in docs.iter().enumerate() {
        let text = if d.role == 'm' { render(d, i, &marks, &fm_pre, &fm_app, doc_shell.map(|_| sh_b.as_str())) } else { render(d, i, &marks, &[], &[], if other_shell { Some(sh_c.as_str()) } else { None }) };
        std::fs::write(dir.path().join(name(i, d)), text).unwrap();
    }
    let cli = Layer { os: match r.below(4) { 0 => Some(0), 1 => Some(2), _ => None }, kc: match r.below(4) { 0 => Some(true), 1 => Some(false), _ => None }, env: vec![] };
    let tmpdir = dir.path().join("tmp"); std::fs::create_dir_all(&tmpdir).unwrap();
    let mut cmd = Command::new(scrut);
    cmd.current_dir(dir.path()).env("TMPDIR", &tmpdir).env("NO_COLOR", "1").env_remove("SVH_SHELL").env_remove("VA").env_remove("VB").env_remove("VC").env_remove("VD")
        .arg("test").arg("-r").arg("json").arg("--log-level").arg("error");
    if compat { cmd.arg("--cram-compat"); }
    if cli_shell.is_some() { cmd.arg("--shell").arg(&sh_a); }
    match cli.os { Some(0) => { cmd.arg("--no-combine-output"); } Some(2) => { cmd.arg("--combine-output"); } _ => {} }
    match cli.kc { Some(true) => { cmd.arg("--keep-output-crlf"); } Some(false) => { cmd.arg("--no-keep-output-crlf"); } _ => {} }
    cmd.arg(name(0, &docs[0]));
    let cp: Vec<String> = docs.iter().enumerate().filter(|(_, d)| d.role == 'P').map(|(i, d)| name(i, d)).collect();
    let ca: Vec<String> = docs.iter().enumerate().filter(|(_, d)| d.role == 'A').map(|(i, d)| name(i, d)).collect();
    if !cp.is_empty() { cmd.arg("--prepend-test-file-paths"); for p in &cp { cmd.arg(p); } }
    if !ca.is_empty() { cmd.arg("--append-test-file-paths"); for p in &ca { cmd.arg(p); } }
    let out = cmd.output().expect("run scrut");
    let code = out.status.code().unwrap_or(-1);
    let stdout = String::from_utf8_lossy(&out.stdout).to_string();
    // per reported test: title -> the unexpected lines of its diff, as O / E with + for a kept CR
    let mut seen = vec![];
    if let Ok(serde_json::Value::Array(a)) = serde_json::from_str::<serde_json::Value>(stdout.trim()) {
        for e in a {
            let title = e.get("testcase").and_then(|t| t.get("title")).and_then(|t| t.as_str()).unwrap_or("?").to_string();
            let mut lines = String::new();
            if let Some(d) = e.get("result").and_then(|r| r.get("diff")).and_then(|d| d.as_array()) {
                for l in d { if l.get("kind").and_then(|k| k.as_str()) == Some("unexpected_lines") {
                    if let Some(ls) = l.get("lines").and_then(|x| x.as_array()) { for x in ls {
                        let txt = x.get(1).and_then(|t| t.as_str()).unwrap_or("");
                        lines.push(if txt.starts_with('O') { 'O' } else if txt.starts_with('E') { 'E' } else { '?' });
                        if txt.contains('\r') { lines.push('+'); }
                    } } } }
            } else { lines.push_str(e.get("result").and_then(|r| r.get("kind")).and_then(|k| k.as_str()).unwrap_or("?")); }
            seen.push(format!("{}={}", title, if lines.is_empty() { "-".to_string() } else { lines }));
        }
    }
    let marks_s = std::fs::read_to_string(&marks).unwrap_or_default().split_whitespace().collect::<Vec<_>>().join(",");
    format!("Q {} sh={}{}{}|{}|exit={}|{}|{}", show_layer(&cli), cli_shell.unwrap_or("-"), doc_shell.unwrap_or("-"), if compat { " cc=1" } else { "" },
        docs.iter().map(|d| format!("{}:{}:{}", d.role, show_layer(&d.defaults), d.tests.iter().map(show_layer).collect::<Vec<_>>().join("/"))).collect::<Vec<_>>().join(";"),
        code, if seen.is_empty() { "-".to_string() } else { seen.join(",") }, if marks_s.is_empty() { "-".to_string() } else { marks_s })
}

pub fn main(args: &[String], w: &mut dyn Write) {
    let count: u64 = args[0].parse().unwrap();
    let seed: u64 = args[1].parse().unwrap();
    let (shard, nsh): (u64, u64) = (args[2].parse().unwrap(), args[3].parse().unwrap());
    let scrut = std::env::var("SVH_SCRUT").expect("SVH_SCRUT");
    let base = PathBuf::from(std::env::var("SVH_WORK").expect("SVH_WORK"));
    let mut r = Rng::new(seed.wrapping_add(shard * 49979687));
    let n = (count + nsh - 1 - shard) / nsh;
    for _ in 0..n { writeln!(w, "{}", run_case(&mut r, &scrut, &base)).unwrap(); }
}
