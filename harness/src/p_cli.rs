//! C05/C14/C15/C20 end to end: the real `scrut test -r json` (built from /repo) with real bash on generated runs.
//! Every test appends a marker to a file, which proves order and multiplicity of execution.
use std::io::Write;
use std::path::{Path, PathBuf};
use std::process::Command;

use crate::rng::Rng;

#[derive(Clone, Debug)]
pub struct T { pub kind: char, pub code: i32, pub inline_skip: Option<i32> }
#[derive(Clone, Debug)]
pub struct Doc { pub cram: bool, pub role: char, pub docskip: Option<i32>, pub total_ms: Option<u64>, pub tests: Vec<T>, pub fileno: usize }   // the document is the file doc<fileno>.<md|t>

fn effective_skip(d: &Doc, t: &T) -> i32 { t.inline_skip.or(d.docskip).unwrap_or(80) }

/// a command that outlives its limit: were it not aborted, it would write a line to `late` after SLOW_T / SLOW_G seconds
pub const SLOW_T: f64 = 1.6;
pub const SLOW_G: f64 = 2.2;
fn slow_cmd(kind: char, id: &str, marks: &Path) -> String {
    // every other slow command ignores SIGTERM: being aborted must not depend on the cooperation of the shell
    let stubborn = id.bytes().last().map_or(false, |b| b % 2 == 1);
    // one per-test-limited command in three would end 50 ms AFTER its limit of 400 ms: it has run into the limit all the same (the
    // limit counts from the start of the shell, the sleep starts later) -- a timeout, not a command cut short and taken for finished
    let near = kind == 'T' && id.bytes().last().map_or(false, |b| b % 3 == 0);
    format!("{}sleep {}; echo {} >> {}", if stubborn { "trap '' TERM; " } else { "" }, if near { 0.45 } else if kind == 'T' { SLOW_T } else { SLOW_G }, id, marks.with_file_name("late").display())
}

fn render_md(d: &Doc, di: usize, marks: &Path) -> String {
    let mut s = String::new();
    if d.docskip.is_some() || d.total_ms.is_some() {
        s.push_str("---\n");
        if let Some(k) = d.docskip { s.push_str(&format!("defaults:\n  skip_document_code: {}\n", k)); }
        if let Some(t) = d.total_ms { s.push_str(&format!("total_timeout: {}ms\n", t)); }
        s.push_str("---\n\n");
    }
    for (i, t) in d.tests.iter().enumerate() {
        let id = format!("D{}T{}", di, i);
        s.push_str(&format!("# {}\n\n", id));
        let mut cfg = vec![];
        if let Some(k) = t.inline_skip { cfg.push(format!("skip_document_code: {}", k)); }
        if t.kind == 'T' || t.kind == 'B' { cfg.push("timeout: 400ms".to_string()); }
        if t.kind == 'D' { cfg.push("detached: true".to_string()); }
        if t.kind == 'w' { cfg.push("wait: 2s".to_string()); }   // scrut sleeps two seconds before it runs this test case
        if cfg.is_empty() { s.push_str("```scrut\n"); } else { s.push_str(&format!("```scrut {{{}}}\n", cfg.join(", "))); }
        let mark = format!("echo {} >> {}", id, marks.display());
        match t.kind {
            'P' | 'w' => s.push_str(&format!("$ {}; echo foo\nfoo\n", mark)),
            'O' => s.push_str(&format!("$ {}; echo foo\nbar\n", mark)),
            'C' => s.push_str(&format!("$ {}; echo foo; (exit {})\nfoo\n", mark, t.code)),
            'E' => s.push_str(&format!("$ {}; echo foo; (exit {})\nfoo\n[{}]\n", mark, t.code, t.code)),
            'S' => s.push_str(&format!("$ {}; (exit {})\n", mark, effective_skip(d, t))),
            // the shell ends at once, a background child keeps its output open beyond the limit of 400 ms: scrut waits for the output, so this
            // is a timeout (and must not pass for a command that finished)
            'B' => s.push_str(&format!("$ {}; echo foo; sleep 2.5 &\nfoo\n", mark)),
            'Q' => s.push_str(&format!("$ {}; exit {}\n", mark, effective_skip(d, t))),
            'T' | 'G' => s.push_str(&format!("$ {}; {}\n", mark, slow_cmd(t.kind, &id, marks))),
            'D' => s.push_str(&format!("$ {}; sleep 0.05 &\n", mark)),
            'K' => s.push_str(&format!("$ {}; kill -9 $$\n", mark)),
            'X' => s.push_str(&format!("$ {}; exit 3\n", mark)),   // only generated for runs with --cram-compat: leaves the script early
            _ => unreachable!(),
        }
        s.push_str("```\n\n");
    }
    s
}

fn render_cram(d: &Doc, di: usize, marks: &Path) -> String {
    let mut s = String::new();
    for (i, t) in d.tests.iter().enumerate() {
        let id = format!("D{}T{}", di, i);
        s.push_str(&format!("{}\n", id));
        let mark = format!("echo {} >> {}", id, marks.display());
        match t.kind {
            'P' => s.push_str(&format!("  $ {}; echo foo\n  foo\n", mark)),
            'O' => s.push_str(&format!("  $ {}; echo foo\n  bar\n", mark)),
            'C' => s.push_str(&format!("  $ {}; echo foo; (exit {})\n  foo\n", mark, t.code)),
            'E' => s.push_str(&format!("  $ {}; echo foo; (exit {})\n  foo\n  [{}]\n", mark, t.code, t.code)),
            // (output without a final newline: the divider that carries the skip code then stands on the same line)
            'S' => s.push_str(&format!("  $ {}; printf 'no newline'; (exit {})\n", mark, 80)),
            'Q' => s.push_str(&format!("  $ {}; exit {}\n", mark, 80)),
            'G' => s.push_str(&format!("  $ {}; {}\n", mark, slow_cmd('G', &id, marks))),
            'K' => s.push_str(&format!("  $ {}; kill -9 $$\n", mark)),
            'X' => s.push_str(&format!("  $ {}; exit 3\n", mark)),   // ends the whole script early, with a code that is not the skip code
            _ => unreachable!(),
        }
        s.push('\n');
    }
    s
}

/// two special runs that are generated whole: `--timeout-seconds 0` over a front-matter limit, and `--cram-compat` over Markdown documents
fn special_run(r: &mut Rng) -> Option<(Vec<Doc>, Option<u64>, bool)> {
    match r.below(24) {
        0 => {
            // the command line says unlimited (0); the front-matter says 800 ms; the slow test case must simply finish
            let mut tests = vec![T { kind: *r.pick(&['P', 'O']), code: 0, inline_skip: None }, T { kind: 'G', code: 0, inline_skip: None }];
            if r.chance(1, 2) { tests.push(T { kind: *r.pick(&['P', 'O', 'E']), code: 2, inline_skip: None }); }
            Some((vec![Doc { cram: false, role: 'm', docskip: None, total_ms: Some(800), tests, fileno: 0 }], Some(0), false))
        }
        3 => {
            // a limit beyond what the clock can express (2^64 - 1 seconds): no limit, and no panic -- on the command line, over Markdown
            // and Cram documents with quick test cases of every outcome
            let mut docs = vec![];
            for i in 0..r.range(1, 2) {
                let cram = r.chance(1, 2);
                let tests = (0..r.range(1, 3)).map(|_| match r.below(4) { 0 => T { kind: 'O', code: 0, inline_skip: None }, 1 => T { kind: 'E', code: *r.pick(&[1, 2]), inline_skip: None }, _ => T { kind: 'P', code: 0, inline_skip: None } }).collect();
                docs.push(Doc { cram, role: 'm', docskip: None, total_ms: None, tests, fileno: i });
            }
            Some((docs, Some(u64::MAX), false))
        }
        1 | 2 => {
            // Markdown documents run as ONE script each (--cram-compat); skip codes set per test case (the same on all of them) or per document
            let mut docs = vec![];
            for i in 0..r.range(1, 2) {
                let inline = if r.chance(1, 2) { Some(*r.pick(&[5, 9])) } else { None };
                let docskip = if r.chance(1, 3) { Some(*r.pick(&[3, 7, 0])) } else { None };
                let n = r.range(1, 4);
                let mut tests = vec![];
                for _ in 0..n {
                    let mut t = T { kind: 'P', code: 0, inline_skip: inline };
                    match r.below(9) { 0 | 1 => {}, 2 => t.kind = 'O', 3 => { t.kind = 'C'; t.code = *r.pick(&[1, 80, 5]); } 4 => { t.kind = 'E'; t.code = *r.pick(&[1, 2, 80]); }
                        5 => t.kind = 'S', 6 => t.kind = if r.chance(1, 2) { 'Q' } else { 'S' }, 7 => t.kind = 'X', _ => if r.chance(1, 3) { t.kind = 'K' } }
                    tests.push(t);
                }
                docs.push(Doc { cram: false, role: 'm', docskip, total_ms: None, tests, fileno: i });
            }
            Some((docs, None, true))
        }
        _ => None,
    }
}

pub fn gen_run(r: &mut Rng) -> (Vec<Doc>, Option<u64>, bool) {
    if let Some(x) = special_run(r) { return x; }
    let ndocs = r.range(1, 3);
    let mut docs = vec![];
    let mut cli_timeout = None;
    let slow_budget = r.chance(1, 5);   // at most one slow (timeout) test per run, and only in some runs
    let mut slow_used = false;
    for _ in 0..ndocs {
        let cram = r.chance(1, 3);
        let n = r.range(1, 5);
        let docskip = if !cram && r.chance(1, 4) { Some(*r.pick(&[3, 7, 42])) } else { None };
        let mut d = Doc { cram, role: 'm', docskip, total_ms: None, tests: vec![], fileno: 0 };
        let style = r.below(5);
        for _ in 0..n {
            let mut t = T { kind: 'P', code: 0, inline_skip: None };
            if !cram && r.chance(1, 8) { t.inline_skip = Some(*r.pick(&[5, 9])); }
            let k = match style { 0 => 0, 1 => r.below(4), _ => r.below(12) };
            match k {
                0 | 1 => t.kind = 'P',
                2 => t.kind = 'O',
                3 => { t.kind = 'C'; t.code = *r.pick(&[1, 2, 80, 255]); }
                4 | 5 => { t.kind = 'E'; t.code = *r.pick(&[1, 2, 3, 80]); }
                6 => t.kind = if r.chance(1, 3) { 'Q' } else { 'S' },
                7 => if slow_budget && !slow_used { slow_used = true; if cram || r.chance(1, 2) { t.kind = 'G'; if cram { cli_timeout = Some(1); } else { d.total_ms = Some(800); } } else { t.kind = if r.chance(1, 3) { 'B' } else { 'T' }; } },
                8 => if !cram { t.kind = 'D' },
                9 => if r.chance(1, 3) { t.kind = 'K' },
                10 => if cram && r.chance(1, 2) { t.kind = 'X' },
                _ => t.kind = 'P',
            }
            // a wrong or expected code that happens to be the effective skip code is a skip: keep it, the model decides
            d.tests.push(t);
        }
        docs.push(d);
    }
    // a detached test followed (in the same document run) by a test that times out: results must stay aligned with their tests
    if r.chance(1, 8) && !slow_used {
        let mut tests = vec![T { kind: *r.pick(&['P', 'D']), code: 0, inline_skip: None }, T { kind: 'D', code: 0, inline_skip: None }];
        if r.chance(1, 2) { tests.push(T { kind: *r.pick(&['P', 'O']), code: 0, inline_skip: None }); }
        tests.push(T { kind: *r.pick(&['T', 'T', 'B']), code: 0, inline_skip: None });
        for _ in 0..r.range(0, 2) { tests.push(T { kind: *r.pick(&['P', 'O', 'D']), code: 0, inline_skip: None }); }
        docs.push(Doc { cram: false, role: 'm', docskip: None, total_ms: None, tests, fileno: 0 });
    }
    // the document limit (1.5 s) runs out BETWEEN two test cases (scrut waits two seconds before the second one): the third starts with no
    // time left and must be reported as timed out at once, the rest skipped
    if r.chance(1, 14) && !slow_used {
        let mut tests = vec![T { kind: *r.pick(&['P', 'O']), code: 0, inline_skip: None }, T { kind: 'w', code: 0, inline_skip: None }];
        for _ in 0..r.range(1, 3) { tests.push(T { kind: *r.pick(&['P', 'O', 'E']), code: 2, inline_skip: None }); }
        docs.push(Doc { cram: false, role: 'm', docskip: None, total_ms: Some(1500), tests, fileno: 0 });
    }
    // Cram: a test that ends in the skip code without leaving the script, and a later one that leaves it early
    if r.chance(1, 12) {
        let mut tests = vec![];
        if r.chance(1, 2) { tests.push(T { kind: *r.pick(&['P', 'O', 'E']), code: 1, inline_skip: None }); }
        tests.push(T { kind: 'S', code: 0, inline_skip: None });
        if r.chance(1, 2) { tests.push(T { kind: 'P', code: 0, inline_skip: None }); }
        tests.push(T { kind: *r.pick(&['X', 'Q', 'K', 'K']), code: 0, inline_skip: None });
        if r.chance(1, 2) { tests.push(T { kind: 'P', code: 0, inline_skip: None }); }
        docs.push(Doc { cram: true, role: 'm', docskip: None, total_ms: None, tests, fileno: 0 });
    }
    let any_cram = docs.iter().any(|d| d.cram);
    for role in ['p', 'a'] {
        if r.chance(1, 4) {
            // one or two documents, given in this order on the command line
            for _ in 0..(if r.chance(1, 3) { 2 } else { 1 }) {
                let n = r.range(1, 2);
                docs.push(Doc { cram: any_cram, role, docskip: None, total_ms: None, fileno: 0, tests: (0..n).map(|_| T { kind: if r.chance(1, 4) { 'O' } else { 'P' }, code: 0, inline_skip: None }).collect() });
            }
        }
    }
    // file names: in half of the runs the order in which the documents are given is not the order of their names
    let mut nos: Vec<usize> = (0..docs.len()).collect();
    if r.chance(1, 2) { for i in (1..nos.len()).rev() { let j = r.below(i as u64 + 1) as usize; nos.swap(i, j); } }
    if r.chance(1, 6) { for x in nos.iter_mut() { *x += 8; } }   // doc8, doc9, doc10, doc11: numeric order is not lexicographic order
    for (d, no) in docs.iter_mut().zip(nos) { d.fileno = no; }
    if cli_timeout.is_some() { for d in docs.iter_mut() { if !d.cram && d.role == 'm' { d.total_ms = None; } } }
    (docs, cli_timeout, false)
}

fn show_doc(d: &Doc) -> String {
    format!("{}{}{}:{}:{}:{}", if d.cram { 'c' } else { 'm' }, d.role, d.fileno, d.docskip.map_or("-".to_string(), |k| k.to_string()),
        d.total_ms.map_or("-".to_string(), |k| k.to_string()),
        d.tests.iter().map(|t| format!("{}{}{}", t.kind, if t.kind == 'C' || t.kind == 'E' { t.code.to_string() } else { String::new() }, t.inline_skip.map_or(String::new(), |k| format!("i{}", k)))).collect::<Vec<_>>().join(","))
}

pub fn run(docs: &[Doc], cli_timeout: Option<u64>, compat: bool, scrut: &str, base: &Path) -> String {
    let dir = tempfile::Builder::new().prefix("cli.").tempdir_in(base).unwrap();
    let tmpdir = dir.path().join("tmp");
    std::fs::create_dir_all(&tmpdir).unwrap();
    let marks = dir.path().join("marks");
    let mut mains = vec![]; let mut pres = vec![]; let mut apps = vec![];
    // in one run of five every main document lies alone in a nested directory of its own and the DIRECTORY is given (C20: "directories"),
    // next to files that are no documents: a text file and a backup copy, both holding a test that would fail
    let dirmode = (docs.iter().map(|d| d.fileno).sum::<usize>() + docs.len()) % 5 == 0;
    for (i, d) in docs.iter().enumerate() {
        let name = format!("doc{}.{}", d.fileno, if d.cram { "t" } else { "md" });
        let text = if d.cram { render_cram(d, i, &marks) } else { render_md(d, i, &marks) };
        if dirmode && d.role == 'm' {
            let top = format!("dir{}", i);
            let nested = dir.path().join(&top).join("nested");
            std::fs::create_dir_all(&nested).unwrap();
            std::fs::write(nested.join(&name), text).unwrap();
            std::fs::write(dir.path().join(&top).join("README.txt"), "```scrut\n$ echo not a document\nnever matches\n```\n").unwrap();
            std::fs::write(nested.join(format!("{}.bak", name)), "```scrut\n$ echo not a document\nnever matches\n```\n").unwrap();
            mains.push(top);
            continue;
        }
        let p = dir.path().join(&name);
        std::fs::write(&p, text).unwrap();
        match d.role { 'm' => mains.push(name), 'p' => pres.push(p), _ => apps.push(p) }
    }
    let mut cmd = Command::new(scrut);
    cmd.current_dir(dir.path()).env("TMPDIR", &tmpdir).env("NO_COLOR", "1").arg("test").arg("-r").arg("json").arg("--log-level").arg("error");
    if let Some(t) = cli_timeout { cmd.arg("--timeout-seconds").arg(t.to_string()); }
    if compat { cmd.arg("--cram-compat"); }
    for m in &mains { cmd.arg(m); }
    if !pres.is_empty() { cmd.arg("--prepend-test-file-paths"); for p in &pres { cmd.arg(p); } }
    if !apps.is_empty() { cmd.arg("--append-test-file-paths"); for p in &apps { cmd.arg(p); } }
    let started = std::time::Instant::now();
    let out = cmd.output().expect("run scrut");
    let code = out.status.code().unwrap_or(-1);
    let stdout = String::from_utf8_lossy(&out.stdout).to_string();
    let mut entries = vec![];
    let parsed: Result<serde_json::Value, _> = serde_json::from_str(stdout.trim());
    let mut json_ok = stdout.trim().is_empty();
    if let Ok(serde_json::Value::Array(a)) = parsed {
        json_ok = true;
        for e in a {
            let title = e.get("title").and_then(|t| t.as_str()).map(|s| s.to_string())
                .or_else(|| e.get("testcase").and_then(|t| t.get("title")).and_then(|t| t.as_str()).map(|s| s.to_string())).unwrap_or("?".into());
            let kind = e.get("result").and_then(|r| r.get("kind")).and_then(|k| k.as_str()).unwrap_or("?").to_string();
            let loc = e.get("location").and_then(|t| t.as_str()).unwrap_or("?").to_string();
            let loc = if dirmode { loc.rsplit('/').next().unwrap_or("?").to_string() } else { loc };   // found inside the given directory
            let k = match kind.as_str() { "success" => "ok", "malformed_output" | "invalid_exit_code" | "internal_error" => "failed", "timeout" => "timeout", "skipped" => "skipped", _ => "?" };
            entries.push(format!("{}/{}={}", loc, title, k));
        }
    }
    std::thread::sleep(std::time::Duration::from_millis(if docs.iter().any(|d| d.tests.iter().any(|t| t.kind == 'D')) { 80 } else { 0 }));
    // C14 "is aborted" / C18 "no directory remains": give a command that was NOT aborted the time to show itself
    let marks_now = std::fs::read_to_string(&marks).unwrap_or_default();
    let slow_ran = docs.iter().enumerate().any(|(di, d)| d.tests.iter().enumerate().any(|(i, t)| (t.kind == 'T' || t.kind == 'G') && marks_now.split_whitespace().any(|m| m == format!("D{}T{}", di, i))));
    if slow_ran {
        let until = std::time::Duration::from_secs_f64(SLOW_G + 0.35);
        if started.elapsed() < until { std::thread::sleep(until - started.elapsed()); }
    }
    let late = std::fs::read_to_string(dir.path().join("late")).unwrap_or_default().split_whitespace().collect::<Vec<_>>().join(",");
    let marks_s = std::fs::read_to_string(&marks).unwrap_or_default().split_whitespace().collect::<Vec<_>>().join(",");
    let leftover = std::fs::read_dir(&tmpdir).map(|d| d.filter_map(|e| e.ok()).map(|e| e.file_name().to_string_lossy().to_string()).collect::<Vec<_>>()).unwrap_or_default();
    format!("R {}|cli_timeout={}|exit={}|json={}|{}|marks={}|leftover={}|late={}|compat={}|dirs={}",
        docs.iter().map(show_doc).collect::<Vec<_>>().join(";"), cli_timeout.map_or("-".to_string(), |t| t.to_string()), code, json_ok as u8,
        if entries.is_empty() { "-".to_string() } else { entries.join(",") }, if marks_s.is_empty() { "-".to_string() } else { marks_s }, leftover.len(), if late.is_empty() { "-".to_string() } else { late }, compat as u8, dirmode as u8)
}

pub fn main(args: &[String], w: &mut dyn Write) {
    let count: u64 = args[0].parse().unwrap();
    let seed: u64 = args[1].parse().unwrap();
    let (shard, nsh): (u64, u64) = (args[2].parse().unwrap(), args[3].parse().unwrap());
    let scrut = std::env::var("SVH_SCRUT").expect("SVH_SCRUT");
    let base = PathBuf::from(std::env::var("SVH_WORK").expect("SVH_WORK"));
    let mut r = Rng::new(seed.wrapping_add(shard * 32452843));
    let n = (count + nsh - 1 - shard) / nsh;
    if shard == 0 {
        // STDOUT cannot be written to (a full device): scrut cannot report the result -- exit status 1, not a panic (101)
        for (name, body) in [("fails", "```scrut\n$ echo a\nb\n```\n"), ("passes", "```scrut\n$ echo a\na\n```\n")] {
            let dir = tempfile::Builder::new().prefix("cli.").tempdir_in(&base).unwrap();
            let tmpdir = dir.path().join("tmp"); std::fs::create_dir_all(&tmpdir).unwrap();
            std::fs::write(dir.path().join("doc.md"), body).unwrap();
            let code = match std::fs::OpenOptions::new().write(true).open("/dev/full") {
                Ok(full) => Command::new(&scrut).current_dir(dir.path()).env("TMPDIR", &tmpdir).env("NO_COLOR", "1").args(["test", "--log-level", "error", "doc.md"])
                    .stdout(full).stderr(std::process::Stdio::null()).status().ok().and_then(|s| s.code()).unwrap_or(-1),
                Err(_) => 1,   // no such device here: nothing to observe
            };
            writeln!(w, "R !stdout-unwritable:{}|exit={}", name, code).unwrap();
        }
    }
    for _ in 0..n {
        let (docs, ct, compat) = gen_run(&mut r);
        writeln!(w, "{}", run(&docs, ct, compat, &scrut, &base)).unwrap();
    }
}
