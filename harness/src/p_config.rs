//! C16: configuration layering — the real merge functions and the Markdown parse site on generated layers.
use std::collections::BTreeMap;
use std::io::Write;
use std::path::PathBuf;
use std::sync::Arc;
use std::time::Duration;

use scrut::config::{DocumentConfig, OutputStreamControl, TestCaseConfig, TestCaseWait};
use scrut::expectation::ExpectationMaker;
use scrut::parsers::markdown::MarkdownParser;
use scrut::parsers::parser::Parser;
use scrut::rules::registry::RuleRegistry;

use crate::rng::Rng;

pub fn show_tc(c: &TestCaseConfig) -> String {
    let os = match c.output_stream { None => "-".into(), Some(OutputStreamControl::Stdout) => "0".to_string(), Some(OutputStreamControl::Stderr) => "1".into(), Some(OutputStreamControl::Combined) => "2".into() };
    let b = |o: Option<bool>| match o { None => "-".to_string(), Some(true) => "1".into(), Some(false) => "0".into() };
    let env = if c.environment.is_empty() { "-".to_string() } else {
        c.environment.iter().map(|(k, v)| format!("{}:{}", k.trim_start_matches('K'), v.trim_start_matches('V'))).collect::<Vec<_>>().join(",") };
    format!("os={} kc={} to={} de={} sk={} sa={} wa={} env={}", os, b(c.keep_crlf),
        c.timeout.map_or("-".to_string(), |d| d.as_millis().to_string()), b(c.detached),
        c.skip_document_code.map_or("-".to_string(), |d| d.to_string()), b(c.strip_ansi_escaping),
        c.wait.as_ref().map_or("-".to_string(), |w| w.timeout.as_secs().to_string()), env)
}
pub fn show_doc(d: &DocumentConfig) -> String {
    let l = |v: &Vec<PathBuf>| if v.is_empty() { "-".to_string() } else { v.iter().map(|p| p.to_string_lossy().trim_start_matches('p').to_string()).collect::<Vec<_>>().join(",") };
    format!("ap={} pp={} sh={} tt={} {}", l(&d.append), l(&d.prepend),
        d.shell.as_ref().map_or("-".to_string(), |p| p.to_string_lossy().trim_start_matches('s').to_string()),
        d.total_timeout.map_or("-".to_string(), |t| t.as_millis().to_string()), show_tc(&d.defaults))
}

pub fn gen_tc(r: &mut Rng, density: u64) -> TestCaseConfig {
    let mut c = TestCaseConfig::empty();
    let set = |r: &mut Rng| r.chance(density, 10);
    if set(r) { c.output_stream = Some(match r.below(3) { 0 => OutputStreamControl::Stdout, 1 => OutputStreamControl::Stderr, _ => OutputStreamControl::Combined }); }
    if set(r) { c.keep_crlf = Some(r.chance(1, 2)); }
    if set(r) { c.timeout = Some(Duration::from_millis(1000 * r.below(4))); }   // 0 is a value like any other (0 = unlimited for total_timeout)
    if set(r) { c.detached = Some(r.chance(1, 2)); }
    if set(r) { c.skip_document_code = Some(r.below(4) as i32); }
    if set(r) { c.strip_ansi_escaping = Some(r.chance(1, 2)); }
    if set(r) { c.wait = Some(TestCaseWait { timeout: Duration::from_secs(r.below(4)), path: None }); }
    let n = if set(r) { r.range(1, 3) } else { 0 };
    for _ in 0..n { c.environment.insert(format!("K{}", r.below(4)), format!("V{}", r.below(3))); }
    c
}
pub fn gen_doc(r: &mut Rng) -> DocumentConfig {
    let mut d = DocumentConfig::empty();
    for _ in 0..r.below(3) { d.append.push(PathBuf::from(format!("p{}", r.below(5)))); }
    for _ in 0..r.below(3) { d.prepend.push(PathBuf::from(format!("p{}", r.below(5)))); }
    if r.chance(1, 2) { d.shell = Some(PathBuf::from(format!("s{}", r.below(3)))); }
    if r.chance(1, 2) { d.total_timeout = Some(Duration::from_millis(1000 * r.below(4))); }
    d.defaults = gen_tc(r, 4);
    d
}

fn yaml_tc(c: &TestCaseConfig) -> Vec<String> {
    // hand-rendered with trivially safe scalars: ties the parser's merge site, not the YAML writer (that is C17)
    let mut o = vec![];
    if let Some(ref v) = c.output_stream { o.push(format!("output_stream: {}", v.to_string().to_lowercase())); }
    if let Some(v) = c.keep_crlf { o.push(format!("keep_crlf: {}", v)); }
    if let Some(v) = c.timeout { o.push(format!("timeout: {}ms", v.as_millis())); }
    if let Some(v) = c.detached { o.push(format!("detached: {}", v)); }
    if let Some(v) = c.skip_document_code { o.push(format!("skip_document_code: {}", v)); }
    if let Some(v) = c.strip_ansi_escaping { o.push(format!("strip_ansi_escaping: {}", v)); }
    if let Some(ref v) = c.wait { o.push(format!("wait: {}s", v.timeout.as_secs())); }
    if !c.environment.is_empty() {
        o.push(format!("environment: {{{}}}", c.environment.iter().map(|(k, v)| format!("{}: {}", k, v)).collect::<Vec<_>>().join(", ")));
    }
    o
}

pub fn main(args: &[String], w: &mut dyn Write) {
    let count: u64 = args[0].parse().unwrap();
    let seed: u64 = args[1].parse().unwrap();
    let (shard, nsh): (u64, u64) = (args[2].parse().unwrap(), args[3].parse().unwrap());
    let mut r = Rng::new(seed.wrapping_add(shard * 104729));
    let mk = Arc::new(ExpectationMaker::new(RuleRegistry::default()));
    if shard == 0 {
        // exhaustive: every assignment of {unset, zero/first, A, B} to one key (or one variable) in each of the four layers
        for key in 0..8u64 {
            for code in 0..256u64 {
                let mut layers = vec![];
                for l in 0..4 {
                    let v = (code / 4u64.pow(l)) % 4;
                    let mut c = TestCaseConfig::empty();
                    if v > 0 {
                        match key {
                            0 => c.output_stream = Some(if v == 1 { OutputStreamControl::Stdout } else if v == 2 { OutputStreamControl::Stderr } else { OutputStreamControl::Combined }),
                            1 => c.keep_crlf = Some(v == 1),
                            2 => c.timeout = Some(Duration::from_millis(1000 * (v - 1))),
                            3 => c.detached = Some(v == 1),
                            4 => c.skip_document_code = Some(v as i32 - 1),
                            5 => c.strip_ansi_escaping = Some(v == 1),
                            6 => c.wait = Some(TestCaseWait { timeout: Duration::from_secs(v - 1), path: None }),
                            _ => { c.environment.insert("K1".into(), format!("V{}", v)); }
                        }
                    }
                    layers.push(c);
                }
                let (cli, tc, doc, fmt) = (&layers[0], &layers[1], &layers[2], &layers[3]);
                let r3 = tc.with_defaults_from(doc).with_defaults_from(fmt).with_overrides_from(cli).with_defaults_from(doc);
                writeln!(w, "E {};{};{};{};{}|{}", show_tc(cli), show_tc(tc), show_tc(doc), show_tc(fmt), show_tc(&TestCaseConfig::empty()), show_tc(&r3)).unwrap();
            }
        }
    }
    for i in 0..(count / nsh) {
        let dens = [2u64, 4, 6, 8][(i / 4 % 4) as usize];
        match i % 4 {
            0 => {
                let (cli, tc, doc, fmt) = (gen_tc(&mut r, dens / 2), gen_tc(&mut r, dens), gen_tc(&mut r, dens), gen_tc(&mut r, dens));
                let forced_n = r.below(3);
                let mut forced: BTreeMap<String, String> = BTreeMap::new();
                for _ in 0..forced_n { forced.insert(format!("K{}", r.below(4)), format!("V{}", 3 + r.below(2))); }
                let fref: BTreeMap<&str, &str> = forced.iter().map(|(k, v)| (k as &str, v as &str)).collect();
                let r1 = tc.with_defaults_from(&doc).with_defaults_from(&fmt);
                let r2 = r1.with_overrides_from(&cli).with_environment(&fref);
                let r3 = r2.with_defaults_from(&doc);
                let mut fc = TestCaseConfig::empty(); fc.environment = forced.clone();
                writeln!(w, "E {};{};{};{};{}|{}", show_tc(&cli), show_tc(&tc), show_tc(&doc), show_tc(&fmt), show_tc(&fc), show_tc(&r3)).unwrap();
            }
            1 => {
                let (a, b, c) = (gen_tc(&mut r, 5), gen_tc(&mut r, 5), gen_tc(&mut r, 5));
                let left = a.with_defaults_from(&b).with_defaults_from(&c);
                let right = a.with_defaults_from(&b.with_defaults_from(&c));
                let ea = a.with_defaults_from(&TestCaseConfig::empty());
                let eb = TestCaseConfig::empty().with_defaults_from(&a);
                writeln!(w, "A {};{};{}|{}|{}|{}|{}", show_tc(&a), show_tc(&b), show_tc(&c), show_tc(&left), show_tc(&right), show_tc(&ea), show_tc(&eb)).unwrap();
            }
            2 => {
                let (a, b, c) = (gen_doc(&mut r), gen_doc(&mut r), gen_doc(&mut r));
                let m = a.with_defaults_from(&b);
                let o = a.with_overrides_from(&b);
                let left = a.with_defaults_from(&b).with_defaults_from(&c);
                let right = a.with_defaults_from(&b.with_defaults_from(&c));
                writeln!(w, "D {};{};{}|{}|{}|{}|{}", show_doc(&a), show_doc(&b), show_doc(&c), show_doc(&m), show_doc(&o), show_doc(&left), show_doc(&right)).unwrap();
            }
            _ => {
                // parse site: front-matter defaults + inline config, through the real MarkdownParser
                let doc = gen_tc(&mut r, 5);
                let tc = gen_tc(&mut r, 5);
                let mut text = String::new();
                let dy = yaml_tc(&doc);
                if !dy.is_empty() {
                    text.push_str("---\ndefaults:\n");
                    for l in &dy { text.push_str(&format!("  {}\n", l)); }
                    text.push_str("---\n\n");
                }
                text.push_str("# T\n\n");
                let ty = yaml_tc(&tc);
                if ty.is_empty() { text.push_str("```scrut\n"); } else { text.push_str(&format!("```scrut {{{}}}\n", ty.join(", "))); }
                text.push_str("$ true\n```\n");
                let p = MarkdownParser::new(mk.clone(), &["scrut"], None);
                let res = std::panic::catch_unwind(std::panic::AssertUnwindSafe(|| p.parse(&text)));
                let s = match res {
                    Ok(Ok((dc, tcs))) if tcs.len() == 1 => format!("{}|{}", show_tc(&tcs[0].config), show_tc(&dc.defaults)),
                    Ok(Ok(_)) => "count|-".into(), Ok(Err(_)) => "err|-".into(), Err(_) => "panic|-".into(),
                };
                writeln!(w, "P {};{}|{}", show_tc(&tc), show_tc(&doc), s).unwrap();
            }
        }
    }
}
