//! Constants and tables the theorems mention, computed by calling the code scrut links (regenerated each run).
use std::io::Write;

use scrut::config::{DocumentConfig, OutputStreamControl, TestCaseConfig, DEFAULT_DOCUMENT_TIMEOUT, DEFAULT_SKIP_DOCUMENT_CODE};

fn stream(o: &Option<OutputStreamControl>) -> String {
    match o { None => "None".into(), Some(OutputStreamControl::Stdout) => "Some 0".into(), Some(OutputStreamControl::Stderr) => "Some 1".into(), Some(OutputStreamControl::Combined) => "Some 2".into() }
}
fn ob(o: &Option<bool>) -> String { match o { None => "None".into(), Some(b) => format!("Some {}", b) } }
fn tc(c: &TestCaseConfig) -> String {
    format!("{{| output_stream := {}; keep_crlf := {}; timeout := {}; detached := {}; skip_code := {}; strip_ansi := {}; wait := {}; environment := [{}] |}}",
        stream(&c.output_stream), ob(&c.keep_crlf),
        c.timeout.map_or("None".to_string(), |d| format!("Some {}", d.as_millis())),
        ob(&c.detached),
        c.skip_document_code.map_or("None".to_string(), |d| format!("Some ({})%Z", d)),
        ob(&c.strip_ansi_escaping),
        if c.wait.is_some() { "Some 0" } else { "None" },
        if c.environment.is_empty() { "" } else { "(0,0)" })
}

pub fn main(_args: &[String], w: &mut dyn Write) {
    writeln!(w, "Definition default_skip_document_code : Z := ({})%Z.", DEFAULT_SKIP_DOCUMENT_CODE).unwrap();
    writeln!(w, "Definition default_document_timeout_ms : N := {}.", DEFAULT_DOCUMENT_TIMEOUT * 1000).unwrap();
    writeln!(w, "Definition tc_default_markdown : tcfg := {}.", tc(&TestCaseConfig::default_markdown())).unwrap();
    writeln!(w, "Definition tc_default_cram : tcfg := {}.", tc(&TestCaseConfig::default_cram())).unwrap();
    writeln!(w, "Definition tc_empty_get_skip_code : Z := ({})%Z.", TestCaseConfig::empty().get_skip_document_code()).unwrap();
    let dm = DocumentConfig::default_markdown();
    let dc = DocumentConfig::default_cram();
    writeln!(w, "Definition doc_default_markdown_total_timeout : option N := {}.", dm.total_timeout.map_or("None".to_string(), |d| format!("Some {}", d.as_millis()))).unwrap();
    writeln!(w, "Definition doc_default_cram_total_timeout : option N := {}.", dc.total_timeout.map_or("None".to_string(), |d| format!("Some {}", d.as_millis()))).unwrap();
}

fn ranges(pred: &dyn Fn(char) -> bool) -> String {
    let mut out = vec![];
    let mut start: Option<u32> = None;
    for cp in 0..=0x110000u32 {
        let v = char::from_u32(cp).map_or(false, |c| pred(c));
        match (v, start) {
            (true, None) => start = Some(cp),
            (false, Some(s)) => { out.push(format!("({}, {})", s, cp - 1)); start = None; }
            _ => {}
        }
    }
    format!("[{}]", out.join("; "))
}

/// Unicode tables as the crates scrut links compute them
pub fn unicode(_args: &[String], w: &mut dyn Write) {
    use unicode_categories::UnicodeCategories;
    writeln!(w, "(* char::is_other() of the unicode_categories crate scrut links: inclusive code point ranges *)").unwrap();
    writeln!(w, "Definition other_ranges : list (N * N) := {}.", ranges(&|c| c.is_other())).unwrap();
    writeln!(w, "(* char::is_whitespace() of the Rust standard library *)").unwrap();
    writeln!(w, "Definition whitespace_ranges : list (N * N) := {}.", ranges(&|c| c.is_whitespace())).unwrap();
    let re = regex::Regex::new(r"^\p{L}$").unwrap();
    writeln!(w, "(* \\p{{L}} of the regex crate scrut links (first character of a title paragraph) *)").unwrap();
    writeln!(w, "Definition letter_ranges : list (N * N) := {}.", ranges(&|c| re.is_match(&c.to_string()))).unwrap();
}
