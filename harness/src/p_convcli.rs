//! C09 end to end, conversion: the real `scrut update --convert <other format> --assume-yes` (built from /repo) on a document
//! of 1..3 tests whose commands print given bytes and end in given exit codes, then the real `scrut test` on the document it
//! wrote.  Both directions, escaper chosen by the format default of the source document or by `--escaping`.
use std::io::Write;
use std::path::{Path, PathBuf};
use std::process::Command;

use crate::p_escape::hex;
use crate::rng::Rng;

fn command_for(out: &[u8], code: i32) -> String {
    let mut c = if out.is_empty() { "true".to_string() } else { format!("printf '{}'", out.iter().map(|b| format!("\\x{:02x}", b)).collect::<String>()) };
    if code != 0 { c.push_str(&format!("; (exit {})", code)); }
    c
}

fn run(scrut: &str, dir: &Path, tmp: &Path, args: &[&str]) -> (i32, Vec<u8>) {
    match Command::new(scrut).current_dir(dir).env("TMPDIR", tmp).env("NO_COLOR", "1").args(args).output() {
        Ok(o) => (o.status.code().unwrap_or(-1), o.stdout), Err(_) => (-2, vec![]) }
}

pub fn main(args: &[String], w: &mut dyn Write) {
    let count: u64 = args[0].parse().unwrap(); let seed: u64 = args[1].parse().unwrap();
    let (shard, nsh): (u64, u64) = (args[2].parse().unwrap(), args[3].parse().unwrap());
    let scrut = std::env::var("SVH_SCRUT").expect("SVH_SCRUT");
    let base = PathBuf::from(std::env::var("SVH_WORK").expect("SVH_WORK"));
    let mut r = Rng::new(seed.wrapping_add(shard * 91234577));
    let n = (count + nsh - 1 - shard) / nsh;
    for _ in 0..n {
        let from_cram = r.chance(1, 2);
        let esc = *r.pick(&["-", "-", "ascii", "unicode"]);
        let k = r.range(1, 3);
        let dir = tempfile::Builder::new().prefix("convcli.").tempdir_in(&base).unwrap();
        let tmp = dir.path().join("tmp"); std::fs::create_dir_all(&tmp).unwrap();
        let mut doc = String::new();
        let mut tests = vec![];
        for i in 0..k {
            let code = *r.pick(&[0, 0, 0, 1, 3, 255]);
            let out = crate::p_gen::gen_output(&mut r);
            let titled = r.chance(2, 3);
            // the exit code line of the source test: right, left out or wrong (then the test fails on the exit code)
            let codeline = match r.below(4) { 0 => None, 1 => Some(if code == 2 { 4 } else { 2 }), _ => if code != 0 { Some(code) } else { None } };
            let title = if titled { format!("Title number {}", i + 1) } else { String::new() };
            let cmd = command_for(&out, code);
            if from_cram {
                if i > 0 { doc.push('\n'); }
                if titled { doc.push_str(&title); doc.push('\n'); }
                doc.push_str(&format!("  $ {}\n", cmd));
                if let Some(c) = codeline { doc.push_str(&format!("  [{}]\n", c)); }
            } else {
                if i > 0 { doc.push('\n'); }
                if titled { doc.push_str(&format!("# {}\n\n", title)); }
                doc.push_str(&format!("```scrut\n$ {}\n", cmd));
                if let Some(c) = codeline { doc.push_str(&format!("[{}]\n", c)); }
                doc.push_str("```\n");
            }
            tests.push(format!("{}:{}:{}:{}", hex(title.as_bytes()), hex(cmd.as_bytes()), code, hex(&out)));
        }
        let (src, dst, target) = if from_cram { ("doc.t", "doc.md", "markdown") } else { ("doc.md", "doc.t", "cram") };
        std::fs::write(dir.path().join(src), &doc).unwrap();
        let mut a: Vec<&str> = vec!["update", "--log-level", "error", "--convert", target, "--assume-yes"];
        if esc != "-" { a.push("--escaping"); a.push(esc); }
        a.push(src);
        let (eu, _) = run(&scrut, dir.path(), &tmp, &a);
        let conv = std::fs::read(dir.path().join(dst)).unwrap_or_default();
        let src_after = std::fs::read(dir.path().join(src)).unwrap_or_default();
        let (et, _) = run(&scrut, dir.path(), &tmp, &["test", "--log-level", "error", dst]);
        let left = std::fs::read_dir(&tmp).map(|d| d.count()).unwrap_or(0);
        writeln!(w, "V {} {} {}|{}|update={} test={} leftover={} source-kept={}", if from_cram { "c2m" } else { "m2c" }, esc, tests.join(","),
            hex(&conv), eu, et, left, if src_after == doc.as_bytes() { 1 } else { 0 }).unwrap();
    }
}
