//! C09 end to end: the real `scrut create` (built from /repo) on a command that prints given bytes and ends in a given exit
//! code, then the real `scrut test` on the document it wrote.  Both formats, escaper chosen by the format default or by
//! `--escaping`.
use std::io::Write;
use std::path::{Path, PathBuf};
use std::process::Command;

use crate::p_escape::hex;
use crate::rng::Rng;

fn command_for(out: &[u8], code: i32) -> String {
    let mut c = if out.is_empty() { "true".to_string() } else { format!("printf '{}'", out.iter().map(|b| format!("\\x{:02x}", b)).collect::<String>()) };
    if code != 0 { c.push_str(&format!("; (exit {})", code)); }
    c
}

fn run(scrut: &str, dir: &Path, tmp: &Path, args: &[&str]) -> (i32, Vec<u8>) {
    match Command::new(scrut).current_dir(dir).env("TMPDIR", tmp).env("NO_COLOR", "1").args(args).output() {
        Ok(o) => (o.status.code().unwrap_or(-1), o.stdout), Err(_) => (-2, vec![]) }
}

pub fn main(args: &[String], w: &mut dyn Write) {
    let count: u64 = args[0].parse().unwrap(); let seed: u64 = args[1].parse().unwrap();
    let (shard, nsh): (u64, u64) = (args[2].parse().unwrap(), args[3].parse().unwrap());
    let scrut = std::env::var("SVH_SCRUT").expect("SVH_SCRUT");
    let base = PathBuf::from(std::env::var("SVH_WORK").expect("SVH_WORK"));
    let mut r = Rng::new(seed.wrapping_add(shard * 71234567));
    let n = (count + nsh - 1 - shard) / nsh;
    for _ in 0..n {
        let cram = r.chance(1, 2);
        let esc = *r.pick(&["-", "-", "ascii", "unicode"]);
        let code = *r.pick(&[0, 0, 0, 1, 3, 255]);
        let out = crate::p_gen::gen_output(&mut r);
        let titled = r.chance(1, 2);
        // --cram-compat with a Markdown document: the Cram defaults are the base, they are written into the header
        let compat = !cram && r.chance(1, 5);
        let dir = tempfile::Builder::new().prefix("createcli.").tempdir_in(&base).unwrap();
        let tmp = dir.path().join("tmp"); std::fs::create_dir_all(&tmp).unwrap();
        let file = if cram { "doc.t" } else { "doc.md" };
        let cmd = command_for(&out, code);
        let mut a: Vec<&str> = vec!["create", "--log-level", "error", "--format", if cram { "cram" } else { "markdown" }, "--output", file];
        if esc != "-" { a.push("--escaping"); a.push(esc); }
        if titled { a.push("--title"); a.push("A title"); }
        if compat { a.push("--cram-compat"); }
        a.push("--"); a.push(&cmd);
        let (ec, _) = run(&scrut, dir.path(), &tmp, &a);
        let doc = std::fs::read(dir.path().join(file)).unwrap_or_default();
        let (et, _) = run(&scrut, dir.path(), &tmp, &["test", "--log-level", "error", file]);
        // a document created under --cram-compat passes with and without that option
        let et = if compat && et == 0 { run(&scrut, dir.path(), &tmp, &["test", "--log-level", "error", "--cram-compat", file]).0 } else { et };
        let left = std::fs::read_dir(&tmp).map(|d| d.count()).unwrap_or(0);
        writeln!(w, "J {} {} {} {} {} {}|{}|create={} test={} leftover={}", if cram { 'c' } else if compat { 'k' } else { 'm' }, esc, hex(cmd.as_bytes()), code, hex(&out),
            if titled { hex(b"A title") } else { hex(b"Command executes successfully") }, hex(&doc), ec, et, left).unwrap();
    }
}
