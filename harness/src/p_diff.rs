//! C01/C02/C03: DiffTool::diff + TestCase::validate on arbitrary match matrices.
//! A custom rule kind `mx` (registered through the public RuleRegistry::register) matches
//! line `L<j>` iff j is in the expression's set, so `matches` realises any boolean matrix.
use std::io::Write;

use scrut::diff::{DiffLine, DiffTool};
use scrut::escaping::Escaper;
use scrut::expectation::{Expectation, ExpectationMaker};
use scrut::output::{ExitStatus, Output};
use scrut::rules::registry::RuleRegistry;
use scrut::rules::rule::Rule;
use scrut::testcase::TestCase;

use crate::rng::Rng;

#[derive(Clone, Debug)]
struct MxRule(Vec<usize>, String);
impl Rule for MxRule {
    fn kind(&self) -> &'static str { "mx" }
    fn matches(&self, line: &[u8]) -> bool {
        let mut l = line;
        while let Some((b'\n', rest)) = l.split_last().map(|(a, b)| (*a, b)) { l = rest; }
        if l.len() < 2 || l[0] != b'L' { return false; }
        match std::str::from_utf8(&l[1..]).ok().and_then(|s| s.parse::<usize>().ok()) {
            Some(j) => self.0.contains(&j),
            None => false,
        }
    }
    fn unmake(&self) -> (String, Vec<u8>) { ("mx".into(), self.1.clone().into_bytes()) }
    fn to_expression_string(&self, _o: bool, _m: bool, _e: &Escaper) -> String { self.1.clone() }
}
fn make_mx(expression: &str) -> anyhow::Result<Box<dyn Rule>> {
    let set = expression.split(',').filter(|s| !s.is_empty()).map(|s| s.parse::<usize>().unwrap()).collect();
    Ok(Box::new(MxRule(set, expression.to_string())))
}

pub struct Case { pub ne: usize, pub nl: usize, pub q: Vec<u8>, pub m: Vec<bool>, pub nlflag: bool }

pub struct Mk([Expectation; 4]);
fn maker() -> Mk {
    let mut reg = RuleRegistry::default();
    reg.register(make_mx, &["mx"]);
    let mk = ExpectationMaker::new(reg);
    // parse once per quantifier (the parser compiles its grammar regex on every call), then swap the rule
    Mk([mk.parse("0 (mx)").unwrap(), mk.parse("0 (mx?)").unwrap(), mk.parse("0 (mx*)").unwrap(), mk.parse("0 (mx+)").unwrap()])
}

pub fn line_bytes(j: usize, last: bool, nlflag: bool) -> Vec<u8> {
    let mut v = format!("L{}", j).into_bytes();
    if !last || nlflag { v.push(b'\n'); }
    v
}

pub fn run_case(mk: &Mk, c: &Case) -> String {
    let mut exps: Vec<Expectation> = vec![];
    for i in 0..c.ne {
        let set: Vec<String> = (0..c.nl).filter(|j| c.m[i * c.nl + j]).map(|j| j.to_string()).collect();
        let qi = match c.q[i] { b'.' => 0, b'?' => 1, b'*' => 2, _ => 3 };
        let mut e = mk.0[qi].clone();
        e.rule = make_mx(&set.join(",")).unwrap();
        exps.push(e);
    }
    let lines: Vec<Vec<u8>> = (0..c.nl).map(|j| line_bytes(j, j + 1 == c.nl, c.nlflag)).collect();
    run_with(&exps, &lines, c)
}

pub fn run_with(exps_in: &[Expectation], lines: &[Vec<u8>], c: &Case) -> String {
    let exps: Vec<Expectation> = exps_in.to_vec();
    let mut out: Vec<u8> = vec![];
    for l in lines { out.extend(l); }
    let enc_lines = |ls: &Vec<(usize, Vec<u8>)>| -> String {
        ls.iter().map(|(j, b)| {
            let ok = *j < c.nl && *b == lines[*j];
            if ok { j.to_string() } else { (j + 1000).to_string() }
        }).collect::<Vec<_>>().join(",")
    };
    let res = std::panic::catch_unwind(std::panic::AssertUnwindSafe(|| {
        let d = DiffTool::new(exps.clone()).diff(&out);
        match d {
            Err(_) => ("E".to_string(), false),
            Ok(d) => {
                let mut s = String::new();
                for l in &d.lines {
                    match l {
                        DiffLine::MatchedExpectation { index, lines, .. } => s.push_str(&format!("M{}:{};", index, enc_lines(lines))),
                        DiffLine::UnmatchedExpectation { index, .. } => s.push_str(&format!("U{};", index)),
                        DiffLine::UnexpectedLines { lines } => s.push_str(&format!("X{};", enc_lines(lines))),
                    }
                }
                if s.is_empty() { s.push('-'); }
                (s, !d.has_differences())
            }
        }
    }));
    let (entries, nodiff) = match res { Ok(x) => x, Err(_) => ("P".to_string(), false) };
    let tc = TestCase { title: "t".into(), shell_expression: "x".into(), expectations: exps, exit_code: None, line_number: 1, config: Default::default() };
    let o = Output { stdout: out.clone().into(), stderr: vec![].into(), exit_code: ExitStatus::Code(0) };
    let v = std::panic::catch_unwind(std::panic::AssertUnwindSafe(|| tc.validate(&o).is_ok())).unwrap_or(false);
    let qs = if c.ne == 0 { "-".to_string() } else { String::from_utf8(c.q.clone()).unwrap() };
    let ms = if c.ne * c.nl == 0 { "-".to_string() } else { c.m.iter().map(|b| if *b { '1' } else { '0' }).collect() };
    format!("{} {} {} {} {}|{}|{}|{}", c.ne, c.nl, qs, ms, c.nlflag as u8, entries, nodiff as u8, v as u8)
}

const QS: [u8; 4] = [b'.', b'?', b'*', b'+'];

fn exhaustive(max_e: usize, max_l: usize, shard: usize, nshards: usize, w: &mut dyn Write) -> u64 {
    let mk = maker();
    let mut idx: u64 = 0;
    let mut n = 0;
    for ne in 0..=max_e {
        for nl in 0..=max_l {
            let nq = 4usize.pow(ne as u32);
            let nm = 1usize << (ne * nl);
            for qi in 0..nq {
                for mi in 0..nm {
                    idx += 1;
                    if (idx as usize) % nshards != shard { continue; }
                    let q: Vec<u8> = (0..ne).map(|i| QS[(qi >> (2 * i)) & 3]).collect();
                    let m: Vec<bool> = (0..ne * nl).map(|b| (mi >> b) & 1 == 1).collect();
                    let c = Case { ne, nl, q, m, nlflag: idx % 3 != 0 };
                    writeln!(w, "{}", run_case(&mk, &c)).unwrap();
                    n += 1;
                }
            }
        }
    }
    n
}

pub fn random_case(r: &mut Rng, max_e: usize, max_l: usize) -> Case {
    let ne = r.range(0, max_e);
    let nl = r.range(0, max_l);
    let style = r.below(6);
    let qstyle = r.below(4);
    let q: Vec<u8> = (0..ne).map(|_| match qstyle {
        0 => b'.',
        1 => if r.chance(1, 4) { *r.pick(&QS) } else { b'.' },
        _ => *r.pick(&QS),
    }).collect();
    let mut m = vec![false; ne * nl];
    // a "reading": assign lines to expectations left to right so many cases are (nearly) described
    let mut owner = vec![usize::MAX; nl];
    if ne > 0 {
        let mut e = 0usize;
        for j in 0..nl {
            if e >= ne { break; }
            owner[j] = e;
            let mul = q[e] == b'*' || q[e] == b'+';
            if !(mul && r.chance(1, 2)) { e += 1; while e < ne && (q[e] == b'?' || q[e] == b'*') && r.chance(1, 3) { e += 1; } }
        }
    }
    for i in 0..ne {
        for j in 0..nl {
            let base = owner[j] == i;
            m[i * nl + j] = match style {
                0 => base,
                1 => base || r.chance(1, 8),
                2 => base != r.chance(1, 10),
                3 => r.chance(1, 2),
                4 => r.chance(1, 5) || (i > 0 && m[(i - 1) * nl + j] && r.chance(1, 2)),
                _ => base || (j > 0 && m[i * nl + j - 1] && r.chance(1, 2)) || r.chance(1, 12),
            };
        }
    }
    if style == 4 && ne > 0 && nl > 0 { let i = r.range(0, ne - 1); for j in 0..nl { m[i * nl + j] = true; } }
    Case { ne, nl, q, m, nlflag: r.chance(3, 4) }
}

pub fn main(args: &[String], w: &mut dyn Write) {
    // args: mode(exh|rand) a b [count] seed shard nshards
    let mode = args[0].as_str();
    match mode {
        "exh" => {
            let (a, b) = (args[1].parse().unwrap(), args[2].parse().unwrap());
            let (shard, nsh) = (args[3].parse().unwrap(), args[4].parse().unwrap());
            exhaustive(a, b, shard, nsh, w);
        }
        "rand" => {
            let (a, b, count, seed): (usize, usize, u64, u64) = (args[1].parse().unwrap(), args[2].parse().unwrap(), args[3].parse().unwrap(), args[4].parse().unwrap());
            let (shard, nsh): (u64, u64) = (args[5].parse().unwrap(), args[6].parse().unwrap());
            let mk = maker();
            let mut r = Rng::new(seed.wrapping_add(shard * 7919));
            for _ in 0..(count / nsh) {
                let c = random_case(&mut r, a, b);
                writeln!(w, "{}", run_case(&mk, &c)).unwrap();
            }
        }
        "text" => {
            // real rules on real text with repeated lines: the match matrix is MEASURED (every expectation against every line,
            // one at a time), the verdict of DiffTool on the whole output must be the model's for that matrix
            let (count, seed): (u64, u64) = (args[1].parse().unwrap(), args[2].parse().unwrap());
            let (shard, nsh): (u64, u64) = (args[3].parse().unwrap(), args[4].parse().unwrap());
            let mk = ExpectationMaker::new(RuleRegistry::default());
            // the last six: twins that print alike (a raw TAB and the two characters backslash-t are both shown as \t) but match different lines
            let pool = ["a", "b", "ab", "a (+)", "b (*)", "- (*)", "a (?)", "? (glob)", "* (glob+)", "a* (glob*)", "[ab]+ (regex+)", "a|b (regex)", "a (no-eol)", "- (no-eol)", "b (equal?)", "- (+)", "ab (*)", "?? (glob?)",
                        "a\tb", "a\\tb", "a\tb (?)", "a\\tb (?)", "a\tb (*)", "a\\tb (+)"];
            let parsed: Vec<Expectation> = pool.iter().map(|p| mk.parse(p).unwrap()).collect();
            let texts: [&[u8]; 7] = [b"a", b"b", b"ab", b"-", b"a", b"a\tb", b"a\\tb"];
            let mut r = Rng::new(seed.wrapping_add(shard * 104729));
            for _ in 0..(count / nsh) {
                let (mut ne, mut nl) = (r.range(0, 5), r.range(0, 7));
                let twins = r.chance(1, 5);   // only the look-alike twins and their two texts
                if twins { ne = r.range(2, 4); nl = r.range(2, 4); }
                let exps: Vec<Expectation> = (0..ne).map(|_| if twins { parsed[18 + r.below(6) as usize].clone() } else { r.pick(&parsed).clone() }).collect();
                let nlflag = r.chance(1, 2);
                let mut lines: Vec<Vec<u8>> = vec![];
                for j in 0..nl {
                    let mut l = if j > 0 && r.chance(1, 2) { let mut p = lines[j - 1].clone(); if p.last() == Some(&b'\n') { p.pop(); } p } else if twins { texts[5 + r.below(2) as usize].to_vec() } else { r.pick(&texts).to_vec() };
                    if j + 1 < nl || nlflag { l.push(b'\n'); }
                    lines.push(l);
                }
                let m: Vec<bool> = exps.iter().flat_map(|e| lines.iter().map(|l| e.matches(l)).collect::<Vec<_>>()).collect();
                let q: Vec<u8> = exps.iter().map(|e| match (e.optional, e.multiline) { (false, false) => b'.', (true, false) => b'?', (true, true) => b'*', (false, true) => b'+' }).collect();
                let c = Case { ne, nl, q, m, nlflag };
                let picked: Vec<String> = exps.iter().map(|e| crate::p_escape::hex(e.original_string().as_bytes())).collect();
                writeln!(w, "{}|{};{}", run_with(&exps, &lines, &c), if picked.is_empty() { "-".to_string() } else { picked.join(",") }, crate::p_escape::hex(&lines.concat())).unwrap();
            }
        }
        "textone" => {
            // replay of a text case: <hex expectation lines, comma separated | ->;<hex output>
            let mk = ExpectationMaker::new(RuleRegistry::default());
            let (es, out) = args[1].split_once(';').unwrap();
            let unhex = |h: &str| -> Vec<u8> { if h == "-" { vec![] } else { (0..h.len() / 2).map(|i| u8::from_str_radix(&h[2 * i..2 * i + 2], 16).unwrap()).collect() } };
            let exps: Vec<Expectation> = if es == "-" { vec![] } else { es.split(',').map(|h| mk.parse(&String::from_utf8(unhex(h)).unwrap()).unwrap()).collect() };
            let out = unhex(out);
            let mut lines: Vec<Vec<u8>> = vec![]; let mut cur = vec![];
            for b in out { cur.push(b); if b == b'\n' { lines.push(std::mem::take(&mut cur)); } }
            let nlflag = cur.is_empty(); if !cur.is_empty() { lines.push(cur); }
            let m: Vec<bool> = exps.iter().flat_map(|e| lines.iter().map(|l| e.matches(l)).collect::<Vec<_>>()).collect();
            let q: Vec<u8> = exps.iter().map(|e| match (e.optional, e.multiline) { (false, false) => b'.', (true, false) => b'?', (true, true) => b'*', (false, true) => b'+' }).collect();
            let c = Case { ne: exps.len(), nl: lines.len(), q, m, nlflag };
            writeln!(w, "{}", run_with(&exps, &lines, &c)).unwrap();
        }
        "one" => {
            // replay: ne nl quants matrix nlflag
            let ne: usize = args[1].parse().unwrap(); let nl: usize = args[2].parse().unwrap();
            let q = if args[3] == "-" { vec![] } else { args[3].clone().into_bytes() };
            let m = if args[4] == "-" { vec![] } else { args[4].bytes().map(|b| b == b'1').collect() };
            let c = Case { ne, nl, q, m, nlflag: args[5] == "1" };
            writeln!(w, "{}", run_case(&maker(), &c)).unwrap();
        }
        _ => panic!("unknown diff mode"),
    }
}
