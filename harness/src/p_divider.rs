//! C13(c): the divider protocol of BashScriptExecutor.  The executor is given a FAKE shell (this binary in `fake-shell`
//! mode): it reads the compiled script from stdin, takes the salt out of it and plays back a scripted byte stream on
//! stdout.  So arbitrary streams -- ideal ones (any payload bytes, with and without final newline, any exit code text)
//! and malformed ones -- reach the real parse_divider_bytes / iterate_divided_output, and the result is compared
//! with the model (split_outputs).
use std::io::{Read, Write};
use std::path::{Path, PathBuf};
use std::time::Duration;

use scrut::config::{DocumentConfig, OutputStreamControl, TestCaseConfig};
use scrut::executors::bash_script_executor::BashScriptExecutor;
use scrut::executors::context::ContextBuilder;
use scrut::executors::executor::Executor;
use scrut::output::ExitStatus;
use scrut::testcase::TestCase;

use crate::p_escape::hex;
use crate::rng::Rng;

/// `svh fake-shell`: stdin = compiled script; env SVH_FAKE_STREAM = file with the stream, `@SALT@` stands for the salt
pub fn fake_shell() {
    let mut script = String::new();
    std::io::stdin().read_to_string(&mut script).ok();
    if let Ok(p) = std::env::var("SVH_FAKE_SCRIPT") { std::fs::write(p, script.as_bytes()).ok(); }
    let salt = regex::Regex::new(r"EXECDIVIDER::([A-Za-z0-9]+)::0::").unwrap().captures(&script).map(|c| c[1].to_string()).unwrap_or_default();
    let tpl = std::fs::read(std::env::var("SVH_FAKE_STREAM").unwrap()).unwrap_or_default();
    let needle = b"@SALT@";
    let mut out = Vec::with_capacity(tpl.len() + 64);
    let mut i = 0;
    while i < tpl.len() { if tpl[i..].starts_with(needle) { out.extend(salt.as_bytes()); i += needle.len(); } else { out.push(tpl[i]); i += 1; } }
    std::io::stdout().write_all(&out).ok();
    std::io::stdout().flush().ok();
    // the status the shell ends with (a script left by `exit <code>`, or the status of its last command)
    std::process::exit(std::env::var("SVH_FAKE_EXIT").ok().and_then(|c| c.parse().ok()).unwrap_or(0));
}

fn payload(r: &mut Rng) -> Vec<u8> {
    let n = r.range(0, 3);
    let mut v = vec![];
    for k in 0..n {
        v.extend(match r.below(12) {
            0 => vec![], 1 => vec![0xff, 0xfe, b'x'], 2 => "é 漢".as_bytes().to_vec(), 3 => b"a\r".to_vec(), 4 => vec![0, 1, 27], 5 => b"~~~~".to_vec(), 6 => b"EXECDIVIDER".to_vec(),
            7 => b"::".to_vec(), 8 => b"~~~~~~~~EXECDIVIDE".to_vec(), 9 => vec![b'a', 0xe2, 0x82],
            _ => { let m = r.range(1, 8); (0..m).map(|_| b'a' + r.below(26) as u8).collect() }
        });
        if k + 1 < n || r.chance(2, 3) { v.push(b'\n'); }
    }
    v
}

pub fn case(r: &mut Rng, work: &Path, fake: &Path) -> String {
    let n = r.range(1, 4);
    let mut stream: Vec<u8> = vec![];
    let malformed = r.below(10);   // 0-5 ideal; 6-9 one deviation
    // the script was left early by the last test case reached (`exit <code>`): its divider and everything after it is missing
    let left_early = r.chance(1, 6);
    let reached = if left_early { r.below(n as u64) as usize } else { n };
    let fake_exit: i32 = if left_early { *r.pick(&[80, 80, 1, 0]) } else { *r.pick(&[0, 0, 0, 1, 80]) };
    let bad_at = r.below(n as u64) as usize;
    for i in 0..n {
        let mut p = payload(r);
        let code = match r.below(11) { 0 => "1".to_string(), 1 => "255".to_string(), 2 => "127".to_string(), 3 => "-1".to_string(), 4 => "+5".to_string(), 5 => "007".to_string(), 8 => "80".to_string(), 9 => r.pick(&["080", "+80", "8", "800"]).to_string(), _ => "0".to_string() };
        let mut idx = i.to_string();
        let mut line = None;
        if i == bad_at {
            match malformed {
                6 => { idx = (i + 1).to_string(); }                                                     // wrong index
                7 => { line = Some(format!("~~~~~~~~EXECDIVIDER::@SALT@::{}\n", i)); }                  // exit code missing
                8 => { p.extend(b"~~~~~~~~EXECDIVIDER::other::0::0\n"); }                               // the prefix inside the payload
                9 => { line = Some(format!("~~~~~~~~EXECDIVIDER::@SALT@::{}::{}\n", i, r.pick(&["", "x", "2147483648", "0 ", "1\r", "-", "- 1"]))); }
                _ => {}
            }
        }
        if i > reached { break; }
        stream.extend(&p);
        if i == reached { break; }
        stream.extend(line.unwrap_or_else(|| format!("~~~~~~~~EXECDIVIDER::@SALT@::{}::{}\n", idx, code)).as_bytes());
    }
    if !left_early && r.chance(1, 6) { stream.extend(b"trailing text without divider\n"); }
    let tpl = work.join("stream.tpl");
    std::fs::write(&tpl, &stream).unwrap();
    std::env::set_var("SVH_FAKE_STREAM", &tpl);
    // the script the executor compiles is dumped by the fake shell: expressions of every shape, streams combined or not, exported variables
    let dump = work.join("script.dump");
    let _ = std::fs::remove_file(&dump);
    std::env::set_var("SVH_FAKE_SCRIPT", &dump);
    std::env::set_var("SVH_FAKE_EXIT", fake_exit.to_string());
    let combined = r.chance(2, 3);
    let mut cfg = TestCaseConfig::empty(); cfg.output_stream = Some(if combined { OutputStreamControl::Combined } else { OutputStreamControl::Stdout }); cfg.keep_crlf = Some(true);
    if r.chance(1, 3) { for _ in 0..r.range(1, 3) { cfg.environment.insert(format!("K{}", r.below(4)), r.pick(&["v", "a b", "it's", "", "x!y", "é", "a=b,c/d.e+f-g_h", "$HOME `x`"]).to_string()); } }
    let exprs: Vec<String> = (0..n).map(|i| match r.below(8) {
        0 => format!("echo {}", i), 1 => "printf 'a\\nb'".to_string(), 2 => "cat <<EOF\nline\nEOF".to_string(), 3 => "echo \"q\" 'r' \\".to_string(),
        4 => "first\n\nthird  ".to_string(), 5 => "é 漢 😂".to_string(), 6 => "echo '~~~~EXECDIVIDE'".to_string(), _ => format!("true {}\n", i) }).collect();
    let tcs: Vec<TestCase> = (0..n).map(|i| TestCase { title: "t".into(), shell_expression: exprs[i].clone(), expectations: vec![], exit_code: None, line_number: 1, config: cfg.clone() }).collect();
    let refs: Vec<&TestCase> = tcs.iter().collect();
    let mut doc = DocumentConfig::empty(); doc.total_timeout = Some(Duration::from_secs(20));
    let ctx = ContextBuilder::default().work_directory(work.to_path_buf()).temp_directory(work.to_path_buf()).file(PathBuf::from("d.t")).config(doc).build().unwrap();
    let res = std::panic::catch_unwind(std::panic::AssertUnwindSafe(|| BashScriptExecutor::new(fake).execute_all(&refs, &ctx)));
    let out = match res {
        Err(_) => "panic".to_string(),
        Ok(Err(scrut::executors::error::ExecutionError::Skipped(i))) => format!("skip:{}", i),
        Ok(Err(_)) => "err".to_string(),
        Ok(Ok(outs)) => if outs.is_empty() { "-".to_string() } else { outs.iter().map(|o| format!("{}:{}", match o.exit_code { ExitStatus::Code(c) => c.to_string(), _ => "x".into() }, hex(&o.stdout.to_bytes()))).collect::<Vec<_>>().join(",") },
    };
    // the stream as the executor saw it, with a fixed stand-in for the salt (the model only needs it to be colon-free)
    let seen: Vec<u8> = String::from_utf8_lossy(&stream).replace("@SALT@", "SALTsalt0123456789ab").into_bytes();
    let seen = if std::str::from_utf8(&stream).is_ok() { seen } else {
        let mut o = vec![]; let mut i = 0; while i < stream.len() { if stream[i..].starts_with(b"@SALT@") { o.extend(b"SALTsalt0123456789ab"); i += 6; } else { o.push(stream[i]); i += 1; } } o };
    let script = std::fs::read(&dump).unwrap_or_default();
    let salt = regex::bytes::Regex::new(r"EXECDIVIDER::([A-Za-z0-9]+)::0::").unwrap().captures(&script).map(|c| c[1].to_vec()).unwrap_or_default();
    let script_n = if salt.is_empty() { script.clone() } else {
        let mut o = vec![]; let mut i = 0; while i < script.len() { if script[i..].starts_with(&salt) { o.extend(b"SALTsalt0123456789ab"); i += salt.len(); } else { o.push(script[i]); i += 1; } } o };
    let env_s = if cfg.environment.is_empty() { "-".to_string() } else { cfg.environment.iter().map(|(k, v)| format!("{}:{}", hex(k.as_bytes()), hex(v.as_bytes()))).collect::<Vec<_>>().join(",") };
    format!("F {} {} {}|{}\nC {}|{}|{}|{}", n, fake_exit, hex(&seen), out, combined as u8, env_s, exprs.iter().map(|e| hex(e.as_bytes())).collect::<Vec<_>>().join(","), hex(&script_n))
}

pub fn main(args: &[String], w: &mut dyn Write) {
    let count: u64 = args[0].parse().unwrap();
    let seed: u64 = args[1].parse().unwrap();
    let (shard, nsh): (u64, u64) = (args[2].parse().unwrap(), args[3].parse().unwrap());
    let base = PathBuf::from(std::env::var("SVH_WORK").expect("SVH_WORK"));
    let work = tempfile::Builder::new().prefix("p_div.").tempdir_in(&base).unwrap();
    let fake = work.path().join("fake-shell.sh");
    std::fs::write(&fake, format!("#!/bin/bash\nexec {} fake-shell\n", std::env::current_exe().unwrap().display())).unwrap();
    use std::os::unix::fs::PermissionsExt;
    std::fs::set_permissions(&fake, std::fs::Permissions::from_mode(0o755)).unwrap();
    let mut r = Rng::new(seed.wrapping_add(shard * 67867967));
    for _ in 0..((count + nsh - 1 - shard) / nsh) { writeln!(w, "{}", case(&mut r, work.path(), &fake)).unwrap(); }
}
