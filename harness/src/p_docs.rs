//! C07 (Cram) and C06 (Markdown): documents built from the grammar (AST first, then rendered) and malformed soups,
//! through the real parsers.
use std::io::Write;
use std::sync::Arc;

use scrut::expectation::ExpectationMaker;
use scrut::parsers::cram::{CramParser, DEFAULT_CRAM_INDENTION};
use scrut::parsers::markdown::MarkdownParser;
use scrut::parsers::parser::Parser;
use scrut::rules::registry::RuleRegistry;
use scrut::testcase::TestCase;

use crate::p_escape::hex;
use crate::rng::Rng;

pub fn show_tests(tcs: &[TestCase]) -> String {
    if tcs.is_empty() { return "ok:-".into(); }
    format!("ok:{}", tcs.iter().map(|t| format!("{}^{}^{}^{}^{}^{}", hex(t.title.as_bytes()), hex(t.shell_expression.as_bytes()),
        if t.expectations.is_empty() { "_".to_string() } else { t.expectations.iter().map(|e| hex(e.original_string().as_bytes())).collect::<Vec<_>>().join("+") },
        t.exit_code.map_or("-".to_string(), |c| c.to_string()), t.line_number, crate::p_config::show_tc(&t.config).replace(' ', "~"))).collect::<Vec<_>>().join("&"))
}

// ---------------------------------------------------------------- Cram
#[derive(Clone)]
enum BLine { Exp(String), Code(String) }
#[derive(Clone)]
enum Block { Title(String), Comment(String), Blank, Test(String, Vec<String>, Vec<BLine>) }

fn word(r: &mut Rng) -> String { r.pick(&["foo", "bar baz", "é ü", "x", "a  b", "hello world ", "  lead", "tab\there", "日本"]).to_string() }
fn gen_exp(r: &mut Rng, first: bool) -> String {
    loop {
        let e = match r.below(16) {
            0 => "".to_string(), 1 => " ".to_string(), 2 => "   ".to_string(), 3 => "$".to_string(), 4 => "$x".to_string(), 5 => " $ x".to_string(),
            6 => "> x".to_string(), 7 => ">".to_string(), 8 => "[x]".to_string(), 9 => "[1] ".to_string(), 10 => "# not a comment".to_string(),
            11 => format!("{} (glob)", word(r)), 12 => format!("{} (re?)", word(r)), 13 => "[99999999999]".to_string(), 14 => format!("{} (*)", word(r)),
            _ => word(r),
        };
        if e.starts_with("$ ") { continue; }
        if first && e.starts_with("> ") { continue; }
        return e;
    }
}
fn gen_cram(r: &mut Rng) -> Vec<Block> {
    let n = r.range(0, 10);
    let mut d = vec![];
    for _ in 0..n {
        match r.below(10) {
            0 | 1 => { let t = match r.below(6) { 0 => " one space".to_string(), 1 => "$ not a command".to_string(), 2 => "> x".to_string(), 3 => "[1]".to_string(), _ => word(r) };
                       if t.is_empty() || t.starts_with('#') || t.starts_with("  ") { continue; } d.push(Block::Title(t)); }
            2 => d.push(Block::Comment(format!("#{}", r.pick(&["", " comment", "  $ echo no", "!"])))),
            3 | 4 => d.push(Block::Blank),
            _ => {
                let cmd = r.pick(&["echo foo", "true", "printf 'a\\nb'", "ls -la  ", "(exit 3)", "echo $ x", "", " spaced"]).to_string();
                let conts: Vec<String> = (0..(if r.chance(1, 4) { r.range(1, 2) } else { 0 })).map(|_| r.pick(&["more", " indented", "", "> nested"]).to_string()).collect();
                let mut body = vec![]; let mut has_code = false;
                let k = r.range(0, 4);
                for i in 0..k {
                    if !has_code && r.chance(1, 5) { has_code = true; body.push(BLine::Code(r.pick(&["0", "1", "3", "80", "255", "007", "2147483647", "00"]).to_string())); }
                    else { body.push(BLine::Exp(gen_exp(r, i == 0))); }
                }
                d.push(Block::Test(cmd, conts, body));
            }
        }
    }
    d
}
fn render_cram(d: &[Block]) -> Vec<String> {
    let mut out = vec![];
    for b in d {
        match b {
            Block::Title(t) | Block::Comment(t) => out.push(t.clone()), Block::Blank => out.push(String::new()),
            Block::Test(c, conts, body) => {
                out.push(format!("  $ {}", c));
                for x in conts { out.push(format!("  > {}", x)); }
                for x in body { match x { BLine::Exp(e) => out.push(format!("  {}", e)), BLine::Code(n) => out.push(format!("  [{}]", n)) } }
            }
        }
    }
    out
}
fn ser_cram(d: &[Block]) -> String {
    if d.is_empty() { return "-".into(); }
    d.iter().map(|b| match b {
        Block::Title(t) => format!("T{}", hex(t.as_bytes())), Block::Comment(t) => format!("C{}", hex(t.as_bytes())), Block::Blank => "B".to_string(),
        Block::Test(c, conts, body) => format!("X{}{}/{}", hex(c.as_bytes()), conts.iter().map(|x| format!(",{}", hex(x.as_bytes()))).collect::<String>(),
            if body.is_empty() { "-".to_string() } else { body.iter().map(|x| match x { BLine::Exp(e) => format!("E{}", hex(e.as_bytes())), BLine::Code(n) => format!("N{}", n) }).collect::<Vec<_>>().join(",") }),
    }).collect::<Vec<_>>().join(";")
}
fn join_lines(r: &mut Rng, lines: &[String]) -> String {
    let crlf = r.chance(1, 8);
    let mut s = lines.join(if crlf { "\r\n" } else { "\n" });
    if !lines.is_empty() && (r.chance(4, 5) || lines[lines.len() - 1].is_empty()) { s.push_str(if crlf { "\r\n" } else { "\n" }); }
    s
}
fn soup_cram(r: &mut Rng) -> String {
    let n = r.range(0, 8);
    let alpha = ["", " ", "  ", "   x", "  $", "  $ ", "  $ cmd", "  > x", "  >", "  [1]", "  [2]", "  [x]", "title", "# c", "  # e", "  foo (regex", "  a (escaped)", "  \\x (escaped)", "$ x", "> y", "\t$ z", "  foo ()", "  a|b (regex)"];
    let lines: Vec<String> = (0..n).map(|_| r.pick(&alpha).to_string()).collect();
    join_lines(r, &lines)
}

pub fn cram_case(p: &CramParser, ast: &str, text: &str) -> String {
    let res = std::panic::catch_unwind(std::panic::AssertUnwindSafe(|| p.parse(text)));
    let out = match res { Err(_) => "panic".to_string(), Ok(Err(_)) => "err".into(), Ok(Ok((_, tcs))) => show_tests(&tcs) };
    format!("K {}|{}|{}", ast, hex(text.as_bytes()), out)
}

pub fn main(args: &[String], w: &mut dyn Write) {
    let mk = Arc::new(ExpectationMaker::new(RuleRegistry::default()));
    let which = args[0].as_str();
    let count: u64 = args[1].parse().unwrap(); let seed: u64 = args[2].parse().unwrap();
    let (shard, nsh): (u64, u64) = (args[3].parse().unwrap(), args[4].parse().unwrap());
    let mut r = Rng::new(seed.wrapping_add(shard * 32416190071));
    match which {
        "cram" => {
            let p = CramParser::new(mk.clone(), DEFAULT_CRAM_INDENTION);
            for i in 0..(count / nsh) {
                if i % 4 == 3 { let t = soup_cram(&mut r); writeln!(w, "{}", cram_case(&p, "~", &t)).unwrap(); }
                else { let d = gen_cram(&mut r); let lines = render_cram(&d); let t = join_lines(&mut r, &lines); writeln!(w, "{}", cram_case(&p, &ser_cram(&d), &t)).unwrap(); }
            }
        }
        "md" => { let _ = MarkdownParser::new(mk.clone(), &["scrut"], None); crate::p_md::main(&mk, count / nsh, &mut r, w); }
        _ => panic!("docs kind"),
    }
}
