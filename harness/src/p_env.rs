//! C18 end to end: the real `scrut test` binary (built from /repo) with real bash.  One case = 1-3 scrut processes running
//! at the same time with the same TMPDIR; every test case appends a probe line (cwd + the documented variables) to a file
//! outside TMPDIR and drops files into its work directory and into $TMPDIR.  Observed: what each test case saw, the exit
//! status of each process, what is left in TMPDIR (and in a directory given with --work-directory) afterwards.
use std::io::Write;
use std::path::{Path, PathBuf};
use std::process::{Command, Stdio};

use crate::p_escape::hex;
use crate::rng::Rng;

#[derive(Clone, Debug)]
struct Doc { cram: bool, sub: &'static str, name: String, tests: Vec<char>, bad_prepend: bool, linked: bool }
#[derive(Clone, Debug)]
struct Proc { flag: char, abort: char, docs: Vec<Doc> }   // flag: d default, w --work-directory, k --keep-temporary-directories; abort: - none, u unparsable main document, s unusable shell

const PROBE: &str = "printf '%s|%s|%s|%s|%s|%s|%s|%s|%s|%s|%s|%s|%s|%s|%s|%s\\n' \"@ID@\" \"$PWD\" \"$TESTDIR\" \"$TESTFILE\" \"$TMPDIR\" \"$TESTSHELL\" \"$LANG\" \"$LANGUAGE\" \"$LC_ALL\" \"$TZ\" \"$COLUMNS\" \"${CDPATH-unset}\" \"${GREP_OPTIONS-unset}\" \"${SCRUT_TEST-unset}\" \"${CRAMTMP-unset}\" \"$([ -d \"$TMPDIR\" ] && echo yes || echo no)\" >> @PROBES@; echo x > made-by-@ID@; mkdir -p sub-@ID@/deep";
const TMPWRITE: &str = "; echo y > \"$TMPDIR/t-@ID@\"";

fn cmd_for(kind: char, id: &str, probes: &Path) -> (String, Vec<String>, Option<&'static str>) {
    // (shell expression, expectation lines, inline config)
    let mut p = PROBE.replace("@ID@", id).replace("@PROBES@", &probes.display().to_string());
    if kind != 'N' { p.push_str(&TMPWRITE.replace("@ID@", id)); }
    match kind {
        'N' => (format!("{}; sleep 0.25; printf '%s|late|%s\\n' \"{}\" \"$([ -d \"$TMPDIR\" ] && echo yes || echo no)\" >> {}; echo foo", p, id, probes.display()), vec!["foo".into()], None),
        'P' => (format!("{}; echo foo", p), vec!["foo".into()], None),
        // the test case's own configuration names the variables scrut documents as set by scrut: scrut's values must still be the ones seen
        'V' => (format!("{}; echo foo", p), vec!["foo".into()], Some("environment: {TESTDIR: \"/bogus\", TESTFILE: \"bogus.md\", TMPDIR: \"/bogus-tmp\", TESTSHELL: \"/bin/false\", LANG: \"xx_XX\", LANGUAGE: \"xx\", LC_ALL: \"xx_XX\", TZ: \"XXX\", COLUMNS: \"7\", CDPATH: \"/x\", GREP_OPTIONS: \"-v\"}")),
        'O' => (format!("{}; echo foo", p), vec!["bar".into()], None),
        'C' => (format!("{}; echo foo; (exit 3)", p), vec!["foo".into()], None),
        'S' => (format!("{}; (exit 80)", p), vec![], None),
        'T' => (format!("{}; sleep 1.5", p), vec![], Some("timeout: 300ms")),
        // a shell that ignores SIGTERM: being aborted must not depend on its cooperation
        'Z' => (format!("trap '' TERM; {}; sleep 1.5", p), vec![], Some("timeout: 300ms")),
        _ => unreachable!(),
    }
}

fn render(d: &Doc, pi: usize, di: usize, probes: &Path) -> String {
    let mut s = String::new();
    if d.bad_prepend { s.push_str("---\nprepend: [\"unparsable-prepended.md\"]\n---\n\n"); }
    for (ti, k) in d.tests.iter().enumerate() {
        let id = format!("P{}D{}T{}", pi, di, ti);
        let (cmd, exps, cfg) = cmd_for(*k, &id, probes);
        if d.cram {
            s.push_str(&format!("test {}\n  $ {}\n", id, cmd));
            for e in exps { s.push_str(&format!("  {}\n", e)); }
            s.push('\n');
        } else {
            s.push_str(&format!("# test {}\n\n", id));
            match cfg { Some(c) => s.push_str(&format!("```scrut {{{}}}\n", c)), None => s.push_str("```scrut\n") }
            s.push_str(&format!("$ {}\n", cmd));
            for e in exps { s.push_str(&format!("{}\n", e)); }
            s.push_str("```\n\n");
        }
    }
    s
}

fn gen_proc(r: &mut Rng, flag: char, quiet: bool) -> Proc {
    let ndocs = r.range(1, 3);
    let abort = if quiet { '-' } else { match r.below(12) { 0 => 'u', 1 => 's', _ => '-' } };
    let same_name = r.chance(1, 2);
    let mut docs = vec![];
    for i in 0..ndocs {
        let cram = !quiet && r.chance(1, 3);
        let sub = *r.pick(&["", "a", "b", "a/deep"]);
        let name = if same_name { format!("doc.{}", if cram { "t" } else { "md" }) } else { format!("doc{}.{}", i, if cram { "t" } else { "md" }) };
        let n = r.range(1, 3);
        let style = r.below(6);
        let mut tests = vec![];
        let mut slow = false;
        for _ in 0..n {
            tests.push(match style {
                0 | 1 => 'P',
                2 => *r.pick(&['P', 'O', 'C']),
                3 => *r.pick(&['P', 'S']),
                4 => if !cram && !slow && r.chance(1, 3) { slow = true; if r.chance(1, 2) { 'T' } else { 'Z' } } else { 'P' },
                _ => *r.pick(&['P', 'O', 'C', 'S']),
            });
            if !quiet && !cram { let l = tests.len(); if tests[l - 1] == 'P' && r.chance(1, 4) { tests[l - 1] = 'V'; } }
            if quiet { let l = tests.len(); tests[l - 1] = 'N'; }
        }
        let bad_prepend = !quiet && !cram && r.chance(1, 14);
        docs.push(Doc { cram, sub, name, tests, bad_prepend, linked: !bad_prepend && r.chance(1, 8) });
    }
    // identical (sub, name) pairs cannot exist on disk: move duplicates into numbered directories
    let mut seen: Vec<(String, String)> = vec![];
    let mut docs2 = vec![];
    for mut d in docs {
        let mut k = 0;
        let subs = ["", "a", "b", "a/deep", "c", "d", "e"];
        while seen.contains(&(d.sub.to_string(), d.name.clone())) { d.sub = subs[k % subs.len()]; k += 1; }
        seen.push((d.sub.to_string(), d.name.clone()));
        docs2.push(d);
    }
    Proc { flag, abort, docs: docs2 }
}

fn list(dir: &Path) -> Vec<String> {
    let mut v: Vec<String> = std::fs::read_dir(dir).map(|d| d.filter_map(|e| e.ok()).map(|e| e.file_name().to_string_lossy().to_string()).collect()).unwrap_or_default();
    v.sort();
    v
}

pub fn run_case(r: &mut Rng, scrut: &str, base: &Path, bash: &str) -> String {
    let dir = tempfile::Builder::new().prefix("env.").tempdir_in(base).unwrap();
    let root = std::fs::canonicalize(dir.path()).unwrap();
    let tmpdir = root.join("tmp");
    std::fs::create_dir_all(&tmpdir).unwrap();
    let flag = *r.pick(&['d', 'd', 'd', 'w', 'w', 'k']);
    let nproc = *r.pick(&[1usize, 1, 2, 3]);
    // several processes may be given the SAME work directory: each must only ever remove its own temp.*
    let shared = flag == 'w' && nproc > 1 && r.chance(1, 2);
    let procs: Vec<Proc> = (0..nproc).map(|_| gen_proc(r, flag, shared)).collect();
    let mut children = vec![];
    let mut descr = vec![];
    for (pi, p) in procs.iter().enumerate() {
        let pdir = root.join(format!("p{}", pi));
        std::fs::create_dir_all(&pdir).unwrap();
        std::fs::write(pdir.join("unparsable-prepended.md"), "```scrut\n$ true\n[1]\n[2]\n```\n").unwrap();
        let probes = pdir.join("probes");
        let mut args: Vec<String> = vec![];
        for (di, d) in p.docs.iter().enumerate() {
            let ddir = if d.sub.is_empty() { pdir.clone() } else { pdir.join(d.sub) };
            std::fs::create_dir_all(&ddir).unwrap();
            if d.bad_prepend && !d.sub.is_empty() { std::fs::write(ddir.join("unparsable-prepended.md"), "```scrut\n$ true\n[1]\n[2]\n```\n").unwrap(); }
            if d.linked {
                // the document that is run is a symbolic link; what it points to lives elsewhere under another name
                let store = pdir.join("store");
                std::fs::create_dir_all(&store).unwrap();
                let real = store.join(format!("real{}.{}", di, if d.cram { "t" } else { "md" }));
                std::fs::write(&real, render(d, pi, di, &probes)).unwrap();
                std::os::unix::fs::symlink(&real, ddir.join(&d.name)).unwrap();
            } else {
                std::fs::write(ddir.join(&d.name), render(d, pi, di, &probes)).unwrap();
            }
            args.push(if d.sub.is_empty() { d.name.clone() } else { format!("{}/{}", d.sub, d.name) });
        }
        if p.abort == 'u' { std::fs::write(pdir.join("zz-unparsable.md"), "```scrut\n$ true\n[1]\n[2]\n```\n").unwrap(); args.push("zz-unparsable.md".into()); }
        let mut cmd = Command::new(scrut);
        cmd.current_dir(&pdir).env("TMPDIR", &tmpdir).env("NO_COLOR", "1").env_remove("SCRUT_TEST").arg("test").arg("--log-level").arg("error").arg("-r").arg("json");
        let wd = if shared { root.join("shared-workdir") } else { pdir.join("given-workdir") };
        match p.flag {
            'w' => { std::fs::create_dir_all(&wd).unwrap(); std::fs::write(wd.join("pre-existing"), "keep me").unwrap(); cmd.arg("--work-directory").arg(&wd); }
            'k' => { cmd.arg("--keep-temporary-directories"); }
            _ => {}
        }
        if p.abort == 's' { let sh = pdir.join("not-executable.sh"); std::fs::write(&sh, "#!/bin/bash\n").unwrap(); cmd.arg("--shell").arg(&sh); }
        for a in &args { cmd.arg(a); }
        cmd.stdout(Stdio::null()).stderr(Stdio::null());
        children.push((cmd.spawn().expect("spawn scrut"), pdir.clone(), wd));
        if shared { std::thread::sleep(std::time::Duration::from_millis(120)); }
        descr.push(format!("{}{}:{}", if shared { 'W' } else { p.flag }, p.abort, p.docs.iter().map(|d| format!("{}{}{}/{}/{}", if d.cram { 'c' } else { 'm' }, if d.bad_prepend { "!" } else if d.linked { "@" } else { "" },
            d.tests.iter().collect::<String>(), hex(d.sub.as_bytes()), hex(d.name.as_bytes()))).collect::<Vec<_>>().join(",")));
    }
    let mut results = vec![];
    let mut done = vec![];
    let started = std::time::Instant::now();
    for (mut ch, pdir, wd) in children { let st = ch.wait().expect("wait"); done.push((st, pdir, wd)); }
    // a command that ran into its timeout must have been aborted: were it still running, its shell would write its state
    // (and re-create the directories for it) when the command ends -- look only after that moment
    if procs.iter().any(|p| p.docs.iter().any(|d| d.tests.contains(&'T') || d.tests.contains(&'Z'))) {
        let until = std::time::Duration::from_millis(1900);
        if started.elapsed() < until { std::thread::sleep(until - started.elapsed()); }
    }
    // listings are taken when every process has ended (a shared work directory holds the temp.* of those still running)
    for (st, pdir, wd) in done {
        let probes = std::fs::read_to_string(pdir.join("probes")).unwrap_or_default();
        let plines: Vec<String> = probes.lines().map(|l| hex(l.as_bytes())).collect();
        let wl = if wd.exists() { list(&wd).join(",") } else { "~".to_string() };
        results.push(format!("exit={}/{}/{}", st.code().unwrap_or(-1), if plines.is_empty() { "-".to_string() } else { plines.join(",") }, if wl.is_empty() { "-".to_string() } else { wl }));
    }
    std::thread::sleep(std::time::Duration::from_millis(30));
    let left = list(&tmpdir);
    format!("W {}|{}|{}|{}|{}|{}", hex(root.display().to_string().as_bytes()), hex(bash.as_bytes()), descr.join(";"), results.join(";"),
        if left.is_empty() { "-".to_string() } else { left.join(",") }, left.len())
}

pub fn main(args: &[String], w: &mut dyn Write) {
    let count: u64 = args[0].parse().unwrap();
    let seed: u64 = args[1].parse().unwrap();
    let (shard, nsh): (u64, u64) = (args[2].parse().unwrap(), args[3].parse().unwrap());
    let scrut = std::env::var("SVH_SCRUT").expect("SVH_SCRUT");
    let base = PathBuf::from(std::env::var("SVH_WORK").expect("SVH_WORK"));
    let bash = String::from_utf8_lossy(&Command::new("bash").arg("-c").arg("command -v bash").output().expect("bash").stdout).trim().to_string();
    let bash = std::fs::canonicalize(&bash).map(|p| p.display().to_string()).unwrap_or(bash);
    let mut r = Rng::new(seed.wrapping_add(shard * 15485863));
    let n = (count + nsh - 1 - shard) / nsh;
    for _ in 0..n {
        writeln!(w, "{}", run_case(&mut r, &scrut, &base, &bash)).unwrap();
    }
}
