//! C05/C14/C15 (executor level): the real StatefulExecutor::execute_all driven by a scripted mock Runner that records
//! the configuration every test case is finally run with (effective timeout, skip code, SCRUT_TEST, name).
use std::cell::RefCell;
use std::io::Write;
use std::path::{Path, PathBuf};
use std::rc::Rc;
use std::time::Duration;

use scrut::config::{DocumentConfig, TestCaseConfig};
use scrut::executors::context::{Context, ContextBuilder};
use scrut::executors::error::{ExecutionError, ExecutionTimeout};
use scrut::executors::executor::Executor;
use scrut::executors::runner::Runner;
use scrut::executors::stateful_executor::StatefulExecutor;
use scrut::output::{ExitStatus, Output};
use scrut::testcase::TestCase;

use crate::rng::Rng;

#[derive(Clone, Debug)]
pub enum St { Code(i32), Timeout, Skipped, Detached, Unknown, Err }

#[derive(Default)]
struct Shared { script: Vec<(St, u64)>, calls: usize, obs: Vec<String> }

struct Mock(Rc<RefCell<Shared>>, PathBuf);
impl Runner for Mock {
    fn run(&self, name: &str, testcase: &TestCase, context: &Context) -> anyhow::Result<Output> {
        let mut sh = self.0.borrow_mut();
        let i = sh.calls;
        sh.calls += 1;
        let (st, sleep) = sh.script.get(i).cloned().unwrap_or((St::Unknown, 0));
        let to = testcase.config.timeout.map_or("-".to_string(), |d| d.as_millis().to_string());
        let want = format!("{}:{}", context.file.to_string_lossy(), testcase.line_number);
        let st_ok = testcase.config.environment.get("SCRUT_TEST") == Some(&want);
        let state_ok = self.1.starts_with(&context.temp_directory) && self.1.is_dir();
        sh.obs.push(format!("{}/{}/{}/{}{}{}", name, to, testcase.config.get_skip_document_code(), st_ok as u8, state_ok as u8,
            crate::p_config::show_tc(&testcase.config.without_environment(&[("SCRUT_TEST", want.as_str())].into_iter().collect())).replace(' ', "~")));
        drop(sh);
        if sleep > 0 { std::thread::sleep(Duration::from_millis(sleep)); }
        let status = match st {
            St::Code(c) => ExitStatus::Code(c),
            St::Timeout => ExitStatus::Timeout(Duration::from_millis(7)),
            St::Skipped => ExitStatus::Skipped,
            St::Detached => ExitStatus::Detached,
            St::Unknown => ExitStatus::Unknown,
            St::Err => anyhow::bail!("scripted runner error"),
        };
        Ok(Output { stdout: format!("out{}\n", i).into_bytes().into(), stderr: vec![].into(), exit_code: status })
    }
}

fn show_status(s: &ExitStatus) -> String {
    match s { ExitStatus::Code(c) => format!("C{}", c), ExitStatus::Timeout(d) => format!("T{}", d.as_millis()), ExitStatus::Skipped => "S".into(), ExitStatus::Detached => "D".into(), ExitStatus::Unknown => "U".into() }
}
fn show_outs(o: &[Output]) -> String {
    if o.is_empty() { return "-".into(); }
    o.iter().map(|x| format!("{}{}", show_status(&x.exit_code), if x.stdout.to_bytes().is_empty() { "e" } else { "o" })).collect::<Vec<_>>().join(",")
}

pub struct ExecCase { pub tcs: Vec<(TestCaseConfig, St, u64)>, pub doc: DocumentConfig }

pub fn run_exec(c: &ExecCase, tmp: &Path) -> String {
    let shared = Rc::new(RefCell::new(Shared { script: c.tcs.iter().map(|t| (t.1.clone(), t.2)).collect(), calls: 0, obs: vec![] }));
    let sh2 = shared.clone();
    let exec = StatefulExecutor::new(Box::new(move |p: &Path| Box::new(Mock(sh2.clone(), p.to_path_buf())) as Box<dyn Runner>));
    let tcs: Vec<TestCase> = c.tcs.iter().enumerate().map(|(i, t)| TestCase {
        title: "t".into(), shell_expression: format!("cmd{}", i), expectations: vec![], exit_code: None, line_number: 10 + i, config: t.0.clone() }).collect();
    let refs: Vec<&TestCase> = tcs.iter().collect();
    let ctx = ContextBuilder::default().work_directory(tmp.to_path_buf()).temp_directory(tmp.to_path_buf())
        .file(PathBuf::from("doc.md")).config(c.doc.clone()).build().unwrap();
    let res = std::panic::catch_unwind(std::panic::AssertUnwindSafe(|| exec.execute_all(&refs, &ctx)));
    let r = match res {
        Err(_) => "PANIC".to_string(),
        Ok(Ok(outs)) => format!("OK {}", show_outs(&outs)),
        Ok(Err(ExecutionError::Skipped(i))) => format!("SKIP {}", i),
        Ok(Err(ExecutionError::Timeout(ExecutionTimeout::Total, outs))) => format!("TIMEOUT T {}", show_outs(&outs)),
        Ok(Err(ExecutionError::Timeout(ExecutionTimeout::Index(i), outs))) => format!("TIMEOUT I{} {}", i, show_outs(&outs)),
        Ok(Err(ExecutionError::FailedExecution { index, .. })) => format!("FAILED {}", index),
        Ok(Err(ExecutionError::AbortedExecutions { .. })) => "ABORT".to_string(),
    };
    let obs = shared.borrow().obs.join("+");
    // leftover state directories?
    let left = std::fs::read_dir(tmp).map(|d| d.count()).unwrap_or(99);
    let inp = c.tcs.iter().map(|t| format!("{}~st={}~sl={}", crate::p_config::show_tc(&t.0).replace(' ', "~"),
        match &t.1 { St::Code(c) => format!("C{}", c), St::Timeout => "T".into(), St::Skipped => "S".into(), St::Detached => "D".into(), St::Unknown => "U".into(), St::Err => "E".into() }, t.2)).collect::<Vec<_>>().join(";");
    format!("X {}|{}|{}|{}|left={}", if inp.is_empty() { "-".to_string() } else { inp }, crate::p_config::show_doc(&c.doc), r, if obs.is_empty() { "-".to_string() } else { obs }, left)
}

pub fn gen_case(r: &mut Rng) -> ExecCase {
    let n = r.range(0, 6);
    let mut doc = DocumentConfig::empty();
    match r.below(5) { 0 => {}, 1 => doc.total_timeout = Some(Duration::from_millis(0)), _ => doc.total_timeout = Some(Duration::from_millis(3500 + 1000 * r.below(6))) }
    if r.chance(1, 3) { doc.defaults.skip_document_code = Some(*r.pick(&[1, 2, 3, 80])); }
    if r.chance(1, 4) { doc.defaults.timeout = Some(Duration::from_millis(*r.pick(&[1000u64, 6000, 20000]))); }
    if r.chance(1, 4) { doc.defaults.environment.insert("K1".into(), "V1".into()); }
    if r.chance(1, 5) { doc.defaults.keep_crlf = Some(true); }
    let style = r.below(4);
    let mut tcs = vec![];
    for _ in 0..n {
        let mut c = TestCaseConfig::empty();
        if r.chance(1, 3) { c.timeout = Some(Duration::from_millis(*r.pick(&[1000u64, 2000, 6000, 12000, 1000000]))); }
        if r.chance(1, 4) { c.skip_document_code = Some(*r.pick(&[1, 2, 3, 80])); }
        if r.chance(1, 5) { c.environment.insert(format!("K{}", r.below(3)), "V2".into()); }
        if r.chance(1, 6) { c.detached = Some(true); }
        let st = match style {
            0 => St::Code(*r.pick(&[0, 0, 0, 1, 2])),
            1 => match r.below(12) { 0 => St::Timeout, 1 => St::Code(80), 2 => St::Detached, _ => St::Code(*r.pick(&[0, 1, 2, 3])) },
            _ => match r.below(14) { 0 => St::Timeout, 1 => St::Skipped, 2 => St::Detached, 3 => St::Unknown, 4 => St::Err, 5 => St::Code(80), _ => St::Code(*r.pick(&[0, 0, 1, 2, 3, 80, 255])) },
        };
        let sleep = if r.chance(1, 12) { 20 + r.below(40) } else { 0 };
        tcs.push((c, st, sleep));
    }
    ExecCase { tcs, doc }
}

/// TestCase::validate on every combination of status x expected code x stream selection x stream contents
pub fn validate_main(_args: &[String], w: &mut dyn Write) {
    use scrut::config::OutputStreamControl;
    use scrut::expectation::ExpectationMaker;
    use scrut::rules::registry::RuleRegistry;
    use scrut::testcase::TestCaseError;
    let mk = ExpectationMaker::new(RuleRegistry::default());
    let exps = vec![mk.parse("good").unwrap()];
    let statuses: Vec<(String, ExitStatus)> = vec![("C0".into(), ExitStatus::Code(0)), ("C1".into(), ExitStatus::Code(1)), ("C3".into(), ExitStatus::Code(3)),
        ("C80".into(), ExitStatus::Code(80)), ("C-1".into(), ExitStatus::Code(-1)), ("C255".into(), ExitStatus::Code(255)),
        ("T".into(), ExitStatus::Timeout(Duration::from_millis(5))), ("S".into(), ExitStatus::Skipped), ("D".into(), ExitStatus::Detached), ("U".into(), ExitStatus::Unknown)];
    for (sname, st) in &statuses {
        for expected in [None, Some(0), Some(1), Some(3), Some(80), Some(255), Some(-1), Some(-255), Some(-100)] {
            for (osn, os) in [("-", None), ("0", Some(OutputStreamControl::Stdout)), ("1", Some(OutputStreamControl::Stderr)), ("2", Some(OutputStreamControl::Combined))] {
                for so in [true, false] { for se in [true, false] { for noexp in [false, true] {
                    let mut cfg = TestCaseConfig::empty(); cfg.output_stream = os.clone();
                    let tc = TestCase { title: "t".into(), shell_expression: "x".into(), expectations: if noexp { vec![] } else { exps.clone() }, exit_code: expected, line_number: 1, config: cfg };
                    let body = |ok: bool| -> Vec<u8> { if noexp { if ok { vec![] } else { b"x\n".to_vec() } } else if ok { b"good\n".to_vec() } else { b"bad\n".to_vec() } };
                    let o = Output { stdout: body(so).into(), stderr: body(se).into(), exit_code: st.clone() };
                    let r = match std::panic::catch_unwind(std::panic::AssertUnwindSafe(|| tc.validate(&o))) {
                        Err(_) => "panic".to_string(), Ok(Ok(())) => "ok".into(),
                        Ok(Err(TestCaseError::InvalidExitCode { .. })) => "code".into(), Ok(Err(TestCaseError::MalformedOutput(_))) => "output".into(),
                        Ok(Err(_)) => "other".into() };
                    writeln!(w, "V {} {} {} {} {} {}|{}", sname, expected.map_or("-".to_string(), |e| e.to_string()), osn, so as u8, se as u8, noexp as u8, r).unwrap();
                }}}
            }
        }
    }
}

pub fn main(args: &[String], w: &mut dyn Write) {
    let count: u64 = args[0].parse().unwrap();
    let seed: u64 = args[1].parse().unwrap();
    let (shard, nsh): (u64, u64) = (args[2].parse().unwrap(), args[3].parse().unwrap());
    let mut r = Rng::new(seed.wrapping_add(shard * 15485863));
    for k in 0..(count / nsh) {
        let tmp = tempfile::Builder::new().prefix("svh-exec.").tempdir().unwrap();
        let mut c = gen_case(&mut r);
        if k == 0 || (k % 400 == 0) {
            // real elapsed time: an early test case takes 1.5 s; a later one has a timeout that lies between what is
            // left of the document limit and the whole document limit (or safely below what is left)
            let total = 4500 + 1000 * r.below(4);
            let mut doc = DocumentConfig::empty();
            doc.total_timeout = Some(Duration::from_millis(total));
            let n = r.range(2, 4);
            let slow = r.range(0, n - 2);
            let probe = r.range(slow + 1, n - 1);
            let mut tcs = vec![];
            for i in 0..n {
                let mut cfg = TestCaseConfig::empty();
                if i == probe { cfg.timeout = Some(Duration::from_millis(if r.chance(2, 3) { total - 750 } else { total - 2500 })); }
                let st = if i == probe && r.chance(1, 2) { St::Timeout } else { St::Code(0) };
                tcs.push((cfg, st, if i == slow { 1500 } else { 0 }));
            }
            c = ExecCase { tcs, doc };
        }
        writeln!(w, "{}", run_exec(&c, tmp.path())).unwrap();
    }
}
