//! C08 (and part of C04): ExpectationMaker::parse / unmake / to_expression_string / re-parse on generated lines.
use std::io::Write;

use scrut::escaping::Escaper;
use scrut::expectation::{Expectation, ExpectationMaker};
use scrut::rules::registry::RuleRegistry;

use crate::p_escape::hex;
use crate::rng::Rng;

fn show(e: &Expectation) -> String {
    let (k, b, o, m) = e.unmake();
    format!("{}:{}:{}{}", k, hex(&b), o as u8, m as u8)
}

pub fn case(mk: &ExpectationMaker, line: &str) -> String {
    let r = std::panic::catch_unwind(std::panic::AssertUnwindSafe(|| mk.parse(line)));
    match r {
        Err(_) => format!("P {}|panic", hex(line.as_bytes())),
        Ok(Err(_)) => format!("P {}|err", hex(line.as_bytes())),
        Ok(Ok(e)) => {
            let mut s = format!("P {}|ok|{}|{}", hex(line.as_bytes()), show(&e), hex(e.original_string().as_bytes()));
            for esc in [Escaper::Ascii, Escaper::Unicode] {
                let rr = std::panic::catch_unwind(std::panic::AssertUnwindSafe(|| {
                    let t = e.to_expression_string(&esc);
                    let back = match mk.parse(&t) { Ok(e2) => show(&e2), Err(_) => "err".to_string() };
                    (t, back)
                }));
                match rr { Ok((t, back)) => s.push_str(&format!("|{}|{}", hex(t.as_bytes()), back)), Err(_) => s.push_str("|panic|panic") }
            }
            s
        }
    }
}

const SUFFIXES: [&str; 40] = ["", " (equal)", " (eq)", " (no-eol)", " (escaped)", " (esc)", " (glob)", " (gl)", " (regex)", " (re)",
    " (?)", " (*)", " (+)", " (glob?)", " (re*)", " (esc+)", " (eq?)", " (no-eol*)", " ()", " ( )", " (foo)", " (glob )", " ( glob)", "(glob)",
    "\t(glob)", "\u{a0}(re)", "\u{3000}(?)", " (glob) (equal)", " (equal) (equal)", " (?) (*)", " (glob)(glob)", " ((glob))", " (glob))", " (GLOB)", " (regex+?)", " (**)",
    " (no-eol) (escaped)", " (escaped) (glob)", " \\(escaped\\) (glob)", " (esc) (gl+)"];

fn gen_expr(r: &mut Rng) -> String {
    let n = r.range(0, 8);
    let mut s = String::new();
    for _ in 0..n {
        match r.below(14) {
            0 => s.push('\\'), 1 => s.push_str(*r.pick(&["\\t", "\\x1b", "\\\\", "\\0", "\\x", "\\e", "\\d+", "\\w"])),
            2 => s.push(*r.pick(&['\t', '\u{1b}', '\u{7f}', '\u{200b}', '\r'])),
            3 => s.push(*r.pick(&['é', '😂', 'ß', '漢'])),
            4 => s.push_str(*r.pick(&["*", "?", "[a-z]", ".*", "a|b", "(x)", "{2}", "{", "]", "[", "^", "$", "+"])),
            5 => s.push(' '), 6 => s.push_str(*r.pick(&["(", ")", "()", " (", ") "])),
            _ => s.push((b'a' + r.below(26) as u8) as char),
        }
    }
    s
}

pub fn main(args: &[String], w: &mut dyn Write) {
    let mk = ExpectationMaker::new(RuleRegistry::default());
    let count: u64 = args[0].parse().unwrap(); let seed: u64 = args[1].parse().unwrap();
    let (shard, nsh): (u64, u64) = (args[2].parse().unwrap(), args[3].parse().unwrap());
    let mut r = Rng::new(seed.wrapping_add(shard * 67867967));
    if shard == 0 {
        for e in ["", "foo", "Hello (glob)", "a\tb", "C:\\temp", "a\\\\b", "x (", "日本"] { for s in SUFFIXES { writeln!(w, "{}", case(&mk, &format!("{}{}", e, s))).unwrap(); for t in [" ", "\t", "\u{a0}"] { writeln!(w, "{}", case(&mk, &format!("{}{}{}", e, s, t))).unwrap(); } } }
    }
    for _ in 0..(count / nsh) {
        let mut line = gen_expr(&mut r);
        let k = r.range(0, 2);
        for _ in 0..k { line.push_str(*r.pick(&SUFFIXES)); }
        // whitespace after what looks like a modifier: the line has no FINAL group, it is an equal expectation for the whole line
        if r.chance(1, 6) { line.push_str(*r.pick(&[" ", "  ", "\t", "\u{a0}", "\u{3000}", " \t "])); }
        if line.contains('\n') { continue; }
        writeln!(w, "{}", case(&mk, &line)).unwrap();
    }
}
