//! C09: generate a test from (expression, output, exit code), parse it back with the real parser and validate it
//! against the very same output -- `create` flavour (no expectations before) and `update` flavour (some expectations).
use std::io::Write;
use std::sync::Arc;

use scrut::config::TestCaseConfig;
use scrut::escaping::Escaper;
use scrut::expectation::ExpectationMaker;
use scrut::generators::cram::CramTestCaseGenerator;
use scrut::generators::generator::TestCaseGenerator;
use scrut::generators::markdown::MarkdownTestCaseGenerator;
use scrut::outcome::Outcome;
use scrut::output::{ExitStatus, Output};
use scrut::parsers::cram::{CramParser, DEFAULT_CRAM_INDENTION};
use scrut::parsers::markdown::MarkdownParser;
use scrut::parsers::parser::{Parser, ParserType};
use scrut::rules::registry::RuleRegistry;
use scrut::testcase::{TestCase, TestCaseError};

use crate::p_escape::hex;
use crate::rng::Rng;

fn gen_line(r: &mut Rng) -> Vec<u8> {
    match r.below(52) {
        // lines the generator guards (first character as an escape sequence), with backslashes, tabs and the (no-eol) ending in the rest
        46 => b"$ dir C:\\temp\\new".to_vec(), 47 => b"> a\\tb".to_vec(), 48 => b"$ x (no-eol)".to_vec(), 49 => b"> \t (no-eol)".to_vec(), 50 => b"$ \\".to_vec(), 51 => "> caf\u{e9} \\n".as_bytes().to_vec(),
        0 => b"foo (glob)".to_vec(), 1 => b"a (?)".to_vec(), 2 => b"x ()".to_vec(), 3 => b"[1]".to_vec(), 4 => b"[256]".to_vec(), 5 => b"$ x".to_vec(), 6 => b"> x".to_vec(),
        7 => b"```".to_vec(), 8 => b"````scrut".to_vec(), 9 => b"".to_vec(), 10 => b"  ".to_vec(), 11 => b"\t".to_vec(), 12 => b"# hash".to_vec(), 13 => b"a\tC:\\temp".to_vec(),
        14 => b"\x1b[1mbold\x1b[0m".to_vec(), 15 => vec![0, 1, 2], 16 => vec![0xff, 0xfe, b'x'], 17 => "é 😂".as_bytes().to_vec(), 18 => b"back\\slash".to_vec(),
        19 => b"trailing space ".to_vec(), 20 => b" (no-eol)".to_vec(), 21 => b"x (escaped)".to_vec(), 22 => b"---".to_vec(), 23 => b"a\rb".to_vec(), 24 => b"end (re+)".to_vec(), 25 => b"foo (bar)".to_vec(),
        26 => b" ```".to_vec(), 27 => b"   ````".to_vec(), 28 => b"C:\\temp\\new \x1b[1mbold".to_vec(), 29 => b"\\\x07".to_vec(), 30 => b"  $ indented".to_vec(),
        31 => b"main()".to_vec(), 32 => b"[ok]".to_vec(), 33 => "total\u{a0}(glob)".as_bytes().to_vec(), 34 => "x\u{3000}(?)".as_bytes().to_vec(), 35 => "sum\u{2003}(re+)".as_bytes().to_vec(), 36 => b"f(x) [1]".to_vec(),
        // unprintable for the unicode escaper without being control characters: format (Cf), private use (Co), unassigned (Cn)
        37 => "prompt\u{200b}".as_bytes().to_vec(), 38 => "\u{feff}[1, 2]".as_bytes().to_vec(), 39 => "soft\u{ad}hyphen (x)".as_bytes().to_vec(), 40 => "\u{e000}".as_bytes().to_vec(), 41 => "n\u{378}(a)".as_bytes().to_vec(),
        _ => { let n = r.range(1, 6); (0..n).map(|_| b'a' + r.below(26) as u8).collect() }
    }
}
fn probe_index(l: &[u8]) -> Option<usize> {
    let specials: Vec<Vec<u8>> = vec![b"foo (glob)".to_vec(), b"a (?)".to_vec(), b"x ()".to_vec(), b"[1]".to_vec(), b"[256]".to_vec(), b"$ x".to_vec(), b"> x".to_vec(),
        b"```".to_vec(), b"````scrut".to_vec(), b"".to_vec(), b"  ".to_vec(), b"\t".to_vec(), b"# hash".to_vec(), b"a\tC:\\temp".to_vec(),
        b"\x1b[1mbold\x1b[0m".to_vec(), vec![0, 1, 2], vec![0xff, 0xfe, b'x'], "é 😂".as_bytes().to_vec(), b"back\\slash".to_vec(),
        b"trailing space ".to_vec(), b" (no-eol)".to_vec(), b"x (escaped)".to_vec(), b"---".to_vec(), b"a\rb".to_vec(), b"end (re+)".to_vec(), b"foo (bar)".to_vec()];
    specials.iter().position(|s| s == l)
}
pub fn gen_output(r: &mut Rng) -> Vec<u8> {
    let n = r.range(0, 5);
    let mut v = vec![];
    for i in 0..n { v.extend(gen_line(r)); if i + 1 < n || r.chance(4, 5) { v.push(b'\n'); } }
    v
}

fn validate_kind(tc: &TestCase, o: &Output) -> String {
    match std::panic::catch_unwind(std::panic::AssertUnwindSafe(|| tc.validate(o))) {
        Err(_) => "panic".into(), Ok(Ok(())) => "ok".into(), Ok(Err(TestCaseError::InvalidExitCode { .. })) => "code".into(),
        Ok(Err(TestCaseError::MalformedOutput(_))) => "output".into(), Ok(Err(_)) => "other".into(),
    }
}

pub fn main(args: &[String], w: &mut dyn Write) {
    let mk = Arc::new(ExpectationMaker::new(RuleRegistry::default()));
    let count: u64 = args[0].parse().unwrap(); let seed: u64 = args[1].parse().unwrap();
    let (shard, nsh): (u64, u64) = (args[2].parse().unwrap(), args[3].parse().unwrap());
    let mut r = Rng::new(seed.wrapping_add(shard * 2038074743));
    let mdp = MarkdownParser::new(mk.clone(), &["scrut"], None);
    let crp = CramParser::new(mk.clone(), DEFAULT_CRAM_INDENTION);
    let probe = std::env::var("SVH_PROBE").is_ok();
    let mut pi = 0u64;
    let mut first_case = true;
    for _ in 0..(count / nsh) {
        let cram = r.chance(1, 2);
        let ascii = r.chance(1, 2);
        let expr = r.pick(&["echo foo", "printf 'a\\nb'", "cmd one\ncmd two", "true"]).to_string();
        let code = *r.pick(&[0, 0, 0, 1, 3, 255]);
        let mut out = gen_output(&mut r);
        if probe { // one special line, optionally after an ordinary one
            let k = pi % 26; let nl = (pi / 26) % 2 == 0; let second = (pi / 52) % 2 == 1; pi += 1;
            let mut rr = Rng::new(1); let mut l = gen_line(&mut rr); let mut t = 0; while t < 100000 { let mut r2 = Rng::new(t); let c = gen_line(&mut r2); if probe_index(&c) == Some(k as usize) { l = c; break; } t += 1; }
            out = vec![]; if second { out.extend(b"first\n"); } out.extend(&l); if nl { out.push(b'\n'); }
        }
        // update flavour: some expectations that match a prefix of the output lines
        let update = r.chance(1, 3);
        let mut exps = vec![];
        if update {
            for l in out.split(|b| *b == b'\n').take(r.range(0, 2)) {
                // only what a document can contain as an expectation line
                if l.starts_with(b"> ") || l.starts_with(b"$ ") || (l.starts_with(b"[") && l.ends_with(b"]")) || l.ends_with(b")") { continue; }
                if let Ok(s) = std::str::from_utf8(l) { if let Ok(e) = mk.parse(s) { exps.push(e); } }
            }
        }
        let quantified = !probe && r.chance(1, 4);
        let mut out = out;
        let mut update = update;
        let fixed = !probe && shard == 0 && first_case;
        first_case = false;
        if fixed {
            // the listed known finding (C09): a kept optional multiline expectation followed by an overlapping one
            update = true; out = b"a\nb\n".to_vec();
            exps = vec![mk.parse("a (*)").unwrap(), mk.parse("zzz").unwrap(), mk.parse("? (glob)").unwrap()];
        } else if quantified {
            update = true;
            out = vec![]; for _ in 0..r.range(0, 4) { out.extend(*r.pick(&[&b"a\n"[..], b"b\n", b"ab\n"])); }
            exps = vec![]; for _ in 0..r.range(0, 3) { exps.push(mk.parse(*r.pick(&["a", "b", "a (*)", "b (?)", "? (glob)", "? (glob+)", "* (glob*)", "zzz", "a (+)", "?? (glob?)"])).unwrap()); }
        }
        let cfg = if cram { TestCaseConfig::default_cram() } else { TestCaseConfig::default_markdown() };
        let tc = TestCase { title: if r.chance(1, 2) { "A title".into() } else { "".into() }, shell_expression: expr.clone(), expectations: exps, exit_code: None, line_number: 0, config: cfg };
        let output = Output { stdout: out.clone().into(), stderr: vec![].into(), exit_code: ExitStatus::Code(code) };
        let res = std::panic::catch_unwind(std::panic::AssertUnwindSafe(|| {
            let result = tc.validate(&output);
            let outcome = Outcome { location: None, output: output.clone(), testcase: tc.clone(), format: if cram { ParserType::Cram } else { ParserType::Markdown },
                escaping: if ascii { Escaper::Ascii } else { Escaper::Unicode }, result };
            let generated = if cram { CramTestCaseGenerator::default().generate_testcases(&[&outcome]) } else { MarkdownTestCaseGenerator::default().generate_testcases(&[&outcome]) };
            generated
        }));
        let head = format!("G {} {} {} {} {} {} {}", if cram { 'c' } else { 'm' }, if ascii { 'a' } else { 'u' }, if quantified || fixed { 2 } else { update as u8 }, hex(expr.as_bytes()), code, hex(&out), hex(tc.title.as_bytes()));
        let generated = match res { Err(_) => { writeln!(w, "{}|-|genpanic|0|-", head).unwrap(); continue; } Ok(Err(_)) => { writeln!(w, "{}|-|generr|0|-", head).unwrap(); continue; } Ok(Ok(g)) => g };
        let parsed = std::panic::catch_unwind(std::panic::AssertUnwindSafe(|| if cram { crp.parse(&generated) } else { mdp.parse(&generated) }));
        let (pk, same, vk) = match parsed {
            Err(_) => ("panic".to_string(), 0, "-".to_string()), Ok(Err(_)) => ("err".to_string(), 0, "-".to_string()),
            Ok(Ok((_, tcs))) => {
                if tcs.len() == 1 { (format!("ok{}", tcs.len()), (tcs[0].shell_expression == expr) as u8, validate_kind(&tcs[0], &output)) }
                else { (format!("ok{}", tcs.len()), 0, "-".to_string()) }
            }
        };
        writeln!(w, "{}|{}|{}|{}|{}", head, hex(generated.as_bytes()), pk, same, vk).unwrap();
    }
}
