//! C06: Markdown documents built from the grammar (AST first, then rendered), truncations of them, and soups,
//! through the real MarkdownParser.
use std::io::Write;
use std::sync::Arc;

use scrut::expectation::ExpectationMaker;
use scrut::parsers::markdown::MarkdownParser;
use scrut::parsers::parser::Parser;

use crate::p_docs::show_tests;
use crate::p_escape::hex;
use crate::rng::Rng;

pub const CFGS: [&str; 4] = ["timeout: 3s", "output_stream: stderr", "keep_crlf: true, skip_document_code: 7", "environment: {FOO: bar}"];
pub const FRONTS: [&[&str]; 3] = [&["total_timeout: 5s"], &["defaults:", "  skip_document_code: 9"], &["defaults:", "  keep_crlf: false", "  environment:", "    FOO: doc", "    BAR: doc"]];

#[derive(Clone)]
pub enum BLine { Exp(String), Code(String) }
#[derive(Clone)]
pub enum Elem {
    Front(usize), Prose(String), Heading(usize, String), Blank,
    Foreign(usize, String, Vec<String>, String),
    Scrut { n: usize, cfg: Option<usize>, hs: String, comments: Vec<String>, cmd: Option<(String, Vec<String>, Vec<BLine>)>, tail: String },
}

fn word(r: &mut Rng) -> String { r.pick(&["foo", "bar baz", "é ü", "x", "a  b", "hello world", "Straße", "日本", "Title here"]).to_string() }
fn prose(r: &mut Rng) -> String {
    match r.below(16) {
        0 => "`inline` code first".to_string(), 1 => "``two backticks`` at the start".to_string(), 2 => "text with ``` inside".to_string(),
        3 => "- a list item".to_string(), 4 => "1. numbered".to_string(), 5 => "> quote".to_string(), 6 => "  indented paragraph".to_string(),
        7 => "---".to_string(), 8 => "$ not a command".to_string(), 9 => "*emphasis*".to_string(), 10 => "#hashtag".to_string(), 11 => "\tTabbed".to_string(),
        12 => "`".to_string(), 13 => "``".to_string(),
        _ => word(r),
    }
}
fn body_line(r: &mut Rng, first: bool, n: usize) -> BLine {
    loop {
        let e = match r.below(14) {
            0 => "".to_string(), 1 => " ".to_string(), 2 => "$ second".to_string(), 3 => "> x".to_string(), 4 => "# not a comment".to_string(),
            5 => "```".to_string(), 6 => "``".to_string(), 7 => format!("{} (glob)", word(r)), 8 => format!("{} (*)", word(r)), 9 => "[x]".to_string(), 10 => "---".to_string(),
            _ => word(r),
        };
        if first && e.starts_with("> ") { continue; }
        if e.starts_with(&"`".repeat(n)) { continue; }
        return BLine::Exp(e);
    }
}
/// what follows the N backticks of a closing fence: usually nothing; a longer fence, blanks or text also close the block
fn close_tail(r: &mut Rng) -> String {
    if r.chance(4, 5) { String::new() } else { r.pick(&["`", "``", " ", "  \t", "json", "` x", " trailing text", "scrut"]).to_string() }
}
pub fn gen_doc(r: &mut Rng) -> Vec<Elem> {
    let mut d = vec![];
    if r.chance(1, 4) { d.push(Elem::Front(r.below(FRONTS.len() as u64) as usize)); }
    let n = r.range(0, 10);
    for _ in 0..n {
        match r.below(12) {
            0 | 1 => { let p = prose(r); if p == "---" && d.is_empty() { continue; } d.push(Elem::Prose(p)); }
            2 => d.push(Elem::Heading(r.range(1, 3), word(r))),
            3 | 4 => d.push(Elem::Blank),
            5 => { let n = r.range(3, 5); let lang = r.pick(&["bash", "sh", "scrut x", "scrutx", "c++", "text {x}", "yaml", "bash ", "text {x} \t"]).to_string();
                   let k = r.range(0, 3);
                   let mut body: Vec<String> = vec![];
                   for _ in 0..k { body.push(prose(r)); }
                   if r.chance(1, 4) { body.push("$ echo not a test".to_string()); body.push("```scrut".to_string()); }
                   let body: Vec<String> = body.into_iter().filter(|l| !l.starts_with(&"`".repeat(n))).collect();
                   d.push(Elem::Foreign(n, lang, body, close_tail(r))); }
            _ => {
                let nb = if r.chance(1, 5) { r.range(4, 5) } else { 3 };
                let cfg = if r.chance(1, 4) { Some(r.below(CFGS.len() as u64) as usize) } else { None };
                let comments = (0..(if r.chance(1, 4) { r.range(1, 2) } else { 0 })).map(|_| r.pick(&["# a comment", "#", "#!shebang"]).to_string()).collect();
                let cmd = if r.chance(1, 10) { None } else {
                    let c = r.pick(&["echo foo", "true", "ls -la  ", "(exit 3)", "", "echo '```'"]).to_string();
                    let conts: Vec<String> = (0..(if r.chance(1, 4) { r.range(1, 2) } else { 0 })).map(|_| r.pick(&["more", " indented", ""]).to_string()).collect();
                    let k = r.range(0, 4); let mut body = vec![]; let mut has_code = false;
                    for i in 0..k { if !has_code && r.chance(1, 5) { has_code = true; body.push(BLine::Code(r.pick(&["0", "1", "3", "007", "255"]).to_string())); } else { body.push(body_line(r, i == 0, nb)); } }
                    Some((c, conts, body)) };
                let tail = close_tail(r);
                // blanks after the language / the inline configuration on the opening line: ignored by the reader
                let hs = if r.chance(1, 6) { r.pick(&[" ", "  ", "\t", " \t "]).to_string() } else { String::new() };
                d.push(Elem::Scrut { n: nb, cfg, hs, comments, cmd, tail });
            }
        }
    }
    d
}
pub fn render(d: &[Elem]) -> Vec<String> {
    let mut out = vec![];
    for e in d {
        match e {
            Elem::Front(i) => { out.push("---".into()); for l in FRONTS[*i] { out.push(l.to_string()); } out.push("---".into()); }
            Elem::Prose(p) => out.push(p.clone()), Elem::Heading(k, t) => out.push(format!("{} {}", "#".repeat(*k), t)), Elem::Blank => out.push(String::new()),
            Elem::Foreign(n, lang, body, tail) => { out.push(format!("{}{}", "`".repeat(*n), lang)); for l in body { out.push(l.clone()); } out.push(format!("{}{}", "`".repeat(*n), tail)); }
            Elem::Scrut { n, cfg, hs, comments, cmd, tail } => {
                out.push(format!("{}scrut{}{}", "`".repeat(*n), cfg.map_or(String::new(), |i| format!(" {{{}}}", CFGS[i])), hs));
                for c in comments { out.push(c.clone()); }
                if let Some((c, conts, body)) = cmd {
                    out.push(format!("$ {}", c));
                    for x in conts { out.push(format!("> {}", x)); }
                    for x in body { match x { BLine::Exp(e) => out.push(e.clone()), BLine::Code(k) => out.push(format!("[{}]", k)) } }
                }
                out.push(format!("{}{}", "`".repeat(*n), tail));
            }
        }
    }
    out
}
pub fn ser(d: &[Elem]) -> String {
    if d.is_empty() { return "-".into(); }
    let hx = |v: &Vec<String>| if v.is_empty() { "_".to_string() } else { v.iter().map(|x| hex(x.as_bytes())).collect::<Vec<_>>().join(",") };
    d.iter().map(|e| match e {
        Elem::Front(i) => format!("F{}", i), Elem::Prose(p) => format!("P{}", hex(p.as_bytes())), Elem::Heading(k, t) => format!("H{}{}", k, hex(t.as_bytes())), Elem::Blank => "B".to_string(),
        Elem::Foreign(n, lang, body, tail) => format!("V{}{}/{}/{}", n, hex(lang.as_bytes()), hx(body), hex(tail.as_bytes())),
        Elem::Scrut { n, cfg, hs, comments, cmd, tail } => format!("S{}{}h{}/{}/{}/{}", n, cfg.map_or("-".to_string(), |i| i.to_string()), hex(hs.as_bytes()), hx(comments),
            match cmd { None => "~".to_string(), Some((c, conts, body)) => format!("{}{}/{}", hex(c.as_bytes()), conts.iter().map(|x| format!(",{}", hex(x.as_bytes()))).collect::<String>(),
                if body.is_empty() { "_".to_string() } else { body.iter().map(|x| match x { BLine::Exp(e) => format!("E{}", hex(e.as_bytes())), BLine::Code(k) => format!("N{}", k) }).collect::<Vec<_>>().join(",") }) }, hex(tail.as_bytes())),
    }).collect::<Vec<_>>().join(";")
}
pub fn join_lines(r: &mut Rng, lines: &[String]) -> String {
    let crlf = r.chance(1, 8);
    let mut s = lines.join(if crlf { "\r\n" } else { "\n" });
    if !lines.is_empty() && (r.chance(4, 5) || lines[lines.len() - 1].is_empty()) { s.push_str(if crlf { "\r\n" } else { "\n" }); }
    s
}
fn soup(r: &mut Rng) -> String {
    let n = r.range(0, 9);
    let alpha = ["", "---", "```", "```scrut", "````scrut", "```bash", "``x", "`", "$ cmd", "> more", "out", "[1]", "# c", "# Heading", "text", "```scrut {timeout: 3s}", "```scrut {", "```é{x}", "```scrut{}", " ```scrut", "```scrut ", "```scrut\t ", "```scrut {timeout: 3s} ", "```scrut {keep_crlf: true}\t", "```scrut {timeout: 3s} x", "```bash ", "defaults:", "  keep_crlf: true", "````", "```` ", "[2]"];
    let lines: Vec<String> = (0..n).map(|_| r.pick(&alpha).to_string()).collect();
    join_lines(r, &lines)
}

pub fn md_case(p: &MarkdownParser, ast: &str, text: &str) -> String {
    let res = std::panic::catch_unwind(std::panic::AssertUnwindSafe(|| p.parse(text)));
    let out = match res { Err(_) => "panic".to_string(), Ok(Err(_)) => "err".into(), Ok(Ok((_, tcs))) => show_tests(&tcs) };
    format!("D {}|{}|{}", ast, hex(text.as_bytes()), out)
}

pub fn main(mk: &Arc<ExpectationMaker>, count: u64, r: &mut Rng, w: &mut dyn Write) {
    let p = MarkdownParser::new(mk.clone(), &["scrut"], None);
    for i in 0..count {
        match i % 5 {
            3 => { let t = soup(r); writeln!(w, "{}", md_case(&p, "~", &t)).unwrap(); }
            4 => {  // a truncated well-formed document: every prefix must parse to the tests of its complete blocks (+ the one read to the end)
                let d = gen_doc(r); let lines = render(&d); if lines.is_empty() { continue; }
                let k = r.range(0, lines.len());
                let mut t = lines[..k].join("\n"); if k > 0 { t.push('\n'); }
                writeln!(w, "{}", md_case(&p, &format!("^{}^{}", k, ser(&d)), &t)).unwrap();
            }
            _ => { let d = gen_doc(r); let lines = render(&d); let t = join_lines(r, &lines); writeln!(w, "{}", md_case(&p, &ser(&d), &t)).unwrap(); }
        }
    }
}
