//! placeholder for the Markdown document stream (C06/C10)
use std::io::Write;
use std::sync::Arc;
use scrut::expectation::ExpectationMaker;
use crate::rng::Rng;
pub fn main(_mk: &Arc<ExpectationMaker>, _count: u64, _r: &mut Rng, _w: &mut dyn Write) {}
