//! C19: outcomes built from real TestCase::validate results (real DiffTool diffs) plus synthetic result kinds are given
//! to the four real renderers; what they return (text / Err / panic) is printed next to the outcome description so
//! that the extracted model of the renderers can be run on the same input.
use std::io::Write;
use std::sync::Arc;

use scrut::config::TestCaseConfig;
use scrut::diff::DiffLine;
use scrut::escaping::Escaper;
use scrut::expectation::ExpectationMaker;
use scrut::outcome::Outcome;
use scrut::output::{ExitStatus, Output};
use scrut::parsers::parser::ParserType;
use scrut::renderers::diff::DiffRenderer;
use scrut::renderers::pretty::{PrettyColorRenderer, PrettyMonochromeRenderer};
use scrut::renderers::renderer::Renderer;
use scrut::renderers::structured::{JsonRenderer, YamlRenderer};
use scrut::rules::registry::RuleRegistry;
use scrut::testcase::{TestCase, TestCaseError};

use crate::p_escape::hex;
use crate::rng::Rng;

fn word(r: &mut Rng) -> String {
    let n = r.range(1, 6);
    (0..n).map(|_| (b'a' + r.below(26) as u8) as char).collect()
}

/// the text of one output line / expectation expression: ordinary words and the shapes the property names
fn gen_text(r: &mut Rng) -> Vec<u8> {
    match r.below(26) {
        0 => "wide 漢字 text".as_bytes().to_vec(),
        1 => "emoji 😂 é".as_bytes().to_vec(),
        2 => "trailing ideographic\u{3000}".as_bytes().to_vec(),
        3 => "trailing nbsp\u{a0}\u{a0}".as_bytes().to_vec(),
        4 => b"trailing spaces  ".to_vec(),
        5 => b"trailing tab\t".to_vec(),
        6 => "mixed \t\u{2003} ".as_bytes().to_vec(),
        7 => "\u{3000}".as_bytes().to_vec(),
        8 => b" ".to_vec(),
        9 => b"".to_vec(),
        10 => b"ctl \x01\x02 \x1b[1mbold\x1b[0m".to_vec(),
        11 => vec![0xff, 0xfe, b'x'],
        12 => vec![b'a', 0xe2, 0x82, b'b', 0xf0, 0x9f, b'c', 0xc3],
        13 => vec![0xed, 0xa0, 0x80, 0xe0, 0x80, 0x80, 0xf4, 0x90, 0x80, 0x80],
        14 => { let n = if r.chance(1, 40) { r.range(10000, 12000) } else { r.range(200, 1500) }; let mut v: Vec<u8> = (0..n).map(|i| b'a' + (i % 26) as u8).collect(); if r.chance(1, 2) { v.extend("\u{3000} ".as_bytes()); } v }
        15 => b"back\\slash \\t".to_vec(),
        16 => b"foo (glob)".to_vec(),
        17 => b"[1]".to_vec(),
        18 => "nel\u{85}".as_bytes().to_vec(),
        19 => "zero width\u{200b}".as_bytes().to_vec(),
        20 => b"a\rb\r".to_vec(),
        _ => { let n = r.range(1, 3); (0..n).map(|_| word(r)).collect::<Vec<_>>().join(" ").into_bytes() }
    }
}

fn gen_expectation_line(r: &mut Rng, from: Option<&[u8]>) -> String {
    // an expectation line as a document would hold it; when `from` is given it is meant to match that output line
    let q = *r.pick(&["", "", "", "?", "*", "+"]);
    if let Some(l) = from {
        if let Ok(s) = std::str::from_utf8(l) {
            if !s.contains(['\n', '\r', '\\', '(', ')', '[', ']', '*', '?', '\x1b', '\x01', '\x02']) {
                return match r.below(4) {
                    0 if !q.is_empty() => format!("{} ({})", s, q),
                    1 => format!("{} (glob{})", s, q),
                    2 if !s.is_empty() => format!("{}* (glob{})", &s[..s.chars().next().unwrap().len_utf8()], q),
                    _ => s.to_string(),
                };
            }
        }
    }
    match r.below(8) {
        0 => format!("{} (regex{})", *r.pick(&["a+b", "x|y", "\\d+ items", "[a-c]{2}", "é.*"]), q),
        1 => format!("{} (escaped{})", *r.pick(&["tab\\there", "\\x1b[1mbold\\x1b[0m", "nul\\x00"]), q),
        2 => format!("{} (no-eol)", word(r)),
        3 => format!("{}* (glob{})", word(r), q),
        4 => "trailing space  ".to_string(),
        5 => "ideographic\u{3000} (equal)".to_string(),
        6 => "tab\tinside\t".to_string(),
        _ => { let w = String::from_utf8_lossy(&gen_text(r)).replace(['\n', '\r'], ""); if q.is_empty() { w } else { format!("{} ({})", w, q) } }
    }
}

fn enc_opt(t: &Option<String>) -> String { match t { Some(s) => hex(s.as_bytes()), None => "~".into() } }

fn enc_result(res: &Result<(), TestCaseError>, esc: &Escaper) -> String {
    match res {
        Ok(()) => "S".into(),
        Err(TestCaseError::Skipped) => "K".into(),
        Err(TestCaseError::Timeout) => "T".into(),
        Err(TestCaseError::InvalidExitCode { actual, expected }) => format!("E{}:{}", actual, expected),
        Err(TestCaseError::InternalError(e)) => format!("I{}", hex(e.to_string().as_bytes())),
        Err(TestCaseError::MalformedOutput(d)) => {
            let mut parts = vec![];
            for l in &d.lines {
                parts.push(match l {
                    DiffLine::MatchedExpectation { index, expectation, lines } => format!("m{}.{}.{}.{}", index, expectation.multiline as u8,
                        hex(expectation.to_expression_string(esc).as_bytes()), lines.first().map(|l| l.0.to_string()).unwrap_or("~".into())),
                    DiffLine::UnmatchedExpectation { index, expectation } => format!("u{}.{}.{}.{}", index, expectation.multiline as u8,
                        hex(expectation.to_expression_string(esc).as_bytes()), hex(expectation.original_string().as_bytes())),
                    DiffLine::UnexpectedLines { lines } => format!("x{}", lines.iter().map(|(i, b)| format!("{}_{}", i, hex(b))).collect::<Vec<_>>().join("/")),
                });
            }
            format!("M{}:{}", d.count_output_lines, parts.join("+"))
        }
    }
}

fn enc_outcome(o: &Outcome) -> String {
    format!("{},{},{},{},{},{},{},{},{},{},{}", enc_opt(&o.location), hex(o.testcase.title.as_bytes()), hex(o.testcase.shell_expression.as_bytes()),
        o.testcase.line_number, o.testcase.expectations.len(), o.testcase.exit_code.map(|c| c.to_string()).unwrap_or("~".into()),
        if o.format == ParserType::Cram { 'c' } else { 'm' }, if matches!(o.escaping, Escaper::Ascii) { 'a' } else { 'u' },
        hex(&o.output.stdout.to_bytes()), hex(&o.output.stderr.to_bytes()), enc_result(&o.result, &o.escaping))
}

fn rendered(f: impl FnOnce() -> anyhow::Result<String>) -> String {
    match std::panic::catch_unwind(std::panic::AssertUnwindSafe(f)) {
        Err(_) => "panic".into(), Ok(Err(_)) => "err".into(), Ok(Ok(s)) => format!("ok:{}", hex(s.as_bytes())),
    }
}

fn diff_kinds(v: &serde_json::Value) -> String {
    v.as_array().map(|a| a.iter().map(|l| match l.get("kind").and_then(|k| k.as_str()) {
        Some("matched_expectation") => '0', Some("unmatched_expectation") => '1', Some("unexpected_lines") => '2', _ => '?' }).collect()).unwrap_or_else(|| "!".into())
}
/// one entry per outcome: <1 = has location>:<result kind>:<kinds of the diff lines>
fn entries(v: &serde_json::Value) -> String {
    match v.as_array() {
        None => "notalist".into(),
        Some(a) if a.is_empty() => "-".into(),
        Some(a) => a.iter().map(|e| {
            let res = e.get("result");
            let kind = res.and_then(|r| r.get("kind")).and_then(|k| k.as_str()).unwrap_or("?").to_string();
            let dk = res.and_then(|r| r.get("diff")).map(diff_kinds).unwrap_or_default();
            format!("{}:{}:{}", e.get("location").is_some() as u8, kind, dk)
        }).collect::<Vec<_>>().join(","),
    }
}
fn structured(f: impl FnOnce() -> anyhow::Result<String>, yaml: bool) -> String {
    match std::panic::catch_unwind(std::panic::AssertUnwindSafe(f)) {
        Err(_) => "panic".into(), Ok(Err(_)) => "err".into(),
        Ok(Ok(s)) => {
            let v: Result<serde_json::Value, String> = if yaml { serde_yaml::from_str::<serde_json::Value>(&s).map_err(|e| e.to_string()) } else { serde_json::from_str(&s).map_err(|e| e.to_string()) };
            match v { Ok(v) => format!("ok:{}", entries(&v)), Err(_) => "malformed".into() }
        }
    }
}

pub fn main(args: &[String], w: &mut dyn Write) {
    console::set_colors_enabled(false);
    console::set_colors_enabled_stderr(false);
    let mk = Arc::new(ExpectationMaker::new(RuleRegistry::default()));
    let count: u64 = args[0].parse().unwrap(); let seed: u64 = args[1].parse().unwrap();
    let (shard, nsh): (u64, u64) = (args[2].parse().unwrap(), args[3].parse().unwrap());
    let mut r = Rng::new(seed.wrapping_add(shard * 2654435761));
    for _ in 0..(count / nsh) {
        let n_out = *r.pick(&[0usize, 1, 1, 2, 2, 3, 4]);
        let locmode = r.below(10); // 0: none have a location, 1: mixed, else all
        let mut outcomes: Vec<Outcome> = vec![];
        for oi in 0..n_out {
            let cram = r.chance(1, 3);
            let esc = if r.chance(1, 2) { Escaper::Ascii } else { Escaper::Unicode };
            // output lines
            let nl = *r.pick(&[0usize, 1, 2, 3, 4, 6, 9, 10, 12]);
            let lines: Vec<Vec<u8>> = (0..nl).map(|_| gen_text(&mut r)).collect();
            let mut stdout = vec![];
            for (i, l) in lines.iter().enumerate() { stdout.extend(l); if i + 1 < nl || r.chance(4, 5) { stdout.push(b'\n'); } }
            // expectations: mostly derived from the lines, with omissions, insertions and changes
            let mut exps = vec![];
            for l in &lines {
                match r.below(10) {
                    0 => {}                                                           // line without expectation -> unexpected
                    1 => { if let Ok(e) = mk.parse(&gen_expectation_line(&mut r, None)) { exps.push(e); } if let Ok(e) = mk.parse(&gen_expectation_line(&mut r, Some(l))) { exps.push(e); } }
                    2 => { if let Ok(e) = mk.parse(&gen_expectation_line(&mut r, None)) { exps.push(e); } }
                    _ => { if let Ok(e) = mk.parse(&gen_expectation_line(&mut r, Some(l))) { exps.push(e); } }
                }
            }
            if r.chance(1, 4) { if let Ok(e) = mk.parse(&gen_expectation_line(&mut r, None)) { exps.push(e); } }
            let code = *r.pick(&[0, 0, 0, 0, 0, 0, 0, 1, 127, 255, -1]);
            let expected = *r.pick(&[None, None, None, None, None, None, Some(0), Some(0), Some(1), Some(-3)]);
            let title = match r.below(6) { 0 => "".to_string(), 1 => "two\nlines".to_string(), 2 => "title with ünïcode 漢".to_string(), 3 => "crlf\r\ntitle\n".to_string(), _ => format!("Title {}", word(&mut r)) };
            let expr = match r.below(5) { 0 => "cmd one\ncmd two".to_string(), 1 => "printf 'a\\n'\n\n".to_string(), 2 => "echo 漢字".to_string(), _ => format!("echo {}", word(&mut r)) };
            let line_number = *r.pick(&[0usize, 1, 3, 7, 8, 9, 10, 94, 95, 97, 98, 99, 100, 996, 999, 1000, 123456]);
            let cfg = if cram { TestCaseConfig::default_cram() } else { TestCaseConfig::default_markdown() };
            let tc = TestCase { title, shell_expression: expr, expectations: exps, exit_code: expected, line_number, config: cfg };
            let stderr = if r.chance(1, 3) { gen_text(&mut r) } else { vec![] };
            let output = Output { stdout: stdout.into(), stderr: stderr.into(), exit_code: ExitStatus::Code(code) };
            let result = match r.below(12) {
                0 => Err(TestCaseError::Timeout),
                1 => Err(TestCaseError::Skipped),
                2 => Err(TestCaseError::InternalError(anyhow::anyhow!("{}", *r.pick(&["boom", "two\nlines of error", "ünï 漢", ""])))),
                3 => Ok(()),
                _ => match std::panic::catch_unwind(std::panic::AssertUnwindSafe(|| tc.validate(&output))) { Ok(v) => v, Err(_) => Err(TestCaseError::InternalError(anyhow::anyhow!("validate panicked"))) },
            };
            let location = match locmode { 0 => None, 1 => if oi % 2 == 0 { Some("a.md".to_string()) } else { None },
                _ => Some(r.pick(&["b/doc.md", "a.md", "a.md", "ü.t", "z z.md", "a.mdx"]).to_string()) };
            outcomes.push(Outcome { location, output, testcase: tc, format: if cram { ParserType::Cram } else { ParserType::Markdown }, escaping: esc, result });
        }
        let refs: Vec<&Outcome> = outcomes.iter().collect();
        let max_sur = *r.pick(&[0usize, 0, 1, 2, 5]);
        let absolute = r.chance(1, 2);
        let summarize = r.chance(3, 4);
        let pretty = rendered(|| PrettyColorRenderer { max_surrounding_lines: max_sur, absolute_line_numbers: absolute, summarize }.render(&refs));
        let mono = match std::panic::catch_unwind(std::panic::AssertUnwindSafe(|| PrettyMonochromeRenderer::new(PrettyColorRenderer { max_surrounding_lines: max_sur, absolute_line_numbers: absolute, summarize }).render(&refs))) {
            Err(_) => "panic", Ok(Err(_)) => "err", Ok(Ok(_)) => "ok" };
        let diff = rendered(|| DiffRenderer::new().render(&refs));
        let pretty_json = r.chance(1, 2);
        let json = structured(|| JsonRenderer::new(pretty_json).render(&refs), false);
        let yaml = structured(|| YamlRenderer::new().render(&refs), true);
        writeln!(w, "N {} {} {}|{}|{}|{}|{}|{}|{}", max_sur, absolute as u8, summarize as u8,
            if outcomes.is_empty() { "-".to_string() } else { outcomes.iter().map(enc_outcome).collect::<Vec<_>>().join(";") }, pretty, mono, diff, json, yaml).unwrap();
    }
}
