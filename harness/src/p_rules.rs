//! C04: every expectation kind on generated (expression, line) pairs through ExpectationMaker::parse(..).matches(..).
use std::io::Write;

use scrut::expectation::ExpectationMaker;
use scrut::rules::glob_cram::CramGlobRule;
use scrut::rules::registry::RuleRegistry;
use scrut::rules::rule::RuleMaker;

use crate::p_escape::hex;
use crate::rng::Rng;

#[derive(Clone, Debug)]
pub enum Re { Eps, Chr(char), Any, Cls(bool, Vec<char>), Seq(Box<Re>, Box<Re>), Alt(Box<Re>, Box<Re>), Star(Box<Re>), Rep(Box<Re>, u32, Option<u32>) }

/// counted repetition `{n}`, `{n,m}`, `{n,}` as it is written
fn counted(n: u32, max: Option<u32>) -> String { match max { Some(m) if m == n => format!("{{{}}}", n), Some(m) => format!("{{{},{}}}", n, m), None => format!("{{{},}}", n) } }
/// .. and what it stands for: n copies, then optional copies or a star
fn desugar(r: &Re) -> Re {
    match r {
        Re::Rep(a, n, max) => {
            let a = desugar(a);
            let mut items: Vec<Re> = (0..*n).map(|_| a.clone()).collect();
            match max { None => items.push(Re::Star(Box::new(a.clone()))), Some(m) => for _ in *n..*m { items.push(Re::Alt(Box::new(a.clone()), Box::new(Re::Eps))) } }
            let mut it = items.into_iter();
            match it.next() { None => Re::Eps, Some(first) => it.fold(first, |acc, x| Re::Seq(Box::new(acc), Box::new(x))) }
        }
        Re::Seq(a, b) => Re::Seq(Box::new(desugar(a)), Box::new(desugar(b))), Re::Alt(a, b) => Re::Alt(Box::new(desugar(a)), Box::new(desugar(b))),
        Re::Star(a) => Re::Star(Box::new(desugar(a))), x => x.clone(),
    }
}

const ALPHA: [char; 8] = ['a', 'b', 'c', '.', '|', '*', 'é', ' '];
fn is_meta(c: char) -> bool { "\\.+*?()|[]{}^$#&-~".contains(c) }
fn lit(c: char) -> String { if is_meta(c) { format!("\\{}", c) } else { c.to_string() } }
fn print(r: &Re) -> String {
    match r {
        Re::Eps => "(?:)".into(), Re::Chr(c) => lit(*c), Re::Any => ".".into(),
        Re::Cls(neg, cs) => format!("[{}{}]", if *neg { "^" } else { "" }, cs.iter().map(|c| lit(*c)).collect::<String>()),
        Re::Seq(a, b) => format!("{}{}", print(a), print(b)),
        Re::Alt(a, b) => format!("(?:{}|{})", print(a), print(b)),
        Re::Star(a) => format!("(?:{})*", print(a)),
        Re::Rep(a, n, max) => format!("(?:{}){}", print(a), counted(*n, *max)),
    }
}
fn lit_user(c: char) -> String { if c == ']' { c.to_string() } else { lit(c) } }
fn lit_in_class(c: char) -> String { if "\\[]^-".contains(c) { format!("\\{}", c) } else { c.to_string() } }
fn print_user(r: &Re) -> String {
    match r {
        Re::Chr(c) => lit_user(*c),
        Re::Cls(neg, cs) => format!("[{}{}]", if *neg { "^" } else { "" }, cs.iter().map(|c| lit_in_class(*c)).collect::<String>()),
        Re::Seq(a, b) => format!("{}{}", print_user(a), print_user(b)),
        Re::Alt(a, b) => format!("(?:{}|{})", print_user(a), print_user(b)),
        Re::Star(a) => format!("(?:{})*", print_user(a)),
        Re::Rep(a, n, max) => match **a { Re::Chr(_) | Re::Cls(..) | Re::Any => format!("{}{}", print_user(a), counted(*n, *max)), _ => format!("(?:{}){}", print_user(a), counted(*n, *max)) },
        _ => print(r),
    }
}
fn print_top(r: &Re) -> String { match r { Re::Alt(a, b) => format!("{}|{}", print(a), print(b)), _ => print(r) } }
fn ser(r: &Re) -> String {
    match r {
        Re::Eps => "e".into(), Re::Chr(c) => format!("c{}", *c as u32), Re::Any => ".".into(),
        Re::Cls(neg, cs) => format!("k{}{}", *neg as u8, cs.iter().map(|c| format!(",{}", *c as u32)).collect::<String>()),
        Re::Seq(a, b) => format!("s {} {}", ser(a), ser(b)), Re::Alt(a, b) => format!("a {} {}", ser(a), ser(b)), Re::Star(a) => format!("* {}", ser(a)),
        // zero copies: the empty word -- written so that the repeated item stays visible in the tree (z = matches nothing)
        Re::Rep(a, 0, Some(0)) => format!("a e s {} z", ser(a)),
        Re::Rep(..) => ser(&desugar(r)),
    }
}
/// cleanup_unrecognized_escape_sequences, ported (the function is private): a backslash stays before a metacharacter or an ASCII letter
fn cleanup_port(e: &str) -> String {
    let mut out = String::new();
    let mut chars = e.chars();
    while let Some(c) = chars.next() {
        if c == '\\' {
            match chars.next() {
                Some(c2) => { if "[]{}()|?*+-.^$\\".contains(c2) || c2.is_ascii_alphabetic() { out.push(c); } out.push(c2); }
                None => out.push(c),
            }
        } else { out.push(c); }
    }
    out
}
fn gen_re(r: &mut Rng, depth: u32) -> Re {
    let k = if depth == 0 { r.below(4) } else { r.below(9) };
    match k {
        0 | 1 => Re::Chr(*r.pick(&ALPHA)), 2 => Re::Any,
        3 => { let n = r.range(1, 3); Re::Cls(r.chance(1, 3), (0..n).map(|_| *r.pick(&ALPHA)).collect()) }
        4 | 5 => Re::Seq(Box::new(gen_re(r, depth - 1)), Box::new(gen_re(r, depth - 1))),
        6 => Re::Alt(Box::new(gen_re(r, depth - 1)), Box::new(gen_re(r, depth - 1))),
        7 => Re::Star(Box::new(gen_re(r, depth - 1))),
        _ => Re::Eps,
    }
}
/// a random member of the language (so that matches are frequent)
fn sample(r: &mut Rng, re: &Re, out: &mut String) {
    match re {
        Re::Eps => {}, Re::Chr(c) => out.push(*c), Re::Any => out.push(*r.pick(&ALPHA)),
        Re::Cls(neg, cs) => { let cands: Vec<char> = ALPHA.iter().copied().filter(|c| cs.contains(c) != *neg).collect(); if cands.is_empty() { out.push('z') } else { out.push(*r.pick(&cands)) } }
        Re::Seq(a, b) => { sample(r, a, out); sample(r, b, out); }
        Re::Alt(a, b) => if r.chance(1, 2) { sample(r, a, out) } else { sample(r, b, out) },
        Re::Star(a) => for _ in 0..r.below(3) { sample(r, a, out) },
        Re::Rep(a, n, max) => { let extra = match max { None => r.below(3) as u32, Some(m) => r.below((*m - *n + 1) as u64) as u32 }; for _ in 0..(*n + extra) { sample(r, a, out) } }
    }
}
fn mutate(r: &mut Rng, s: &str) -> String {
    let mut cs: Vec<char> = s.chars().collect();
    match r.below(5) {
        0 => { cs.push(*r.pick(&ALPHA)); } 1 => { cs.insert(0, *r.pick(&ALPHA)); }
        2 => if !cs.is_empty() { let i = r.below(cs.len() as u64) as usize; cs.remove(i); },
        3 => if !cs.is_empty() { let i = r.below(cs.len() as u64) as usize; cs[i] = *r.pick(&ALPHA); },
        _ => { cs.push('x'); cs.push('y'); cs.push('z'); }
    }
    cs.into_iter().collect()
}
fn rand_str(r: &mut Rng, alpha: &[char], max: usize) -> String { (0..r.range(0, max)).map(|_| *r.pick(alpha)).collect() }

fn matches(mk: &ExpectationMaker, exp_line: &str, line: &[u8]) -> String {
    match std::panic::catch_unwind(std::panic::AssertUnwindSafe(|| mk.parse(exp_line).map(|e| e.matches(line)))) {
        Err(_) => "panic".into(), Ok(Err(_)) => "err".into(), Ok(Ok(b)) => (b as u8).to_string(),
    }
}

pub fn main(args: &[String], w: &mut dyn Write) {
    let mk = ExpectationMaker::new(RuleRegistry::default());
    let count: u64 = args[0].parse().unwrap(); let seed: u64 = args[1].parse().unwrap();
    let (shard, nsh): (u64, u64) = (args[2].parse().unwrap(), args[3].parse().unwrap());
    let mut r = Rng::new(seed.wrapping_add(shard * 15487469));
    let galpha = ['a', 'b', '*', '?', 'é', ' ', '.', '\\'];
    for i in 0..(count / nsh) {
        if i % 8 == 3 {
            // regular expressions as a user may write them: `]` outside a class unescaped, class members unescaped where that is legal
            let n = r.range(1, 5);
            let mut items: Vec<Re> = vec![];
            for _ in 0..n {
                items.push(match r.below(6) {
                    0 | 1 => Re::Chr(*r.pick(&['a', 'b', 'c', ']', 'é', ' '])),
                    2 | 3 => { let k = r.range(1, 3); Re::Cls(r.chance(1, 4), (0..k).map(|_| *r.pick(&['a', 'b', 'c', '.', '*', '+', '(', ')', '|', '$', '#', '^', '-', ']', '['])).collect()) }
                    4 => Re::Any,
                    _ => Re::Star(Box::new(Re::Chr(*r.pick(&['a', 'b', ']'])))),
                });
            }
            // counted repetition of one item: `{n}`, `{n,m}`, `{n,}` (serialised as the sequence it stands for)
            let counted_item = r.chance(1, 3);
            if counted_item {
                let j = r.below(items.len() as u64) as usize;
                let lo = r.below(4) as u32;
                let max = match r.below(3) { 0 => None, 1 => Some(lo), _ => Some(lo + 1 + r.below(2) as u32) };
                items[j] = Re::Rep(Box::new(items[j].clone()), lo, max);
            }
            let mut it = items.into_iter();
            let mut re = it.next().unwrap();
            for x in it { re = Re::Seq(Box::new(re), Box::new(x)); }
            let mut s = String::new(); sample(&mut r, &re, &mut s);
            if r.chance(1, 3) { s = mutate(&mut r, &s); }
            if s.contains('\n') { continue; }
            let top = print_user(&re);
            if top.ends_with(' ') || top.ends_with(')') { continue; }
            let nl = r.chance(3, 4);
            let mut line = s.clone().into_bytes(); if nl { line.push(b'\n'); }
            let res = matches(&mk, &format!("{} (regex)", top), &line);
            writeln!(w, "M {} {}|{}|{} {}|{}", if counted_item { 'k' } else { 'u' }, ser(&re), hex(top.as_bytes()), hex(s.as_bytes()), nl as u8, res).unwrap();
            continue;
        }
        if i % 8 == 7 {
            // what RegexRule::make turns an arbitrary expression into before the crate sees it (unmake returns the prepared expression)
            let e = rand_str(&mut r, &['a', 'b', 'é', 'p', 'x', '\\', '{', '}', '[', ']', '<', '>', '1', '2', ',', '(', ')', '|', '.', '*', '+', '?', '^', '-', '#', '_', ' '], 10);
            let e = if r.chance(1, 8) { r.pick(&["a<<<<3>>>>", "<<<<x>>>>b", "x<<<<1,2>>>>", "\\{3}", "a{1{2}", "\\\\{2}", "<<<<>>>>", "a{2}<<<<3>>>>{x}", "a{3,}", "a{,3}", "b{2,}{", "\\{1,}", "a{1,}{2,3}{,}", "\\p{L}+", "\\P{Greek}a{x}", "\\x{1F600}", "\\u{41}{2}", "\\p{L", "\\d{x}", "a\\p{L}{b}", "[[:digit:]]+", "[a]b]", "[a-z&&[^aeiou]]", "[[:alpha:]]{x}", "\\<foo\\>", "h\u{e9}llo{3} {abc}", "\u{17e}lu\u{165}ou\u{10d}k\u{fd} x=a{2,4} {}", "\u{65e5}\u{672c}{2}{", "\u{e9}{1,}[[]"]).to_string() } else { e };
            if e.ends_with(' ') { continue; }
            let res = match std::panic::catch_unwind(std::panic::AssertUnwindSafe(|| mk.parse(&format!("{} (regex)", e)).map(|x| x.unmake()))) {
                Err(_) => "panic".to_string(), Ok(Err(_)) => "err".into(), Ok(Ok((_, b, _, _))) => format!("x{}", hex(&b)) };
            // does the regex crate take the expression as it is written (whole-line form)?
            let as_written = regex::bytes::Regex::new(&format!("^(?:{})$", e)).is_ok();
            // .. and after the clean-up of unknown escapes (ported here, compared with the model's by the driver): the verdict RegexRule::make goes by
            let cleaned = cleanup_port(&e);
            let cleaned_ok = regex::bytes::Regex::new(&format!("^(?:{})$", cleaned)).is_ok();
            writeln!(w, "M z {}|{}|{}|{}|{}", hex(e.as_bytes()), res, as_written as u8, hex(cleaned.as_bytes()), cleaned_ok as u8).unwrap();
            continue;
        }
        match i % 5 {
            0 => {  // regex
                let re = gen_re(&mut r, 3);
                let mut s = String::new(); sample(&mut r, &re, &mut s);
                if r.chance(1, 2) { s = mutate(&mut r, &s); }
                if s.contains('\n') { continue; }
                let top = print_top(&re);
                let nl = r.chance(3, 4);
                let mut line = s.clone().into_bytes(); if nl { line.push(b'\n'); }
                let res = matches(&mk, &format!("{} (regex)", top), &line);
                writeln!(w, "M r {}|{}|{} {}|{}", ser(&re), hex(top.as_bytes()), hex(s.as_bytes()), nl as u8, res).unwrap();
            }
            1 => {  // glob (wildmatch)
                let p = rand_str(&mut r, &galpha, 6);
                let base: String = p.chars().map(|c| match c { '*' => rand_str(&mut r, &['a', 'b', 'é', '.'], 3), '?' => r.pick(&['a', 'b', 'é', '?']).to_string(), c => c.to_string() }).collect();
                let s = if r.chance(1, 2) { base } else { mutate(&mut r, &base) };
                if p.ends_with(')') || p.ends_with(' ') { continue; }
                let nl = r.chance(3, 4);
                let mut line = s.clone().into_bytes(); if nl { line.push(b'\n'); }
                let res = matches(&mk, &format!("{} (glob)", p), &line);
                // cram-style glob
                let cres = match std::panic::catch_unwind(std::panic::AssertUnwindSafe(|| CramGlobRule::make(&p).map(|ru| ru.matches(&line)))) { Err(_) => "panic".to_string(), Ok(Err(_)) => "err".into(), Ok(Ok(b)) => (b as u8).to_string() };
                writeln!(w, "M g {}|{} {}|{}|{}", hex(p.as_bytes()), hex(s.as_bytes()), nl as u8, res, cres).unwrap();
            }
            _ => {  // equal / no-eol / escaped on byte lines
                let kind = *r.pick(&["equal", "no-eol", "escaped", "plain"]);
                let e = rand_str(&mut r, &['a', 'b', '\\', 't', 'x', '0', '1', ' ', 'é', '\t'], 6);
                if e.ends_with(')') || e.ends_with(' ') { continue; }
                // Cram compatibility of the escaped kind: a trailing ` (no-eol)` is not part of the expression
                let body = e.clone();
                let e = if kind == "escaped" && r.chance(1, 5) { format!("{} (no-eol)", e) } else { e };
                let mut line: Vec<u8> = match r.below(5) {
                    4 => body.replace("\\t", "\t").replace("\\\\", "\\").into_bytes(),
                    0 => e.clone().into_bytes(),
                    1 => e.replace("\\t", "\t").replace("\\\\", "\\").into_bytes(),
                    2 => mutate(&mut r, &e).into_bytes(),
                    _ => rand_str(&mut r, &['a', 'b', '\\', 't', '\t'], 6).into_bytes(),
                };
                match r.below(4) { 0 => {}, 1 => { line.extend(b"\n\n"); } _ => line.push(b'\n') }
                let exp_line = if kind == "plain" { e.clone() } else { format!("{} ({})", e, kind) };
                let res = matches(&mk, &exp_line, &line);
                writeln!(w, "M {} {}|{}|{}", match kind { "equal" => 'q', "no-eol" => 'n', "escaped" => 'x', _ => 'p' }, hex(e.as_bytes()), hex(&line), res).unwrap();
            }
        }
    }
}
