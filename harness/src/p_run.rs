//! C13: (B) the script BashRunner sends to the shell (shell = /bin/cat echoes it back), (L) replace_crlf /
//! render_output, (O) payload bytes and exit codes through the real executors with real bash.
use std::io::Write;
use std::path::{Path, PathBuf};
use std::time::Duration;

use scrut::config::{DocumentConfig, OutputStreamControl, TestCaseConfig};
use scrut::executors::bash_runner::BashRunner;
use scrut::executors::bash_script_executor::BashScriptExecutor;
use scrut::executors::context::ContextBuilder;
use scrut::executors::executor::Executor;
use scrut::executors::runner::Runner;
use scrut::executors::stateful_executor::StatefulExecutor;
use scrut::output::{ExitStatus, Output};
use scrut::testcase::TestCase;

use crate::p_escape::hex;
use crate::rng::Rng;

fn tc(expr: &str, cfg: TestCaseConfig) -> TestCase {
    TestCase { title: "t".into(), shell_expression: expr.into(), expectations: vec![], exit_code: None, line_number: 1, config: cfg }
}

// ---------------------------------------------------------------- (B) template
const PLACEHOLDERS: [&str; 5] = ["{state_directory}", "{name}", "{shell_expression}", "{excluded_variables}", "{persist_state}"];

fn gen_expr(r: &mut Rng) -> String {
    let n = r.range(1, 6);
    let mut s = String::new();
    for _ in 0..n {
        match r.below(9) {
            0..=2 => s.push_str(*r.pick(&PLACEHOLDERS)),
            3 => s.push_str(*r.pick(&["{", "}", "{{name}}", "{shell_", "expression}", "${HOME}", "{persist_state", "\\{name\\}", "{ name }"])),
            4 => s.push_str(*r.pick(&["é😂", "\n", "  ", "\t", "'", "\"", "$?", "|", "&&"])),
            _ => s.push_str(*r.pick(&["echo ", "foo", "x=1; ", "printf '%s' ", "true", " # c"])),
        }
    }
    s
}

fn template_case(r: &mut Rng, work: &Path, w: &mut dyn Write) {
    let sd = format!("{}/{}", work.display(), r.pick(&[".state.abc", ".state.Xy_9", "st ate", ".state.{name}", "s"]));
    let name = r.pick(&["exec1", "exec27", "script", "n{a}me"]).to_string();
    let expr = gen_expr(r);
    let runner = BashRunner::new(Path::new("/bin/cat"), Path::new(&sd));
    let ctx = ContextBuilder::default().work_directory(work.to_path_buf()).temp_directory(work.to_path_buf()).file(PathBuf::from("d.md")).config(DocumentConfig::empty()).build().unwrap();
    let res = std::panic::catch_unwind(std::panic::AssertUnwindSafe(|| runner.run(&name, &tc(&expr, TestCaseConfig::empty()), &ctx)));
    let out = match res { Ok(Ok(o)) => format!("{}:{}", match o.exit_code { ExitStatus::Code(c) => c.to_string(), _ => "x".into() }, hex(&o.stdout.to_bytes())), Ok(Err(_)) => "err".into(), Err(_) => "panic".into() };
    // the same script with a marker in place of the expression: whatever surrounds the expression must not depend on it
    let marker = "@@SVH-EXPRESSION-MARKER@@";
    let res2 = std::panic::catch_unwind(std::panic::AssertUnwindSafe(|| runner.run(&name, &tc(marker, TestCaseConfig::empty()), &ctx)));
    let out2 = match res2 { Ok(Ok(o)) => hex(&o.stdout.to_bytes()), _ => "err".into() };
    writeln!(w, "B {} {} {}|{}|{}", hex(sd.as_bytes()), hex(name.as_bytes()), hex(expr.as_bytes()), out, out2).unwrap();
}

// ---------------------------------------------------------------- (L) crlf
fn gen_crlf_bytes(r: &mut Rng) -> Vec<u8> {
    let n = r.range(0, 24);
    let mut v = vec![];
    for _ in 0..n {
        match r.below(8) { 0 | 1 => v.push(b'\r'), 2 | 3 => v.push(b'\n'), 4 => v.extend(b"\r\n"), 5 => v.extend(b"\r\r\n"), 6 => v.push(0x1b), _ => v.push(b'a' + r.below(3) as u8) }
    }
    v
}
fn ob(o: Option<bool>) -> &'static str { match o { None => "-", Some(true) => "1", Some(false) => "0" } }

fn crlf_case(r: &mut Rng, w: &mut dyn Write) {
    let mut b = gen_crlf_bytes(r);
    let keep = *r.pick(&[None, Some(true), Some(false)]);
    let strip = *r.pick(&[None, None, Some(false), Some(true)]);
    // with stripping on, half of the inputs are text whose only control bytes are LF and colour / style sequences (the decided class)
    if strip == Some(true) && r.chance(1, 2) {
        b = vec![];
        for _ in 0..r.range(0, 16) { match r.below(7) { 0 => b.extend(b"\x1b[1m"), 1 => b.extend(b"\x1b[0m"), 2 => b.extend(b"\x1b[2;5;0;31;47m"), 3 => b.extend(b"\x1b[m"), 4 => b.push(b'\n'), _ => b.push(b'a' + r.below(26) as u8) } }
    }
    let mut cfg = TestCaseConfig::empty(); cfg.keep_crlf = keep; cfg.strip_ansi_escaping = strip;
    let t = tc("x", cfg);
    let res = std::panic::catch_unwind(std::panic::AssertUnwindSafe(|| {
        let a = scrut::newline::replace_crlf(&b).to_vec();
        let c = t.render_output(&b).map(|c| c.to_vec());
        (a, c)
    }));
    let s = match res { Ok((a, Ok(c))) => format!("{}|{}", hex(&a), hex(&c)), Ok((a, Err(_))) => format!("{}|err", hex(&a)), Err(_) => "panic|panic".into() };
    writeln!(w, "L {} {} {}|{}", hex(&b), ob(keep), ob(strip), s).unwrap();
}

/// large inputs run in a child process: a stack overflow aborts the process
pub fn crlf_child(args: &[String]) {
    let n: usize = args[0].parse().unwrap();
    let mut b = Vec::with_capacity(3 * n);
    for i in 0..n { b.push(b'a' + (i % 3) as u8); b.extend(b"\r\n"); }
    let out = scrut::newline::replace_crlf(&b);
    let ok = out.len() == 2 * n && !out.windows(2).any(|w| w == b"\r\n") && out.iter().filter(|c| **c == b'\n').count() == n;
    std::process::exit(if ok { 0 } else { 3 });
}
fn crlf_big(n: usize, w: &mut dyn Write) {
    let exe = std::env::current_exe().unwrap();
    let st = std::process::Command::new(exe).arg("crlf-child").arg(n.to_string()).stderr(std::process::Stdio::null()).status();
    let r = match st { Ok(s) => match s.code() { Some(0) => "ok".to_string(), Some(c) => format!("exit{}", c), None => "aborted".to_string() }, Err(_) => "spawn".into() };
    writeln!(w, "G {}|{}", n, r).unwrap();
}

// ---------------------------------------------------------------- (O) real bash
#[derive(Clone)]
pub struct Write1 { pub fd: u8, pub bytes: Vec<u8> }
#[derive(Clone)]
pub struct Cmd { pub writes: Vec<Write1>, pub code: i32 }

fn octal(b: &[u8]) -> String { b.iter().map(|x| format!("\\{:03o}", x)).collect() }
fn render_cmd(c: &Cmd) -> String {
    let mut s = String::new();
    for wr in &c.writes {
        if wr.bytes.is_empty() { continue; }
        s.push_str(&format!("printf '{}'{}; ", octal(&wr.bytes), if wr.fd == 2 { " >&2" } else { "" }));
    }
    s.push_str(&format!("(exit {})", c.code));
    s
}
fn gen_payload(r: &mut Rng) -> Vec<u8> {
    let n = r.range(0, 14);
    let style = r.below(6);
    let mut v = vec![];
    for _ in 0..n {
        match (style, r.below(8)) {
            (0, _) => v.push(b'a' + r.below(26) as u8),
            (1, 0..=1) => v.extend(b"\r\n"), (1, 2) => v.push(b'\r'), (1, 3) => v.push(b'\n'),
            (2, _) => v.push(r.below(256) as u8),
            (3, 0) => v.extend(b"~~~~~~~~EXECDIVIDER"), (3, 1) => v.extend(b"{persist_state}"), (3, 2) => v.extend(b"::0::0"), (3, 3) => v.push(b'\n'),
            (4, 0) => v.extend(b"\x1b[1m"), (4, 1) => v.extend(b"\x1b[0m"),
            (_, 4) => v.push(b'\n'),
            _ => v.push(b'a' + r.below(26) as u8),
        }
    }
    if r.chance(2, 3) && !v.is_empty() { v.push(b'\n'); }
    v
}
pub fn gen_cmds(r: &mut Rng, cram: bool) -> Vec<Cmd> {
    let n = r.range(1, 3);
    (0..n).map(|_| {
        let k = r.range(1, 3);
        let mut writes: Vec<Write1> = (0..k).map(|_| Write1 { fd: if r.chance(1, 3) { 2 } else { 1 }, bytes: gen_payload(r) }).collect();
        // a Cram payload line that looks like a divider with another salt (it used to be read as one: the former known finding of C13)
        if cram && r.chance(1, 40) { writes.push(Write1 { fd: 1, bytes: b"~~~~~~~~EXECDIVIDER::x::0::0\n".to_vec() }); }
        Cmd { writes, code: *r.pick(&[0, 0, 1, 2, 3, 42, 127, 200, 255]) }
    }).collect()
}

fn show_out(o: &Output) -> String {
    format!("{}:{}:{}", match &o.exit_code { ExitStatus::Code(c) => c.to_string(), ExitStatus::Unknown => "U".into(), ExitStatus::Detached => "D".into(), ExitStatus::Skipped => "S".into(), ExitStatus::Timeout(_) => "T".into() },
        hex(&o.stdout.to_bytes()), hex(&o.stderr.to_bytes()))
}

fn exec_case(r: &mut Rng, work: &Path, w: &mut dyn Write, spoof: bool) {
    let cram = spoof || r.chance(1, 3);
    let mut cmds = gen_cmds(r, cram);
    if spoof { cmds = vec![Cmd { writes: vec![Write1 { fd: 1, bytes: b"~~~~~~~~EXECDIVIDER::x::0::0\n".to_vec() }], code: 0 }]; }
    let os = if cram { if r.chance(2, 3) { Some(OutputStreamControl::Combined) } else { Some(OutputStreamControl::Stdout) } }
             else { r.pick(&[None, Some(OutputStreamControl::Stdout), Some(OutputStreamControl::Stderr), Some(OutputStreamControl::Combined)]).clone() };
    let keep = if cram { Some(true) } else { *r.pick(&[None, Some(true), Some(false)]) };
    let strip = if r.chance(1, 4) { Some(true) } else { None };
    // with stripping on, mostly text whose only control bytes are colour / style sequences: the class in which the result is decided
    if strip.is_some() && !spoof && r.chance(3, 4) {
        for c in cmds.iter_mut() { for wr in c.writes.iter_mut() {
            let mut v = vec![];
            for _ in 0..r.range(0, 8) { match r.below(6) {
                0 => v.extend(b"\x1b[1m"), 1 => v.extend(b"\x1b[0m"), 2 => v.extend(b"\x1b[2;5;0;31;47m"), 3 => v.push(b'\n'), _ => v.push(b'a' + r.below(26) as u8) } }
            if r.chance(2, 3) && !v.is_empty() { v.push(b'\n'); }
            wr.bytes = v;
        } }
    }
    let mut cfg = TestCaseConfig::empty(); cfg.output_stream = os.clone(); cfg.keep_crlf = keep; cfg.strip_ansi_escaping = strip;
    let tcs: Vec<TestCase> = cmds.iter().map(|c| tc(&render_cmd(c), cfg.clone())).collect();
    let refs: Vec<&TestCase> = tcs.iter().collect();
    let dir = tempfile::Builder::new().prefix("run.").tempdir_in(work).unwrap();
    let mut doc = DocumentConfig::empty(); doc.total_timeout = Some(Duration::from_secs(20));
    let ctx = ContextBuilder::default().work_directory(dir.path().to_path_buf()).temp_directory(dir.path().to_path_buf()).file(PathBuf::from("d.md")).config(doc).build().unwrap();
    let res = std::panic::catch_unwind(std::panic::AssertUnwindSafe(|| {
        if cram { BashScriptExecutor::new(Path::new("/bin/bash")).execute_all(&refs, &ctx) }
        else { StatefulExecutor::new(BashRunner::stateful_generator(Path::new("/bin/bash"))).execute_all(&refs, &ctx) }
    }));
    let out = match res {
        Err(_) => "panic".to_string(),
        Ok(Err(e)) => format!("err:{}", hex(format!("{}", e).chars().take(60).collect::<String>().as_bytes())),
        Ok(Ok(outs)) => outs.iter().map(show_out).collect::<Vec<_>>().join(","),
    };
    let osn = match os { None => "-", Some(OutputStreamControl::Stdout) => "0", Some(OutputStreamControl::Stderr) => "1", Some(OutputStreamControl::Combined) => "2" };
    let cs = cmds.iter().map(|c| format!("{}/{}", c.writes.iter().map(|x| format!("{}{}", x.fd, hex(&x.bytes))).collect::<Vec<_>>().join("+"), c.code)).collect::<Vec<_>>().join(";");
    writeln!(w, "O {} {} {} {} {}|{}", if cram { 'c' } else { 'm' }, osn, ob(keep), ob(strip), cs, out).unwrap();
}

/// CR LF translation "for outputs of any size", through the real executors: one byte, then n CR LF pairs, so that a CR stands at
/// every odd offset -- wherever a reader cuts the stream at an even offset, a pair is cut in two.  On stdout and on stderr.
fn big_exec_case(work: &Path, w: &mut dyn Write, cram: bool, n: usize, to_stderr: bool) {
    let mut cfg = TestCaseConfig::empty();
    cfg.output_stream = Some(if to_stderr { OutputStreamControl::Stderr } else { OutputStreamControl::Stdout }); cfg.keep_crlf = Some(false);
    let expr = format!("(printf a; yes $'\\r' | head -n {}){}", n, if to_stderr { " >&2" } else { "" });
    let t = tc(&expr, cfg);
    let dir = tempfile::Builder::new().prefix("runbig.").tempdir_in(work).unwrap();
    let mut doc = DocumentConfig::empty(); doc.total_timeout = Some(Duration::from_secs(60));
    let ctx = ContextBuilder::default().work_directory(dir.path().to_path_buf()).temp_directory(dir.path().to_path_buf()).file(PathBuf::from("d.md")).config(doc).build().unwrap();
    let res = std::panic::catch_unwind(std::panic::AssertUnwindSafe(|| {
        if cram { BashScriptExecutor::new(Path::new("/bin/bash")).execute_all(&[&t], &ctx) }
        else { StatefulExecutor::new(BashRunner::stateful_generator(Path::new("/bin/bash"))).execute_all(&[&t], &ctx) }
    }));
    let r = match res {
        Err(_) => "panic".to_string(), Ok(Err(_)) => "error".into(),
        Ok(Ok(outs)) => {
            let b = if to_stderr { outs[0].stderr.to_bytes() } else { outs[0].stdout.to_bytes() };
            let crs = b.iter().filter(|c| **c == b'\r').count();
            if outs.len() == 1 && b.len() == n + 1 && b[0] == b'a' && b[1..].iter().all(|c| *c == b'\n') { "ok".to_string() }
            else { format!("recorded-{}-bytes-with-{}-CR-instead-of-{}-LF", b.len(), crs, n) }
        }
    };
    writeln!(w, "H {} {} {}|{}", if cram { 'c' } else { 'm' }, if to_stderr { 2 } else { 1 }, n, r).unwrap();
}

/// the shell leaves early (`exit 3`) with far more of its input unread than a pipe holds: the recorded exit code is the command's and
/// no timeout is reported (the limit is a minute away)
fn early_exit_case(work: &Path, w: &mut dyn Write, kb: usize) {
    let mut cfg = TestCaseConfig::empty(); cfg.output_stream = Some(OutputStreamControl::Stdout); cfg.timeout = Some(Duration::from_secs(60));
    let mut expr = String::from("printf hi; exit 3");
    for _ in 0..(kb * 16) { expr.push_str("\n# xxxxxxxxxxxxxxxxxxxxxxxxxxxxxxxxxxxxxxxxxxxxxxxxxxxxxxxxxxxxx"); }
    let t = tc(&expr, cfg);
    let dir = tempfile::Builder::new().prefix("runearly.").tempdir_in(work).unwrap();
    let mut doc = DocumentConfig::empty(); doc.total_timeout = Some(Duration::from_secs(60));
    let ctx = ContextBuilder::default().work_directory(dir.path().to_path_buf()).temp_directory(dir.path().to_path_buf()).file(PathBuf::from("d.md")).config(doc).build().unwrap();
    let res = std::panic::catch_unwind(std::panic::AssertUnwindSafe(|| StatefulExecutor::new(BashRunner::stateful_generator(Path::new("/bin/bash"))).execute_all(&[&t], &ctx)));
    let r = match res {
        Err(_) => "panic".to_string(),
        Ok(Err(e)) => format!("error-{}", format!("{}", e).chars().take(40).map(|c| if c.is_ascii_alphanumeric() { c } else { '-' }).collect::<String>()),
        Ok(Ok(outs)) => if outs.len() == 1 && outs[0].exit_code == ExitStatus::Code(3) && outs[0].stdout.to_bytes() == b"hi" { "ok".to_string() } else { format!("recorded-{}", show_out(&outs[0])) },
    };
    writeln!(w, "E m {}|{}", kb, r).unwrap();
}

pub fn main(args: &[String], w: &mut dyn Write) {
    let count: u64 = args[0].parse().unwrap();
    let nexec: u64 = args[1].parse().unwrap();
    let seed: u64 = args[2].parse().unwrap();
    let (shard, nsh): (u64, u64) = (args[3].parse().unwrap(), args[4].parse().unwrap());
    let big: usize = args.get(5).map_or(0, |s| s.parse().unwrap());
    let base = PathBuf::from(std::env::var("SVH_WORK").expect("SVH_WORK"));
    let work = tempfile::Builder::new().prefix("p_run.").tempdir_in(&base).unwrap();
    let mut r = Rng::new(seed.wrapping_add(shard * 86028121));
    if shard == 0 && big > 0 { crlf_big(big, w); crlf_big(big / 7 + 1, w); }
    if big > 0 && shard == 4 % nsh { early_exit_case(work.path(), w, 200); }
    if big > 0 && shard < 4 { big_exec_case(work.path(), w, shard % 2 == 1, (big / 3).max(70000).min(2000000), shard >= 2); }
    for i in 0..(count / nsh) { if i % 2 == 0 { template_case(&mut r, work.path(), w); } else { crlf_case(&mut r, w); } }
    for k in 0..((nexec + nsh - 1 - shard) / nsh) { exec_case(&mut r, work.path(), w, shard == 0 && k == 0); }
}
