//! C12: histories of state-changing shell snippets, each followed by a probe of the whole visible state, run
//! (a) through the real StatefulExecutor + BashRunner with the bash on PATH (one process per test case, state carried
//!     through the state file) and
//! (b) in ONE bash process fed the same snippets one after the other (a detached test case runs in a subshell there).
//! The state file the carrier wrote after each test case is copied out by the next test case (the variable
//! __SCRUT_TEMP_STATE_PATH is visible to it), so the filter model can be compared with what was really persisted.
use std::io::Write;
use std::path::{Path, PathBuf};
use std::process::{Command, Stdio};

use scrut::config::{DocumentConfig, TestCaseConfig};
use scrut::executors::bash_runner::BashRunner;
use scrut::executors::context::ContextBuilder;
use scrut::executors::executor::Executor;
use scrut::executors::stateful_executor::StatefulExecutor;
use scrut::output::ExitStatus;
use scrut::testcase::TestCase;

use crate::p_escape::hex;
use crate::rng::Rng;

/// (class, snippet).  class letters: v variable, x exported variable, u unset, a array, m assoc array, i integer, f function,
/// l alias, o set option, s shopt, d directory, p directory stack, I inherited variable changed, U inherited variable unset
/// (known finding), B a variable bash defines by itself unset (known finding), r readonly (documented exclusion), n nasty value
const MUTATIONS: &[(&str, &str)] = &[
    ("v", "V1=plain"), ("v", "V1='with  two spaces'"), ("v", "V2=\"quo\\\"te's\""), ("n", "V3=$'multi\\nline\\ttab'"), ("v", "V1='uni é 漢 😂'"),
    ("n", "V2='$dollar `tick` \\back * ? [x]'"), ("v", "V3="), ("v", "V4=' leading and trailing '"), ("n", "V4=$'line1\\ndeclare -r fake=1\\nline3'"), ("n", "V2=$'\\e[1mansi\\e[0m \\x01'"),
    ("x", "export X1=exported"), ("x", "export X2='exp orted \"q\"'"), ("x", "export V1"), ("x", "export -n X1"), ("x", "X1=changed-after-export"),
    ("u", "unset V1"), ("u", "unset X1"), ("u", "unset V3 V4"), ("u", "unset ARR"), ("u", "unset MAP"),
    ("a", "ARR=(a 'b c' $'d\\ne' '')"), ("a", "ARR+=(more)"), ("a", "unset 'ARR[1]'"), ("a", "ARR[7]=sparse"), ("a", "declare -a EMPTY=()"),
    ("m", "declare -A MAP=([k1]=v1 ['k 2']='v 2')"), ("m", "MAP[new]='x y'"), ("m", "unset 'MAP[k1]'"),
    ("i", "declare -i NUM=5"), ("i", "NUM+=3"), ("i", "declare -l LOW=MiXed"), ("i", "declare -u UP=MiXed"),
    ("f", "f1() { echo \"f1 $1\"; }"), ("f", "function f2 { local x='a  b'; echo \"$x\"; }"), ("f", "f1() { echo redefined; }"), ("f", "unset -f f2"),
    ("f", "f3() {\n  cat <<EOF\nheredoc $1\nEOF\n}"), ("f", "f2() { case \"$1\" in a|b) echo ab;; *) echo other;; esac; }"),
    ("f", "shopt -s extglob\nf4() { case \"$1\" in +([0-9])) echo num;; @(a|b)) echo ab;; *) echo other;; esac; }"), ("f", "f5() { echo \"$1\" | wc; }"), ("f", "f5() { a1 from-f5; }"), ("f", "unset -f f4 f5"),
    ("l", "alias wc='wc -c'"), ("l", "unalias wc 2>/dev/null"),
    ("l", "alias grep='grep -i'"), ("l", "alias sed='sed -n'"), ("l", "alias tail='tail -n 1'"), ("l", "unalias grep sed tail 2>/dev/null"),
    ("v", "uid=lower"), ("v", "ppid=77"), ("v", "Lineno=3"),
    ("v", "BIG=$(head -c 70000 /dev/zero | tr '\\0' x)"), ("u", "unset BIG"),   // beyond the capacity of a pipe: whoever stops reading `declare -p` early kills it
    ("l", "alias a1='echo aliased'"), ("l", "alias a2=\"echo 'quoted alias'\""), ("l", "unalias a1 2>/dev/null"), ("l", "alias a1='echo again'"), ("l", "alias ll='ls -la'"),
    ("o", "set -u"), ("o", "set +u"), ("o", "set -o pipefail"), ("o", "set +o pipefail"), ("o", "set -f"), ("o", "set +f"), ("o", "set -C"), ("o", "set +C"),
    ("s", "shopt -s nullglob"), ("s", "shopt -u nullglob"), ("s", "shopt -s extglob"), ("s", "shopt -s dotglob"), ("s", "shopt -s globstar"), ("s", "shopt -u extglob dotglob"),
    ("d", "cd d1"), ("d", "cd \"$BASE\""), ("d", "cd \"$BASE/d 2\""), ("d", "cd \"$BASE/d1/deep\""), ("d", "cd .. "),
    ("p", "pushd \"$BASE/d1\" >/dev/null"), ("p", "pushd \"$BASE/d 2\" >/dev/null"), ("p", "popd >/dev/null 2>&1"),
    ("I", "INH1=changed"), ("I", "INH1='changed again'; export INH1"), ("U", "unset INH2"), ("r", "readonly RO=1"),
    ("T", "TRAPV=kept; trap 'true' EXIT"),   // the test case replaces the EXIT trap the state is persisted by (known finding)
    ("v", "IFS=:"), ("B", "unset IFS"), ("v", "UID_MIN=1000"), ("v", "code=mine"), ("x", "export SCRUT_TEST_X=1"), ("v", "LINENO_FIRST=7"), ("a", "BASH_SOURCE_DIRS=(/opt '/o p')"), ("v", "PPIDX=9"), ("x", "export PATH=\"$PATH:/opt/extra\""),
];

const PROBE: &str = r#"
echo "--vars"; for __v in TRAPV code OLDPWD uid ppid Lineno V1 V2 V3 V4 X1 X2 ARR EMPTY MAP NUM LOW UP INH1 INH2 RO IFS UID_MIN SCRUT_TEST_X LINENO_FIRST BASH_SOURCE_DIRS PPIDX; do if declare -p $__v >/dev/null 2>&1; then declare -p $__v | tr '\n' '~'; echo; else echo "$__v unset"; fi; done
echo "--env"; env | grep -E '^(V1|V2|X1|X2|INH1|INH2|NUM)=' | sort | tr '\n' '~'; echo
echo "--big ${#BIG}"
echo "--path"; echo "${PATH##*:}"
echo "--funs"; for __f in f1 f2 f3 f4 f5; do if declare -F $__f >/dev/null; then declare -f $__f; $__f a 2>&1; else echo "$__f undefined"; fi; done
echo "--aliases"; alias -p
echo "--opts"; set +o | grep -E 'pipefail|nounset|noglob|noclobber'; shopt -p nullglob extglob dotglob globstar expand_aliases
echo "--dirs"; pwd; dirs -p -l
"#;

fn gen_history(r: &mut Rng) -> Vec<(String, String, bool)> {
    // (classes, snippet, detached)
    let n = r.range(2, 6);
    let focus = r.below(4);   // 0: anything; 1-3: a family, so that define / modify / unset of one class meet
    let fam: &[&str] = match focus { 1 => &["v", "x", "u", "n", "I"], 2 => &["a", "m", "i", "u"], 3 => &["f", "l", "o", "s", "d", "p"], _ => &[] };
    let mut h = vec![];
    for _ in 0..n {
        let k = r.range(0, 3);
        let mut classes = String::new();
        let mut s = String::new();
        for _ in 0..k {
            let (c, m) = loop { let x = r.pick(MUTATIONS); if fam.is_empty() || fam.contains(&x.0) || r.chance(1, 5) { break *x; } };
            if (c == "U" || c == "r" || c == "B" || c == "T") && !r.chance(1, 4) { continue; }
            if c == "T" { classes = "T".to_string(); s = format!("{}\n", m); break; }   // alone in its test case: what is lost is exactly TRAPV
            classes.push_str(c);
            s.push_str(m); s.push('\n');
        }
        h.push((if classes.is_empty() { "-".to_string() } else { classes }, s, r.chance(1, 8)));
    }
    h
}

fn prepare_base(base: &Path) {
    std::fs::create_dir_all(base.join("d1/deep")).unwrap();
    std::fs::create_dir_all(base.join("d 2")).unwrap();
}

fn canon(s: &str, base: &Path) -> String {
    let s = s.replace(&base.display().to_string(), "<BASE>");
    // bash prefixes its messages with the script name and line: `<script>: line 12: cd: ...`
    let re = regex::Regex::new(r"(?m)^[^\n:]*: line \d+: ").unwrap();
    re.replace_all(&s, "").to_string()
}

pub fn run_case(r: &mut Rng, work: &Path, bash: &str) -> String {
    let dir = tempfile::Builder::new().prefix("state.").tempdir_in(work).unwrap();
    let root = std::fs::canonicalize(dir.path()).unwrap();
    let (b1, b2) = (root.join("a"), root.join("b"));
    prepare_base(&b1); prepare_base(&b2);
    let statecopies = root.join("states"); std::fs::create_dir_all(&statecopies).unwrap();
    let h = gen_history(r);
    // ---------------- (a) the real executor
    let mut cases = vec![];
    for (i, (_, snip, det)) in h.iter().enumerate() {
        let mut cfg = TestCaseConfig::empty();
        cfg.detached = Some(*det);
        cfg.environment.insert("INH1".into(), "inherited one".into());
        cfg.environment.insert("INH2".into(), "inherited two".into());
        cfg.environment.insert("BASE".into(), b1.display().to_string());
        // the state the previous test cases left, and the names that exist / are readonly right before it is written
        let copy = format!("[ -f \"$__SCRUT_TEMP_STATE_PATH/state\" ] && cp \"$__SCRUT_TEMP_STATE_PATH/state\" {}/state.{}\n", statecopies.display(), i);
        let names = format!("\n{{ declare -p | grep '^declare ' | sed -E 's/^declare -[^ ]* ([^=]*).*/\\1/' | tr '\\n' ' '; echo; readonly -p | sed -E 's/^declare -[^ ]* ([^=]*).*/\\1/' | tr '\\n' ' '; echo; }} > {}/names.{}\n", statecopies.display(), i);
        cases.push(TestCase { title: format!("t{}", i), shell_expression: format!("{}{}{}{}", copy, snip, PROBE, names), expectations: vec![], exit_code: None, line_number: i + 1, config: cfg });
    }
    let refs: Vec<&TestCase> = cases.iter().collect();
    let ctx = ContextBuilder::default().work_directory(b1.clone()).temp_directory(root.join("tmp1")).file(PathBuf::from("d.md")).config(DocumentConfig::empty()).build().unwrap();
    std::fs::create_dir_all(root.join("tmp1")).unwrap();
    let res = std::panic::catch_unwind(std::panic::AssertUnwindSafe(|| StatefulExecutor::new(BashRunner::stateful_generator(Path::new(bash))).execute_all(&refs, &ctx)));
    let impl_outs: Vec<String> = match res {
        Ok(Ok(outs)) => outs.iter().map(|o| match o.exit_code { ExitStatus::Detached => "detached".to_string(),
            _ => format!("{}~~{}", canon(&String::from_utf8_lossy(&o.stdout.to_bytes()), &b1), canon(&String::from_utf8_lossy(&o.stderr.to_bytes()), &b1)) }).collect(),
        Ok(Err(e)) => vec![format!("executor error: {}", e)], Err(_) => vec!["panic".into()],
    };
    // ---------------- (b) one bash session
    let mut script = String::from("shopt -s expand_aliases\n");
    for (i, (_, snip, det)) in h.iter().enumerate() {
        if *det { script.push_str(&format!("( {}\n{} ) >/dev/null 2>&1\n", snip, PROBE)); }
        else { script.push_str(&format!("{}{}", snip, PROBE)); }
        script.push_str(&format!("\necho '~~~~END {}~~~~'; echo '~~~~END {}~~~~' >&2\n", i, i));
    }
    std::fs::write(root.join("session.sh"), &script).unwrap();
    let out = Command::new(bash).arg(root.join("session.sh")).current_dir(&b2).env_clear()
        .envs(std::env::vars().filter(|(k, _)| k != "SCRUT_TEST"))
        .env("INH1", "inherited one").env("INH2", "inherited two").env("BASE", &b2)
        .stdin(Stdio::null()).output().expect("bash session");
    let (so, se) = (canon(&String::from_utf8_lossy(&out.stdout), &b2), canon(&String::from_utf8_lossy(&out.stderr), &b2));
    let split = |s: &str| -> Vec<String> { let mut v = vec![]; let mut rest = s; for i in 0..h.len() { let m = format!("~~~~END {}~~~~\n", i);
        if let Some(p) = rest.find(&m) { v.push(rest[..p].to_string()); rest = &rest[p + m.len()..]; } else { v.push(format!("<missing marker {}>", i)); } } v };
    let (sos, ses) = (split(&so), split(&se));
    let ref_outs: Vec<String> = (0..h.len()).map(|i| if h[i].2 { "detached".to_string() } else { format!("{}~~{}", sos[i], ses[i]) }).collect();
    // ---------------- what was persisted
    let mut states = vec![];
    for i in 1..h.len() {
        if h[i].2 { continue; }   // a detached test case copies the file asynchronously
        // state.i is the file test i found, i.e. what the last non-detached test before it wrote; names.(j) belongs to that test j
        let st = std::fs::read(statecopies.join(format!("state.{}", i))).unwrap_or_default();
        let declared: Vec<String> = String::from_utf8_lossy(&st).lines().filter(|l| l.starts_with("declare -"))
            .filter_map(|l| l.splitn(3, ' ').nth(2).map(|x| x.split('=').next().unwrap_or("").to_string())).collect();
        let mut j = i; let mut names = String::new();
        while j > 0 { j -= 1; if !h[j].2 { names = std::fs::read_to_string(statecopies.join(format!("names.{}", j))).unwrap_or_default(); break; } }
        let mut nl = names.lines();
        let all = nl.next().unwrap_or("").trim().to_string();
        let ro = nl.next().unwrap_or("").trim().to_string();
        states.push(format!("{}/{}/{}", hex(declared.join(" ").as_bytes()), hex(all.as_bytes()), hex(ro.as_bytes())));
    }
    format!("H {}|{}|{}|{}", h.iter().map(|(c, s, d)| format!("{}{}:{}", if *d { "D" } else { "" }, c, hex(s.as_bytes()))).collect::<Vec<_>>().join(";"),
        impl_outs.iter().map(|o| hex(o.as_bytes())).collect::<Vec<_>>().join(";"), ref_outs.iter().map(|o| hex(o.as_bytes())).collect::<Vec<_>>().join(";"),
        if states.is_empty() { "-".to_string() } else { states.join(";") })
}

pub fn main(args: &[String], w: &mut dyn Write) {
    let count: u64 = args[0].parse().unwrap();
    let seed: u64 = args[1].parse().unwrap();
    let (shard, nsh): (u64, u64) = (args[2].parse().unwrap(), args[3].parse().unwrap());
    let work = PathBuf::from(std::env::var("SVH_WORK").expect("SVH_WORK"));
    let bash = String::from_utf8_lossy(&Command::new("bash").arg("-c").arg("command -v bash").output().expect("bash").stdout).trim().to_string();
    let mut r = Rng::new(seed.wrapping_add(shard * 86028121));
    let n = (count + nsh - 1 - shard) / nsh;
    for _ in 0..n { writeln!(w, "{}", run_case(&mut r, &work, &bash)).unwrap(); }
}
