//! C10: MarkdownUpdateGenerator::generate_update on generated documents x per-test outcomes, applied twice.
use std::io::Write;
use std::sync::Arc;

use scrut::escaping::Escaper;
use scrut::expectation::ExpectationMaker;
use scrut::generators::generator::UpdateGenerator;
use scrut::generators::markdown::MarkdownUpdateGenerator;
use scrut::outcome::Outcome;
use scrut::output::{ExitStatus, Output};
use scrut::parsers::markdown::MarkdownParser;
use scrut::parsers::parser::{Parser, ParserType};
use scrut::rules::registry::RuleRegistry;
use scrut::testcase::{TestCase, TestCaseError};

use crate::p_escape::hex;
use crate::rng::Rng;

fn outcomes_for(tcs: &[TestCase], outs: &[Output]) -> Vec<Outcome> {
    tcs.iter().zip(outs.iter()).map(|(t, o)| Outcome { location: None, output: o.clone(), testcase: t.clone(), format: ParserType::Markdown, escaping: Escaper::Unicode, result: t.validate(o) }).collect()
}
fn kind(r: &Result<(), TestCaseError>) -> &'static str {
    match r { Ok(()) => "ok", Err(TestCaseError::MalformedOutput(_)) => "output", Err(TestCaseError::InvalidExitCode { .. }) => "code", Err(_) => "other" }
}
fn cmds(tcs: &[TestCase]) -> String { if tcs.is_empty() { "-".into() } else { tcs.iter().map(|t| hex(t.shell_expression.as_bytes())).collect::<Vec<_>>().join(",") } }

pub fn main(args: &[String], w: &mut dyn Write) {
    let mk = Arc::new(ExpectationMaker::new(RuleRegistry::default()));
    let count: u64 = args[0].parse().unwrap(); let seed: u64 = args[1].parse().unwrap();
    let (shard, nsh): (u64, u64) = (args[2].parse().unwrap(), args[3].parse().unwrap());
    let mut r = Rng::new(seed.wrapping_add(shard * 472882027));
    let p = MarkdownParser::new(mk.clone(), &["scrut"], None);
    let gen = MarkdownUpdateGenerator::default();
    for i in 0..(count / nsh) {
        let d = crate::p_md::gen_doc(&mut r);
        let mut lines = crate::p_md::render(&d);
        // sometimes the document is cut short (unterminated last construct)
        if i % 6 == 5 && !lines.is_empty() { let k = r.range(1, lines.len()); lines.truncate(k); }
        let text = { let mut t = lines.join("\n"); if !lines.is_empty() { t.push('\n'); } t };
        let parsed = std::panic::catch_unwind(std::panic::AssertUnwindSafe(|| p.parse(&text)));
        let tcs = match parsed { Ok(Ok((_, t))) => t, _ => continue };
        if tcs.is_empty() && r.chance(3, 4) { continue; }
        // outputs: own lines (passes when the expectations are plain), changed output, changed exit code
        let outs: Vec<Output> = tcs.iter().map(|t| {
            let scen = r.below(5);
            let mut out: Vec<u8> = vec![];
            if scen == 1 { out = crate::p_gen::gen_output(&mut r); }
            else { for e in &t.expectations { out.extend(e.original_string().as_bytes()); out.push(b'\n'); } }
            let code = if scen == 2 { 7 } else if scen == 4 { 0 } else { t.exit_code.unwrap_or(0) };   // 4: ends with 0 although another code was expected
            Output { stdout: out.into(), stderr: vec![].into(), exit_code: ExitStatus::Code(code) }
        }).collect();
        let res = std::panic::catch_unwind(std::panic::AssertUnwindSafe(|| {
            let oc = outcomes_for(&tcs, &outs);
            let kinds: Vec<String> = oc.iter().map(|o| kind(&o.result).to_string()).collect();
            let refs: Vec<&Outcome> = oc.iter().collect();
            let u1 = gen.generate_update(&text, &refs);
            (kinds, u1)
        }));
        let (kinds, u1) = match res { Err(_) => { writeln!(w, "U {}|-|panic|-|{}|-", hex(text.as_bytes()), cmds(&tcs)).unwrap(); continue; } Ok(x) => x };
        let u1 = match u1 { Err(_) => { writeln!(w, "U {}|{}|err|-|{}|-", hex(text.as_bytes()), kinds.join(","), cmds(&tcs)).unwrap(); continue; } Ok(u) => u };
        // second round on the updated document with the same outputs
        let second = std::panic::catch_unwind(std::panic::AssertUnwindSafe(|| {
            match p.parse(&u1) {
                Err(_) => ("parse-err".to_string(), "-".to_string()),
                Ok((_, t1)) => {
                    if t1.len() != outs.len() { return (format!("count{}", t1.len()), cmds(&t1)); }
                    let oc = outcomes_for(&t1, &outs); let refs: Vec<&Outcome> = oc.iter().collect();
                    match gen.generate_update(&u1, &refs) { Ok(u2) => (hex(u2.as_bytes()), cmds(&t1)), Err(_) => ("err".to_string(), cmds(&t1)) }
                }
            }
        }));
        let (u2, c1) = second.unwrap_or(("panic".to_string(), "-".to_string()));
        writeln!(w, "U {}|{}|{}|{}|{}|{}", hex(text.as_bytes()), if kinds.is_empty() { "-".to_string() } else { kinds.join(",") }, hex(u1.as_bytes()), u2, cmds(&tcs), c1).unwrap();
    }
}
