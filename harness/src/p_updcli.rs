//! C10 end to end: the real `scrut update --replace -y` (built from /repo) with real bash on generated Markdown documents,
//! with the default test language and with `--markdown-languages sh`; run twice, then `scrut test` on the result.
//! The documents are reported in the terms of the default language (with `sh` as the test language the words `sh` and
//! `scrut` are swapped on fence lines), so that the driver measures them with the same token model as the library stream.
use std::io::Write;
use std::path::{Path, PathBuf};
use std::process::Command;
use std::sync::Arc;

use scrut::expectation::ExpectationMaker;
use scrut::parsers::markdown::MarkdownParser;
use scrut::parsers::parser::Parser;
use scrut::rules::registry::RuleRegistry;

use crate::p_escape::hex;
use crate::rng::Rng;

#[derive(Clone, Debug)]
enum El { Prose(String), Blank, Foreign(String, Vec<String>), Test { words: Vec<String>, expect: Vec<String>, code: i32, expect_code: Option<i32>, comment: bool, cfg: bool }, Detached }

const WORDS: &[&str] = &["alpha", "beta", "gamma", "two words", "x", "tail  ", "(paren)", "UPPER", "0"];

fn gen_doc(r: &mut Rng, test_lang: &str) -> Vec<El> {
    let other = if test_lang == "sh" { "scrut" } else { "sh" };
    let n = r.range(2, 7);
    let mut d = vec![];
    let mut tests = 0;
    for _ in 0..n {
        match r.below(7) {
            0 => d.push(El::Prose(r.pick(&["# A heading", "Some prose.", "## Another", "text with `ticks`", "- item"]).to_string())),
            1 => d.push(El::Blank),
            3 if r.chance(1, 3) => { d.push(El::Detached); tests += 1; }   // a detached test case: update has nothing to rewrite it from
            2 => {
                // a block in the OTHER language: with `sh` as the test language this is a ```scrut block that must stay as it is
                let lang = if r.chance(2, 3) { other.to_string() } else { r.pick(&["text", "bash", "python"]).to_string() };
                let body = (0..r.range(0, 3)).map(|_| if r.chance(1, 2) { format!("$ echo {}", r.pick(WORDS)) } else { r.pick(WORDS).to_string() }).collect();
                d.push(El::Foreign(lang, body));
            }
            _ => {
                let words: Vec<String> = (0..r.range(0, 3)).map(|_| r.pick(WORDS).to_string()).collect();
                let code = if r.chance(1, 4) { *r.pick(&[1, 3]) } else { 0 };
                let right = r.chance(1, 2);
                let expect = if right { words.clone() } else { match r.below(3) { 0 => vec![], 1 => { let mut w = words.clone(); w.push("extra".into()); w } _ => words.iter().map(|w| format!("{}!", w)).collect() } };
                let expect_code = if right || r.chance(1, 2) { if code != 0 { Some(code) } else { None } } else if code != 0 { None } else { Some(2) };
                d.push(El::Test { words, expect, code, expect_code, comment: r.chance(1, 6), cfg: r.chance(1, 6) });
                tests += 1;
            }
        }
    }
    if tests == 0 { d.push(El::Blank); d.push(El::Test { words: vec!["alpha".into()], expect: vec!["wrong".into()], code: 0, expect_code: None, comment: false, cfg: false }); }
    d
}

fn command_of(words: &[String], code: i32) -> String {
    let mut c = if words.is_empty() { "true".to_string() } else { format!("printf '%s\\n' {}", words.iter().map(|w| format!("'{}'", w)).collect::<Vec<_>>().join(" ")) };
    if code != 0 { c.push_str(&format!("; (exit {})", code)); }
    c
}
/// the expectation line scrut writes for an output line of plain words (no unprintables): a kind is named when it could be read as something else
fn passes(words: &[String], expect: &[String], code: i32, expect_code: Option<i32>) -> bool {
    expect_code.unwrap_or(0) == code && words == expect
}

fn render(d: &[El], test_lang: &str) -> String {
    let mut s = String::new();
    for e in d {
        match e {
            El::Prose(l) => { s.push_str(l); s.push('\n'); }
            El::Blank => s.push('\n'),
            El::Foreign(lang, body) => { s.push_str(&format!("```{}\n", lang)); for l in body { s.push_str(l); s.push('\n'); } s.push_str("```\n"); }
            El::Detached => { s.push_str(&format!("```{} {{detached: true}}\n$ sleep 0.05 &\n```\n", test_lang)); }
            El::Test { words, expect, code, expect_code, comment, cfg } => {
                s.push_str(&format!("```{}{}\n", test_lang, if *cfg { " {keep_crlf: false}" } else { "" }));
                if *comment { s.push_str("# a comment\n"); }
                s.push_str(&format!("$ {}\n", command_of(words, *code)));
                for l in expect { s.push_str(l); s.push('\n'); }
                if let Some(c) = expect_code { s.push_str(&format!("[{}]\n", c)); }
                s.push_str("```\n");
            }
        }
    }
    s
}

/// swap the words `sh` and `scrut` where they are the language of a fence line
fn swap_lang(text: &str) -> String {
    let mut out = String::new();
    for line in text.split_inclusive('\n') {
        let n = line.chars().take_while(|c| *c == '`').count();
        if n >= 3 {
            let rest = &line[n..];
            let end = rest.find(|c: char| c == ' ' || c == '{' || c == '\n').unwrap_or(rest.len());
            let (lang, tail) = rest.split_at(end);
            let lang2 = if lang == "sh" { "scrut" } else if lang == "scrut" { "sh" } else { lang };
            out.push_str(&"`".repeat(n)); out.push_str(lang2); out.push_str(tail);
        } else { out.push_str(line); }
    }
    out
}

fn cmds(p: &MarkdownParser, text: &str) -> String {
    match std::panic::catch_unwind(std::panic::AssertUnwindSafe(|| p.parse(text))) {
        Ok(Ok((_, t))) => if t.is_empty() { "-".into() } else { t.iter().map(|x| hex(x.shell_expression.as_bytes())).collect::<Vec<_>>().join(",") },
        _ => "unparsable".into(),
    }
}

fn run_scrut(scrut: &str, dir: &Path, tmp: &Path, args: &[&str]) -> i32 {
    Command::new(scrut).current_dir(dir).env("TMPDIR", tmp).env("NO_COLOR", "1").args(args).output().map(|o| o.status.code().unwrap_or(-1)).unwrap_or(-2)
}

pub fn main(args: &[String], w: &mut dyn Write) {
    let count: u64 = args[0].parse().unwrap(); let seed: u64 = args[1].parse().unwrap();
    let (shard, nsh): (u64, u64) = (args[2].parse().unwrap(), args[3].parse().unwrap());
    let scrut = std::env::var("SVH_SCRUT").expect("SVH_SCRUT");
    let base = PathBuf::from(std::env::var("SVH_WORK").expect("SVH_WORK"));
    let mk = Arc::new(ExpectationMaker::new(RuleRegistry::default()));
    let mut r = Rng::new(seed.wrapping_add(shard * 961748941));
    let n = (count + nsh - 1 - shard) / nsh;
    for _ in 0..n {
        let lang = if r.chance(1, 2) { "scrut" } else { "sh" };
        let d = gen_doc(&mut r, lang);
        let text = render(&d, lang);
        let dir = tempfile::Builder::new().prefix("updcli.").tempdir_in(&base).unwrap();
        let tmp = dir.path().join("tmp"); std::fs::create_dir_all(&tmp).unwrap();
        let doc = dir.path().join("doc.md");
        // one document in five has CR LF line endings: they are kept by update (every line, inside and outside blocks); the texts are
        // reported with LF, the line endings as a flag
        let crlf = r.chance(1, 5);
        std::fs::write(&doc, if crlf { text.replace('\n', "\r\n") } else { text.clone() }).unwrap();
        let endings = |t: &str| -> &'static str {
            let lf = t.matches('\n').count(); let cr = t.matches("\r\n").count();
            if lf == 0 { "none" } else if cr == lf { "crlf" } else if cr == 0 { "lf" } else { "mixed" } };
        let mut base_args: Vec<&str> = vec!["--log-level", "error"];
        let lang_args: Vec<&str> = if lang == "sh" { vec!["--markdown-languages", "sh"] } else { vec![] };
        // the path comes first: --markdown-languages takes any number of values
        // one run in three writes the updated document next to the original (`doc.md.new`, no --replace): it is then moved over the
        // original, as a user would, before the second update
        let newfile = r.chance(1, 3);
        let mut upd: Vec<&str> = if newfile { vec!["update", "--assume-yes"] } else { vec!["update", "--replace", "--assume-yes"] }; upd.extend(&base_args); upd.push("doc.md"); upd.extend(&lang_args);
        let take_new = |doc: &Path| { let n = doc.with_file_name("doc.md.new"); if newfile && n.exists() { let _ = std::fs::rename(&n, doc); } };
        let e1 = run_scrut(&scrut, dir.path(), &tmp, &upd);
        take_new(&doc);
        let u1 = std::fs::read_to_string(&doc).unwrap_or_default();
        let e2 = run_scrut(&scrut, dir.path(), &tmp, &upd);
        take_new(&doc);
        let u2 = std::fs::read_to_string(&doc).unwrap_or_default();
        let (end1, end2) = (endings(&u1), endings(&u2));
        let (u1, u2) = (u1.replace("\r\n", "\n"), u2.replace("\r\n", "\n"));
        let mut tst: Vec<&str> = vec!["test"]; tst.append(&mut base_args); tst.push("doc.md"); tst.extend(&lang_args);
        let et = run_scrut(&scrut, dir.path(), &tmp, &tst);
        let p = MarkdownParser::new(mk.clone(), &[lang], None);
        let kinds: Vec<&str> = d.iter().filter_map(|e| match e { El::Test { words, expect, code, expect_code, .. } =>
            Some(if passes(words, expect, *code, *expect_code) { "ok" } else if expect_code.unwrap_or(0) != *code { "code" } else { "output" }), El::Detached => Some("ok"), _ => None }).collect();
        let norm = |t: &str| if lang == "sh" { swap_lang(t) } else { t.to_string() };
        writeln!(w, "K {}|{}|{}|{}|{}|{}|lang={} update={},{} test={} endings={}>{}>{} mode={}", hex(norm(&text).as_bytes()), kinds.join(","), hex(norm(&u1).as_bytes()), hex(norm(&u2).as_bytes()),
            cmds(&p, &text), cmds(&p, &u1), lang, e1, e2, et, if crlf { "crlf" } else { "lf" }, end1, end2, if newfile { "new-file" } else { "replace" }).unwrap();
    }
}
