//! C17: configuration written out (one-line {...} form after the fence language; serde_yaml) and read back.
use std::collections::BTreeMap;
use std::io::Write;
use std::path::PathBuf;
use std::sync::Arc;
use std::time::Duration;

use scrut::config::{DocumentConfig, OutputStreamControl, TestCaseConfig, TestCaseWait};
use scrut::expectation::ExpectationMaker;
use scrut::parsers::markdown::MarkdownParser;
use scrut::parsers::parser::{Parser, ParserType};
use scrut::escaping::Escaper;
use scrut::generators::generator::TestCaseGenerator;
use scrut::generators::markdown::MarkdownTestCaseGenerator;
use scrut::outcome::Outcome;
use scrut::output::{ExitStatus, Output};
use scrut::testcase::TestCase;
use scrut::rules::registry::RuleRegistry;

use crate::p_escape::hex;
use crate::rng::Rng;

fn nasty(r: &mut Rng) -> String {
    let n = r.range(0, 6);
    let mut s = String::new();
    for _ in 0..n {
        s.push_str(*r.pick(&["a", "B", "1", " ", "\"", "\\", ":", ": ", ",", ", ", "{", "}", "#", " #", "'", "é", "😂", "\t", "\n", "[", "]", "&", "*", "!", "|", ">", "%", "@", "`", "-", "true", "null", "~", "=", "?", "\u{85}", "\u{7f}", "\u{1b}", "\u{2028}", "\u{2029}", "\u{feff}", "\u{a0}", "\u{0}", "\r", "\u{9f}", "\u{200b}", "\u{e000}", "\u{fffd}", "\u{10ffff}", "\u{fffe}", "\u{ffff}"]));
    }
    s
}
pub fn gen_duration(r: &mut Rng) -> Duration {
    match r.below(11) {
        // every unit at once: days (months, years) together with a sub-second part
        8 => Duration::new(86400 * r.below(800) + r.below(86400), *r.pick(&[500_000_000u32, 6_000_000, 1, 999_999_999, 1_000, 0])),
        9 => Duration::new(r.below(1u64 << 36), r.below(1_000_000_000) as u32),
        10 => Duration::new(*r.pick(&[59u64, 60, 3599, 3600, 86399, 86400, 2_629_999, 2_630_016, 31_557_599, 31_557_600, 31_557_601]) + r.below(2), *r.pick(&[0u32, 1_000_000, 999_000_000])),
        0 => Duration::from_millis(r.below(5000)), 1 => Duration::from_secs(r.below(200000)), 2 => Duration::from_secs(86400 * r.below(800)),
        3 => Duration::new(r.below(100), r.below(1_000_000_000) as u32), 4 => Duration::from_secs(900), 5 => Duration::from_millis(900_500), 6 => Duration::from_secs(31_557_600 * r.below(5) + r.below(3)),
        _ => Duration::from_secs(r.below(1u64 << 40)),
    }
}
pub fn gen_cfg(r: &mut Rng) -> TestCaseConfig {
    let mut c = TestCaseConfig::empty();
    if r.chance(1, 3) { c.output_stream = Some(match r.below(3) { 0 => OutputStreamControl::Stdout, 1 => OutputStreamControl::Stderr, _ => OutputStreamControl::Combined }); }
    if r.chance(1, 3) { c.keep_crlf = Some(r.chance(1, 2)); }
    if r.chance(1, 3) { c.timeout = Some(gen_duration(r)); }
    if r.chance(1, 4) { c.detached = Some(r.chance(1, 2)); }
    if r.chance(1, 3) { c.skip_document_code = Some(r.below(256) as i32); }
    if r.chance(1, 4) { c.strip_ansi_escaping = Some(r.chance(1, 2)); }
    if r.chance(1, 3) { c.wait = Some(TestCaseWait { timeout: gen_duration(r), path: if r.chance(1, 2) { Some(PathBuf::from(if r.chance(1, 2) { format!("/tmp/{}", nasty(r)) } else { nasty(r) })) } else { None } }); }
    if r.chance(1, 2) { for _ in 0..r.range(1, 3) { let k = if r.chance(3, 4) { format!("VAR_{}", r.below(9)) } else { nasty(r) }; c.environment.insert(k, nasty(r)); } }
    c
}
fn show_dur(d: &Option<Duration>) -> String { d.map_or("-".to_string(), |d| format!("{}.{:09}", d.as_secs(), d.subsec_nanos())) }
pub fn show(c: &TestCaseConfig) -> String {
    let b = |o: Option<bool>| match o { None => "-".to_string(), Some(true) => "1".into(), Some(false) => "0".into() };
    format!("os={} kc={} to={} de={} sk={} sa={} wa={} wp={} env={}",
        match c.output_stream { None => "-", Some(OutputStreamControl::Stdout) => "0", Some(OutputStreamControl::Stderr) => "1", Some(OutputStreamControl::Combined) => "2" },
        b(c.keep_crlf), show_dur(&c.timeout), b(c.detached), c.skip_document_code.map_or("-".to_string(), |x| x.to_string()), b(c.strip_ansi_escaping),
        show_dur(&c.wait.as_ref().map(|w| w.timeout)), c.wait.as_ref().and_then(|w| w.path.as_ref()).map_or("-".to_string(), |p| format!("x{}", hex(p.to_string_lossy().as_bytes()))),
        if c.environment.is_empty() { "-".to_string() } else { c.environment.iter().map(|(k, v)| format!("x{}:x{}", hex(k.as_bytes()), hex(v.as_bytes()))).collect::<Vec<_>>().join(",") })
}

pub fn main(args: &[String], w: &mut dyn Write) {
    let mk = Arc::new(ExpectationMaker::new(RuleRegistry::default()));
    let count: u64 = args[0].parse().unwrap(); let seed: u64 = args[1].parse().unwrap();
    let (shard, nsh): (u64, u64) = (args[2].parse().unwrap(), args[3].parse().unwrap());
    let mut r = Rng::new(seed.wrapping_add(shard * 512927377));
    let p = MarkdownParser::new(mk, &["scrut"], Some(TestCaseConfig::empty()));
    for i in 0..(count / nsh) {
        let c = gen_cfg(&mut r);
        if i % 11 == 10 {
            // TestCaseConfig::diff and with_defaults_from as functions, for arbitrary second configurations (also with environment)
            let d = gen_cfg(&mut r);
            let mut c = c;
            if r.chance(1, 2) { c.timeout = d.timeout; } if r.chance(1, 2) { c.wait = d.wait.clone(); } if r.chance(1, 2) { c.skip_document_code = d.skip_document_code; }
            if r.chance(1, 2) { for (k, v) in d.environment.iter() { if r.chance(1, 2) { c.environment.insert(k.clone(), v.clone()); } } }
            let res = std::panic::catch_unwind(std::panic::AssertUnwindSafe(|| { let x = c.diff(&d); (show(&x), show(&x.with_defaults_from(&d)), show(&c.with_defaults_from(&d))) }));
            match res {
                Ok((a, b, e)) => writeln!(w, "Y 4 {}|{}|{}|{}|{}", show(&c), show(&d), a, b, e).unwrap(),
                Err(_) => writeln!(w, "Y 4 {}|{}|panic|-|-", show(&c), show(&d)).unwrap(),
            }
        } else if i % 5 == 4 {
            // the generator path (create / update --convert): the block header carries only what differs from the defaults of
            // the format; read back with those defaults the test case has the configuration it was generated from
            let mut c = c;
            if r.chance(1, 2) { c.output_stream = Some(OutputStreamControl::Stdout); }            // equal to the format default: left out
            if r.chance(1, 3) { c.skip_document_code = Some(80); }
            let tc = TestCase { title: "".into(), shell_expression: "true".into(), expectations: vec![], exit_code: None, line_number: 0, config: c.clone() };
            let output = Output { stdout: vec![].into(), stderr: vec![].into(), exit_code: ExitStatus::Code(0) };
            let dflt = TestCaseConfig::default_markdown();
            let res = std::panic::catch_unwind(std::panic::AssertUnwindSafe(|| {
                let outcome = Outcome { location: None, output: output.clone(), testcase: tc.clone(), format: ParserType::Markdown, escaping: Escaper::Unicode, result: tc.validate(&output) };
                let generated = MarkdownTestCaseGenerator::default().generate_testcases(&[&outcome]).map_err(|_| "generr".to_string())?;
                let pd = MarkdownParser::new(Arc::new(ExpectationMaker::new(RuleRegistry::default())), &["scrut"], None);
                let (_, t) = pd.parse(&generated).map_err(|_| format!("err:{}", hex(generated.as_bytes())))?;
                if t.len() != 1 { return Err(format!("count{}", t.len())); }
                Ok::<(String, String), String>((generated, show(&t[0].config)))
            }));
            let (text, back) = match res { Err(_) => ("-".to_string(), "panic".to_string()), Ok(Err(e)) => ("-".to_string(), e), Ok(Ok((g, b))) => (hex(g.as_bytes()), b) };
            writeln!(w, "Y 3 {}|{}|{}|{}|{}", show(&c), text, back, show(&c.with_defaults_from(&dflt)), show(&dflt)).unwrap();
        } else if i % 3 != 2 {
            // one-liner -> fence line -> real parser
            let one = c.to_yaml_one_liner();
            let doc = format!("```scrut {}\n$ true\n```\n", one);
            let res = std::panic::catch_unwind(std::panic::AssertUnwindSafe(|| p.parse(&doc)));
            let back = match res { Err(_) => "panic".to_string(), Ok(Err(_)) => "err".into(), Ok(Ok((_, t))) => if t.len() == 1 { show(&t[0].config) } else { format!("count{}", t.len()) } };
            writeln!(w, "Y 1 {}|{}|{}", show(&c), hex(one.as_bytes()), back).unwrap();
        } else {
            // serde_yaml (front-matter form) for a document configuration
            let mut d = DocumentConfig::empty();
            d.defaults = c.clone();
            if r.chance(1, 2) { d.total_timeout = Some(gen_duration(&mut r)); }
            if r.chance(1, 3) { d.shell = Some(PathBuf::from(nasty(&mut r))); }
            for _ in 0..r.below(3) { d.append.push(PathBuf::from(nasty(&mut r))); }
            for _ in 0..r.below(3) { d.prepend.push(PathBuf::from(nasty(&mut r))); }
            let res = std::panic::catch_unwind(std::panic::AssertUnwindSafe(|| {
                let y = serde_yaml::to_string(&d).map_err(|_| "ser".to_string())?;
                let back: DocumentConfig = serde_yaml::from_str(&y).map_err(|_| format!("de:{}", hex(y.as_bytes())))?;
                Ok::<(String, DocumentConfig), String>((y, back))
            }));
            let paths = |v: &Vec<PathBuf>| v.iter().map(|p| format!("x{}", hex(p.to_string_lossy().as_bytes()))).collect::<Vec<_>>().join(",");
            let showd = |d: &DocumentConfig| format!("tt={} sh={} ap={} pp={} {}", show_dur(&d.total_timeout), d.shell.as_ref().map_or("-".to_string(), |p| format!("x{}", hex(p.to_string_lossy().as_bytes()))), paths(&d.append), paths(&d.prepend), show(&d.defaults));
            let back = match res { Err(_) => "panic".to_string(), Ok(Err(e)) => e, Ok(Ok((_, b))) => showd(&b) };
            writeln!(w, "Y 2 {}|-|{}", showd(&d), back).unwrap();
        }
    }
    let _ = BTreeMap::<String, String>::new();
}
