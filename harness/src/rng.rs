//! xorshift64* — every random choice in the harness derives from one state
pub struct Rng(pub u64);
impl Rng {
    pub fn new(seed: u64) -> Self {
        let mut r = Rng(seed.wrapping_mul(0x9E3779B97F4A7C15) ^ 0xD1B54A32D192ED03);
        if r.0 == 0 { r.0 = 1; }
        for _ in 0..4 { r.next(); }
        r
    }
    pub fn next(&mut self) -> u64 {
        let mut x = self.0;
        x ^= x >> 12; x ^= x << 25; x ^= x >> 27;
        self.0 = x;
        x.wrapping_mul(0x2545F4914F6CDD1D)
    }
    pub fn below(&mut self, n: u64) -> u64 { if n == 0 { 0 } else { (self.next() >> 11) % n } }
    pub fn range(&mut self, lo: usize, hi: usize) -> usize { lo + self.below((hi - lo + 1) as u64) as usize }
    pub fn chance(&mut self, num: u64, den: u64) -> bool { self.below(den) < num }
    pub fn pick<'a, T>(&mut self, xs: &'a [T]) -> &'a T { &xs[self.below(xs.len() as u64) as usize] }
}
